# Common machinery for the cpp-tbox model-based checks.
#  - builds harnesses straight from /repo's working tree (ccache, parallel)
#  - runs TLC: exhaustive model checking, behaviour generation, trace validation
#  - collects evidence and writes /verif/evidence/<ID>.json
#  - known findings (never written at run time)
import concurrent.futures as cf
import hashlib
import json
import os
import re
import shutil
import subprocess
import sys
import time

ROOT = os.path.dirname(os.path.dirname(os.path.abspath(__file__)))
REPO = os.environ.get("TBOX_SRC", "/repo")
BUILD = os.environ.get("VERIF_BUILD", os.path.join(ROOT, "build"))      # override: isolated runs against scratch copies
EVIDENCE = os.environ.get("VERIF_EVIDENCE", os.path.join(ROOT, "evidence"))
SPEC = os.path.join(ROOT, "spec")
HARNESS = os.path.join(ROOT, "harness")
GUARD = "CPP_TBOX_VERIF"
NCPU = int(os.environ.get("VERIF_WORKERS", os.cpu_count() or 4))

TLA_CP = "/opt/veriftools/tla/tla2tools.jar:/opt/veriftools/tla/CommunityModules-deps.jar"


class Infra(Exception):
    """Infrastructure failure: exit 2, never a VIOLATION."""


def sh(cmd, timeout=None, env=None, cwd=None, stdin=None):
    e = dict(os.environ)
    if env:
        e.update({k: str(v) for k, v in env.items()})
    try:
        p = subprocess.run(cmd, shell=isinstance(cmd, str), cwd=cwd, env=e, timeout=timeout,
                           stdout=subprocess.PIPE, stderr=subprocess.STDOUT, input=stdin)
        return p.returncode, p.stdout.decode("utf-8", "replace")
    except subprocess.TimeoutExpired as ex:
        out = ex.stdout.decode("utf-8", "replace") if ex.stdout else ""
        return 124, out + "\n[timeout after %ss]" % timeout


# ------------------------------------------------------------------------------------------------
# Building
# ------------------------------------------------------------------------------------------------
SAN_FLAGS = {
    "asan": ["-fsanitize=address,undefined", "-fno-sanitize=nonnull-attribute", "-fno-sanitize-recover=undefined",
             "-fno-omit-frame-pointer"],
    "tsan": ["-fsanitize=thread", "-fno-omit-frame-pointer"],
    "plain": [],
    "ubsan": ["-fsanitize=undefined", "-fno-sanitize=nonnull-attribute", "-fno-sanitize-recover=undefined"],
}


def module_of(src):
    # /repo/modules/<mod>/... -> tbox.<mod>
    rel = os.path.relpath(src, os.path.join(REPO, "modules"))
    return "tbox." + rel.split(os.sep)[0]


def build(name, tbox_sources, harness_sources, flavour="asan", extra_flags=(), libs=(), std="c++14", opt="-O1",
          defines=()):
    """Compile tbox sources (relative to /repo/modules) and harness sources (relative to /verif/harness)
    into /verif/build/<name>/<flavour>/<name>. Always recompiles through ccache, so edited sources in /repo are
    picked up and unedited ones cost a cache hit."""
    outdir = os.path.join(BUILD, name, flavour)
    os.makedirs(outdir, exist_ok=True)
    env = {"CCACHE_DIR": os.path.join(ROOT, ".ccache"), "CCACHE_BASEDIR": "/", "CCACHE_NOHASHDIR": "1"}
    cxx = ["ccache", "g++"] if shutil.which("ccache") else ["g++"]
    common = ["-std=" + std, opt, "-g", "-pthread", "-D%s=1" % GUARD, "-I" + os.path.join(REPO, "modules"),
              "-I" + os.path.join(REPO, "3rd-party"), "-I" + os.path.join(HARNESS, "common"),
              "-Wno-deprecated-declarations"] + SAN_FLAGS[flavour] + ["-D" + d for d in defines] + list(extra_flags)
    jobs = []
    for s in tbox_sources:
        src = os.path.join(REPO, "modules", s)
        if not os.path.exists(src):
            raise Infra("missing source " + src)
        obj = os.path.join(outdir, "t_" + s.replace("/", "_") + ".o")
        jobs.append((cxx + common + ['-DMODULE_ID="%s"' % module_of(src), "-c", src, "-o", obj], obj))
    for s in harness_sources:
        src = os.path.join(HARNESS, s)
        obj = os.path.join(outdir, "h_" + s.replace("/", "_") + ".o")
        jobs.append((cxx + common + ['-DMODULE_ID="verif"', "-c", src, "-o", obj], obj))

    def run(job):
        rc, out = sh(job[0], timeout=900, env=env)
        return rc, out, job

    objs = []
    with cf.ThreadPoolExecutor(max_workers=NCPU) as ex:
        for rc, out, job in ex.map(run, jobs):
            if rc != 0:
                raise Infra("compile failed: %s\n%s" % (" ".join(job[0][-4:]), out[-4000:]))
            objs.append(job[1])
    exe = os.path.join(outdir, name)
    rc, out = sh(["g++", "-pthread"] + SAN_FLAGS[flavour] + ["-o", exe] + objs + list(libs) + ["-ldl"], timeout=600)
    if rc != 0:
        raise Infra("link failed for %s\n%s" % (name, out[-4000:]))
    return exe


# ------------------------------------------------------------------------------------------------
# TLC
# ------------------------------------------------------------------------------------------------
def _tlc_cmd(tla, cfg, metadir, workers, extra, jvm):
    return (["java", "-XX:+UseParallelGC"] + list(jvm) + ["-cp", TLA_CP, "tlc2.TLC", "-workers", str(workers),
            "-metadir", metadir, "-noGenerateSpecTE", "-config", cfg] + list(extra) + [tla])


def _parse_tlc(out):
    r = {"states": 0, "distinct": 0, "depth": 0, "violated": None, "error": None, "coverage": {}}
    m = re.findall(r"(\d+) states generated, (\d+) distinct states found", out)
    if m:
        r["states"], r["distinct"] = int(m[-1][0]), int(m[-1][1])
    m = re.findall(r"The depth of the complete state graph search is (\d+)", out)
    if m:
        r["depth"] = int(m[-1])
    m = re.search(r"Invariant (\S+) is violated", out)
    if m:
        r["violated"] = m.group(1)
    m = re.search(r"Action property (\S+) is violated|Temporal property (\S+) was violated|Temporal properties were violated", out)
    if m and not r["violated"]:
        r["violated"] = m.group(1) or m.group(2) or "temporal"
    m = re.search(r"Error: Deadlock reached", out)
    if m and not r["violated"]:
        r["violated"] = "Deadlock"
    m = re.search(r"Error: (.*)", out)
    if m:
        r["error"] = m.group(1)
    # -coverage 1 output:  <Action line ..., col ... of module M>: taken:generated
    for name, a, b in re.findall(r"^<(\w+) line \d+, col \d+ to line \d+, col \d+ of module \w+(?: \([\d ]+\))?>: (\d+):(\d+)", out, re.M):
        c = r["coverage"].setdefault(name, [0, 0])
        c[0] += int(a)
        c[1] += int(b)
    return r


import threading
_META_LOCK = threading.Lock()


class Ctx:
    def __init__(self, pid, tier, seed):
        self.pid, self.tier, self.seed = pid, tier, seed
        self.t0 = time.time()
        self.states = 0
        self.transitions = 0
        self.traces_ok = 0
        self.replays_ok = 0
        self.samples = []
        self.actions = {}
        self.mc_runs = []
        self.violations = []
        self.infra = []
        self.known_hits = []
        self.notes = []
        self.uncovered = []
        self.fault_observers = []
        self.assumptions = []
        self.exhaustive = False
        self.work = os.path.join(BUILD, "work", pid)
        shutil.rmtree(self.work, ignore_errors=True)
        os.makedirs(self.work, exist_ok=True)
        self.replay_dir = os.path.join(EVIDENCE, "replay")
        os.makedirs(self.replay_dir, exist_ok=True)
        self.known = load_known(pid)
        self._n = 0

    def quick(self):
        return self.tier == "quick"

    def log(self, *a):
        print("[%s %6.1fs]" % (self.pid, time.time() - self.t0), *a, flush=True)

    def tmp(self, name):
        return os.path.join(self.work, name)

    def metadir(self):
        with _META_LOCK:
            self._n += 1
            n = self._n
        d = os.path.join(self.work, "meta%d" % n)
        shutil.rmtree(d, ignore_errors=True)
        return d

    def _metadir_unused(self):
        self._n += 1
        d = os.path.join(self.work, "meta%d" % self._n)
        shutil.rmtree(d, ignore_errors=True)
        return d

    # -- exhaustive / simulation model checking ---------------------------------------------------
    def tlc_mc(self, spec_dir, tla, cfg, expect="ok", workers=None, timeout=900, simulate=None, env=None,
               jvm=("-Xmx6g",), coverage=True, required_actions=(), label=None, deadlock=None):
        """Run TLC on spec/<spec_dir>/<tla> with <cfg>.  expect='ok' : no error;  expect='<InvName>' : this
        invariant/property must be violated (non-vacuity / as-found configurations)."""
        d = os.path.join(SPEC, spec_dir)
        extra = []
        if coverage:
            extra += ["-coverage", "1"]
        if simulate:
            extra += ["-simulate", "num=%d" % simulate[0], "-depth", str(simulate[1]), "-seed", str(self.seed)]
        if deadlock is False:
            extra += ["-deadlock"]
        t = time.time()
        for attempt in (1, 2, 3):
            cmd = _tlc_cmd(tla, cfg, self.metadir(), workers or NCPU, extra, jvm)
            rc, out = sh(cmd, timeout=timeout, env=env, cwd=d)
            r = _parse_tlc(out)
            # retry only failures that are neither a verdict (violation) nor a timeout nor a clean run
            if rc in (0, 124) or r["violated"]:
                break
            self.log("TLC attempt %d failed rc=%d (%s/%s)%s" % (attempt, rc, tla, cfg, " - retrying" if attempt < 3 else ""))
        r["rc"], r["wall_s"] = rc, round(time.time() - t, 1)
        lab = label or ("%s/%s" % (tla, cfg))
        if rc == 124:
            if simulate:
                pass
            else:
                raise Infra("TLC timeout on %s" % lab)
        if expect == "ok":
            if r["violated"]:
                path = self.save_replay("mc-" + re.sub(r"\W", "_", lab), out)
                self.violation("model %s violates %s" % (lab, r["violated"]), path)
            elif rc != 0 and not (simulate and rc == 124):
                raise Infra("TLC failed (rc=%d) on %s:\n%s" % (rc, lab, out[-3000:]))
        else:
            if r["violated"] != expect:
                raise Infra("expected %s to violate %s (non-vacuity), got %s\n%s" % (lab, expect, r["violated"], out[-2000:]))
        self.states += r["distinct"]
        self.transitions += r["states"]
        for k, v in r["coverage"].items():
            c = self.actions.setdefault(k, [0, 0])
            c[0] += v[0]
            c[1] += v[1]
        if expect == "ok":
            for a in required_actions:
                if sum(r["coverage"].get(x, [0, 0])[1] for x in a.split("|")) == 0:     # generated successor states
                    raise Infra("vacuity guard: action %s never taken in %s" % (a, lab))
        self.mc_runs.append({"model": lab, "expect": expect, "distinct_states": r["distinct"], "states_generated": r["states"],
                             "depth": r["depth"], "wall_s": r["wall_s"], "mode": "simulate" if simulate else "bfs-exhaustive"})
        self.log("TLC %-40s %s distinct=%d gen=%d depth=%d %.1fs" % (lab, "ok" if expect == "ok" else "violates " + expect + " (expected)",
                                                                  r["distinct"], r["states"], r["depth"], r["wall_s"]))
        return r, out

    # -- behaviour generation -----------------------------------------------------------------------
    def tlc_gen(self, spec_dir, tla, cfg, timeout=900, workers=None, env=None, simulate=None, jvm=("-Xmx6g",), limit=None):
        """Gen_* specs print one line  "BEHAVIOUR <json>"  per behaviour from a CONSTRAINT (see spec/common/README).
        Returns the list of parsed behaviours (deduplicated)."""
        d = os.path.join(SPEC, spec_dir)
        extra = []
        if simulate:
            extra += ["-simulate", "num=%d" % simulate[0], "-depth", str(simulate[1]), "-seed", str(self.seed)]
        t = time.time()
        for attempt in (1, 2, 3):           # a JVM that dies of memory / stack pressure on a busy machine is retried, never a verdict
            cmd = _tlc_cmd(tla, cfg, self.metadir(), workers or NCPU, extra, jvm)
            rc, out = sh(cmd, timeout=timeout, env=env, cwd=d)
            if rc in (0, 124) and not (rc == 124 and not simulate):
                break
            self.log("TLC gen attempt %d failed rc=%d (%s/%s)%s" % (attempt, rc, tla, cfg, " - retrying" if attempt < 3 else ""))
        if rc not in (0, 124) or (rc == 124 and not simulate):
            raise Infra("TLC gen failed rc=%d %s/%s\n%s" % (rc, tla, cfg, out[-3000:]))
        r = _parse_tlc(out)
        self.states += r["distinct"]
        self.transitions += r["states"]
        seen, res = set(), []
        for line in out.splitlines():
            line = line.strip()
            if not line.startswith('"'):
                continue
            try:
                s = json.loads(line)            # TLA+ string -> python str
            except Exception:
                continue
            if not isinstance(s, str) or not s.startswith("BEH "):
                continue
            body = s[4:]
            if body in seen:
                continue
            seen.add(body)
            res.append(json.loads(body))
            if limit and len(res) >= limit:
                break
        self.mc_runs.append({"model": "%s/%s" % (tla, cfg), "expect": "generate", "distinct_states": r["distinct"],
                             "states_generated": r["states"], "behaviours": len(res), "wall_s": round(time.time() - t, 1),
                             "mode": "simulate" if simulate else "bfs-exhaustive"})
        self.log("GEN %-40s behaviours=%d distinct=%d %.1fs" % (tla + "/" + cfg, len(res), r["distinct"], time.time() - t))
        if not res:
            raise Infra("generator %s/%s produced no behaviours\n%s" % (tla, cfg, out[-2000:]))
        return res

    # -- trace validation -----------------------------------------------------------------------------
    def tlc_trace(self, spec_dir, tla, cfg, trace_path, n_exec, timeout=900, env=None, jvm=("-Xmx6g",), what="trace",
                  dfs=False):
        """Validate an ndjson trace file (executions separated by {"e":"Reset"}) against a Trace_* spec.
        Returns (accepted, info). A rejection is re-run once; only a repeated rejection is reported."""
        d = os.path.join(SPEC, spec_dir)
        e = {"TRACE": trace_path}
        if env:
            e.update(env)
        j = list(jvm)
        if dfs:
            j.append("-Dtlc2.tool.queue.IStateQueue=StateDeque")
        for attempt in (1, 2):
            cmd = _tlc_cmd(tla, cfg, self.metadir(), 1, [], j)
            t = time.time()
            rc, out = sh(cmd, timeout=timeout, env=e, cwd=d)
            r = _parse_tlc(out)
            self.states += r["distinct"]
            self.transitions += r["states"]
            if rc == 0:
                self.traces_ok += n_exec
                self.log("TRACE %-38s accepted: %d executions, %d states %.1fs" % (what, n_exec, r["distinct"], time.time() - t))
                self.mc_runs.append({"model": "%s/%s" % (tla, cfg), "expect": "accept-trace", "executions": n_exec,
                                     "distinct_states": r["distinct"], "wall_s": round(time.time() - t, 1)})
                if os.environ.get("VERIF_BINDPROBE") and not getattr(self, "replay_path", None):
                    self._bind_probe(d, tla, cfg, trace_path, e, j, what)
                return True, r
            if rc == 124:
                raise Infra("TLC trace validation timeout (%s)" % what)
            m = re.search(r'<<"MAXPOS", (\d+), (\d+)>>', out)
            if r["violated"] is None and m is None:
                if attempt == 1:
                    self.log("TLC trace validation failed rc=%d (%s) - retrying" % (rc, what))
                    continue
                raise Infra("TLC trace validation failed rc=%d (%s)\n%s" % (rc, what, out[-3000:]))
            info = {"violated": r["violated"], "maxpos": int(m.group(1)) if m else None, "out": out[-3000:]}
            if attempt == 2:
                return False, info
        return False, info

    def _bind_probe(self, d, tla, cfg, trace_path, env, jvm, what, n=8):
        """Binding probe (VERIF_BINDPROBE=1): corrupt the first execution of a trace that was just accepted - drop one event, change
        one recorded integer or boolean field, swap two neighbouring events - and count how many corrupted traces TLC rejects. Not every
        corruption has to be rejected (an event may be legitimately optional, two events may commute), but a trace specification
        that rejects none is not bound to what the driver records. The result goes into the evidence (coverage.binding_probe)."""
        key = (tla, os.path.basename(cfg))
        probed = self.__dict__.setdefault("_probed", set())
        if key in probed:
            return
        probed.add(key)
        lines = []
        with open(trace_path) as f:
            for ln in f:
                lines.append(ln.rstrip("\n"))
                if '"e":"Reset"' in ln or len(lines) > 4000:
                    break
        if len(lines) < 4 or len(lines) > 4000:
            return
        if '"e":"Reset"' not in lines[-1]:
            lines.append('{"e":"Reset"}')
        import random
        rng = random.Random(20261003)
        body = list(range(0, len(lines) - 1))
        res = []
        for k in range(n):
            ex = list(lines)
            kind = ("drop", "field", "swap", "field")[k % 4]
            i = rng.choice(body)
            if kind == "drop":
                desc = "drop line %d: %s" % (i + 1, ex[i][:80]); del ex[i]
            elif kind == "swap":
                if i + 1 >= len(ex) - 1 or ex[i] == ex[i + 1]:
                    continue
                desc = "swap lines %d,%d: %s <-> %s" % (i + 1, i + 2, ex[i][:50], ex[i + 1][:50]); ex[i], ex[i + 1] = ex[i + 1], ex[i]
            else:
                try:
                    o = json.loads(ex[i])
                except Exception:
                    continue
                fs = [f for f, v in o.items() if f != "e" and (isinstance(v, bool) or isinstance(v, int))]
                if not fs:
                    continue
                f = rng.choice(sorted(fs))
                o[f] = (not o[f]) if isinstance(o[f], bool) else o[f] + 1
                desc = "line %d field %s changed: %s" % (i + 1, f, ex[i][:80]); ex[i] = json.dumps(o, separators=(",", ":"))
            tp = self.tmp("bindprobe_%s_%d.ndjson" % (os.path.basename(cfg).replace(".cfg", ""), k))
            with open(tp, "w") as f:
                f.write("\n".join(ex) + "\n")
            e2 = dict(env); e2["TRACE"] = tp
            rc, out = sh(_tlc_cmd(tla, cfg, self.metadir(), 1, [], list(jvm)), timeout=600, env=e2, cwd=d)
            if rc == 124:
                continue
            res.append({"corruption": desc, "rejected": rc != 0})
        rej = sum(1 for r in res if r["rejected"])
        self.__dict__.setdefault("bind_probe", []).append({"trace_spec": "%s/%s" % (tla, os.path.basename(cfg)), "source": what, "tried": len(res),
                                                           "rejected": rej, "accepted_corruptions": [r["corruption"] for r in res if not r["rejected"]]})
        self.log("BINDPROBE %-36s %d of %d corrupted traces rejected" % (what[:36], rej, len(res)))

    # -- results ----------------------------------------------------------------------------------------
    def save_replay(self, tag, content):
        if not isinstance(content, str):
            content = json.dumps(content, indent=1)
        h = hashlib.sha1(content.encode()).hexdigest()[:10]
        path = os.path.join(self.replay_dir, "%s-%s-%s.txt" % (self.pid, tag[:60], h))
        with open(path, "w") as f:
            f.write(content)
        return path

    def violation(self, what, replay_path, signature=None):
        """Report a violation unless it is a listed known finding (matched by signature)."""
        if signature:
            for k in self.known:
                if k["status"] == "open" and k["signature"] == signature:
                    if k["id"] not in [h["id"] for h in self.known_hits]:
                        self.known_hits.append(k)
                        print("KNOWN-FINDING: property=%s %s" % (self.pid, k["what"]), flush=True)
                    return
        self.violations.append({"what": what, "replay": replay_path, "signature": signature})
        print("VIOLATION property=%s replay=%s" % (self.pid, replay_path), flush=True)
        self.log("  -> " + what)

    def sample(self, s):
        if len(self.samples) < 6:
            self.samples.append(s)

    def finish(self, level="model_checking", rule=None, extra_cov=None):
        ev = {
            "property_id": self.pid, "tier": self.tier, "seed": self.seed, "level": level,
            "coverage": {
                "states": self.states, "transitions": self.transitions,
                "traces_validated_against_impl": self.traces_ok + self.replays_ok,
                "traces_recorded_from_impl_accepted": self.traces_ok,
                "spec_behaviours_replayed_on_impl": self.replays_ok,
                "samples": self.samples if self.samples else ["(none)"],
                "exhaustive": self.exhaustive,
                "model_runs": self.mc_runs,
                "actions_taken_generated": self.actions,
                "fault_observers": self.fault_observers,
                "uncovered": self.uncovered,
                "known_findings_hit": [k["id"] for k in self.known_hits],
                "notes": self.notes,
            },
            "assumptions": self.assumptions,
            "wall_s": round(time.time() - self.t0, 1),
            "violations": len(self.violations),
        }
        if getattr(self, "bind_probe", None):
            ev["coverage"]["binding_probe"] = self.bind_probe
        if rule:
            ev["coverage"]["rule"] = rule
        if extra_cov:
            ev["coverage"].update(extra_cov)
        os.makedirs(EVIDENCE, exist_ok=True)
        if getattr(self, "replay_path", None):
            return 1 if self.violations else 0          # a replay run does not rewrite the evidence
        with open(os.path.join(EVIDENCE, self.pid + ".json"), "w") as f:
            json.dump(ev, f, indent=1, sort_keys=True)
            f.write("\n")
        self.log("done: states=%d traces_ok=%d replays_ok=%d violations=%d known=%d" %
                 (self.states, self.traces_ok, self.replays_ok, len(self.violations), len(self.known_hits)))
        if self.violations:
            return 1
        if self.infra:
            for x in self.infra:
                print("INFRA-ERROR property=%s: %s" % (self.pid, x), flush=True)
            return 2
        return 0


def load_known(pid):
    p = os.path.join(ROOT, "known_findings.json")
    if not os.path.exists(p):
        return []
    with open(p) as f:
        data = json.load(f)
    return [k for k in data.get("findings", []) if k.get("property") == pid]


# ------------------------------------------------------------------------------------------------
# Harness runs
# ------------------------------------------------------------------------------------------------
# TSan: halt_on_error=0 on purpose - gcc 12's runtime can deadlock in Die() when the reporting thread holds an application
# mutex that other threads wait for; the process then finishes and exits with exitcode=98, which is reported as a fault.
SAN_ENV = {
    "ASAN_OPTIONS": "detect_leaks=0:abort_on_error=0:exitcode=99:allocator_may_return_null=1",
    "UBSAN_OPTIONS": "print_stacktrace=1:halt_on_error=1:exitcode=99",
    "TSAN_OPTIONS": "exitcode=98:halt_on_error=0:second_deadlock_stack=1:suppressions=" + os.path.join(HARNESS, "common", "tsan.supp"),
}


def run_harness(exe, args, timeout=600, env=None, stdin=None, cwd=None):
    e = dict(SAN_ENV)
    if env:
        e.update(env)
    return sh([exe] + [str(a) for a in args], timeout=timeout, env=e, stdin=stdin, cwd=cwd)


def sanitize_trace(trace_path):
    """A driver that dies while writing leaves a partial last line (or interleaved garbage): replace every line that is not
    a JSON object by a Fault event, so that TLC rejects the trace at that point instead of failing to read the file."""
    bad = 0
    out = []
    with open(trace_path, "rb") as f:
        for raw in f:
            line = raw.decode("utf-8", "replace").rstrip("\n")
            if not line.strip():
                continue
            ok = line.startswith("{") and line.endswith("}")
            if ok:
                try:
                    ok = isinstance(json.loads(line), dict)
                except Exception:
                    ok = False
            if not ok:
                bad += 1
                line = '{"e":"Fault","kind":"garbled","what":%s}' % json.dumps(line[:120])
            out.append(line)
    if bad:
        with open(trace_path, "w") as f:
            f.write("\n".join(out) + "\n")
    return bad


def count_execs(trace_path):
    n = 0
    with open(trace_path) as f:
        for line in f:
            if '"e":"Reset"' in line:
                n += 1
    return n


def read_lines(path, lo, hi):
    out = []
    with open(path) as f:
        for i, line in enumerate(f, 1):
            if i >= lo:
                out.append(line.rstrip("\n"))
            if i >= hi:
                break
    return out


def execution_around(trace_path, pos):
    """Return the lines of the execution (Reset-delimited) that contains 1-based line <pos>."""
    lines = open(trace_path).read().splitlines()
    pos = min(max(pos, 1), len(lines))
    a = pos - 1
    while a > 0 and '"e":"Reset"' not in lines[a - 1]:
        a -= 1
    b = pos - 1
    while b < len(lines) - 1 and '"e":"Reset"' not in lines[b]:
        b += 1
    return lines[a:b + 1], pos - a


def main(check_fn):
    import argparse
    ap = argparse.ArgumentParser()
    ap.add_argument("--tier", default=os.environ.get("VERIF_TIER", "quick"))
    ap.add_argument("--replay", default=None)
    a = ap.parse_args(sys.argv[2:])
    seed = int(os.environ.get("VERIF_SEED", "1"))
    tier = a.tier if a.tier in ("quick", "thorough") else "quick"
    pid = sys.argv[1]
    ctx = Ctx(pid, tier, seed)
    ctx.replay_path = a.replay
    try:
        check_fn(ctx)
        rc = ctx.finish()
    except Infra as ex:
        print("INFRA-ERROR property=%s: %s" % (pid, ex), flush=True)
        sys.exit(2)
    sys.exit(rc)


BASE_SRC = ["base/version.cpp", "base/log_impl.cpp", "base/log_output.cpp", "base/backtrace.cpp", "base/catch_throw.cpp",
            "base/recorder.cpp"]
BASE_DEFS = ["HAVE_EXECINFO_H=1", "TBOX_VERSION_MAJOR=1", "TBOX_VERSION_MINOR=0", "TBOX_VERSION_REVISION=0"]


def record_and_validate(ctx, exe, args, trace_path, spec_dir, tla, cfg, what, timeout=900, env=None, tlc_env=None,
                        signature_fn=None, dfs=False, harness_ok_rc=(0,)):
    """Run a recording harness (which writes trace_path), then validate the trace with TLC.
    A sanitizer/crash exit of the harness or a rejected trace is a violation; the failing execution
    (Reset-delimited) is saved as the replay file."""
    rc, out = run_harness(exe, args, timeout=timeout, env=env)
    if rc == 124:
        # e.g. a sanitizer runtime that deadlocks while reporting: not a verdict. Remember it and go on with the other parts of
        # the check; the run ends with exit 2 unless another part reports a violation.
        ctx.infra.append("harness timeout (%s): %s" % (what, out[-600:]))
        ctx.log("INFRA: harness timeout (%s) - continuing" % what)
        return False, 0
    if not os.path.exists(trace_path):
        raise Infra("harness wrote no trace (%s) rc=%d\n%s" % (what, rc, out[-2000:]))
    sanitize_trace(trace_path)
    n_exec = count_execs(trace_path)
    fault = None
    if rc not in harness_ok_rc:
        fault = "harness exit %d: %s" % (rc, out[-1500:])
        with open(trace_path, "a") as f:
            f.write('\n{"e":"Fault","kind":"exit","what":"rc=%d"}\n' % rc)
    ok, info = ctx.tlc_trace(spec_dir, tla, cfg, trace_path, n_exec, env=tlc_env, what=what, dfs=dfs)
    if ok and not fault:
        return True, n_exec
    pos = (info.get("maxpos") or 1) if not ok else sum(1 for _ in open(trace_path))
    lines, rel = execution_around(trace_path, pos)
    nxt = lines[rel - 1] if rel - 1 < len(lines) else "(end of trace)"
    sig = signature_fn(lines, rel, info) if signature_fn else None
    replay = ctx.save_replay("trace", "\n".join(lines) + "\n")
    msg = "%s: trace rejected at line %d of the execution (%s); first unmatched line: %s" % (
        what, rel, ("invariant " + info["violated"]) if info.get("violated") else "no spec action matches", nxt[:400])
    if fault:
        msg += " | " + fault
    ctx.violation(msg, replay, signature=sig)
    return False, n_exec

EVENT_SRC = ["event/loop.cpp", "event/common_loop.cpp", "event/common_loop_timer.cpp", "event/common_loop_signal.cpp",
             "event/common_loop_run.cpp", "event/timer_event_impl.cpp", "event/signal_event_impl.cpp", "event/misc.cpp",
             "event/stat.cpp", "event/engines/select/loop.cpp", "event/engines/select/fd_event.cpp",
             "event/engines/epoll/loop.cpp", "event/engines/epoll/fd_event.cpp"]
EVENT_DEFS = ["HAVE_SELECT=1", "HAVE_EPOLL=1"]
