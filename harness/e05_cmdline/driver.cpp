// E05 conformance driver for tbox::util::SplitCmdline, tbox::util::string::StripQuot and tbox::util::ArgumentParser.
//   driver script <cases.jsonl> <out.ndjson>        one JSON array of call descriptors per line (from TLC or a replay file)
//   driver random <seed> <nexec> <out.ndjson>       seeded random calls
// Call descriptors (strings are arrays of character codes):
//   {"e":"Split","in":[..]}                                     SplitCmdline(in, args)
//   {"e":"Strip","in":[..]}                                     string::StripQuot(in)
//   {"e":"Parse","args":[[..],..],"start":n,"form":"vec"|"argv","dec":[{"use":b,"ret":b},..]}
//        ArgumentParser::parse; the handler's k-th invocation fetches the value iff dec[k].use and returns dec[k].ret
//        (after the end of dec: does not fetch, returns true)
//   {"e":"Cmd","in":[..],"dec":[..]}                            SplitCmdline, then parse(args, 1) if it succeeded (two records)
// One ndjson record per call: the descriptor plus return value, produced arguments, the handler invocations
// (short option, long option, valid(), the value as seen through a copy of the OptionValue) and the exception kind.
// A {"e":"Call"} line is written and flushed before every call; the orchestrator drops it when the call returned, so a process
// death inside a call leaves Call + Fault, which no action of Trace_Cmdline accepts.  This program decides nothing; TLC does.
// Inputs are exactly sized heap objects: the command line / every argument is a heap-allocated std::string built from an exactly
// sized heap array, argv is an array of exactly argc pointers to exactly sized C strings (ASan sees the first byte beyond);
// the build defines _GLIBCXX_ASSERTIONS so that front()/back()/operator[] outside a string are reported instead of tolerated.
#include <vh.h>
#include <fstream>
#include <memory>
#include <nlohmann/json.hpp>
#include <tbox/util/argument_parser.h>
#include <tbox/util/split_cmdline.h>
#include <tbox/util/string.h>

using json = nlohmann::json;
using tbox::util::ArgumentParser;

static std::string codes(const std::string &s) {
    std::string o = "[";
    for (size_t i = 0; i < s.size(); ++i) { if (i) o += ','; o += std::to_string((unsigned char)s[i]); }
    return o + "]";
}
static std::string codes_list(const std::vector<std::string> &v) {
    std::string o = "[";
    for (size_t i = 0; i < v.size(); ++i) { if (i) o += ','; o += codes(v[i]); }
    return o + "]";
}
static std::string from_codes(const json &j) { std::string s; for (auto &c : j) s += (char)(unsigned char)c.get<int>(); return s; }
// a heap std::string whose character storage was copied from an exactly sized heap array
static std::unique_ptr<std::string> heap_string(const std::string &s) {
    std::unique_ptr<char[]> raw(new char[s.size() ? s.size() : 1]);
    memcpy(raw.get(), s.data(), s.size());
    return std::unique_ptr<std::string>(new std::string(raw.get(), s.size()));
}
static void emit(const std::string &line) { vh::T().line(line); vh::T().flush(); }
static std::string exc_kind(std::exception_ptr e) {
    try { std::rethrow_exception(e); }
    catch (const std::out_of_range &) { return "out_of_range"; }
    catch (const std::length_error &) { return "length_error"; }
    catch (const std::exception &x) { return std::string("std:") + typeid(x).name(); }
    catch (...) { return "other"; }
}

static bool do_split(const std::string &in, std::vector<std::string> &args) {
    emit("{\"e\":\"Call\",\"what\":\"Split\",\"in\":" + codes(in) + "}");
    auto cmd = heap_string(in);
    std::unique_ptr<std::vector<std::string>> out(new std::vector<std::string>{"stale"});     // must be cleared by the call
    bool ret = false; std::string exc;
    try { ret = tbox::util::SplitCmdline(*cmd, *out); } catch (...) { exc = exc_kind(std::current_exception()); }
    args = *out;
    emit("{\"e\":\"Split\",\"in\":" + codes(in) + ",\"ret\":" + (ret ? "true" : "false") + ",\"args\":" + codes_list(args) +
         ",\"exc\":" + vh::jstr(exc) + "}");
    return ret && exc.empty();
}

static void do_strip(const std::string &in) {
    emit("{\"e\":\"Call\",\"what\":\"Strip\",\"in\":" + codes(in) + "}");
    auto s = heap_string(in);
    std::string out, exc;
    try { out = tbox::util::string::StripQuot(*s); } catch (...) { exc = exc_kind(std::current_exception()); }
    emit("{\"e\":\"Strip\",\"in\":" + codes(in) + ",\"out\":" + codes(out) + ",\"exc\":" + vh::jstr(exc) + "}");
}

struct Dec { bool use, ret; };
static std::string dec_json(const std::vector<Dec> &d) {
    std::string o = "[";
    for (size_t i = 0; i < d.size(); ++i) { if (i) o += ','; o += std::string("{\"use\":") + (d[i].use ? "true" : "false") + ",\"ret\":" + (d[i].ret ? "true" : "false") + "}"; }
    return o + "]";
}

static void do_parse(const std::vector<std::string> &args, int start, const std::string &form, const std::vector<Dec> &dec) {
    std::string head = "\"args\":" + codes_list(args) + ",\"start\":" + std::to_string(start) + ",\"form\":\"" + form + "\",\"dec\":" + dec_json(dec);
    emit("{\"e\":\"Call\",\"what\":\"Parse\"," + head + "}");
    std::string calls = "[";
    size_t k = 0;
    ArgumentParser parser([&](char so, const std::string &lo, ArgumentParser::OptionValue &ov) {
        ArgumentParser::OptionValue copy = ov;                      // look at the value without marking the original as fetched
        bool valid = ov.valid();
        std::string val = copy.get();
        Dec d = k < dec.size() ? dec[k] : Dec{false, true};
        ++k;
        if (calls.size() > 1) calls += ',';
        calls += "{\"s\":" + std::to_string((unsigned char)so) + ",\"l\":" + codes(lo) + ",\"valid\":" + (valid ? "true" : "false") +
                 ",\"val\":" + codes(valid ? val : std::string()) + "}";
        if (d.use) (void)ov.get();
        return d.ret;
    });
    bool ret = false; std::string exc;
    try {
        if (form == "argv") {
            // exactly argc pointers, every C string exactly strlen+1 bytes
            int argc = (int)args.size();
            std::unique_ptr<char *[]> argv(new char *[argc ? argc : 1]);
            std::vector<std::unique_ptr<char[]>> store;
            for (int i = 0; i < argc; ++i) {
                store.emplace_back(new char[args[i].size() + 1]);
                memcpy(store.back().get(), args[i].c_str(), args[i].size() + 1);
                argv[i] = store.back().get();
            }
            ret = parser.parse(argc, argv.get(), start);
        } else {
            std::unique_ptr<std::vector<std::string>> v(new std::vector<std::string>());
            v->reserve(args.size());                                // capacity == size: reading one element too far is visible
            for (auto &a : args) v->push_back(*heap_string(a));
            v->shrink_to_fit();
            ret = parser.parse(*v, start);
        }
    } catch (...) { exc = exc_kind(std::current_exception()); }
    calls += "]";
    emit("{\"e\":\"Parse\"," + head + ",\"ret\":" + (ret ? "true" : "false") + ",\"calls\":" + calls + ",\"exc\":" + vh::jstr(exc) + "}");
}

static std::vector<Dec> dec_of(const json &j) {
    std::vector<Dec> d;
    if (j.is_array()) for (auto &x : j) d.push_back(Dec{x.value("use", false), x.value("ret", true)});
    return d;
}

static void run_case(const json &c) {
    std::string e = c.value("e", "");
    if (e == "Split") { std::vector<std::string> a; do_split(from_codes(c["in"]), a); }
    else if (e == "Strip") do_strip(from_codes(c["in"]));
    else if (e == "Parse") {
        std::vector<std::string> args; for (auto &a : c["args"]) args.push_back(from_codes(a));
        do_parse(args, c.value("start", 1), c.value("form", "vec"), dec_of(c.value("dec", json::array())));
    } else if (e == "Cmd") {
        std::vector<std::string> args;
        if (do_split(from_codes(c["in"]), args)) do_parse(args, 1, "vec", dec_of(c.value("dec", json::array())));
    } else if (e == "Reset" || e == "Call" || e == "Fault") { /* lines of a replay file that are not calls */ }
    else { fprintf(stderr, "unknown case %s\n", c.dump().c_str()); _exit(3); }
}

// ---- random inputs ------------------------------------------------------------------------------------------------------
static std::string rnd_line(vh::Rng &r) {
    static const char common[] = {' ', ' ', '\t', 'a', 'b', '\'', '"', '-', '='};
    static const char rare[] = {'x', '0', '\\', '\n', (char)0x80, (char)0xff, '#', ';'};
    int n = r.chance(70) ? (int)r.range(0, 12) : (int)r.range(13, 60);
    std::string s;
    for (int i = 0; i < n; ++i) s += r.chance(93) ? common[r.below(sizeof common)] : rare[r.below(sizeof rare)];
    return s;
}
static std::string rnd_word(vh::Rng &r, bool quotes) {
    static const char ch[] = {'a', 'b', 'c', 'x', '1', ' ', '=', '-'};
    int n = (int)r.range(0, 5);
    std::string s;
    for (int i = 0; i < n; ++i) s += ch[r.below(sizeof ch)];
    if (quotes && r.chance(40)) { char q = r.chance(50) ? '\'' : '"'; s = q + s + (r.chance(85) ? q : (q == '"' ? '\'' : '"')); }
    return s;
}
static std::string rnd_token(vh::Rng &r) {
    switch (r.below(10)) {
        case 0: return "-" + std::string(1, (char)('a' + r.below(3)));
        case 1: { std::string s = "-"; int n = (int)r.range(2, 4); for (int i = 0; i < n; ++i) s += (char)('a' + r.below(4)); return s; }
        case 2: return "--" + rnd_word(r, false);
        case 3: return "--" + std::string(1, (char)('a' + r.below(3))) + "=" + rnd_word(r, true);
        case 4: return "--" + rnd_word(r, false) + "=" + rnd_word(r, true);
        case 5: return r.chance(50) ? "--" : "-";
        case 6: return "";
        case 7: return "--" + std::string(1, (char)('a' + r.below(3))) + "=" + (r.chance(50) ? "" : r.chance(50) ? "'" : "\"");
        default: return rnd_word(r, true);
    }
}
static std::vector<Dec> rnd_dec(vh::Rng &r) {
    std::vector<Dec> d;
    int n = (int)r.range(0, 8);
    for (int i = 0; i < n; ++i) d.push_back(Dec{r.chance(50), !r.chance(12)});
    return d;
}

int main(int argc, char **argv) {
    if (argc < 2) return 3;
    std::string mode = argv[1];
    vh::install_faults();
    if (mode == "script" && argc == 4) {
        vh::T().open(argv[3]);
        std::ifstream in(argv[2]); std::string line;
        while (std::getline(in, line)) {
            if (line.empty()) continue;
            json j = json::parse(line);
            if (j.is_array()) for (auto &c : j) run_case(c); else run_case(j);
            emit("{\"e\":\"Reset\"}");
        }
    } else if (mode == "random" && argc == 5) {
        vh::Rng rng(strtoull(argv[2], nullptr, 10));
        int nexec = atoi(argv[3]);
        vh::T().open(argv[4]);
        for (int x = 0; x < nexec; ++x) {
            for (int i = 0; i < 30; ++i) {
                switch (rng.below(5)) {
                    case 0: case 1: { std::vector<std::string> a; do_split(rnd_line(rng), a); break; }
                    case 2: do_strip(rng.chance(30) ? rnd_line(rng) : rnd_word(rng, true)); break;
                    case 3: {
                        std::vector<std::string> args; int n = (int)rng.range(0, 6);
                        for (int k = 0; k < n; ++k) args.push_back(rnd_token(rng));
                        bool av = rng.chance(40) && n >= 1;
                        do_parse(args, (int)rng.range(0, std::min(n, 2)), av ? "argv" : "vec", rnd_dec(rng));
                        break;
                    }
                    default: {                                      // a command line made of option-like words, split and parsed
                        std::string l = "prog"; int n = (int)rng.range(0, 5);
                        for (int k = 0; k < n; ++k) { l += rng.chance(85) ? " " : "\t "; l += rnd_token(rng); }
                        std::vector<std::string> args;
                        if (do_split(l, args)) do_parse(args, 1, rng.chance(50) ? "argv" : "vec", rnd_dec(rng));
                    }
                }
            }
            emit("{\"e\":\"Reset\"}");
        }
    } else return 3;
    vh::T().close();
    return 0;
}
