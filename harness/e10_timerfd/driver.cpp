// E10 conformance driver: tbox::eventx::TimerFd objects on a real event loop with the real kernel timers (timerfd, CLOCK_MONOTONIC).
//   driver run <engines: epoll|select|alt> <scripts.jsonl> <out.ndjson>
// One script per line:
//   {"top":[ {"o":"create","i":1}, {"o":"init","i":1,"f":2000,"r":0}, {"o":"setcb","i":1,"on":true}, {"o":"enable","i":1},
//            {"o":"disable","i":1}, {"o":"cleanup","i":1}, {"o":"remain","i":1}, {"o":"destroy","i":1},
//            {"o":"wait","ms":2}, {"o":"await","i":1}, ... ],            (f, r in microseconds)
//    "cb":{ "<i>:<n>":[ops...] } }        operations issued by the n-th invocation of the callback of object <i>
// The loop runs kForever; the script is executed by a task inside it.  "wait ms" lets the loop run for at least ms milliseconds
// (a loop TimerEvent on the real monotonic clock; its callback runs BEFORE the descriptors of the same pass are served, so the
// operations that follow may hit a timer that epoll has already reported); "await i" runs the loop until object i has fired, or
// for 1.5 s (only when isEnabled(), the driver installed a callback and first > 0; given up as soon as a callback has disabled the
// awaited object: these conditions only decide how long the driver waits, never the verdict).  Callbacks cannot wait.
// Recorded per operation: a "call" line before it, then its line with arguments, return value, isEnabled() of both objects and
// the monotonic clock in microseconds since the start of the execution: "t0" read before enable()/remainTime(), "t" read after
// the call (rounded up).  Per invocation: "fire" (clock read inside the callback, isEnabled() at callback entry) and "cbend".
// "end" carries the number of open descriptors before / after the execution and LeakSanitizer's verdict.
// The callback functor is bigger than std::function's inline buffer, so it lives on the heap: destroying it while it runs is a
// heap-use-after-free.  The trace is validated by TLC against spec/TimerFd/Trace_TimerFd.tla; this program decides nothing.
#include <vh.h>
#include <array>
#include <chrono>
#include <dirent.h>
#include <fstream>
#include <functional>
#include <memory>
#include <nlohmann/json.hpp>
#include <tbox/event/loop.h>
#include <tbox/event/timer_event.h>
#include <tbox/eventx/timer_fd.h>

extern "C" int __lsan_do_recoverable_leak_check() __attribute__((weak));
extern "C" size_t __sanitizer_get_current_allocated_bytes() __attribute__((weak));

using json = nlohmann::json;
using tbox::event::Loop;
using tbox::event::TimerEvent;
using tbox::eventx::TimerFd;
typedef std::array<long, 4> Pad;
static long touch(const Pad &p) { volatile const long *q = p.data(); return q[0] + q[3]; }
static const int N = 2;
static const int AWAIT_LIMIT_MS = 1500;

static int open_fds() {
    int n = 0;
    DIR *d = opendir("/proc/self/fd");
    if (!d) return -1;
    while (readdir(d)) ++n;
    closedir(d);
    return n;
}

struct Exec {
    Loop *loop = nullptr;
    TimerFd *tf[N + 1] = {nullptr, nullptr, nullptr};
    bool has_cb[N + 1] = {false, false, false};
    int fires[N + 1] = {0, 0, 0};
    int cur = 0;
    int awaiting = 0;
    TimerEvent *pace = nullptr;          // wait / await-limit timer (real monotonic clock)
    std::chrono::steady_clock::time_point start;
    long long last = 0;                  // last clock value logged (values are kept monotonic)
    long sink = 0;
    json top, cb;
    size_t pc = 0;

    // clock in microseconds since the start: before() rounds down, after() rounds up; both never go back behind a logged value
    long long raw() const { return std::chrono::duration_cast<std::chrono::microseconds>(std::chrono::steady_clock::now() - start).count(); }
    long long before() { long long v = raw(); if (v < last) v = last; last = v; return v; }
    long long after() { long long v = raw() + 1; if (v < last) v = last; last = v; return v; }
    static const char *b(bool v) { return v ? "true" : "false"; }
    std::string en() const {
        std::string s = ",\"en\":[";
        for (int i = 1; i <= N; ++i) { if (i > 1) s += ','; s += b(tf[i] && tf[i]->isEnabled()); }
        return s + "]";
    }
    void out(const std::string &s) { vh::T().line(s); vh::T().flush(); }
    void call(const char *o, int i) { out(std::string("{\"e\":\"call\",\"o\":\"") + o + "\",\"i\":" + std::to_string(i) + "}"); }
    std::string head(const char *e, int i) { return std::string("{\"e\":\"") + e + "\",\"i\":" + std::to_string(i) + ",\"cb\":" + std::to_string(cur); }

    void on_fire(int i) {
        long long t = after();
        int k = ++fires[i];
        int outer = cur;
        cur = i;
        out("{\"e\":\"fire\",\"i\":" + std::to_string(i) + ",\"k\":" + std::to_string(k) + ",\"t\":" + std::to_string(t) + en() + "}");
        auto it = cb.find(std::to_string(i) + ":" + std::to_string(k));
        if (it != cb.end())
            for (auto &op : *it) apply(op);
        out("{\"e\":\"cbend\",\"i\":" + std::to_string(i) + ",\"t\":" + std::to_string(after()) + "}");
        cur = outer;
        if (awaiting == i) {
            awaiting = 0;
            pace->disable();
            loop->runNext([this, i] { out("{\"e\":\"await\",\"i\":" + std::to_string(i) + ",\"ok\":true,\"t\":" + std::to_string(after()) + "}"); step(); }, "e10-await");
        } else if (awaiting && !(tf[awaiting] && tf[awaiting]->isEnabled() && has_cb[awaiting])) {
            // the awaited object was disabled / cleaned up / destroyed by this callback: no point in waiting 1.5 s for it
            int a = awaiting;
            awaiting = 0;
            pace->disable();
            loop->runNext([this, a] { out("{\"e\":\"await\",\"i\":" + std::to_string(a) + ",\"ok\":false,\"t\":" + std::to_string(after()) + "}"); step(); }, "e10-await");
        }
    }
    void install(int i) {
        Pad pad = {{i, 3, 5, 7}};
        tf[i]->setCallback([this, i, pad] { on_fire(i); sink += touch(pad); });
    }

    void apply(const json &op) {
        std::string o = op.at("o");
        int i = op.value("i", 0);
        if (i < 1 || i > N) return;
        if (o == "create") {
            if (tf[i]) return;
            call("create", i);
            tf[i] = new TimerFd(loop, "e10");
            has_cb[i] = false;
            out(head("create", i) + ",\"t\":" + std::to_string(after()) + en() + "}");
            return;
        }
        if (!tf[i]) return;
        if (o == "destroy") {
            if (i == cur) return;                 // ~TimerFd asserts that it is not inside its own callback
            call("destroy", i);
            delete tf[i];
            tf[i] = nullptr; has_cb[i] = false;
            out(head("destroy", i) + ",\"t\":" + std::to_string(after()) + en() + "}");
        } else if (o == "init") {
            long long f = op.value("f", 1000), r = op.value("r", 0);
            call("init", i);
            bool was = tf[i]->isEnabled();
            (void)was;
            bool ret = tf[i]->initialize(std::chrono::microseconds(f), std::chrono::microseconds(r));
            out(head("init", i) + ",\"f\":" + std::to_string(f) + ",\"r\":" + std::to_string(r) + ",\"ret\":" + b(ret) + ",\"t\":" + std::to_string(after()) + en() + "}");
            if (inited[i]) has_cb[i] = false;     // the driver's belief (decides only whether "await" is worth waiting for)
            inited[i] = true;
            zero_first[i] = (f == 0);
        } else if (o == "setcb") {
            bool on = op.value("on", true);
            call("setcb", i);
            if (on) install(i); else tf[i]->setCallback(TimerFd::Callback());
            has_cb[i] = on;
            out(head("setcb", i) + ",\"on\":" + b(on) + ",\"t\":" + std::to_string(after()) + en() + "}");
        } else if (o == "cleanup") {
            call("cleanup", i);
            tf[i]->cleanup();
            if (inited[i]) has_cb[i] = false;
            inited[i] = false;
            out(head("cleanup", i) + ",\"t\":" + std::to_string(after()) + en() + "}");
        } else if (o == "enable") {
            call("enable", i);
            long long t0 = before();
            bool ret = tf[i]->enable();
            out(head("enable", i) + ",\"ret\":" + b(ret) + ",\"t0\":" + std::to_string(t0) + ",\"t\":" + std::to_string(after()) + en() + "}");
        } else if (o == "disable") {
            call("disable", i);
            bool ret = tf[i]->disable();
            out(head("disable", i) + ",\"ret\":" + b(ret) + ",\"t\":" + std::to_string(after()) + en() + "}");
        } else if (o == "remain") {
            call("remain", i);
            long long t0 = before();
            long long ns = tf[i]->remainTime().count();
            long long t1 = after();
            out(head("remain", i) + ",\"rlo\":" + std::to_string(ns / 1000) + ",\"rhi\":" + std::to_string((ns + 999) / 1000) + ",\"t0\":" + std::to_string(t0) +
                ",\"t\":" + std::to_string(t1) + "}");
        }
    }
    bool inited[N + 1] = {false, false, false};
    bool zero_first[N + 1] = {false, false, false};
    int pace_await = 0;                  // what the pace timer stands for: 0 = a wait, i = the limit of "await i"
    void on_pace() {
        if (pace_await) {
            int i = pace_await;
            awaiting = 0;
            out("{\"e\":\"await\",\"i\":" + std::to_string(i) + ",\"ok\":false,\"t\":" + std::to_string(after()) + "}");
        } else {
            out("{\"e\":\"wait\",\"t\":" + std::to_string(after()) + "}");
        }
        step();
    }

    // the in-loop driver task: executes top-level operations until one that has to let the loop run
    void step() {
        while (pc < top.size()) {
            const json &op = top[pc++];
            std::string o = op.at("o");
            if (o == "wait") {
                long long ms = op.value("ms", 1);
                if (ms <= 0) {
                    loop->runNext([this] { out("{\"e\":\"wait\",\"t\":" + std::to_string(after()) + "}"); step(); }, "e10-wait0");
                } else {
                    pace_await = 0;
                    pace->initialize(std::chrono::milliseconds(ms), tbox::event::Event::Mode::kOneshot);
                    pace->enable();
                }
                return;
            }
            if (o == "await") {
                int i = op.value("i", 0);
                if (i < 1 || i > N || !tf[i] || !tf[i]->isEnabled() || !has_cb[i] || zero_first[i]) continue;   // first = 0 "does not work"
                awaiting = i;
                pace_await = i;
                pace->initialize(std::chrono::milliseconds(AWAIT_LIMIT_MS), tbox::event::Event::Mode::kOneshot);
                pace->enable();
                return;
            }
            apply(op);
        }
        for (int i = 1; i <= N; ++i)
            if (tf[i]) { json d = {{"o", "destroy"}, {"i", i}}; apply(d); }
        loop->exitLoop();
    }
};

static void run_one(const json &sc, const std::string &engine, int fds0) {
    Exec x;
    x.top = sc.at("top");
    x.cb = sc.value("cb", json::object());
    vh::T().line("{\"e\":\"info\",\"engine\":\"" + engine + "\"}");
    x.loop = Loop::New(engine);
    if (!x.loop) { fprintf(stderr, "no engine %s\n", engine.c_str()); _exit(3); }
    x.pace = x.loop->newTimerEvent("e10-pace");
    x.pace->setCallback([&x] { x.on_pace(); });
    x.start = std::chrono::steady_clock::now();
    x.loop->runNext([&x] { x.step(); }, "e10-driver");
    x.loop->runLoop(Loop::Mode::kForever);
    delete x.pace;
    x.loop->cleanup();
    delete x.loop;
    (void)fds0;
}

int main(int argc, char **argv) {
    if (argc < 5 || std::string(argv[1]) != "run") { fprintf(stderr, "usage: driver run <epoll|select|alt> <scripts.jsonl> <out.ndjson>\n"); return 3; }
    std::string eng = argv[2];
    vh::T().open(argv[4]);
    vh::install_faults();
    std::ifstream in(argv[3]);
    std::string line;
    size_t idx = 0;
    unsigned long checks = 0;
    while (std::getline(in, line)) {
        if (line.empty()) continue;
        json sc = json::parse(line);
        int fds0 = open_fds();
        size_t before = __sanitizer_get_current_allocated_bytes ? __sanitizer_get_current_allocated_bytes() : 0;
        run_one(sc, eng == "alt" ? ((idx % 2) ? "select" : "epoll") : eng, fds0);
        size_t after = __sanitizer_get_current_allocated_bytes ? __sanitizer_get_current_allocated_bytes() : 1;
        int leak = (before != after && __lsan_do_recoverable_leak_check) ? __lsan_do_recoverable_leak_check() : 0;
        if (before != after) ++checks;
        int fds1 = open_fds();
        vh::T().line(std::string("{\"e\":\"end\",\"leak\":") + (leak ? "true" : "false") + ",\"fds0\":" + std::to_string(fds0) + ",\"fds1\":" + std::to_string(fds1) + "}");
        vh::T().line("{\"e\":\"Reset\"}");
        vh::T().flush();
        ++idx;
    }
    vh::T().close();
    fprintf(stderr, "leak checks: %lu of %zu executions\n", checks, idx);
    return 0;
}
