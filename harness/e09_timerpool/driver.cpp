// E09 conformance driver: tbox::eventx::TimerPool on a real event loop under a virtual monotonic clock.
//   driver run <engines: epoll|select|alt> <scripts.jsonl> <out.ndjson>
// One script per line:
//   {"n":<slots>, "base":<ms>,
//    "top":[ {"o":"every","i":1,"d":2}, {"o":"after","i":2,"d":1}, {"o":"at","i":3,"off":2}, {"o":"null","m":"every"},
//            {"o":"cancel","i":1}, {"o":"cancelx","i":1,"how":"null"|"id+1"|"pos+1"|"far"}, {"o":"cleanup"}, {"o":"destroy"},
//            {"o":"adv","n":3}, {"o":"start"}, {"o":"pass"}, {"o":"stop"}, ... ],
//    "cb":{ "<slot>:<n>":[ops...] } }        operations issued by the callback of the n-th invocation of <slot>
// Operations before "start" are issued before the loop runs ("start" is followed by an implicit "pass": the first iteration
// serves the timers before it reaches the driver task), those between "start" and "stop" from a task inside the running
// loop (kForever with a self-reposting runNext task: one "pass" = one loop iteration = one handleExpiredTimers(); the loop
// never sleeps, time moves only on "adv"), those after "stop" when runLoop() has returned.  A script that ends while the
// loop runs / the pool exists gets "stop" / "destroy" appended.  The slot table (last token handed out per slot, kept when
// stale) belongs to the driver; a creation on an occupied slot or on the slot whose callback is running is skipped.
// Every operation (arguments, returned token as the number id*4096+pos, answer of cancel), every invocation (creation
// number of the timer, virtual time), every callback return and pass boundary is one ndjson line; "end" carries the verdict
// of LeakSanitizer for the execution.  The trace is validated by TLC against spec/TimerPool/Trace_TimerPool.tla; this
// program decides nothing.
#include <vh.h>
#include <array>
#include <chrono>
#include <fstream>
#include <functional>
#include <map>
#include <memory>
#include <nlohmann/json.hpp>
#include <tbox/base/verif_hook.h>
#include <tbox/event/loop.h>
#include <tbox/event/timer_event.h>
#include <tbox/eventx/timer_pool.h>

extern "C" int __lsan_do_recoverable_leak_check() __attribute__((weak));
extern "C" size_t __sanitizer_get_current_allocated_bytes() __attribute__((weak));

using json = nlohmann::json;
using tbox::event::Loop;
using tbox::eventx::TimerPool;
typedef TimerPool::TimerToken Token;

static uint64_t g_vnow = 0;       // virtual monotonic clock (ms)
static unsigned long g_leak_checks = 0;
static bool steady_hook(uint64_t &ms) { ms = g_vnow; return true; }
static long long tokn(const Token &t) { return (long long)t.id() * 4096 + (long long)t.pos(); }
typedef std::array<long, 4> Pad;  // makes the callback functor too big for std::function's inline storage: it lives on the heap and
                                  // a TimerEvent deleted under its running callback becomes a heap-use-after-free
static long touch(const Pad &p) { volatile const long *q = p.data(); return q[0] + q[3]; }

struct Exec {
    Loop *loop = nullptr;
    TimerPool *pool = nullptr;
    int n = 0;
    uint64_t base = 0;
    std::vector<Token> tok;          // last token handed out for the slot (kept when stale)
    std::vector<bool> live;          // token believed to be valid
    std::vector<int> cnum;           // creation number of the slot's last timer
    std::vector<int> fires;          // invocations of the slot since the start of the execution
    std::map<int, int> kfires;       // invocations per creation number
    int created = 0;
    int cur = 0, cur_slot = 0;       // creation number / slot of the running callback
    unsigned long long total_fires = 0;
    long sink = 0;
    json top, cb;
    size_t pc = 0;
    bool in_pass = false, running = false;

    long long now() const { return (long long)(g_vnow - base); }
    std::string tail() const { return ",\"cb\":" + std::to_string(cur) + ",\"now\":" + std::to_string(now()) + "}"; }
    static const char *b(bool v) { return v ? "true" : "false"; }
    void flush() { vh::T().flush(); }

    void on_fire(int i, int c) {
        int k = ++kfires[c];
        ++fires[i];
        if (++total_fires > (unsigned long long)(created + 1) * (unsigned long long)(now() + 8) + 8) vh::fault("runaway", "more invocations than elapsed periods");
        int oc = cur, os = cur_slot;
        cur = c; cur_slot = i;
        vh::T().line("{\"e\":\"fire\",\"c\":" + std::to_string(c) + ",\"i\":" + std::to_string(i) + ",\"k\":" + std::to_string(k) + ",\"now\":" + std::to_string(now()) + "}");
        flush();
        auto it = cb.find(std::to_string(i) + ":" + std::to_string(fires[i]));
        if (it != cb.end())
            for (auto &op : *it) apply(op);
        vh::T().line("{\"e\":\"cbend\",\"c\":" + std::to_string(c) + ",\"now\":" + std::to_string(now()) + "}");
        flush();
        cur = oc; cur_slot = os;
    }

    void created_line(const char *what, int i, const Token &t, const std::string &extra) {
        tok[i] = t; live[i] = true; cnum[i] = ++created;
        vh::T().line(std::string("{\"e\":\"") + what + "\",\"c\":" + std::to_string(created) + ",\"i\":" + std::to_string(i) + extra +
                     ",\"tok\":" + std::to_string(tokn(t)) + tail());
        flush();
    }

    void apply(const json &op) {
        std::string o = op.at("o");
        int i = op.value("i", 0);
        if (o == "adv") {
            long long d = op.value("n", 0);
            if (d <= 0) return;
            g_vnow += (uint64_t)d;
            vh::T().line("{\"e\":\"adv\",\"n\":" + std::to_string(d) + tail());
            return;
        }
        if (o == "pass" || o == "start" || o == "stop") return;      // handled by the segment runner; meaningless elsewhere
        if (!pool) return;
        if (o == "destroy") {
            if (cur) return;                                          // not from inside a callback of one of its timers
            vh::T().line("{\"e\":\"destroy\"" + tail()); flush();
            delete pool; pool = nullptr;
            return;
        }
        if (o == "cleanup") {
            vh::T().line("{\"e\":\"cleanup\"" + tail()); flush();
            pool->cleanup();
            for (int j = 1; j <= n; ++j) live[j] = false;
            return;
        }
        if (o == "null") {
            bool every = op.value("m", std::string("after")) == "every";
            Token t = every ? pool->doEvery(std::chrono::milliseconds(1), TimerPool::Callback()) : pool->doAfter(std::chrono::milliseconds(1), TimerPool::Callback());
            vh::T().line(std::string("{\"e\":\"null\",\"m\":\"") + (every ? "every" : "after") + "\",\"tok\":" + std::to_string(tokn(t)) + tail());
            return;
        }
        if (i < 1 || i > n) return;
        if (o == "every" || o == "after" || o == "at") {
            if (live[i] || i == cur_slot) return;
            int c = created + 1;
            Pad pad = {{c, i, 7, 9}};
            if (o == "every") {
                long long d = op.value("d", 1);
                if (d < 1) d = 1;
                Token t = pool->doEvery(std::chrono::milliseconds(d), [this, i, c, pad] { on_fire(i, c); sink += touch(pad); });
                created_line("every", i, t, ",\"d\":" + std::to_string(d));
            } else if (o == "after") {
                long long d = op.value("d", 1);
                if (d < 1) d = 1;
                Token t = pool->doAfter(std::chrono::milliseconds(d), [this, i, c, pad] { on_fire(i, c); sink += touch(pad); if (cnum[i] == c) live[i] = false; });
                created_line("after", i, t, ",\"d\":" + std::to_string(d));
            } else {
                // doAt(): the pool turns the time point into a delay with the wall clock it reads itself; the driver reads the
                // wall clock before and after the call and records the smallest / largest delay the pool can have computed
                using namespace std::chrono;
                long long off = op.value("off", 1);
                auto w0 = system_clock::now();
                auto tp = w0 + milliseconds(off);
                Token t = pool->doAt(tp, [this, i, c, pad] { on_fire(i, c); sink += touch(pad); if (cnum[i] == c) live[i] = false; });
                auto w1 = system_clock::now();
                long long hi = duration_cast<milliseconds>(tp - w0).count(), lo = duration_cast<milliseconds>(tp - w1).count();
                created_line("at", i, t, ",\"off\":" + std::to_string(off) + ",\"lo\":" + std::to_string(lo) + ",\"hi\":" + std::to_string(hi));
            }
        } else if (o == "cancel" || o == "cancelx") {
            Token t = tok[i];
            std::string how = op.value("how", std::string(""));
            if (o == "cancelx") {
                if (how == "null") t = Token();
                else if (how == "id+1") t = Token(t.id() + 1, t.pos());
                else if (how == "pos+1") t = Token(t.id() ? t.id() : 1, t.pos() + 1);
                else t = Token(t.id() + 1000, t.pos());
            }
            vh::T().line("{\"e\":\"cancelBegin\",\"tok\":" + std::to_string(tokn(t)) + "}"); flush();
            bool r = pool->cancel(t);
            if (o == "cancel") live[i] = false;
            vh::T().line("{\"e\":\"cancel\",\"tok\":" + std::to_string(tokn(t)) + ",\"ret\":" + b(r) + tail());
            flush();
        }
    }

    // executes top-level operations of the running loop up to the next "pass" / "stop"; false: the loop has been told to stop
    bool segment() {
        while (pc < top.size()) {
            const json &op = top[pc++];
            std::string o = op.at("o");
            if (o == "pass") {
                vh::T().line("{\"e\":\"pass\",\"now\":" + std::to_string(now()) + "}");
                in_pass = true;
                return true;
            }
            if (o == "stop") break;
            apply(op);
        }
        vh::T().line("{\"e\":\"stop\",\"now\":" + std::to_string(now()) + "}"); flush();
        return false;
    }
    void step() {      // the in-loop driver task: runs after the timers of this iteration
        if (in_pass) {
            vh::T().line("{\"e\":\"passend\",\"now\":" + std::to_string(now()) + "}");
            in_pass = false;
        }
        if (segment())
            loop->runNext([this] { step(); }, "e09-driver");
        else {
            running = false;
            loop->exitLoop();
        }
    }
};

static void run_one(const json &sc, const std::string &engine) {
    Exec x;
    x.n = sc.value("n", 3);
    x.base = sc.value("base", (uint64_t)1000);
    x.top = sc.at("top");
    x.cb = sc.value("cb", json::object());
    x.tok.assign(x.n + 1, Token());
    x.live.assign(x.n + 1, false);
    x.cnum.assign(x.n + 1, 0);
    x.fires.assign(x.n + 1, 0);
    g_vnow = x.base;
    vh::T().line("{\"e\":\"info\",\"n\":" + std::to_string(x.n) + ",\"engine\":\"" + engine + "\",\"base\":\"" + std::to_string(x.base) + "\"}");
    x.loop = Loop::New(engine);
    if (!x.loop) { fprintf(stderr, "no engine %s\n", engine.c_str()); _exit(3); }
    x.pool = new TimerPool(x.loop);
    // before the loop runs
    bool started = false;
    while (x.pc < x.top.size()) {
        const json &op = x.top[x.pc++];
        if (op.at("o") == "start") { started = true; break; }
        x.apply(op);
    }
    if (started) {
        // the first loop iteration serves the timers before it reaches the driver task: it is a pass
        vh::T().line("{\"e\":\"start\",\"now\":" + std::to_string(x.now()) + "}");
        vh::T().line("{\"e\":\"pass\",\"now\":" + std::to_string(x.now()) + "}");
        x.in_pass = true;
        x.running = true;
        x.loop->runNext([&x] { x.step(); }, "e09-driver");
        x.loop->runLoop(Loop::Mode::kForever);
        // after the loop has stopped
        while (x.pc < x.top.size()) x.apply(x.top[x.pc++]);
    }
    if (x.pool) {
        vh::T().line("{\"e\":\"destroy\"" + x.tail()); x.flush();
        delete x.pool; x.pool = nullptr;
    }
    x.loop->cleanup();
    delete x.loop;
}

int main(int argc, char **argv) {
    if (argc < 5 || std::string(argv[1]) != "run") { fprintf(stderr, "usage: driver run <epoll|select|alt> <scripts.jsonl> <out.ndjson>\n"); return 3; }
    std::string eng = argv[2];
    vh::T().open(argv[4]);
    vh::install_faults();
    tbox::verif::Hooks().steady_ms = steady_hook;
    std::ifstream in(argv[3]);
    std::string line;
    size_t idx = 0;
    while (std::getline(in, line)) {
        if (line.empty()) continue;
        json sc = json::parse(line);
        // LeakSanitizer's check costs ~10 ms: it is asked only when the allocator's byte count differs from the count before the
        // execution (lazy initialisations make it differ now and then: the verdict is LeakSanitizer's, never the byte count)
        size_t before = __sanitizer_get_current_allocated_bytes ? __sanitizer_get_current_allocated_bytes() : 0;
        run_one(sc, eng == "alt" ? ((idx % 2) ? "select" : "epoll") : eng);
        size_t after = __sanitizer_get_current_allocated_bytes ? __sanitizer_get_current_allocated_bytes() : 1;
        int leak = (before != after && __lsan_do_recoverable_leak_check) ? __lsan_do_recoverable_leak_check() : 0;
        if (before != after) ++g_leak_checks;
        vh::T().line(std::string("{\"e\":\"end\",\"leak\":") + (leak ? "true" : "false") + "}");
        vh::T().line("{\"e\":\"Reset\"}");
        vh::T().flush();
        ++idx;
    }
    vh::T().close();
    fprintf(stderr, "leak checks: %lu of %zu executions\n", g_leak_checks, idx);
    return 0;
}
