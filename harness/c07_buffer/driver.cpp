// C07 conformance driver for tbox::util::Buffer.
//   driver random <seed> <nexec> <nops> <maxsize> <out.ndjson>
//   driver script <scripts.jsonl> <out.ndjson>          (one JSON array of ops per line, from TLC)
// Executes operation sequences on real Buffer objects (3 slots) and records one ndjson event per call:
// the call, its arguments, its return value and the projected state of every slot
// (alive, readableSize, writableSize, readable bytes as runs of the stream pattern byte(p) = p % 251).
// The trace is validated by TLC against spec/Buffer/Trace_Buffer.tla; this program decides nothing.
#include <vh.h>
#include <fstream>
#include <memory>
#include <nlohmann/json.hpp>
#include <tbox/util/buffer.h>

using tbox::util::Buffer;
using json = nlohmann::json;
static const int P = 251, NB = 3;
static std::unique_ptr<Buffer> slot[NB + 1];
static long long pos = 0;

static std::string runs_of(const uint8_t *p, size_t n) {
    std::string s = "[";
    size_t i = 0; bool first = true;
    while (i < n) {
        size_t j = i + 1;
        while (j < n && p[j] == (p[j - 1] + 1) % P && p[j - 1] < P) ++j;
        if (!first) s += ','; first = false;
        s += "{\"s\":" + std::to_string(p[i]) + ",\"n\":" + std::to_string(j - i) + "}";
        i = j;
    }
    return s + "]";
}
static std::string state() {
    std::string s = "[";
    for (int b = 1; b <= NB; ++b) {
        if (b > 1) s += ',';
        if (!slot[b]) { s += "{\"a\":false,\"r\":0,\"w\":0,\"q\":[]}"; continue; }
        Buffer &x = *slot[b];
        s += "{\"a\":true,\"r\":" + std::to_string(x.readableSize()) + ",\"w\":" + std::to_string(x.writableSize()) +
             ",\"q\":" + runs_of(x.readableBegin(), x.readableSize()) + "}";
    }
    return s + "]";
}
static void fill(uint8_t *p, size_t n) { for (size_t i = 0; i < n; ++i) p[i] = (uint8_t)((pos + (long long)i) % P); }

struct Op { std::string o; int b = 0, s = 0; long long n = 0; };

static bool applicable(const Op &op) {
    bool ab = op.b >= 1 && op.b <= NB && slot[op.b], as = op.s >= 1 && op.s <= NB && slot[op.s];
    if (op.o == "construct") return op.b >= 1 && !slot[op.b];
    if (op.o == "copyc") return !slot[op.b] && as;
    if (op.o == "movec") return !slot[op.b] && as && op.b != op.s;
    if (op.o == "copya" || op.o == "movea" || op.o == "swap") return ab && as;
    return ab;
}

static void exec(const Op &op) {
    auto &T = vh::T();
    std::string head = "{\"e\":\"" + op.o + "\",\"b\":" + std::to_string(op.b) + ",\"s\":" + std::to_string(op.s) + ",\"n\":" + std::to_string(op.n);
    std::string extra;
    if (op.o == "construct") slot[op.b].reset(new Buffer((size_t)op.n));
    else if (op.o == "destroy") slot[op.b].reset();
    else if (op.o == "append") {
        std::vector<uint8_t> d((size_t)op.n + 1); fill(d.data(), (size_t)op.n);
        // exact-size heap copy so that an over-read of the source is visible to ASan
        std::unique_ptr<uint8_t[]> src(new uint8_t[(size_t)op.n ? (size_t)op.n : 1]); memcpy(src.get(), d.data(), (size_t)op.n);
        size_t r = slot[op.b]->append(src.get(), (size_t)op.n);
        pos += op.n; extra = ",\"ret\":" + std::to_string(r);
    } else if (op.o == "ensure") {
        bool r = slot[op.b]->ensureWritableSize((size_t)op.n); extra = std::string(",\"ret\":") + (r ? "true" : "false");
    } else if (op.o == "commit") {
        Buffer &x = *slot[op.b];
        size_t k = std::min((size_t)op.n, x.writableSize());
        if (k) fill(x.writableBegin(), k);      // writes only inside the advertised writable area
        x.hasWritten((size_t)op.n); pos += (long long)k; extra = ",\"ret\":" + std::to_string(k);
    } else if (op.o == "wfill") {       // the writer fills (part of) the advertised writable area once, without any call into the buffer ...
        Buffer &x = *slot[op.b];
        size_t k = std::min((size_t)op.n, x.writableSize());
        if (k) fill(x.writableBegin(), k);
        pos += (long long)k; extra = ",\"ret\":" + std::to_string(k);
    } else if (op.o == "commitp") {     // ... and commits it piece by piece: a bare hasWritten(n) of bytes filled before
        slot[op.b]->hasWritten((size_t)op.n);
    } else if (op.o == "fetch") {
        std::unique_ptr<uint8_t[]> dst(new uint8_t[(size_t)op.n ? (size_t)op.n : 1]);   // exactly n bytes of room
        size_t r = slot[op.b]->fetch(dst.get(), (size_t)op.n);
        extra = ",\"ret\":" + std::to_string(r) + ",\"got\":" + runs_of(dst.get(), std::min(r, (size_t)op.n));
    } else if (op.o == "consume") slot[op.b]->hasRead((size_t)op.n);
    else if (op.o == "consumeall") slot[op.b]->hasReadAll();
    else if (op.o == "shrink") slot[op.b]->shrink();
    else if (op.o == "reset") slot[op.b]->reset();
    else if (op.o == "copyc") slot[op.b].reset(new Buffer(*slot[op.s]));
    else if (op.o == "copya") { Buffer &d = *slot[op.b]; const Buffer &s = *slot[op.s]; d = s; }
    else if (op.o == "movec") slot[op.b].reset(new Buffer(std::move(*slot[op.s])));
    else if (op.o == "movea") { Buffer &d = *slot[op.b]; Buffer &s = *slot[op.s]; d = std::move(s); }
    else if (op.o == "swap") slot[op.b]->swap(*slot[op.s]);
    else { fprintf(stderr, "unknown op %s\n", op.o.c_str()); _exit(3); }
    T.line(head + extra + ",\"st\":" + state() + "}");
}

static void reset_all() { for (int b = 1; b <= NB; ++b) slot[b].reset(); pos = 0; vh::T().line("{\"e\":\"Reset\"}"); }

int main(int argc, char **argv) {
    if (argc < 2) return 3;
    std::string mode = argv[1];
    vh::install_faults();
    if (mode == "script" && argc == 4) {
        vh::T().open(argv[3]);
        std::ifstream in(argv[2]); std::string line;
        while (std::getline(in, line)) {
            if (line.empty()) continue;
            json j = json::parse(line);
            for (auto &e : j) {
                Op op; op.o = e["o"].get<std::string>(); op.b = e.value("b", 0); op.s = e.value("s", 0); op.n = e.value("n", 0LL);
                if (!applicable(op)) { fprintf(stderr, "script op not applicable: %s\n", e.dump().c_str()); _exit(3); }
                exec(op);
            }
            reset_all();
        }
    } else if (mode == "random" && argc == 7) {
        vh::Rng rng(strtoull(argv[2], nullptr, 10));
        int nexec = atoi(argv[3]), nops = atoi(argv[4]); long long maxsize = atoll(argv[5]);
        vh::T().open(argv[6]);
        static const char *ops[] = {"construct", "destroy", "append", "append", "append", "ensure", "commit", "commit", "fetch", "fetch",
                                    "consume", "consume", "consumeall", "shrink", "reset", "copyc", "copya", "movec", "movea", "swap", "wfill"};
        for (int x = 0; x < nexec; ++x) {
            // size profile of this execution: tiny / around kInitialSize / large
            long long cap = rng.chance(40) ? 8 : rng.chance(60) ? 600 : rng.chance(80) ? std::min(maxsize, 200000LL) : maxsize;
            for (int i = 0; i < nops; ++i) {
                Op op;
                for (int tries = 0; tries < 50; ++tries) {
                    op.o = ops[rng.below(sizeof ops / sizeof *ops)];
                    op.b = (int)rng.range(1, NB); op.s = (int)rng.range(1, NB);
                    if (applicable(op)) break;
                    op.o.clear();
                }
                if (op.o.empty()) { op.o = "construct"; for (op.b = 1; op.b <= NB && slot[op.b]; ++op.b) {} if (op.b > NB) { op.o = "reset"; op.b = 1; } }
                // sizes: 0, small, exactly the free space (+1), free+read space (+1), exactly readable (+1), random
                long long w = 0, r = 0;
                if (slot[op.b] && op.o != "construct") { w = (long long)slot[op.b]->writableSize(); r = (long long)slot[op.b]->readableSize(); }
                switch (rng.below(9)) {
                    case 0: op.n = 0; break;
                    case 1: op.n = rng.range(1, 4); break;
                    case 2: op.n = w; break;
                    case 3: op.n = w + 1; break;
                    case 4: op.n = r; break;
                    case 5: op.n = r + 1; break;
                    case 6: op.n = (r > 1) ? rng.range(1, r - 1) : 1; break;
                    default: op.n = rng.range(0, cap); break;
                }
                if (op.o == "construct") op.n = rng.chance(30) ? 0 : rng.chance(50) ? rng.range(0, 8) : rng.range(0, 300);
                if (op.n > maxsize) op.n = maxsize;
                exec(op);
                if (op.o == "wfill") {           // commit what was just filled in 1..4 pieces (zero-length commits in between), sometimes not all of it
                    long long left = std::min(op.n, w);
                    for (int piece = 0; piece < 4 && !rng.chance(15); ++piece) {
                        Op c; c.o = "commitp"; c.b = op.b;
                        c.n = rng.chance(20) ? 0 : rng.chance(40) ? left : left > 0 ? rng.range(0, left) : 0;
                        exec(c); left -= c.n; ++i;
                    }
                }
            }
            reset_all();
        }
    } else return 3;
    vh::T().close();
    return 0;
}
