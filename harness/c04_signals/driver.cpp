// C04 conformance driver for cpp-tbox signal events (SignalEvent / CommonLoop signal bookkeeping).
//   driver <scripts.jsonl> <out.ndjson>
// Every line of <scripts.jsonl> is one execution:
//   {"n":2,"eng":["epoll","select"],"kind":["info","plain","ign"],
//    "ev":[{"L":1,"sigs":[1,2],"os":false},...],
//    "ops":[{"o":"enable","a":1},{"o":"raise","a":1,"via":"main","t":0},...]}
// Signals 1,2,3 = SIGUSR1, SIGUSR2, SIGRTMIN+1.  Every loop runs on its own thread.  Subscription steps
// (create/enable/disable/destroy) run on the event's loop thread through runInLoop() and are awaited.
// raise: the signal is sent (via main / step: kill(getpid()) from the main thread; via self: raise() inside a task of loop t;
// via async: pthread_kill() to the thread of loop t, which sits in its poll call), the driver waits until the handler
// has returned (synchronous for main/self; for async a task posted afterwards has run on the interrupted thread) and
// then until every loop has completed three further passes (marker tasks runInLoop -> runNext, one round after
// the other), so every number written to a signal pipe has been read and dispatched.  No sleeps, no expectations.
// Further steps: batch L [ops] = several subscription calls in ONE task of loop L (no loop pass in between); hold L /
// release L = the thread of loop L is parked inside a task while signals are raised, so that it reads them as a batch;
// "prog" of an event = subscription calls (enable/disable/destroy of events of the same loop) made from inside its callback.
// The program decides nothing: it records what it did and saw; TLC validates against spec/Signals/Trace_Signals.tla.
#include <vh.h>
#include <condition_variable>
#include <fcntl.h>
#include <fstream>
#include <functional>
#include <memory>
#include <pthread.h>
#include <thread>
#include <chrono>
#include <algorithm>
#include <nlohmann/json.hpp>
#include <tbox/base/verif_hook.h>
#include <tbox/event/loop.h>
#include <tbox/event/signal_event.h>

#include <dlfcn.h>
using json = nlohmann::json;

// race steps: the driver interposes sigaction().  The thread that makes the unsubscribing call of a race waits inside
// its sigaction(S, act != null) - the restore of the old disposition - until the other loop's call has finished (or 2 ms
// have passed).  In the unchanged code the restore happens inside the critical section, the other thread is waiting for
// the lock and the wait simply times out; code that restores outside the critical section lets the newcomer in.
static thread_local bool tl_race_wait = false;
static std::atomic<int> g_race_done{0};
extern "C" int sigaction(int signo, const struct sigaction *act, struct sigaction *old) noexcept {
    typedef int (*fn_t)(int, const struct sigaction *, struct sigaction *);
    static fn_t next = (fn_t)dlsym(RTLD_NEXT, "sigaction");
    if (tl_race_wait && act) {
        tl_race_wait = false;
        auto t0 = std::chrono::steady_clock::now();
        while (g_race_done.load() == 0 && std::chrono::steady_clock::now() - t0 < std::chrono::milliseconds(2)) { }
    }
    return next(signo, act, old);
}
using namespace tbox::event;

static const int NSIG_T = 3;
static int signo_of(int s) { return s == 1 ? SIGUSR1 : s == 2 ? SIGUSR2 : SIGRTMIN + 1; }
static int index_of(int signo) { return signo == SIGUSR1 ? 1 : signo == SIGUSR2 ? 2 : signo == SIGRTMIN + 1 ? 3 : 0; }

// ---------------------------------------------------------------- sentinel ----------------------
static std::atomic<int> g_sent[NSIG_T + 2];     // calls of the pre-existing handler, per signal index (0 = wrong args)
static void sentinel_info(int signo, siginfo_t *si, void *uc) {
    int i = index_of(signo);
    if (!si || !uc || si->si_signo != signo) i = 0;
    g_sent[i].fetch_add(1);
}
static void sentinel_plain(int signo) { g_sent[index_of(signo)].fetch_add(1); }

static struct sigaction g_orig[NSIG_T + 1];
static void install_sentinel(int s, const std::string &kind) {
    struct sigaction sa; memset(&sa, 0, sizeof sa); sigemptyset(&sa.sa_mask);
    if (kind == "info") { sa.sa_sigaction = sentinel_info; sa.sa_flags = SA_SIGINFO | SA_RESTART; sigaddset(&sa.sa_mask, SIGWINCH); sigaddset(&sa.sa_mask, SIGURG); }
    else if (kind == "plain") { sa.sa_handler = sentinel_plain; sa.sa_flags = SA_RESTART; sigaddset(&sa.sa_mask, SIGWINCH); }
    else if (kind == "inforh") { sa.sa_sigaction = sentinel_info; sa.sa_flags = SA_SIGINFO | SA_RESETHAND | SA_NODEFER | SA_ONSTACK; sigaddset(&sa.sa_mask, SIGWINCH); sigaddset(&sa.sa_mask, SIGURG); }
    else if (kind == "plainrh") { sa.sa_handler = sentinel_plain; sa.sa_flags = SA_RESETHAND | SA_RESTART | SA_NOCLDSTOP; sigaddset(&sa.sa_mask, SIGCHLD); }
    else if (kind == "ign") { sa.sa_handler = SIG_IGN; sa.sa_flags = SA_RESTART; sigaddset(&sa.sa_mask, SIGURG); }
    else { sa.sa_handler = SIG_DFL; }
    if (sigaction(signo_of(s), &sa, nullptr) != 0) { perror("sigaction"); _exit(3); }
    sigaction(signo_of(s), nullptr, &g_orig[s]);        // "what it was before the first subscription"
}
static bool same_mask(const sigset_t &a, const sigset_t &b) {
    for (int i = 1; i <= SIGRTMAX; ++i) if (sigismember(&a, i) != sigismember(&b, i)) return false;
    return true;
}
// must not be sent: the default action would end the process, or the kernel would reset the disposition after the delivery
static bool no_raise_now(int s) {
    struct sigaction c; sigaction(signo_of(s), nullptr, &c);
    return (!(c.sa_flags & SA_SIGINFO) && c.sa_handler == SIG_DFL) || (c.sa_flags & SA_RESETHAND);
}
// "orig": handler, flags and mask equal the saved ones; "origh": only the handler; "other": a different handler
static std::string disp_json() {
    std::string d = "[", raw = "[";
    for (int s = 1; s <= NSIG_T; ++s) {
        struct sigaction c; memset(&c, 0, sizeof c);
        sigaction(signo_of(s), nullptr, &c);
        bool hs = (void *)c.sa_sigaction == (void *)g_orig[s].sa_sigaction;
        bool fs = c.sa_flags == g_orig[s].sa_flags, ms = same_mask(c.sa_mask, g_orig[s].sa_mask);
        if (s > 1) { d += ','; raw += ','; }
        d += hs && fs && ms ? "\"orig\"" : hs ? "\"origh\"" : "\"other\"";
        char b[64]; snprintf(b, sizeof b, "[%d,%d,%d]", hs ? 1 : 0, fs ? 1 : 0, ms ? 1 : 0); raw += b;
    }
    return d + "],\"dr\":" + raw + "]";
}

// ---------------------------------------------------------------- loops -------------------------
static thread_local int tl_loop = 0;            // which loop's thread am I (0 = none: main thread)
struct LoopT { Loop *loop = nullptr; std::thread th; };
static std::vector<std::unique_ptr<LoopT>> g_loops;   // index 1..n

static void watchdog_fail(const char *what) {
    vh::T().flush();
    fprintf(stderr, "WATCHDOG: %s\n", what);
    _exit(3);                                   // infrastructure, not a verdict
}
// progress of the script (one tick per executed step); a monitor thread ends the run (exit 3 = infrastructure) when a step
// does not finish for 150 s, e.g. because a signal handler never returns
static std::atomic<long> g_progress{0};
static void start_monitor() {
    std::thread([] {
        long last = -1; int idle = 0;
        for (;;) {
            std::this_thread::sleep_for(std::chrono::seconds(1));
            long now = g_progress.load();
            if (now != last) { last = now; idle = 0; } else if (++idle >= 150) watchdog_fail("no step finished for 150 s");
        }
    }).detach();
}
struct Latch {
    std::mutex m; std::condition_variable cv; int pending;
    explicit Latch(int n) : pending(n) {}
    void done() { std::lock_guard<std::mutex> g(m); if (--pending == 0) cv.notify_all(); }
    void wait(const char *what) {
        std::unique_lock<std::mutex> g(m);
        if (!cv.wait_for(g, std::chrono::seconds(120), [&] { return pending == 0; })) watchdog_fail(what);
    }
};
static void run_on(int L, const std::function<void()> &fn, const char *what) {
    Latch l(1);
    g_loops[L]->loop->runInLoop([&] { fn(); l.done(); }, what);
    l.wait(what);
}
// hold L: the thread of loop L is parked inside a task until release L; signals raised meanwhile queue up in its pipe
struct Hold { std::mutex m; std::condition_variable cv; bool go = false; };
static std::vector<std::shared_ptr<Hold>> g_hold;     // index 1..n, null = not held
static bool is_held(int L) { return L >= 1 && L < (int)g_hold.size() && g_hold[L]; }
// every loop that is not held completes one more full pass: a cross-thread task that posts a run-next task
static void pass_round() {
    int n = (int)g_loops.size() - 1, m = 0;
    for (int L = 1; L <= n; ++L) if (!is_held(L)) ++m;
    if (!m) return;
    Latch l(m);
    for (int L = 1; L <= n; ++L) {
        if (is_held(L)) continue;
        Loop *lp = g_loops[L]->loop;
        lp->runInLoop([lp, &l] { lp->runNext([&l] { l.done(); }, "c04.marker2"); }, "c04.marker1");
    }
    l.wait("pass_round");
}

// via "step": the handler runs on the main thread (interrupted inside kill()) and, after every write to a loop's
// pipe (hook point event.signal.written), waits until all loops have completed three passes.  This is the schedule
// HandlerWrite(L1); LoopRead(L1); HandlerWrite(L2); ... of the model: a loop reacts (its one-shot events unsubscribe)
// while the handler is still between two writes.  In a free run this window is a few instructions wide.
static volatile bool g_step = false;
static std::atomic<int> g_step_points{0};
// burst: the pipes written by the handler are shrunk to one page (1024 numbers) so that a held loop's pipe fills up quickly
static volatile bool g_shrink = false;
static std::atomic<int> g_shrunk{0};
static void on_point(const char *name, long, long fd) {
    if (strcmp(name, "event.signal.written") != 0) return;
    if (g_shrink && fcntl((int)fd, F_SETPIPE_SZ, 4096) >= 0) g_shrunk.fetch_add(1);
    if (!g_step || tl_loop != 0) return;
    g_step_points.fetch_add(1);
    for (int r = 0; r < 3; ++r) pass_round();
}

// ---------------------------------------------------------------- events ------------------------
struct EvCfg { int L; std::set<int> signos; std::vector<int> sigs; bool os; std::vector<std::pair<std::string, int>> prog; };
static std::vector<EvCfg> g_cfg;                // 1..m
static std::vector<SignalEvent *> g_ev;         // 1..m, nullptr = absent
struct Cb { int ev, sig, thr; };
static std::mutex g_cb_m;
static std::vector<Cb> g_cbs;

static std::string en_json() {
    std::string s = "[";
    for (size_t e = 1; e < g_ev.size(); ++e) { if (e > 1) s += ','; s += g_ev[e] ? (g_ev[e]->isEnabled() ? "1" : "0") : "-1"; }
    return s + "]";
}
static std::string sent_json(const int *base) {
    std::string s = "[";
    for (int i = 1; i <= NSIG_T; ++i) { if (i > 1) s += ','; s += std::to_string(g_sent[i].load() - base[i]); }
    return s + "],\"sentbad\":" + std::to_string(g_sent[0].load() - base[0]);
}
// one subscription call made directly on the thread of loop L (from a batch task or from inside a callback);
// calls on events that do not exist or belong to another loop are skipped
static void inline_op(const std::string &o, int a, int L, int self) {
    if (a < 1 || a >= (int)g_ev.size() || g_cfg[a].L != L || !g_ev[a]) return;
    if (o == "enable") g_ev[a]->enable();
    else if (o == "disable") g_ev[a]->disable();
    else if (o == "destroy" && a != self) { delete g_ev[a]; g_ev[a] = nullptr; }
}
static void create_event(int e) {
    const EvCfg &c = g_cfg[e];
    SignalEvent *ev = g_loops[c.L]->loop->newSignalEvent("c04.ev" + std::to_string(e));
    ev->initialize(c.signos, c.os ? Event::Mode::kOneshot : Event::Mode::kPersist);
    ev->setCallback([e](int signo) {
        { std::lock_guard<std::mutex> g(g_cb_m); g_cbs.push_back(Cb{e, index_of(signo), tl_loop}); }
        const EvCfg &me = g_cfg[e];                     // the callback's program: subscription changes from inside the callback
        for (size_t i = 0; i < me.prog.size(); ++i) inline_op(me.prog[i].first, me.prog[i].second, me.L, e);
    });
    g_ev[e] = ev;
}

static void do_sub_op(const std::string &o, int e) {
    auto &T = vh::T();
    bool ret = true;
    if (o == "create") run_on(g_cfg[e].L, [&] { create_event(e); }, "create");
    else if (o == "enable") run_on(g_cfg[e].L, [&] { ret = g_ev[e]->enable(); }, "enable");
    else if (o == "disable") run_on(g_cfg[e].L, [&] { ret = g_ev[e]->disable(); }, "disable");
    else run_on(g_cfg[e].L, [&] { delete g_ev[e]; g_ev[e] = nullptr; }, "destroy");
    T.printf("{\"e\":\"%s\",\"ev\":%d,\"ret\":%s,\"en\":%s,\"d\":%s}", o.c_str(), e, ret ? "true" : "false", en_json().c_str(), disp_json().c_str());
}

// every loop that is not held completes three further passes; then the callbacks seen since the last clear are logged
// per thread, in the order they happened, followed by the state
static void settle_and_log(const int *base) {
    auto &T = vh::T();
    for (int r = 0; r < 3; ++r) pass_round();
    std::vector<Cb> cbs;
    { std::lock_guard<std::mutex> g(g_cb_m); cbs = g_cbs; }
    int n = (int)g_loops.size() - 1;
    for (int L = 0; L <= n; ++L) {                      // L = 0: callbacks seen on a thread that is no loop's thread
        std::string a;
        for (auto &c : cbs) if (c.thr == L) { if (!a.empty()) a += ','; a += "[" + std::to_string(c.ev) + "," + std::to_string(c.sig) + "]"; }
        if (!a.empty()) T.printf("{\"e\":\"read\",\"L\":%d,\"cbs\":[%s]}", L, a.c_str());
    }
    T.printf("{\"e\":\"quiet\",\"sent\":%s,\"en\":%s,\"d\":%s}", sent_json(base).c_str(), en_json().c_str(), disp_json().c_str());
}

static void do_raise(int s, const std::string &via, int t) {
    auto &T = vh::T();
    int signo = signo_of(s);
    int base[NSIG_T + 1];
    for (int i = 0; i <= NSIG_T; ++i) base[i] = g_sent[i].load();
    { std::lock_guard<std::mutex> g(g_cb_m); g_cbs.clear(); }
    if (via == "self") run_on(t, [signo] { raise(signo); }, "raise-self");                  // handler runs inside raise()
    else if (via == "async") {
        pthread_kill(g_loops[t]->th.native_handle(), signo);                                // interrupts the poll call of loop t
        run_on(t, [] {}, "raise-async");                                                    // that thread is back in user code: handler done
    } else {
        g_step = via == "step"; g_step_points = 0;
        kill(getpid(), signo);                                                              // delivered to the calling (main) thread
        g_step = false;
    }
    T.printf("{\"e\":\"raise\",\"s\":%d,\"via\":\"%s\",\"t\":%d,\"steps\":%d,\"sent\":%s}", s, via.c_str(), t, g_step_points.load(), sent_json(base).c_str());
    settle_and_log(base);
}

// burst S N: while (at least) one subscribed loop is held, S is raised N times, one at a time (kill() on the main thread,
// then three passes of every loop that is not held).  The held loop's pipe overflows; the other loops must keep getting
// every delivery.  Recorded from counters: callbacks per event (on the event's own thread), whether every raise produced
// the same set of callbacks, callbacks on a wrong thread, calls of the pre-existing handler.
static void do_burst(int s, int N) {
    auto &T = vh::T();
    int signo = signo_of(s);
    int base[NSIG_T + 1];
    for (int i = 0; i <= NSIG_T; ++i) base[i] = g_sent[i].load();
    std::vector<long> cnt(g_ev.size(), 0);
    std::vector<int> first;
    bool steady = true; long wrong = 0;
    g_shrunk = 0;
    for (int r = 0; r < N; ++r) {
        { std::lock_guard<std::mutex> g(g_cb_m); g_cbs.clear(); }
        g_shrink = (r == 0);
        kill(getpid(), signo);
        g_shrink = false;
        for (int q = 0; q < 3; ++q) pass_round();
        std::vector<int> now;
        { std::lock_guard<std::mutex> g(g_cb_m);
          for (auto &c : g_cbs) { if (c.sig != s || c.ev < 1 || c.ev >= (int)g_cfg.size() || c.thr != g_cfg[c.ev].L) { ++wrong; continue; } now.push_back(c.ev); ++cnt[c.ev]; } }
        std::sort(now.begin(), now.end());
        if (r == 0) first = now; else if (now != first) steady = false;
        g_progress.fetch_add(1);
    }
    std::string c = "[";
    for (size_t e = 1; e < cnt.size(); ++e) { if (e > 1) c += ','; c += std::to_string(cnt[e]); }
    c += "]";
    T.printf("{\"e\":\"burst\",\"s\":%d,\"n\":%d,\"cnt\":%s,\"steady\":%s,\"wrong\":%ld,\"shrunk\":%d,\"sent\":%s,\"en\":%s,\"d\":%s}", s, N, c.c_str(),
             steady ? "true" : "false", wrong, g_shrunk.load(), sent_json(base).c_str(), en_json().c_str(), disp_json().c_str());
}
static void do_batch(int L, const json &ops) {
    run_on(L, [&] { for (auto &o : ops) inline_op(o["o"].get<std::string>(), o["a"].get<int>(), L, 0); }, "batch");
    vh::T().printf("{\"e\":\"batch\",\"L\":%d,\"ops\":%s,\"en\":%s,\"d\":%s}", L, ops.dump().c_str(), en_json().c_str(), disp_json().c_str());
}
// two loop threads make one subscription call each at the same time: both tasks meet at a spinning barrier, wait their
// offset (swept by the script) and call
static void do_race(const json &ops, int da, int db) {
    int ea = ops[0]["a"], eb = ops[1]["a"];
    int La = g_cfg[ea].L, Lb = g_cfg[eb].L;
    std::string oa = ops[0]["o"], ob = ops[1]["o"];
    std::atomic<int> arrived{0};
    g_race_done.store(0);
    Latch l(2);
    auto task = [&](int L, const std::string &o, int e, int delay) {
        g_loops[L]->loop->runInLoop([&, L, o, e, delay] {
            arrived.fetch_add(1);
            auto t0 = std::chrono::steady_clock::now();
            while (arrived.load() < 2) if (std::chrono::steady_clock::now() - t0 > std::chrono::seconds(120)) watchdog_fail("race barrier");
            for (volatile int i = 0; i < delay * 4; ++i) { }
            tl_race_wait = (o != "enable");
            inline_op(o, e, L, 0);
            tl_race_wait = false;
            if (o == "enable") g_race_done.store(1);
            l.done();
        }, "c04.race");
    };
    task(La, oa, ea, da); task(Lb, ob, eb, db);
    l.wait("race");
    vh::T().printf("{\"e\":\"race\",\"La\":%d,\"Lb\":%d,\"ops\":%s,\"en\":%s,\"d\":%s}", La, Lb, ops.dump().c_str(), en_json().c_str(), disp_json().c_str());
}
static void do_hold(int L) {
    std::shared_ptr<Hold> hd(new Hold);
    Latch started(1);
    g_loops[L]->loop->runInLoop([hd, &started] {
        started.done();
        std::unique_lock<std::mutex> g(hd->m);
        if (!hd->cv.wait_for(g, std::chrono::seconds(300), [&] { return hd->go; })) watchdog_fail("hold");
    }, "c04.hold");
    started.wait("hold");
    g_hold[L] = hd;
    vh::T().printf("{\"e\":\"hold\",\"L\":%d}", L);
}
static void do_release(int L) {
    int base[NSIG_T + 1];
    for (int i = 0; i <= NSIG_T; ++i) base[i] = g_sent[i].load();
    { std::lock_guard<std::mutex> g(g_cb_m); g_cbs.clear(); }
    std::shared_ptr<Hold> hd = g_hold[L];
    g_hold[L].reset();
    { std::lock_guard<std::mutex> g(hd->m); hd->go = true; hd->cv.notify_all(); }
    vh::T().printf("{\"e\":\"release\",\"L\":%d}", L);
    settle_and_log(base);
}

static void execute(const json &sc) {
    auto &T = vh::T();
    int n = sc["n"];
    g_progress.fetch_add(1);
    for (int i = 0; i <= NSIG_T; ++i) g_sent[i] = 0;
    std::string kinds = "[";
    for (int s = 1; s <= NSIG_T; ++s) {
        std::string kd = sc["kind"][s - 1];
        install_sentinel(s, kd);
        kinds += (s > 1 ? ",\"" : "\"") + kd + "\"";
    }
    kinds += "]";
    g_loops.clear(); g_loops.emplace_back(nullptr);
    for (int L = 1; L <= n; ++L) {
        std::unique_ptr<LoopT> lt(new LoopT);
        lt->loop = Loop::New(sc["eng"][L - 1].get<std::string>());
        if (!lt->loop) { fprintf(stderr, "no such engine\n"); _exit(3); }
        Loop *lp = lt->loop;
        lt->th = std::thread([lp, L] { tl_loop = L; lp->runLoop(Loop::Mode::kForever); });
        g_loops.push_back(std::move(lt));
    }
    g_hold.assign(n + 1, nullptr);
    g_cfg.clear(); g_cfg.emplace_back(); g_ev.assign(1, nullptr);
    for (auto &e : sc["ev"]) {
        EvCfg c; c.L = e["L"]; c.os = e["os"];
        for (int s : e["sigs"]) { c.sigs.push_back(s); c.signos.insert(signo_of(s)); }
        if (e.contains("prog")) for (auto &o : e["prog"]) c.prog.emplace_back(o["o"].get<std::string>(), o["a"].get<int>());
        g_cfg.push_back(c); g_ev.push_back(nullptr);
    }
    T.printf("{\"e\":\"Reset\",\"n\":%d,\"eng\":%s,\"kind\":%s,\"ev\":%s}", n, sc["eng"].dump().c_str(), kinds.c_str(), sc["ev"].dump().c_str());
    for (size_t e = 1; e < g_cfg.size(); ++e) run_on(g_cfg[e].L, [e] { create_event((int)e); }, "create0");
    T.printf("{\"e\":\"begin\",\"en\":%s,\"d\":%s}", en_json().c_str(), disp_json().c_str());

    for (auto &op : sc["ops"]) {
        g_progress.fetch_add(1);
        std::string o = op["o"]; int a = op["a"];
        if (o == "raise") {
            if (a < 1 || a > NSIG_T) continue;
            if (no_raise_now(a)) { T.printf("{\"e\":\"noraise\",\"s\":%d,\"d\":%s}", a, disp_json().c_str()); continue; }
            std::string via = op.value("via", "main"); int t = op.value("t", 1);
            if (via != "self" && via != "async") t = 0;
            else if (t < 1 || t > n || is_held(t)) { via = "main"; t = 0; }
            do_raise(a, via, t);
        } else if (o == "burst") {
            if (a < 1 || a > NSIG_T) continue;
            if (no_raise_now(a)) { T.printf("{\"e\":\"noraise\",\"s\":%d,\"d\":%s}", a, disp_json().c_str()); continue; }
            do_burst(a, op.value("n", 1200));
        } else if (o == "hold") {
            if (a >= 1 && a <= n && !is_held(a)) do_hold(a);
        } else if (o == "release") {
            if (is_held(a)) do_release(a);
        } else if (o == "race") {
            const json &ro = op["ops"];
            int ea = ro[0]["a"], eb = ro[1]["a"];
            if (ea < 1 || eb < 1 || ea >= (int)g_ev.size() || eb >= (int)g_ev.size() || !g_ev[ea] || !g_ev[eb]) continue;
            if (g_cfg[ea].L == g_cfg[eb].L || is_held(g_cfg[ea].L) || is_held(g_cfg[eb].L)) continue;
            do_race(ro, op.value("da", 0), op.value("db", 0));
        } else if (o == "batch") {
            if (a >= 1 && a <= n && !is_held(a)) do_batch(a, op["ops"]);
        } else {
            if (a < 1 || a >= (int)g_ev.size()) continue;
            bool present = g_ev[a] != nullptr;
            if ((o == "create") == present) continue;                      // not applicable: skipped, nothing logged
            if (is_held(g_cfg[a].L)) continue;                             // that loop's thread is busy: nothing can run on it
            do_sub_op(o, a);
        }
    }
    for (int L = 1; L <= n; ++L) if (is_held(L)) do_release(L);
    for (size_t e = 1; e < g_ev.size(); ++e) if (g_ev[e]) do_sub_op("destroy", (int)e);    // every history ends with all events destroyed
    for (int L = 1; L <= n; ++L) {
        Loop *lp = g_loops[L]->loop;
        lp->runInLoop([lp] { lp->exitLoop(); }, "c04.exit");
        g_loops[L]->th.join();
        delete lp;
    }
    T.printf("{\"e\":\"end\",\"d\":%s}", disp_json().c_str());
    g_loops.clear();
}

int main(int argc, char **argv) {
    if (argc < 3) { fprintf(stderr, "usage: driver <scripts.jsonl> <out.ndjson>\n"); return 3; }
    vh::T().open(argv[2]);
    vh::install_faults();
    tbox::verif::Hooks().point = on_point;
    start_monitor();
    std::ifstream in(argv[1]);
    std::string line;
    while (std::getline(in, line)) {
        if (line.empty()) continue;
        execute(json::parse(line));
    }
    vh::T().close();
    return 0;
}
