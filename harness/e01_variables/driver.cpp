// E01 conformance driver for tbox::util::Variables (scoped variables with a parent chain).
//   driver script <nnames> <scripts.jsonl> <out.ndjson>      one JSON array of operations per line (from TLC)
//   driver random <seed> <nexec> <nops> <out.ndjson>
// Executes operation sequences on three real Variables objects (scopes 1..3, fixed addresses, parent links set and
// changed by the script) and records one ndjson line per call: the call, its arguments, its answer and - after every
// call - everything each scope lets a caller see through the public interface, for every name of the universe:
//   loc  toJson() (the scope's own variables)      vis  get(name)           gl  get(name, local_only)
//   h    has(name)                                  hl   has(name, true)     emp empty()
// A JSON value is logged as a cell [kind, dump]: kind i(int) I(integer outside int) f(float) s(string) b(bool) n(null)
// a(array) o(object), "~" = no such variable.  The trace is validated by TLC against spec/Variables/Trace_Variables.tla;
// this program decides nothing.  (It keeps its own table of the parent links it asked for, only to avoid building a
// parent cycle, which the class does not support: a failing lookup would recurse forever.)
#include <vh.h>
#include <fstream>
#include <limits>
#include <nlohmann/json.hpp>
#include <tbox/base/json.hpp>
#include <tbox/util/variables.h>

using tbox::util::Variables;
using json = nlohmann::json;
static const int NS = 3;
static const char *NAMES[] = {"a", "b", "c", "d"};
static int g_nnames = 4;
static Variables *scope[NS + 1];
static int par[NS + 1];                 // the links this driver asked for (cycle avoidance only)

static const char *kJsonTable[] = {
    "null",                                             // 0 unused
    "12", "\"hello\"", "12.5", "true", "null", "[1,\"x\",{\"k\":2.5}]", "{\"a\":{\"b\":[1,2]},\"z\":null}", "-7", "\"\"", "0",
    "false", "\"12\"", "{}", "3000000000", "[]", "-0.25", "\"~\"", "2147483647", "-2147483649", "\"a \\\"quoted\\\" \\u00e9\"",
};
static const int NVALS = sizeof kJsonTable / sizeof *kJsonTable - 1;
static json value_of(int idx) { return json::parse(kJsonTable[idx]); }

static std::string cell(const json &j) {
    const char *k = "?";
    if (j.is_number_integer()) {
        bool fits;
        if (j.is_number_unsigned()) fits = j.get<uint64_t>() <= (uint64_t)std::numeric_limits<int>::max();
        else { auto v = j.get<int64_t>(); fits = v >= std::numeric_limits<int>::min() && v <= std::numeric_limits<int>::max(); }
        k = fits ? "i" : "I";
    } else if (j.is_number_float()) k = "f";
    else if (j.is_string()) k = "s";
    else if (j.is_boolean()) k = "b";
    else if (j.is_null()) k = "n";
    else if (j.is_array()) k = "a";
    else if (j.is_object()) k = "o";
    return std::string("[\"") + k + "\"," + vh::jstr(j.dump()) + "]";
}
static const std::string ABSENT = "[\"~\",\"\"]";
static const char *B(bool v) { return v ? "true" : "false"; }

static std::string state() {
    std::string s = "[";
    for (int i = 1; i <= NS; ++i) {
        const Variables &x = *scope[i];
        json all; x.toJson(all);
        std::string loc, vis, gl, h, hl;
        for (int k = 0; k < g_nnames; ++k) {
            const char *n = NAMES[k];
            if (k) { loc += ','; vis += ','; gl += ','; h += ','; hl += ','; }
            loc += (all.is_object() && all.contains(n)) ? cell(all[n]) : ABSENT;
            json a = "?unset", b = "?unset";
            vis += x.get(n, a) ? cell(a) : (a == json("?unset") ? ABSENT : "[\"!\",\"clobbered\"]");
            gl += x.get(n, b, true) ? cell(b) : (b == json("?unset") ? ABSENT : "[\"!\",\"clobbered\"]");
            h += B(x.has(n)); hl += B(x.has(n, true));
        }
        size_t extra = all.is_object() ? all.size() : 99;     // variables outside the universe must not exist
        for (int k = 0; k < g_nnames; ++k) if (all.is_object() && all.contains(NAMES[k])) --extra;
        if (i > 1) s += ',';
        s += "{\"loc\":[" + loc + "],\"vis\":[" + vis + "],\"gl\":[" + gl + "],\"h\":[" + h + "],\"hl\":[" + hl + "],\"emp\":" + B(x.empty()) +
             ",\"x\":" + std::to_string(extra) + "}";
    }
    return s + "]";
}

struct Op { std::string o, n = "a", t = "int"; int s = 1, d = 0, v = 1; bool l = false; };

// would the parent table stay a forest?
static bool forest(const int p[NS + 1]) {
    for (int i = 1; i <= NS; ++i) { int c = p[i], k = 0; while (c != 0 && k <= NS) { if (c == i) return false; c = p[c]; ++k; } }
    return true;
}
static bool links_after(const Op &op, int out[NS + 1]) {
    for (int i = 0; i <= NS; ++i) out[i] = par[i];
    if (op.o == "setparent") out[op.s] = op.d;
    else if (op.o == "copya" || op.o == "copyc") out[op.d] = par[op.s];
    else if (op.o == "movea" || op.o == "movec") { if (op.d != op.s) { out[op.s] = 0; out[op.d] = par[op.s]; } }
    else if (op.o == "swap") { out[op.s] = par[op.d]; out[op.d] = par[op.s]; }
    else if (op.o == "reset") out[op.s] = 0;
    return forest(out);
}
static bool applicable(const Op &op) {
    if (op.s < 1 || op.s > NS) return false;
    bool two = op.o == "copya" || op.o == "copyc" || op.o == "movea" || op.o == "movec" || op.o == "swap";
    if (two && (op.d < 1 || op.d > NS)) return false;
    if (op.o == "setparent" && (op.d < 0 || op.d > NS)) return false;
    int out[NS + 1];
    return links_after(op, out);
}

static void exec(const Op &op) {
    Variables &x = *scope[op.s];
    std::string head = "{\"e\":\"" + op.o + "\",\"s\":" + std::to_string(op.s) + ",\"d\":" + std::to_string(op.d) + ",\"n\":" + vh::jstr(op.n) +
                       ",\"l\":" + B(op.l);
    std::string extra;
    int links[NS + 1]; links_after(op, links);
    if (op.o == "define") { json v = value_of(op.v); bool r = x.define(op.n, v); extra = ",\"v\":" + cell(v) + ",\"ret\":" + B(r); }
    else if (op.o == "undefine") { bool r = x.undefine(op.n); extra = std::string(",\"ret\":") + B(r); }
    else if (op.o == "has") { bool r = op.l ? x.has(op.n, true) : x.has(op.n); extra = std::string(",\"ret\":") + B(r); }
    else if (op.o == "get") {
        json out = "?unset";
        bool r = op.l ? x.get(op.n, out, true) : x.get(op.n, out);
        extra = std::string(",\"ret\":") + B(r) + ",\"out\":" + cell(out);
    } else if (op.o == "gett") {
        bool r; json out;
        if (op.t == "int") { int v = -777; r = x.get(op.n, v, op.l); out = v; }
        else if (op.t == "float") { double v = -777.5; r = x.get(op.n, v, op.l); out = v; }
        else if (op.t == "str") { std::string v = "?unset"; r = x.get(op.n, v, op.l); out = v; }
        else { bool v = false; r = x.get(op.n, v, op.l); out = v; }
        extra = ",\"t\":\"" + op.t + "\",\"ret\":" + B(r) + ",\"out\":" + cell(out);
    } else if (op.o == "set") {
        json v = value_of(op.v);
        bool r = op.l ? x.set(op.n, v, true) : x.set(op.n, v);
        extra = ",\"v\":" + cell(v) + ",\"ret\":" + B(r);
    } else if (op.o == "setparent") x.setParent(op.d ? scope[op.d] : nullptr);
    else if (op.o == "empty") { bool r = x.empty(); extra = std::string(",\"ret\":") + B(r); }
    else if (op.o == "copya") { Variables &dst = *scope[op.d]; const Variables &src = x; dst = src; }
    else if (op.o == "copyc") { Variables t(x); scope[op.d]->swap(t); }
    else if (op.o == "movea") { Variables &dst = *scope[op.d]; dst = std::move(x); }
    else if (op.o == "movec") { Variables t(std::move(x)); scope[op.d]->swap(t); }
    else if (op.o == "swap") scope[op.d]->swap(x);
    else if (op.o == "reset") x.reset();
    else { fprintf(stderr, "unknown op %s\n", op.o.c_str()); _exit(3); }
    for (int i = 0; i <= NS; ++i) par[i] = links[i];
    vh::T().line(head + extra + ",\"st\":" + state() + "}");
    vh::T().flush();
}

static void fresh() {
    for (int i = 1; i <= NS; ++i) { delete scope[i]; scope[i] = nullptr; par[i] = 0; }
    for (int i = 1; i <= NS; ++i) scope[i] = new Variables;
}
static void end_exec() {
    // unlink first: destruction order must not matter, a scope never touches its parent when it dies
    vh::T().line("{\"e\":\"Reset\"}");
    vh::T().flush();
    fresh();
}

int main(int argc, char **argv) {
    if (argc < 2) return 3;
    std::string mode = argv[1];
    vh::install_faults();
    if (mode == "script" && argc == 5) {
        g_nnames = atoi(argv[2]);
        if (g_nnames < 1 || g_nnames > 4) return 3;
        vh::T().open(argv[4]);
        fresh();
        std::ifstream in(argv[3]); std::string line;
        while (std::getline(in, line)) {
            if (line.empty()) continue;
            json j = json::parse(line);
            for (auto &e : j) {
                Op op; op.o = e["o"].get<std::string>(); op.s = e.value("s", 1); op.d = e.value("d", 0); op.n = e.value("n", std::string("a"));
                op.v = e.value("v", 1); op.l = e.value("l", false); op.t = e.value("t", std::string("int"));
                if (op.v < 1 || op.v > NVALS || !applicable(op)) { fprintf(stderr, "script op not applicable: %s\n", e.dump().c_str()); _exit(3); }
                exec(op);
            }
            end_exec();
        }
    } else if (mode == "random" && argc == 6) {
        vh::Rng rng(strtoull(argv[2], nullptr, 10));
        int nexec = atoi(argv[3]), nops = atoi(argv[4]);
        vh::T().open(argv[5]);
        fresh();
        static const char *ops[] = {"define", "define", "define", "undefine", "undefine", "has", "get", "get", "gett", "set", "set", "set",
                                    "setparent", "setparent", "empty", "copya", "copya", "copyc", "movea", "movec", "swap", "reset"};
        static const char *types[] = {"int", "float", "str", "bool"};
        for (int xn = 0; xn < nexec; ++xn) {
            g_nnames = 4;
            int names_used = (int)rng.range(1, 4);          // few names: collisions, shadowing
            int vals_used = rng.chance(30) ? 3 : NVALS;
            for (int i = 0; i < nops; ++i) {
                Op op;
                for (int tries = 0; tries < 100; ++tries) {
                    op.o = ops[rng.below(sizeof ops / sizeof *ops)];
                    op.s = (int)rng.range(1, NS);
                    op.d = (op.o == "setparent") ? (int)rng.range(0, NS) : (int)rng.range(1, NS);
                    if (applicable(op)) break;
                    op.o.clear();
                }
                if (op.o.empty()) { op.o = "has"; op.s = 1; op.d = 0; }
                op.n = NAMES[rng.below((uint64_t)names_used)];
                op.v = (int)rng.range(1, vals_used);
                op.l = rng.chance(35);
                op.t = types[rng.below(4)];
                exec(op);
            }
            end_exec();
        }
    } else return 3;
    vh::T().close();
    return 0;
}
