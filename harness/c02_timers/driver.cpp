// C02 conformance driver: timers of the cpp-tbox event loop (TimerEvent) and TimerPool.
//   driver run <engines: epoll|select|both|alt> <scripts.jsonl> <out.ndjson>
// One script per line:
//   {"kind":"event"|"pool", "n":<slots>, "base":<ms>, "pre":<bool>, "M":<model huge unit>, "H":"<concrete huge unit, ms>",
//    "top":[ {"o":"create","i":1}, {"o":"init","i":1,"d":2,"m":"persist"}, {"o":"enable","i":1}, {"o":"disable","i":1},
//            {"o":"destroy","i":1}, {"o":"every","i":1,"d":2}, {"o":"after","i":1,"d":2}, {"o":"cancel","i":1},
//            {"o":"adv","n":3}, {"o":"pass"}, ... ],
//    "cb":{ "<slot>:<n>":[ops...] } }        operations issued by the callback of the n-th invocation of <slot>
// The driver owns a real Loop, installs the virtual monotonic clock (time moves only on "adv"), and drives the
// loop from inside: the loop runs kForever with a self-reposting runNext task that executes the operations up
// to the next "pass" marker, so one loop iteration = one handleExpiredTimers() = one pass and nothing ever
// sleeps.  Every operation, every invocation (slot, virtual time, isEnabled() of all slots at callback entry),
// every callback return and every pass boundary is recorded as one ndjson line.  Operations that do not apply
// to the driver's own slot table (e.g. "enable" of an empty slot) are skipped.  The trace is validated by TLC
// against spec/Timers/Trace_Timers.tla; this program decides nothing.
// Huge durations (the "huge" script family): TLC integers are 32-bit, the loop's clock is 64-bit.  A script may declare a
// model unit M (e.g. 1000000) and a concrete unit H (e.g. 2^31+1, 2^32+5, 30 days = 2592000000 ms).  Every duration x of the
// script (interval, clock advance), written x = h*M + r with |r| < M/2, is then applied to the real code as h*H + r milliseconds
// while the trace keeps the model value x.  As long as the small parts r never add up to M/2 (the generator keeps all instants
// within 1000 of a multiple of M) this relabelling of time preserves sums and order of all instants that occur, so the real
// execution is a behaviour of the specification iff the relabelled one is; it puts real deadlines around the 32-bit boundaries
// of the millisecond arithmetic.
#include <vh.h>
#include <chrono>
#include <fstream>
#include <functional>
#include <map>
#include <memory>
#include <nlohmann/json.hpp>
#ifdef C02_WAITTIME
#include <deque>
#include <mutex>
#include <set>
#include <thread>
#include <limits>
#define protected public          // getWaitTime() is a protected member of CommonLoop
#include <tbox/event/common_loop.h>
#undef protected
#endif
#include <tbox/base/verif_hook.h>
#include <tbox/event/loop.h>
#include <tbox/event/timer_event.h>
#include <tbox/eventx/timer_pool.h>

using json = nlohmann::json;
using tbox::event::Loop;
using tbox::event::TimerEvent;
using tbox::event::Event;
using tbox::eventx::TimerPool;

static uint64_t g_vnow = 0;       // virtual monotonic clock (ms)
static bool steady_hook(uint64_t &ms) { ms = g_vnow; return true; }

struct Exec {
    Loop *loop = nullptr;
    TimerPool *pool = nullptr;
    bool is_pool = false;
    int n = 0;
    uint64_t base = 0;
    uint64_t M = 0, H = 0;                    // huge-duration relabelling (0 = none)
    long long mnow = 0;                       // clock in model units (== g_vnow - base when M == 0)
    std::vector<TimerEvent *> slot;           // event kind
    std::vector<TimerPool::TimerToken> tok;   // pool kind: last token handed out for the slot (kept when stale)
    std::vector<bool> live;                   // pool kind: token believed to be valid
    std::vector<int> fires;                   // invocations of the slot since the start of the execution
    int cur = 0;                              // slot whose callback is running
    unsigned long long total_fires = 0;
    json top;
    json cb;
    size_t pc = 0;
    bool in_pass = false;

    long long now() const { return mnow; }
    // x = h*M + r with r in [-M/2, M/2)  ->  h*H + r   (e.g. "one unit minus 1 ms" = M-1 -> H-1)
    uint64_t conc(long long x) const {
        if (!M) return (uint64_t)x;
        long long m = (long long)M, h = (x + m / 2) / m, r = x - h * m;
        return (uint64_t)(h * (long long)H + r);
    }
    std::string en() const {
        if (is_pool) return "";
        std::string s = ",\"en\":[";
        for (int i = 1; i <= n; ++i) { if (i > 1) s += ','; s += (slot[i] && slot[i]->isEnabled()) ? "true" : "false"; }
        return s + "]";
    }
    void logop(const char *o, int i, const std::string &extra) {
        vh::T().line(std::string("{\"e\":\"") + o + "\",\"i\":" + std::to_string(i) + ",\"cb\":" + std::to_string(cur) + extra +
                     ",\"now\":" + std::to_string(now()) + en() + "}");
    }
    static const char *b(bool v) { return v ? "true" : "false"; }

    void on_fire(int i) {
        int k = ++fires[i];
        // Each timer has interval >= 1 ms, so an execution cannot contain more invocations than slots x elapsed virtual
        // milliseconds (+ slots).  Beyond that the loop is re-firing without bound (it would never return): stop with a
        // Fault line instead of hanging.  Deterministic, no wall clock involved.
        if (++total_fires > (unsigned long long)n * (unsigned long long)(now() + 1) + 8) vh::fault("runaway", "more invocations than elapsed periods");
        int outer = cur;
        cur = i;
        vh::T().line("{\"e\":\"fire\",\"i\":" + std::to_string(i) + ",\"k\":" + std::to_string(k) + ",\"now\":" + std::to_string(now()) + en() + "}");
        auto it = cb.find(std::to_string(i) + ":" + std::to_string(k));
        if (it != cb.end())
            for (auto &op : *it) apply(op);
        vh::T().line("{\"e\":\"cbend\",\"i\":" + std::to_string(i) + ",\"now\":" + std::to_string(now()) + en_after_cb(i) + "}");
        cur = outer;
    }
    // a TimerPool one-shot releases its token right after the user callback; the driver's table follows
    std::string en_after_cb(int i) { (void)i; return en(); }

    void apply(const json &op) {
        std::string o = op.at("o");
        int i = op.value("i", 0);
        if (o == "adv") {
            long long d = op.value("n", 0);
            if (d <= 0) return;
            g_vnow += conc(d);
            mnow += d;
            logop("adv", 0, ",\"n\":" + std::to_string(d));
            return;
        }
        if (i < 1 || i > n) return;
        if (!is_pool) {
            if (o == "create") {
                if (slot[i] || i == cur) return;
                slot[i] = loop->newTimerEvent("c02");
                slot[i]->setCallback([this, i] { on_fire(i); });
                logop("create", i, "");
            } else if (o == "init") {
                if (!slot[i]) return;
                long long d = op.value("d", 1);
                std::string m = op.value("m", std::string("oneshot"));
                bool r = slot[i]->initialize(std::chrono::milliseconds((long long)conc(d)), m == "persist" ? Event::Mode::kPersist : Event::Mode::kOneshot);
                logop("init", i, ",\"d\":" + std::to_string(d) + ",\"m\":\"" + m + "\",\"ret\":" + b(r));
            } else if (o == "enable") {
                if (!slot[i]) return;
                bool r = slot[i]->enable();
                logop("enable", i, std::string(",\"ret\":") + b(r));
            } else if (o == "disable") {
                if (!slot[i]) return;
                bool r = slot[i]->disable();
                logop("disable", i, std::string(",\"ret\":") + b(r));
            } else if (o == "destroy") {
                if (!slot[i] || i == cur) return;      // deleting a TimerEvent inside its own callback is asserted against
                delete slot[i];
                slot[i] = nullptr;
                logop("destroy", i, "");
            }
        } else {
            if (o == "every" || o == "after") {
                if (live[i] || i == cur) return;
                long long d = op.value("d", 1);
                bool every = (o == "every");
                if (every)
                    tok[i] = pool->doEvery(std::chrono::milliseconds((long long)conc(d)), [this, i] { on_fire(i); });
                else
                    tok[i] = pool->doAfter(std::chrono::milliseconds((long long)conc(d)), [this, i] { on_fire(i); live[i] = false; });
                live[i] = true;
                logop(every ? "every" : "after", i, ",\"d\":" + std::to_string(d));
            } else if (o == "cancel") {
                bool r = pool->cancel(tok[i]);          // possibly a stale or never-issued token: must answer false
                live[i] = false;
                logop("cancel", i, std::string(",\"ret\":") + b(r));
            }
        }
    }

    long long wait_time() {
#ifdef C02_WAITTIME
        auto *cl = dynamic_cast<tbox::event::CommonLoop *>(loop);
        if (cl) { long long w = (long long)cl->getWaitTime(); return w > 1000000 ? 1000000 : w; }   // only the sign matters; keep it a 32-bit value
#endif
        return -2;
    }

    // executes top-level operations up to the next "pass" marker; returns false when the script is finished
    bool segment() {
        while (pc < top.size()) {
            const json &op = top[pc++];
            if (op.at("o") == "pass") {
                vh::T().line("{\"e\":\"pass\",\"now\":" + std::to_string(now()) + en() + "}");
                in_pass = true;
                return true;
            }
            apply(op);
        }
        return false;
    }
    void step() {      // the in-loop driver task: runs after the timers of this iteration
        if (in_pass) {
            vh::T().line("{\"e\":\"passend\",\"w\":" + std::to_string(wait_time()) + ",\"now\":" + std::to_string(now()) + en() + "}");
            in_pass = false;
        }
        if (segment())
            loop->runNext([this] { step(); }, "c02-driver");
        else
            loop->exitLoop();
    }
};

static void run_one(const json &sc, const std::string &engine) {
    Exec x;
    x.is_pool = sc.value("kind", std::string("event")) == "pool";
    x.n = sc.value("n", 3);
    x.base = sc.value("base", (uint64_t)0);
    x.M = sc.value("M", (uint64_t)0);
    x.H = x.M ? std::stoull(sc.value("H", std::string("0"))) : 0;
    x.top = sc.at("top");
    x.cb = sc.value("cb", json::object());
    x.slot.assign(x.n + 1, nullptr);
    x.tok.assign(x.n + 1, TimerPool::TimerToken());
    x.live.assign(x.n + 1, false);
    x.fires.assign(x.n + 1, 0);
    g_vnow = x.base;
    std::string meta = std::string("\"kind\":\"") + (x.is_pool ? "pool" : "event") + "\",\"n\":" + std::to_string(x.n) +
                 ",\"engine\":\"" + engine + "\",\"base\":\"" + std::to_string(x.base) + "\",\"pre\":" + (sc.value("pre", false) ? "true" : "false") +
                 ",\"M\":" + std::to_string(x.M) + ",\"H\":\"" + std::to_string(x.H) + "\"}";
    vh::T().line("{\"e\":\"Reset\"," + meta);
    vh::T().line("{\"e\":\"info\"," + meta);      // repeated so that a saved execution (cut after its Reset line) is self-describing
    x.loop = Loop::New(engine);
    if (!x.loop) { fprintf(stderr, "no engine %s\n", engine.c_str()); _exit(3); }
    if (x.is_pool) x.pool = new TimerPool(x.loop);
    if (sc.value("pre", false)) {
        // operations before the first pass are issued before the loop runs
        if (x.segment()) { x.loop->runNext([&x] { x.step(); }, "c02-driver"); x.loop->runLoop(Loop::Mode::kForever); }
    } else {
        x.loop->runNext([&x] { x.step(); }, "c02-driver");
        x.loop->runLoop(Loop::Mode::kForever);
    }
    // teardown (not part of the trace; crashes and sanitizer reports still become a Fault line)
    if (x.pool) { delete x.pool; x.pool = nullptr; }
    for (int i = x.n; i >= 1; --i) { delete x.slot[i]; x.slot[i] = nullptr; }
    x.loop->cleanup();
    delete x.loop;
}

int main(int argc, char **argv) {
    if (argc < 5 || std::string(argv[1]) != "run") { fprintf(stderr, "usage: driver run <epoll|select|both|alt> <scripts.jsonl> <out.ndjson>\n"); return 3; }
    std::string eng = argv[2];
    vh::T().open(argv[4]);
    vh::install_faults();
    tbox::verif::Hooks().steady_ms = steady_hook;
    std::ifstream in(argv[3]);
    std::string line;
    size_t idx = 0;
    while (std::getline(in, line)) {
        if (line.empty()) continue;
        json sc = json::parse(line);
        if (eng == "both") { run_one(sc, "epoll"); run_one(sc, "select"); }
        else if (eng == "alt") run_one(sc, (idx % 2) ? "select" : "epoll");
        else run_one(sc, eng);
        ++idx;
    }
    vh::T().close();
    return 0;
}
