// C16 conformance driver for tbox::flow::StateMachine ("program as data").
//   driver run <executions.jsonl> <out.ndjson>
// Every input line is {"p": <program>, "calls": [[op, ev], ...]} (program format: spec/Hfsm/Hfsm.tla header).
// For each line the driver builds real StateMachine objects from the program, installs callbacks that only log
// and follow their scripts (guard / handler results, re-entrant call attempts), performs the calls on the root
// machine and records, per call: the events observed (in order), the return value and what every machine reports
// (isRunning, isTerminated, currentState, lastState, nextState).  The trace is validated by TLC against
// spec/Hfsm/Trace_Hfsm.tla; this program decides nothing.
//   {"e":"Prog","p":{...}}   {"e":"Begin","c":[op,ev]}
//   {"e":"Call","c":[op,ev],"ret":0|1,"out":[[...],...],"q":[[r,t,cur,last,next],...]}   {"e":"Reset"}
// Event tuples: ["G",m,g,ev,res] ["H",m,h,ev,res] ["X",m,s,ev,next] ["A",m,a,ev,cur,next] ["E",m,s,ev,cur]
//               ["C",m,from,ev,to,cur] ["R",m,op,ev,ret,same,t]  (re-entrant call made on machine t from a callback of m)
// The machines are DEFINED by replaying p.defs, an arbitrary legal order of the definition calls newState / addRoute /
// addEvent / setInitState / setSubStateMachine (a route to the terminal state 0 may precede the user's own newState(0,..)).
#include <vh.h>
#include <algorithm>
#include <fstream>
#include <memory>
#include <nlohmann/json.hpp>
#include <tbox/flow/state_machine.h>

using tbox::flow::Event;
using tbox::flow::StateMachine;
using json = nlohmann::json;

namespace {

struct ReEntry { int m; std::string k; int id; int op, ev; int t; bool fired; };

struct Exec {
    std::vector<std::unique_ptr<StateMachine>> sm;   // 1-based
    std::vector<std::vector<int>> gs, hs;            // 1-based scripts
    std::vector<size_t> gp, hp;
    std::vector<ReEntry> re;
    std::vector<std::vector<int>> owns_sub;          // owns_sub[m] = ids of the states of machine m that own a nested machine
    std::vector<char> act;                           // act[m]: m delivered its state-changed notification into such a state
                                                     // earlier in this public call (it is activating the nested machine)
    std::string out;                                 // events of the call in progress
    bool first = true;

    void ev(const std::string &t) { if (!first) out += ','; first = false; out += t; }

    std::string query(int m) const {
        const StateMachine &x = *sm[m];
        return "[" + std::to_string(x.isRunning() ? 1 : 0) + "," + std::to_string(x.isTerminated() ? 1 : 0) + "," +
               std::to_string(x.currentState()) + "," + std::to_string(x.lastState()) + "," + std::to_string(x.nextState()) + "]";
    }
    // perform one public call on machine m; returns its result as 0/1 (stop: 0)
    int call(int m, int op, int e) {
        StateMachine &x = *sm[m];
        switch (op) {
            case 1: return x.start() ? 1 : 0;
            case 2: x.stop(); return 0;
            case 3: return x.restart() ? 1 : 0;
            case 4: return x.run(Event(e)) ? 1 : 0;
        }
        fprintf(stderr, "bad op %d\n", op); _exit(3);
    }
    // the callback (k, id) of machine m has just been logged: perform its re-entrant attempt (once).  The attempt is
    // made on machine r.t: m itself, or an ancestor of m - the latter only while that ancestor is activating its nested
    // machine (act[r.t]), i.e. while it is still inside its own run(); otherwise the attempt waits for a later invocation.
    void fire(const char *k, int m, int id) {
        for (auto &r : re) {
            if (r.fired || r.m != m || r.id != id || r.k != k) continue;
            if (r.t != m && !act[r.t]) continue;
            r.fired = true;
            std::string before = query(r.t);
            int ret = call(r.t, r.op, r.ev);
            std::string after = query(r.t);
            ev("[\"R\"," + std::to_string(m) + "," + std::to_string(r.op) + "," + std::to_string(r.ev) + "," +
               std::to_string(ret) + "," + (before == after ? "1" : "0") + "," + std::to_string(r.t) + "]");
            return;
        }
    }
    void changed(int m, int to) {
        for (int s : owns_sub[m]) if (s == to) act[m] = 1;
    }
};

std::string tup(const char *k, std::initializer_list<long long> v) {
    std::string s = std::string("[\"") + k + "\"";
    for (long long x : v) { s += ','; s += std::to_string(x); }
    return s + "]";
}

[[noreturn]] void setup_failed(const char *what) {
    vh::fault("setup", what);   // a valid definition call was refused by newState/addRoute/...: no spec action accepts this
}

// ---- the definition calls, one function per public API call --------------------------------------------------------
void def_state(Exec *x, int m, const json &S) {
    StateMachine *sm = x->sm[m].get();
    int sid = S["id"];
    StateMachine::ActionFunc en, ex;
    if (S["en"].get<int>()) en = [x, sm, m, sid](Event e) { x->ev(tup("E", {m, sid, e.id, sm->currentState()})); x->fire("E", m, sid); };
    if (S["ex"].get<int>()) ex = [x, sm, m, sid](Event e) { x->ev(tup("X", {m, sid, e.id, sm->nextState()})); x->fire("X", m, sid); };
    if (!sm->newState(sid, en, ex, "s" + std::to_string(sid))) setup_failed("newState");
}
void def_route(Exec *x, int m, const json &S, const json &R) {
    StateMachine *sm = x->sm[m].get();
    int g = R["g"], a = R["a"];
    StateMachine::GuardFunc gf;
    StateMachine::ActionFunc af;
    if (g) gf = [x, m, g](Event e) {
        int v = x->gs[g][x->gp[g]]; x->gp[g] = (x->gp[g] + 1) % x->gs[g].size();
        x->ev(tup("G", {m, g, e.id, v})); x->fire("G", m, g); return v != 0; };
    if (a) af = [x, sm, m, a](Event e) { x->ev(tup("A", {m, a, e.id, sm->currentState(), sm->nextState()})); x->fire("A", m, a); };
    if (!sm->addRoute(S["id"].get<int>(), R["ev"].get<int>(), R["to"].get<int>(), gf, af)) setup_failed("addRoute");
}
void def_handler(Exec *x, int m, const json &S, const json &H) {
    int h = H["h"];
    auto hf = [x, m, h](Event e) -> StateMachine::StateID {
        int v = x->hs[h][x->hp[h]]; x->hp[h] = (x->hp[h] + 1) % x->hs[h].size();
        x->ev(tup("H", {m, h, e.id, v})); x->fire("H", m, h); return v; };
    if (!x->sm[m]->addEvent(S["id"].get<int>(), H["ev"].get<int>(), hf)) setup_failed("addEvent");
}
void def_sub(Exec *x, int m, const json &S) {
    if (!x->sm[m]->setSubStateMachine(S["id"].get<int>(), x->sm[S["sub"].get<int>()].get())) setup_failed("setSubStateMachine");
}

void build(Exec &X, const json &p) {
    const json &ms = p["ms"];
    int nm = (int)ms.size();
    X.sm.resize(nm + 1);
    X.owns_sub.resize(nm + 1); X.act.assign(nm + 1, 0);
    for (int m = 1; m <= nm; ++m) { X.sm[m].reset(new StateMachine); X.sm[m]->setName("m" + std::to_string(m)); }
    X.gs.resize(p["gs"].size() + 1); X.gp.assign(p["gs"].size() + 1, 0);
    for (size_t g = 1; g < X.gs.size(); ++g) X.gs[g] = p["gs"][g - 1].get<std::vector<int>>();
    X.hs.resize(p["hs"].size() + 1); X.hp.assign(p["hs"].size() + 1, 0);
    for (size_t h = 1; h < X.hs.size(); ++h) X.hs[h] = p["hs"][h - 1].get<std::vector<int>>();
    for (auto &r : p["re"]) X.re.push_back(ReEntry{r["m"], r["k"], r["id"], r["c"][0], r["c"][1], r.value("t", r["m"].get<int>()), false});
    Exec *x = &X;
    for (int m = 1; m <= nm; ++m) {
        for (auto &S : ms[m - 1]["ss"]) if (S["sub"].get<int>()) X.owns_sub[m].push_back(S["id"].get<int>());
        // the notification callback is not a definition call of the machine's structure: installed up front
        StateMachine *sm = X.sm[m].get();
        if (ms[m - 1]["cc"].get<int>())
            sm->setStateChangedCallback([x, sm, m](StateMachine::StateID f, StateMachine::StateID t, Event e) {
                x->changed(m, t);
                x->ev(tup("C", {m, f, e.id, t, sm->currentState()})); x->fire("C", m, 0); });
    }
    if (p.contains("defs")) {
        // replay the definition calls in exactly the order given: ["S",m,si,0] ["R",m,si,j] ["H",m,si,j] ["I",m,0,0] ["U",m,si,0]
        for (auto &d : p["defs"]) {
            std::string k = d[0]; int m = d[1], si = d[2], j = d[3];
            const json &M = ms[m - 1];
            if (k == "I") { X.sm[m]->setInitState(M["init"].get<int>()); continue; }
            const json &S = M["ss"][si - 1];
            if (k == "S") def_state(x, m, S);
            else if (k == "R") def_route(x, m, S, S["rs"][j - 1]);
            else if (k == "H") def_handler(x, m, S, S["hd"][j - 1]);
            else if (k == "U") def_sub(x, m, S);
            else { fprintf(stderr, "bad definition op %s\n", k.c_str()); _exit(3); }
        }
        return;
    }
    // no order given: states, then routes and handlers, then the initial state, then the nested machines
    for (int m = 1; m <= nm; ++m) {
        const json &M = ms[m - 1];
        for (auto &S : M["ss"]) def_state(x, m, S);
        for (auto &S : M["ss"]) {
            for (auto &R : S["rs"]) def_route(x, m, S, R);
            for (auto &H : S["hd"]) def_handler(x, m, S, H);
        }
        int init = M["init"];
        if (M["ss"].empty() || M["ss"][0]["id"].get<int>() != init) X.sm[m]->setInitState(init);   // else: the first newState() is the default
    }
    for (int m = 1; m <= nm; ++m)
        for (auto &S : ms[m - 1]["ss"]) if (S["sub"].get<int>()) def_sub(x, m, S);
}

void run_one(const json &line) {
    auto &T = vh::T();
    const json &p = line["p"];
    T.line("{\"e\":\"Prog\",\"p\":" + p.dump() + "}");
    T.flush();
    {
        Exec X;
        build(X, p);
        int nm = (int)X.sm.size() - 1;
        for (auto &c : line["calls"]) {
            int op = c[0], e = c[1];
            X.out.clear(); X.first = true;
            std::fill(X.act.begin(), X.act.end(), 0);
            // announced before it is made, so that a call that crashes is part of the replay file
            T.line("{\"e\":\"Begin\",\"c\":[" + std::to_string(op) + "," + std::to_string(e) + "]}");
            T.flush();
            int ret = X.call(1, op, e);
            std::string q = "[";
            for (int m = 1; m <= nm; ++m) { if (m > 1) q += ','; q += X.query(m); }
            q += "]";
            T.line("{\"e\":\"Call\",\"c\":[" + std::to_string(op) + "," + std::to_string(e) + "],\"ret\":" + std::to_string(ret) +
                   ",\"out\":[" + X.out + "],\"q\":" + q + "}");
            T.flush();   // a sanitizer exit must not leave a half-written line behind (the trace stays parseable)
        }
    }   // machines destroyed here (parents and nested ones, in reverse index order)
    T.line("{\"e\":\"Reset\"}");
}

}  // namespace

int main(int argc, char **argv) {
    if (argc != 4 || std::string(argv[1]) != "run") { fprintf(stderr, "usage: driver run <executions.jsonl> <out.ndjson>\n"); return 3; }
    vh::install_faults();
    vh::T().open(argv[3]);
    std::ifstream in(argv[2]);
    if (!in) { perror(argv[2]); return 3; }
    std::string s;
    while (std::getline(in, s)) {
        if (s.empty()) continue;
        run_one(json::parse(s));
    }
    vh::T().close();
    return 0;
}
