// E06 conformance driver for tbox::network::IPAddress and tbox::network::SockAddr.
//   driver script <cases.jsonl> <out.ndjson>        one JSON array of call descriptors per line = one execution (from TLC / replay)
//   driver random <seed> <nexec> <out.ndjson>       seeded random executions
// Call descriptors (strings are arrays of character codes, an IPv4 address is the array of its four bytes in dotted order):
//   {"e":"IpFrom","in":[..]}            IPAddress::FromString
//   {"e":"IpStr","ip":[a,b,c,d]}        toString, operator std::string, FromString(toString)
//   {"e":"IpOps","a":[..],"b":[..]}     a & b, a | b, ~a, a | ~b, a == b, Any(), Loop()
//   {"e":"SaDefault","b":k,"pat":p}     slot k = SockAddr()                        (slots 1..3; "pat": how the raw storage the object is
//   {"e":"SaFromStr","b":k,"in":[..]}   slot k = SockAddr::FromString(in)            constructed in was filled before: 0 zeros, 1 the bytes of
//   {"e":"SaMake","b":k,"ip":..,"port":n}   SockAddr(IPAddress, port)                AF_INET, 2 the bytes of AF_LOCAL, 3 0xff - results must not
//   {"e":"SaFromIn", same}                  SockAddr(sockaddr_in)                    depend on it)
//   {"e":"SaLocal","b":k,"path":[..]}   SockAddr(DomainSockPath(path))
//   {"e":"SaCopy","b":k,"s":j}          copy construction from slot j
//   {"e":"SaFromRaw","b":k,"s":j}       SockAddr(sockaddr, len) from the toSockAddr() image of slot j
//   {"e":"SaAssign","b":k,"s":j}        slot k = slot j
//   {"e":"SaDestroy","b":k}
// One ndjson record per call.  After every SockAddr call the record carries for every slot: alive, type(), toString() (or the kind of
// exception it threw), get(), the length and family produced by toSockAddr(), and the complete == and != matrices.
// A {"e":"Call"} line is written and flushed before every call; the orchestrator drops it when the call returned.
// Every SockAddr lives alone in a malloc block of exactly sizeof(SockAddr) bytes (ASan sees the first byte beyond addr_/len_).
// This program decides nothing; TLC does (spec/NetAddr/Trace_NetAddr.tla).
#include <vh.h>
#include <arpa/inet.h>
#include <fstream>
#include <memory>
#include <new>
#include <sys/un.h>
#include <nlohmann/json.hpp>
#include <tbox/network/ip_address.h>
#include <tbox/network/sockaddr.h>

using json = nlohmann::json;
using tbox::network::DomainSockPath;
using tbox::network::IPAddress;
using tbox::network::SockAddr;
static const int NS = 3;
static SockAddr *slot[NS + 1];

static std::string codes(const std::string &s) {
    std::string o = "[";
    for (size_t i = 0; i < s.size(); ++i) { if (i) o += ','; o += std::to_string((unsigned char)s[i]); }
    return o + "]";
}
static std::string from_codes(const json &j) { std::string s; for (auto &c : j) s += (char)(unsigned char)c.get<int>(); return s; }
static std::unique_ptr<std::string> heap_string(const std::string &s) {
    std::unique_ptr<char[]> raw(new char[s.size() ? s.size() : 1]);
    memcpy(raw.get(), s.data(), s.size());
    return std::unique_ptr<std::string>(new std::string(raw.get(), s.size()));
}
static void emit(const std::string &line) { vh::T().line(line); vh::T().flush(); }
static std::string exc_kind(std::exception_ptr e) {
    try { std::rethrow_exception(e); }
    catch (const IPAddress::FormatInvalid &) { return "FormatInvalid"; }
    catch (const std::length_error &) { return "length_error"; }
    catch (const std::exception &x) { return std::string("std:") + typeid(x).name(); }
    catch (...) { return "other"; }
}
struct Ip4 { unsigned char b[4]; };
static Ip4 ip_of(const json &j) { Ip4 r; for (int i = 0; i < 4; ++i) r.b[i] = (unsigned char)j[i].get<int>(); return r; }
static IPAddress make_ip(const Ip4 &x) { uint32_t v; memcpy(&v, x.b, 4); return IPAddress(v); }
static std::string ip_json(const IPAddress &ip) {
    uint32_t v = ip; unsigned char b[4]; memcpy(b, &v, 4);
    return "[" + std::to_string(b[0]) + "," + std::to_string(b[1]) + "," + std::to_string(b[2]) + "," + std::to_string(b[3]) + "]";
}
static std::string ip_json(const Ip4 &x) { return ip_json(make_ip(x)); }
static const char *tf(bool b) { return b ? "true" : "false"; }

// ---- IPAddress ------------------------------------------------------------------------------------------------------------
static void do_ip_from(const std::string &in) {
    emit("{\"e\":\"Call\",\"what\":\"IpFrom\",\"in\":" + codes(in) + "}");
    auto s = heap_string(in);
    IPAddress ip; std::string exc, str;
    try { ip = IPAddress::FromString(*s); str = ip.toString(); } catch (...) { exc = exc_kind(std::current_exception()); }
    emit("{\"e\":\"IpFrom\",\"in\":" + codes(in) + ",\"exc\":" + vh::jstr(exc) + ",\"ip\":" + ip_json(ip) + ",\"str\":" + codes(str) + "}");
}
static void do_ip_str(const Ip4 &x) {
    emit("{\"e\":\"Call\",\"what\":\"IpStr\",\"ip\":" + ip_json(x) + "}");
    std::unique_ptr<IPAddress> ip(new IPAddress(make_ip(x)));
    std::string out = ip->toString(), cast = static_cast<std::string>(*ip), bexc;
    IPAddress back;
    try { back = IPAddress::FromString(out); } catch (...) { bexc = exc_kind(std::current_exception()); }
    emit("{\"e\":\"IpStr\",\"ip\":" + ip_json(x) + ",\"out\":" + codes(out) + ",\"cast\":" + codes(cast) + ",\"back\":" + ip_json(back) +
         ",\"bexc\":" + vh::jstr(bexc) + "}");
}
static void do_ip_ops(const Ip4 &xa, const Ip4 &xb) {
    emit("{\"e\":\"Call\",\"what\":\"IpOps\",\"a\":" + ip_json(xa) + ",\"b\":" + ip_json(xb) + "}");
    IPAddress a = make_ip(xa), b = make_ip(xb);
    emit("{\"e\":\"IpOps\",\"a\":" + ip_json(xa) + ",\"b\":" + ip_json(xb) + ",\"and\":" + ip_json(a & b) + ",\"or\":" + ip_json(a | b) +
         ",\"inv\":" + ip_json(~a) + ",\"bcast\":" + ip_json(a | ~b) + ",\"eq\":" + tf(a == b) + ",\"any\":" + ip_json(IPAddress::Any()) +
         ",\"loop\":" + ip_json(IPAddress::Loop()) + "}");
}

// ---- SockAddr -------------------------------------------------------------------------------------------------------------
static void *raw_storage(int pat) {
    unsigned char *m = (unsigned char *)malloc(sizeof(SockAddr));
    unsigned short fam = pat == 1 ? AF_INET : pat == 2 ? AF_LOCAL : 0;
    for (size_t i = 0; i < sizeof(SockAddr); ++i)
        m[i] = pat == 3 ? 0xff : pat == 0 ? 0 : ((unsigned char *)&fam)[i % 2];
    return m;
}
static void destroy(int b) { if (slot[b]) { slot[b]->~SockAddr(); free(slot[b]); slot[b] = nullptr; } }

static std::string state() {
    std::string s = "\"st\":[";
    for (int b = 1; b <= NS; ++b) {
        if (b > 1) s += ',';
        if (!slot[b]) { s += "{\"a\":false}"; continue; }
        const SockAddr &x = *slot[b];
        std::string str, exc;
        try { str = x.toString(); } catch (...) { exc = exc_kind(std::current_exception()); }
        IPAddress ip; uint16_t port = 0;
        bool g = x.get(ip, port);
        struct sockaddr_storage ss;
        socklen_t n = x.toSockAddr(ss);
        s += std::string("{\"a\":true,\"t\":") + std::to_string((int)x.type()) + ",\"s\":" + codes(str) + ",\"x\":" + vh::jstr(exc) + ",\"g\":" + tf(g) +
             ",\"ip\":" + ip_json(ip) + ",\"port\":" + std::to_string(port) + ",\"n\":" + std::to_string(n) + ",\"f\":" + std::to_string(ss.ss_family) + "}";
    }
    s += "],\"eq\":[";
    std::string ne = "\"ne\":[";
    for (int i = 1; i <= NS; ++i) {
        if (i > 1) { s += ','; ne += ','; }
        s += '['; ne += '[';
        for (int j = 1; j <= NS; ++j) {
            if (j > 1) { s += ','; ne += ','; }
            bool both = slot[i] && slot[j];
            s += tf(both && (*slot[i] == *slot[j]));
            ne += tf(both && (*slot[i] != *slot[j]));
        }
        s += ']'; ne += ']';
    }
    return s + "]," + ne + "]";
}

static bool applicable(const json &c) {
    std::string e = c.value("e", "");
    int b = c.value("b", 0), s = c.value("s", 0);
    if (b < 1 || b > NS) return false;
    if (e == "SaCopy" || e == "SaFromRaw") return !slot[b] && s >= 1 && s <= NS && slot[s];
    if (e == "SaAssign") return slot[b] && s >= 1 && s <= NS && slot[s];
    if (e == "SaDestroy") return slot[b] != nullptr;
    return !slot[b];
}

static void do_sa(const json &c) {
    std::string e = c["e"].get<std::string>();
    int b = c.value("b", 0), s = c.value("s", 0), pat = c.value("pat", 0);
    json d = c; d.erase("st"); d.erase("eq"); d.erase("ne"); d.erase("e"); d.erase("what");
    std::string rest = d.dump().substr(1); rest.pop_back();                         // "b":1,...   (every SockAddr descriptor has "b")
    std::string head = "{\"e\":\"" + e + "\"," + rest;
    emit("{\"e\":\"Call\",\"what\":\"" + e + "\"," + rest + "}");
    if (e == "SaDefault") slot[b] = new (raw_storage(pat)) SockAddr();
    else if (e == "SaFromStr") { auto in = heap_string(from_codes(c["in"])); slot[b] = new (raw_storage(pat)) SockAddr(SockAddr::FromString(*in)); }
    else if (e == "SaMake") slot[b] = new (raw_storage(pat)) SockAddr(make_ip(ip_of(c["ip"])), (uint16_t)c["port"].get<int>());
    else if (e == "SaFromIn") {
        std::unique_ptr<struct sockaddr_in> in(new struct sockaddr_in);
        memset(in.get(), 0, sizeof(struct sockaddr_in));
        in->sin_family = AF_INET; in->sin_port = htons((uint16_t)c["port"].get<int>());
        Ip4 x = ip_of(c["ip"]); memcpy(&in->sin_addr.s_addr, x.b, 4);
        slot[b] = new (raw_storage(pat)) SockAddr(*in);
    } else if (e == "SaLocal") { std::unique_ptr<DomainSockPath> p(new DomainSockPath(*heap_string(from_codes(c["path"])))); slot[b] = new (raw_storage(pat)) SockAddr(*p); }
    else if (e == "SaCopy") slot[b] = new (raw_storage(pat)) SockAddr(*slot[s]);
    else if (e == "SaFromRaw") {
        struct sockaddr_storage ss;
        socklen_t n = slot[s]->toSockAddr(ss);
        // the image in a block that is 16 bytes (a struct sockaddr) or exactly n bytes, whichever is larger
        size_t sz = n > sizeof(struct sockaddr) ? n : sizeof(struct sockaddr);
        std::unique_ptr<unsigned char[]> raw(new unsigned char[sz]);
        memset(raw.get(), 0, sz); memcpy(raw.get(), &ss, n);
        slot[b] = new (raw_storage(pat)) SockAddr(*(const struct sockaddr *)raw.get(), n);
    } else if (e == "SaAssign") { SockAddr &dst = *slot[b]; const SockAddr &src = *slot[s]; dst = src; }
    else if (e == "SaDestroy") destroy(b);
    else { fprintf(stderr, "unknown case %s\n", c.dump().c_str()); _exit(3); }
    emit(head + "," + state() + "}");
}

static void run_case(const json &c) {
    std::string e = c.value("e", "");
    if (e == "IpFrom") do_ip_from(from_codes(c["in"]));
    else if (e == "IpStr") do_ip_str(ip_of(c["ip"]));
    else if (e == "IpOps") do_ip_ops(ip_of(c["a"]), ip_of(c["b"]));
    else if (e == "Reset" || e == "Call" || e == "Fault") { }
    else if (e.compare(0, 2, "Sa") == 0) {
        if (!applicable(c)) { fprintf(stderr, "case not applicable: %s\n", c.dump().c_str()); _exit(3); }
        do_sa(c);
    } else { fprintf(stderr, "unknown case %s\n", c.dump().c_str()); _exit(3); }
}
static void reset_all() { for (int b = 1; b <= NS; ++b) destroy(b); emit("{\"e\":\"Reset\"}"); }

// ---- random inputs ----------------------------------------------------------------------------------------------------------
static json jcodes(const std::string &s) { json a = json::array(); for (unsigned char ch : s) a.push_back((int)ch); return a; }
static json jip(vh::Rng &r) {
    static const int edge[] = {0, 1, 9, 10, 99, 100, 127, 128, 192, 199, 200, 254, 255};
    json a = json::array();
    for (int i = 0; i < 4; ++i) a.push_back(r.chance(60) ? edge[r.below(sizeof edge / sizeof *edge)] : (int)r.below(256));
    return a;
}
static std::string rnd_num(vh::Rng &r) {
    switch (r.below(12)) {
        case 0: return "";
        case 1: return "256";
        case 2: return "0" + std::to_string(r.below(400));                // octal, or junk when it has an 8 or 9
        case 3: { char b[16]; snprintf(b, sizeof b, r.chance(50) ? "0x%x" : "0X%X", (unsigned)r.below(300)); return b; }
        case 4: return std::to_string(r.chance(50) ? 65535 + r.below(3) : 16777214 + r.below(4));
        case 5: return r.chance(50) ? "4294967295" : r.chance(50) ? "4294967296" : "99999999999999999999";
        case 6: return std::string(1, "ax-+ "[r.below(5)]);
        default: return std::to_string(r.chance(50) ? r.below(256) : r.below(10));
    }
}
static std::string rnd_ipstr(vh::Rng &r) {
    std::string s;
    if (r.chance(55)) { for (int i = 0; i < 4; ++i) { if (i) s += '.'; s += std::to_string(r.chance(50) ? r.below(256) : r.below(3) * 127); } }
    else { int n = (int)r.range(1, 5); for (int i = 0; i < n; ++i) { if (i) s += '.'; s += rnd_num(r); } }
    if (r.chance(12)) s += " \t\n.x:/"[r.below(6)] + std::string(r.chance(50) ? "" : "z");
    if (r.chance(5)) s = " " + s;
    return s;
}
static std::string rnd_port(vh::Rng &r) {
    switch (r.below(12)) {
        case 0: return "";
        case 1: return std::to_string(65535 + r.below(3));
        case 2: return "-" + std::to_string(r.below(70000));
        case 3: return (r.chance(50) ? " " : "+") + std::to_string(r.below(65536));
        case 4: return std::to_string(r.below(65536)) + "x ;"[r.below(3)];
        case 5: return r.chance(50) ? "2147483647" : r.chance(50) ? "2147483648" : "99999999999";
        case 6: return "x";
        case 7: return "0" + std::to_string(r.below(100));
        default: return std::to_string(r.chance(50) ? r.below(65536) : r.below(1100));
    }
}
static std::string rnd_path(vh::Rng &r) {
    static const int lens[] = {0, 1, 2, 14, 15, 16, 106, 107, 108, 109, 110, 125, 126, 127, 128, 129, 200, 1000};
    size_t n = r.chance(50) ? (size_t)lens[r.below(sizeof lens / sizeof *lens)] : (size_t)r.range(1, 30);
    std::string s = n ? "/" : "";
    while (s.size() < n) s += (char)('a' + r.below(26));
    if (n && r.chance(10)) s[0] = '\0';                                             // abstract socket name
    if (n > 3 && r.chance(8)) s[n / 2] = '\0';
    return s;
}

int main(int argc, char **argv) {
    if (argc < 2) return 3;
    std::string mode = argv[1];
    vh::install_faults();
    if (mode == "script" && argc == 4) {
        vh::T().open(argv[3]);
        std::ifstream in(argv[2]); std::string line;
        while (std::getline(in, line)) {
            if (line.empty()) continue;
            json j = json::parse(line);
            if (j.is_array()) for (auto &c : j) run_case(c); else run_case(j);
            reset_all();
        }
    } else if (mode == "random" && argc == 5) {
        vh::Rng rng(strtoull(argv[2], nullptr, 10));
        int nexec = atoi(argv[3]);
        vh::T().open(argv[4]);
        static const char *sa_ops[] = {"SaDefault", "SaFromStr", "SaFromStr", "SaFromStr", "SaMake", "SaFromIn", "SaLocal", "SaLocal", "SaCopy", "SaCopy",
                                       "SaFromRaw", "SaAssign", "SaAssign", "SaAssign", "SaDestroy"};
        for (int x = 0; x < nexec; ++x) {
            for (int i = 0; i < 30; ++i) {
                int k = (int)rng.below(10);
                if (k == 0) do_ip_from(rnd_ipstr(rng));
                else if (k == 1) do_ip_str(ip_of(jip(rng)));
                else if (k == 2) do_ip_ops(ip_of(jip(rng)), ip_of(jip(rng)));
                else {
                    json c;
                    for (int tries = 0; tries < 60; ++tries) {
                        c = json::object();
                        c["e"] = sa_ops[rng.below(sizeof sa_ops / sizeof *sa_ops)];
                        c["b"] = (int)rng.range(1, NS); c["s"] = (int)rng.range(1, NS);
                        if (applicable(c)) break;
                        c = json();
                    }
                    if (c.is_null()) continue;
                    std::string e = c["e"].get<std::string>();
                    if (e != "SaCopy" && e != "SaFromRaw" && e != "SaAssign") c.erase("s");
                    if (e != "SaAssign" && e != "SaDestroy") c["pat"] = (int)rng.below(4);
                    if (e == "SaFromStr") c["in"] = jcodes(rng.chance(70) ? rnd_ipstr(rng) + ":" + rnd_port(rng) : rnd_path(rng));
                    if (e == "SaMake" || e == "SaFromIn") { c["ip"] = jip(rng); c["port"] = (int)(rng.chance(30) ? rng.below(3) * 32767 + rng.below(2) : rng.below(65536)); }
                    if (e == "SaLocal") c["path"] = jcodes(rnd_path(rng));
                    do_sa(c);
                }
            }
            reset_all();
        }
    } else return 3;
    vh::T().close();
    return 0;
}
