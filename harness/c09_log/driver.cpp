// C09 conformance driver for logging: LogPrintfFunc -> sinks (sync, async through the pipe, async file sink).
//   driver random <seed> <nexec> <scratch-dir> <out.ndjson>
// Phases: (re)configure thresholds / maximum length and enable or disable sinks at quiescent points, then K threads log
// numbered records (text "T<th>#<seq>:xxxx..." of chosen lengths around 0, the 2 KiB stack buffer and the configured maximum).
// Three sinks record what they receive: a Sink subclass (front end), an AsyncSink subclass with a tiny pipe configuration
// (formatted lines are parsed back), and the real AsyncFileSink (files are read back after disable()). Every call and every
// record that reached a sink is logged; TLC validates the trace against spec/Log/Trace_Log.tla. The driver decides nothing.
#include <vsched.h>
#include <dirent.h>
#include <fstream>
#include <sys/stat.h>
#include <sys/syscall.h>
#include <sys/time.h>
#include <sys/wait.h>
#include <tbox/base/log.h>
#include <tbox/base/log_impl.h>
#include <tbox/base/verif_hook.h>
#include <tbox/log/async_file_sink.h>
#include <tbox/log/async_sink.h>
#include <tbox/log/sink.h>

using namespace vs;
static std::mutex g_tidm;
static std::map<long, int> g_th_of_tid;
static int th_of(long tid) { std::lock_guard<std::mutex> g(g_tidm); auto i = g_th_of_tid.find(tid); return i == g_th_of_tid.end() ? 0 : i->second; }
static std::string g_long_mod = "mod" + std::string(1200, 'L');      // a module name longer than the 1 KiB scratch buffer of AsyncSink
static const char *MODS[] = {"modA", "modB", "modC", g_long_mod.c_str(), "modA.sub", "mod"};      // the last two: a rule's name is a strict prefix of another module's name, and the other way round
static const char *FUNCS[] = {"fnOne", "fnTwo"};
static const char *FILES[] = {"/src/dir/alpha.cpp", "beta.cpp", "/x/gamma.cpp"};
static const char *BASES[] = {"alpha.cpp", "beta.cpp", "gamma.cpp"};
static const char CODES[] = {'F', 'E', 'W', 'N', 'I', 'I', 'D', 'T'};

// same clock as LogPrintfFunc (time() may lag gettimeofday() by a tick across a second boundary)
static long long g_base_us = 0;                    // start of the current execution
static long long abs_us() { struct timeval tv; gettimeofday(&tv, nullptr); return (long long)tv.tv_sec * 1000000 + tv.tv_usec; }
static long long rel_us() { return abs_us() - g_base_us; }
static long now_sec() { struct timeval tv; gettimeofday(&tv, nullptr); return (long)tv.tv_sec; }
static std::string head_of(const char *p, size_t n) {
    std::vector<long long> v; for (size_t i = 0; i < n && i < 12; ++i) v.push_back((unsigned char)p[i]);
    return vh::jarr(v);
}
static bool pad_ok(const char *p, size_t n) { for (size_t i = 9; i < n; ++i) if (p[i] != 'x') return false; return true; }
static std::string got(int s, int th, int lvl, int lvlc, const std::string &mod, const std::string &fn, const std::string &file, int line,
                       size_t len, bool trunc, const char *text, bool ts_ok, int fi, long long ts) {
    return J("got") + kv("s", s) + kv("th", th) + kv("lvl", lvl) + kv("lvlc", lvlc) + ks("mod", mod) + ks("func", fn) + ks("file", file) + kv("line", line) +
           kv("len", (long long)len) + kb("trunc", trunc) + ",\"head\":" + head_of(text, len) + kb("pad", pad_ok(text, len)) + kb("ts_ok", ts_ok) + kv("fi", fi) + kv("ts", ts) + "}";
}

static thread_local int tl_th = 0;                 // logger number of this thread
static void front(int s) { emit(J("front") + kv("s", s) + kv("th", tl_th) + "}"); }      // the call is handed to sink s (under the library's lock)
// ---- sink 1: front-end recorder -------------------------------------------------------------------------------
struct RecSink : tbox::log::Sink {
    void onLogFrontEnd(const LogContent *c) override {
        front(1);
        long now = now_sec();
        emit(got(1, th_of(c->thread_id), c->level, CODES[c->level], c->module_id ? c->module_id : "(null)", c->func_name ? c->func_name : "(null)",
                 c->file_name ? c->file_name : "(null)", c->line, c->text_len, c->text_trunc, c->text_ptr ? c->text_ptr : "",
                 c->timestamp.usec < 1000000 && (long)c->timestamp.sec <= now && (long)c->timestamp.sec >= now - 300, 0,
                 (long long)c->timestamp.sec * 1000000 + c->timestamp.usec - g_base_us));
    }
};
// ---- formatted line -> Got ---------------------------------------------------------------------------------------
static void parse_line(int s, const std::string &line, int fi) {
    std::vector<std::string> t; size_t i = 0;
    while (i <= line.size()) { size_t j = line.find(' ', i); if (j == std::string::npos) j = line.size(); t.push_back(line.substr(i, j - i)); i = j + 1; }
    bool ok = t.size() >= 8 && t[0].size() == 1 && t[5].size() > 2 && t[5].substr(t[5].size() - 2) == "()";
    size_t k = 6; std::string text; bool trunc = false;
    if (ok) {
        if (t[k] != "--") { text = t[k++]; if (k < t.size() && t[k] == "(TRUNCATED)") { trunc = true; ++k; } }
        ok = k + 1 < t.size() + 0 && t[k] == "--" && k + 2 == t.size();
    }
    if (!ok) { emit(J("garbage") + kv("s", s) + ks("line", line.substr(0, 200)) + "}"); return; }
    std::string fl = t[k + 1]; size_t c = fl.rfind(':');
    struct tm tm; memset(&tm, 0, sizeof tm); tm.tm_isdst = -1;
    std::string dt = t[1] + " " + t[2].substr(0, 8);
    bool ts_ok = strptime(dt.c_str(), "%Y-%m-%d %H:%M:%S", &tm) != nullptr && t[2].size() == 15 && t[2][8] == '.';
    long ts = ts_ok ? (long)timegm(&tm) : 0, now = now_sec();      // the process runs with TZ=UTC
    ts_ok = ts_ok && ts <= now && ts >= now - 300;
    emit(got(s, th_of(atol(t[3].c_str())), -1, t[0][0], t[4], t[5].substr(0, t[5].size() - 2), c == std::string::npos ? fl : fl.substr(0, c),
             c == std::string::npos ? -1 : atoi(fl.c_str() + c + 1), text.size(), trunc, text.c_str(), ts_ok, fi,
             ts_ok ? (long long)ts * 1000000 + atol(t[2].c_str() + 9) - g_base_us : -1));
}
// ---- sink 2: AsyncSink subclass with a tiny pipe ------------------------------------------------------------------
struct RecAsync : tbox::log::AsyncSink {
    void onLogFrontEnd(const LogContent *c) override { front(2); tbox::log::AsyncSink::onLogFrontEnd(c); }
    void endline() override { cache_.push_back('\n'); }
    void flush() override {
        size_t b = 0;
        for (size_t i = 0; i < cache_.size(); ++i) if (cache_[i] == '\n') { parse_line(2, std::string(cache_.data() + b, i - b), 0); b = i + 1; }
        if (b != cache_.size()) emit(J("garbage") + kv("s", 2) + ks("line", "flush() with an incomplete line") + "}");
        cache_.clear();
    }
};
// ---- sink 3: the real file sink ------------------------------------------------------------------------------------
struct RecFile : tbox::log::AsyncFileSink {
    void onLogFrontEnd(const LogContent *c) override { front(3); tbox::log::AsyncFileSink::onLogFrontEnd(c); }
};
static std::string g_dir;
static int g_files_seen = 0;
static std::map<std::string, size_t> g_files_done;       // path -> bytes already read back
static std::map<std::string, int> g_file_index;
static void read_back_files() {
    std::vector<std::pair<std::pair<std::string, int>, std::string>> files;        // ((timestamp, postfix), path)
    DIR *d = opendir(g_dir.c_str()); if (!d) return;
    while (dirent *e = readdir(d)) {
        std::string n = e->d_name;
        if (n.find("latest") != std::string::npos || n[0] == '.') continue;
        // verif.<timestamp>.<pid>.log[.<postfix>]
        size_t p1 = n.find('.'), p2 = n.find('.', p1 + 1); if (p1 == std::string::npos || p2 == std::string::npos) continue;
        std::string ts = n.substr(p1 + 1, p2 - p1 - 1); size_t lg = n.find(".log"); int post = 0;
        if (lg != std::string::npos && lg + 4 < n.size()) post = atoi(n.c_str() + lg + 5);
        files.push_back({{ts, post}, g_dir + "/" + n});
    }
    closedir(d);
    std::sort(files.begin(), files.end());
    for (auto &f : files) {
        if (!g_file_index.count(f.second)) g_file_index[f.second] = ++g_files_seen;
        std::ifstream in(f.second, std::ios::binary); std::string all((std::istreambuf_iterator<char>(in)), std::istreambuf_iterator<char>());
        size_t b = g_files_done[f.second];         // a file that was not rolled over is appended to after a re-enable
        for (size_t i = b; i < all.size(); ++i) if (all[i] == '\n') { parse_line(3, all.substr(b, i - b), g_file_index[f.second]); b = i + 1; }
        if (b != all.size()) emit(J("garbage") + kv("s", 3) + ks("line", "file ends inside a record: " + f.second) + "}");
        g_files_done[f.second] = b;
    }
}

static thread_local int tl_dispatch_delay_us = 0;      // "boundary" step: this thread is held between taking its time stamp and the dispatch lock
static void hook(const char *name, long, long b) {
    if (tl_dispatch_delay_us > 0 && !strcmp(name, "log.dispatch.enter")) std::this_thread::sleep_for(std::chrono::microseconds(tl_dispatch_delay_us));
    if (!strncmp(name, "ap.p.", 5) || !strncmp(name, "log.", 4)) S().arrive(name, "P", b);
}

static std::string make_text(int th, int seq, size_t len) {
    char tag[16]; snprintf(tag, sizeof tag, "T%02d#%04d:", th, seq);
    std::string s(tag); if (s.size() < len) s.append(len - s.size(), 'x'); else s.resize(len);
    return s;
}
static char g_dynmod[1400] = "modA";
static int g_dyn_idx = 0;
struct CallSpec { int lvl, mod, fn, file, line; size_t len; bool args; bool dyn = false; };
// mode 1: wait until the last few hundred microseconds of the current second, then log with the dispatch held for 1.5 ms (the record is stamped in
// second N and reaches the sinks after records stamped in second N+1); mode 2: wait until the next second has begun, then log at once
static void logger(int th, std::vector<CallSpec> calls, int seq0);
static void boundary_logger(int th, CallSpec c, int seq0, int mode) {
    struct timeval tv; gettimeofday(&tv, nullptr);
    long sec0 = tv.tv_sec;
    for (;;) {
        gettimeofday(&tv, nullptr);
        if (mode == 1 && (tv.tv_sec > sec0 || tv.tv_usec >= 999400)) break;
        if (mode == 2 && tv.tv_sec > sec0) break;
        std::this_thread::sleep_for(std::chrono::microseconds(mode == 1 && tv.tv_usec < 990000 ? 2000 : 20));
    }
    tl_dispatch_delay_us = mode == 1 ? 1500 : 0;
    logger(th, std::vector<CallSpec>{c}, seq0);
    tl_dispatch_delay_us = 0;
}
static void logger(int th, std::vector<CallSpec> calls, int seq0) {
    { std::lock_guard<std::mutex> g(g_tidm); g_th_of_tid[syscall(SYS_gettid)] = th; }
    tl_th = th;
    int seq = seq0;
    for (auto &c : calls) {
        ++seq;
        std::string text = make_text(th, seq, c.len);
        emit(J("call") + kv("th", th) + kv("seq", seq) + kv("lvl", c.lvl) + ks("mod", MODS[c.mod]) + ks("func", FUNCS[c.fn]) + ks("file", BASES[c.file]) +
             kv("line", c.line) + kv("len", (long long)c.len) + kb("args", c.args) + kv("t0", rel_us()) + "}");
        // some calls pass the module name through one global buffer whose content changes between phases (only while no asynchronous sink
        // is enabled: those keep the pointer until their back end has formatted the record): different module names at the same address
        // over time, which must not matter to any filter
        const char *mod = c.dyn ? g_dynmod : MODS[c.mod];
        if (c.args) LogPrintfFunc(mod, FUNCS[c.fn], FILES[c.file], c.line, c.lvl, 1, "%s", text.c_str());
        else LogPrintfFunc(mod, FUNCS[c.fn], FILES[c.file], c.line, c.lvl, 0, text.c_str());
        emit(J("ret") + kv("th", th) + kv("t1", rel_us()) + "}");
        call_start() = now_ms();          // progress: the watchdog on the join below fires when no log call has returned for its whole interval
    }
}

// The main thread logs as logger 5, forks, and the child logs as logger 5 too (after forgetting every thread id of the parent: a record
// that carries the parent's id shows up as a record of nobody). Only the synchronous sink is enabled (the back-end threads of the
// asynchronous ones do not exist in the child). The child's events travel through a pipe and are appended to the parent's trace.
static void one_call(int th, int seq, const CallSpec &c) {
    std::string text = make_text(th, seq, c.len);
    emit(J("call") + kv("th", th) + kv("seq", seq) + kv("lvl", c.lvl) + ks("mod", MODS[c.mod]) + ks("func", FUNCS[c.fn]) + ks("file", BASES[c.file]) +
         kv("line", c.line) + kv("len", (long long)c.len) + kb("args", c.args) + kv("t0", rel_us()) + "}");
    if (c.args) LogPrintfFunc(MODS[c.mod], FUNCS[c.fn], FILES[c.file], c.line, c.lvl, 1, "%s", text.c_str());
    else LogPrintfFunc(MODS[c.mod], FUNCS[c.fn], FILES[c.file], c.line, c.lvl, 0, text.c_str());
    emit(J("ret") + kv("th", th) + kv("t1", rel_us()) + "}");
}
static void fork_and_log(vh::Rng &rng, int &seq, size_t mx) {
    auto some_call = [&] { CallSpec c; c.lvl = (int)rng.range(0, 7); c.mod = (int)rng.below(3); c.fn = (int)rng.below(2); c.file = (int)rng.below(3);
                           c.line = (int)rng.range(1, 9999); c.len = (size_t)rng.range(0, mx < 200 ? mx + 2 : 200); c.args = rng.chance(50); return c; };
    { std::lock_guard<std::mutex> g(g_tidm); g_th_of_tid[syscall(SYS_gettid)] = 5; }
    tl_th = 5;
    int before = (int)rng.range(0, 2), inchild = (int)rng.range(1, 3);
    for (int i = 0; i < before; ++i) one_call(5, ++seq, some_call());
    std::vector<CallSpec> cc; for (int i = 0; i < inchild; ++i) cc.push_back(some_call());
    int pfd[2]; if (pipe(pfd) != 0) return;
    size_t base;
    { std::lock_guard<std::mutex> g(evm()); base = events().size(); }
    pid_t pid = fork();
    if (pid == 0) {
        close(pfd[0]);
        g_th_of_tid.clear(); g_th_of_tid[syscall(SYS_gettid)] = 5;
        int sq = seq;
        for (auto &c : cc) one_call(5, ++sq, c);
        std::string all;
        for (size_t i = base; i < events().size(); ++i) all += events()[i].line + "\n";
        size_t o = 0; while (o < all.size()) { ssize_t w = write(pfd[1], all.data() + o, all.size() - o); if (w <= 0) break; o += (size_t)w; }
        _exit(0);
    }
    close(pfd[1]);
    if (pid < 0) { close(pfd[0]); return; }
    std::string all; char buf[4096]; ssize_t r;
    while ((r = read(pfd[0], buf, sizeof buf)) > 0) all.append(buf, (size_t)r);
    close(pfd[0]);
    int st = 0; waitpid(pid, &st, 0);
    size_t b = 0; int lines = 0;
    for (size_t i = 0; i < all.size(); ++i) if (all[i] == '\n') { emit(all.substr(b, i - b)); b = i + 1; ++lines; }
    if (!WIFEXITED(st) || WEXITSTATUS(st) != 0 || lines < 2 * inchild) emit(J("Fault") + ks("kind", "child") + ks("what", "the forked child did not finish its log calls") + "}");
    seq += inchild;
}

static void run_execution(vh::Rng &rng, uint64_t seed, int xno) {
    json sc; sc["delay_pct"] = (int)rng.pick(std::vector<int>{0, 40, 80}); sc["seed"] = seed;
    S().reset(sc);
    S().gpoints = {"ap.p.exit", "ap.p.enter", "ap.p.chunk", "log.dispatch.enter"};     // the last one: between the time stamp and the dispatch lock
    g_base_us = abs_us();
    g_dir = g_dir.substr(0, g_dir.rfind("/x")) + "/x" + std::to_string(xno);
    g_files_seen = 0; g_files_done.clear(); g_file_index.clear();
    if (DIR *d = opendir(g_dir.c_str())) {          // a fresh directory for every execution
        while (dirent *e = readdir(d)) if (e->d_name[0] != '.') unlink((g_dir + "/" + e->d_name).c_str());
        closedir(d);
    }
    { std::lock_guard<std::mutex> g(g_tidm); g_th_of_tid.clear(); }
    RecSink s1; RecAsync s2; RecFile s3;
    tbox::log::AsyncSink::Config pc;
    pc.buff_size = (size_t)rng.pick(std::vector<long long>{1, 7, (long long)sizeof(LogContent) - 1, (long long)sizeof(LogContent) + 1, 64, 4096});
    pc.buff_min_num = (size_t)rng.range(1, 2); pc.buff_max_num = pc.buff_min_num + (size_t)rng.range(0, 2); pc.interval = 1;
    s2.setConfig(pc);
    s3.setFilePath(g_dir); s3.setFilePrefix("verif");
    s3.setFileMaxSize((size_t)rng.pick(std::vector<long long>{1, 50, 300, 5000, 1 << 20}));
    bool en[4] = {false, false, false, false};
    tbox::log::Sink *sinks[4] = {nullptr, &s1, &s2, &s3};
    int seqs[6] = {0, 0, 0, 0, 0, 0};
    int nphase = (int)rng.range(1, 3);
    for (int ph = 0; ph < nphase; ++ph) {
        // thresholds and maximum length
        // (100 KiB texts through a pipe of 1..64-byte buffers only cost time: one buffer hand-over per few bytes)
        if (!en[2] && !en[3]) { g_dyn_idx = (int)rng.below(3); strcpy(g_dynmod, MODS[g_dyn_idx]); }     // the name behind the shared address changes
        if (rng.chance(30)) LogRemovePrintfFunc(0x7fff0000u + (uint32_t)rng.below(1000));     // removing a channel that does not exist changes nothing
        size_t mx = (size_t)rng.pick(pc.buff_size <= 64 ? std::vector<long long>{5, 20, 100, 2047, 2048, 2049, 5000} : std::vector<long long>{5, 20, 100, 2047, 2048, 2049, 5000, 102400, 102401, 150000});
        LogSetMaxLength(mx);
        std::string cfg = J("config") + kv("max", (long long)mx) + ",\"sinks\":[";
        for (int s = 1; s <= 3; ++s) {
            // the calls are issued in a random order (module thresholds before or after the default one, the default also through
            // setLevel("", l), thresholds overwritten): the configuration that counts is the final one
            int def = (int)rng.range(-1, 8);
            int ml[3]; bool has[3];
            for (int m = 0; m < 3; ++m) { has[m] = rng.chance(35); ml[m] = (int)rng.range(-1, 8); }
            std::vector<int> order = {0, 1, 2, 3, 3};           // 3 = the default threshold (issued twice)
            for (size_t i = order.size(); i > 1; --i) std::swap(order[i - 1], order[rng.below(i)]);
            bool def_seen = false;
            for (int what : order) {
                if (what == 3) {
                    int v = def_seen ? def : (rng.chance(50) ? (int)rng.range(-1, 8) : def);   // first time maybe a value that is overwritten later
                    if (order.back() == 3 && !def_seen) v = v;  // (no-op; the last default call below sets the final value)
                    if (rng.chance(50)) sinks[s]->setLevel(v); else sinks[s]->setLevel("", v);
                    def_seen = true;
                } else if (has[what]) {
                    if (rng.chance(30)) sinks[s]->setLevel(MODS[what], (int)rng.range(-1, 8));   // overwritten below
                    sinks[s]->setLevel(MODS[what], ml[what]);
                } else sinks[s]->unsetLevel(MODS[what]);
            }
            if (rng.chance(50)) sinks[s]->setLevel(def); else sinks[s]->setLevel("", def);          // final default threshold
            if (rng.chance(50)) for (int m = 0; m < 3; ++m) if (has[m]) sinks[s]->setLevel(MODS[m], ml[m]);   // sometimes modules last
            cfg += std::string(s > 1 ? "," : "") + "{\"def\":" + std::to_string(def) + ",\"mods\":[";
            bool first = true;
            for (int m = 0; m < 3; ++m) if (has[m]) { cfg += std::string(first ? "" : ",") + "{\"m\":\"" + MODS[m] + "\",\"l\":" + std::to_string(ml[m]) + "}"; first = false; }
            cfg += "]}";
        }
        emit(cfg + "]}");
        for (int s = 1; s <= 3; ++s) if (!en[s] && rng.chance(ph == 0 ? 85 : 60)) { sinks[s]->enable(); en[s] = true; emit(J("enabled") + kv("s", s) + "}"); }
        // loggers
        int nth = (int)rng.range(1, 4);
        bool overlap = rng.chance(40);                  // some sinks will be disabled while the loggers are at work
        std::vector<std::thread> th;
        for (int t = 1; t <= nth; ++t) {
            std::vector<CallSpec> calls;
            int n = overlap ? (int)rng.range(20, 60) : (int)rng.range(3, 30);
            for (int i = 0; i < n; ++i) {
                CallSpec c; c.lvl = (int)rng.range(-1, 8); c.mod = rng.chance(3) ? 3 : rng.chance(15) ? 4 + (int)rng.below(2) : (int)rng.below(3); c.fn = (int)rng.below(2); c.file = (int)rng.below(3); c.line = (int)rng.range(1, 9999);
                switch (rng.below(8)) {
                    case 0: c.len = 0; break;
                    case 1: c.len = (size_t)rng.range(1, 30); break;
                    case 2: c.len = mx > 0 ? mx - 1 : 0; break;
                    case 3: c.len = mx; break;
                    case 4: c.len = mx + (size_t)rng.range(1, 2); break;
                    case 5: c.len = (size_t)rng.range(2046, 2050); break;
                    default: c.len = (size_t)rng.range(0, 600); break;
                }
                if (c.len > 160000) c.len = 160000;
                c.args = rng.chance(60);
                if (rng.chance(30)) { c.dyn = true; c.mod = g_dyn_idx; }
                calls.push_back(c);
            }
            th.emplace_back(logger, t, calls, seqs[t]); seqs[t] += n;
        }
        auto disable_sink = [&](int s) {
            emit(J("disable_begin") + kv("s", s) + "}");
            {   CallGuard cg; sinks[s]->disable(); }
            en[s] = false;
            if (s == 3) read_back_files();
            emit(J("disabled") + kv("s", s) + "}");
        };
        // sometimes a sink is disabled while the loggers are still at work: whatever was handed to it must be there when disable() returns
        if (overlap) {
            std::this_thread::sleep_for(std::chrono::microseconds(rng.range(0, 400)));
            for (int s = 1; s <= 3; ++s) if (en[s] && rng.chance(60)) disable_sink(s);
        }
        {   CallGuard cg; for (auto &t : th) t.join(); }
        // two records on either side of a second boundary, the earlier one dispatched last: each must still show its own time
        if ((en[2] || en[3]) && rng.chance(30)) {
            CallSpec c; c.lvl = 0; c.mod = (int)rng.below(3); c.fn = 0; c.file = 0; c.line = 77; c.len = 12; c.args = rng.chance(50);
            std::thread a(boundary_logger, 1, c, seqs[1], 1), b(boundary_logger, 2, c, seqs[2], 2);
            seqs[1] += 1; seqs[2] += 1;
            {   CallGuard cg; a.join(); b.join(); }
        }
        // the process forks: the child's (only) thread is a thread of its own, its records carry its own id
        if (rng.chance(50)) {
            for (int s = 2; s <= 3; ++s) if (en[s]) disable_sink(s);
            if (!en[1]) { sinks[1]->enable(); en[1] = true; emit(J("enabled") + kv("s", 1) + "}"); }
            if (rng.chance(60)) fork_and_log(rng, seqs[5], mx);
            // only the synchronous sink is enabled and nobody is logging: the name behind the shared address changes WITHOUT any threshold
            // being set in between, and a short second batch logs through it (and through the literal names)
            {   // the last record before the change goes through the shared address, too (whatever a sink remembered about it is now stale)
                { std::lock_guard<std::mutex> g(g_tidm); g_th_of_tid[syscall(SYS_gettid)] = 5; }
                tl_th = 5;
                CallSpec c; c.lvl = (int)rng.range(0, 7); c.mod = g_dyn_idx; c.dyn = true; c.fn = 0; c.file = 1; c.line = 5; c.len = 9; c.args = false;
                logger(5, std::vector<CallSpec>{c}, seqs[5]); seqs[5] += 1;
            }
            g_dyn_idx = (g_dyn_idx + 1 + (int)rng.below(2)) % 3; strcpy(g_dynmod, MODS[g_dyn_idx]);
            std::vector<std::thread> th2;
            int nth2 = (int)rng.range(1, 2);
            for (int t = 1; t <= nth2; ++t) {
                std::vector<CallSpec> calls;
                int n = (int)rng.range(3, 10);
                for (int i = 0; i < n; ++i) {
                    CallSpec c; c.lvl = (int)rng.range(-1, 8); c.mod = (int)rng.below(3); c.fn = (int)rng.below(2); c.file = (int)rng.below(3); c.line = (int)rng.range(1, 9999);
                    c.len = (size_t)rng.range(0, 40); c.args = rng.chance(50);
                    if (i == 0 || rng.chance(70)) { c.dyn = true; c.mod = g_dyn_idx; }
                    calls.push_back(c);
                }
                th2.emplace_back(logger, t, calls, seqs[t]); seqs[t] += n;
            }
            {   CallGuard cg; for (auto &t : th2) t.join(); }
        }
        // some sinks are disabled at the end of the phase: everything logged so far must be there when disable() returns
        for (int s = 1; s <= 3; ++s) if (en[s] && (ph == nphase - 1 || rng.chance(40))) disable_sink(s);
    }
    emit(J("end") + "}");
    flush_events(true);
}

int main(int argc, char **argv) {
    if (argc != 6 || std::string(argv[1]) != "random") return 3;
    vs::init();
    setenv("TZ", "UTC", 1); tzset();
    tbox::verif::Hooks().point = hook;
    start_watchdog();
    uint64_t seed = strtoull(argv[2], nullptr, 10); int nexec = atoi(argv[3]);
    g_dir = std::string(argv[4]) + "/x0";
    vh::T().open(argv[5]);
    vh::Rng rng(seed);
    for (int i = 0; i < nexec; ++i) run_execution(rng, seed * 100000 + i, i);
    vh::T().close();
    _exit(0);
}
