// C05 conformance driver for tbox::eventx::ThreadPool (and WorkThread).
//   driver random <seed> <nexec> <out.ndjson> [pool|work]
//   driver script <scripts.jsonl> <out.ndjson>       one JSON object per line: {"ops":[...], "gates":[...]}
// The hook callback (CPP_TBOX_VERIF_POINT) gives every critical section of the real code a position in one global
// order (atomic sequence number taken while the pool's mutex is held) and emits one event per section; the task bodies and
// completion callbacks emit their own events. Events of an execution are sorted by sequence number and written as ndjson;
// TLC validates them against spec/ThreadPool/Trace_ThreadPool.tla. The driver decides nothing except "hang": if the pool
// does not finish accepted work / cleanup() does not return within the watchdog, a Fault event ends the trace.
// Schedule control: (a) seeded random delays at the points between critical sections, (b) gates: "hold <role> at <point>
// until <role> has passed <point> n times" (with a timeout, so a schedule that the code cannot follow is simply abandoned).
#include <vsched.h>
#include <fstream>
#include <stdexcept>
#include <tbox/base/verif_hook.h>
#include <tbox/event/loop.h>
#include <tbox/eventx/thread_pool.h>
#include <tbox/eventx/work_thread.h>

using namespace vs;
using namespace tbox;

// ------------------------------------------------------------------ roles, ids ----------------------------------
static std::thread::id g_main_tid;
static thread_local int tl_worker = 0;          // harness worker number of this thread (0 = not a pool worker)
static thread_local int tl_cur_task = 0;        // main thread: task number being submitted / queried
static thread_local uint64_t tl_query_seq = 0;  // main thread: sequence number taken inside status()/cancel()
static std::mutex g_mapm;
static std::map<long, int> g_task_of_token;     // pool token id -> harness task number
static std::map<long, int> g_worker_of_token;   // thread token id -> harness worker number (current generation)
static int g_next_worker = 0;
static bool is_main() { return std::this_thread::get_id() == g_main_tid; }
static int task_of(long tok) { std::lock_guard<std::mutex> g(g_mapm); auto i = g_task_of_token.find(tok); return i == g_task_of_token.end() ? -1 : i->second; }
static int worker_num(long tok) {
    if (tl_worker > 0) return tl_worker;
    // the worker's first point ("tp.w.loop") can be reached before createWorker() has published the thread token: wait for it
    for (int i = 0; i < 4000; ++i) {
        {   std::lock_guard<std::mutex> g(g_mapm);
            auto it = g_worker_of_token.find(tok);
            if (it != g_worker_of_token.end()) return tl_worker = it->second; }
        std::this_thread::sleep_for(std::chrono::microseconds(500));
    }
    return -1;
}

// ------------------------------------------------------------------ schedule control (harness/common/vsched.h) --
static void set_gpoints() {
    S().gpoints = {"tp.exec.unlocked", "tp.cleanup.unlocked", "tp.cleanup.flag", "tp.cleanup.notified", "tp.w.unlocked", "tp.w.body_begin",
                   "tp.w.body_end", "tp.w.leaving", "tp.init.unlocked", "wt.exec.unlocked", "wt.w.unlocked", "wt.cleanup.unlocked",
                   "wt.cleanup.notified", "wt.w.body_begin", "wt.w.body_end"};
}

// ------------------------------------------------------------------ the hook -----------------------------------------

static void hook(const char *name, long a, long b) {
    if (strncmp(name, "tp.", 3) && strncmp(name, "wt.", 3)) return;
    const bool pool = name[0] == 't';                    // "tp." ThreadPool, "wt." WorkThread
    const char *n = name + 3;
    const bool wpt = n[0] == 'w' && n[1] == '.';
    const char *role = wpt ? "W" : "M";
    (void)pool;
    // points whose argument is the worker's thread token
    int w = 0;
    if (wpt && !pool) w = tl_worker = 1;             // the single work thread
    else if (wpt && strcmp(n, "w.pred") && strcmp(n, "w.pred_false")) w = worker_num(a);
    else if (wpt) w = tl_worker;
    const std::string sr = wpt ? std::to_string(w) : std::string("M");      // role in a replayed TLC behaviour
    S().arrive(name, role, b, sr.c_str());
    uint64_t seq = next_seq();
    std::string e;
    if (!strcmp(n, "init")) e = J("init") + kv("min", a) + kv("max", b);
    else if (!strcmp(n, "spawn")) {
        int num;
        { std::lock_guard<std::mutex> g(g_mapm); num = ++g_next_worker; g_worker_of_token[a] = num; }
        e = J("spawn") + kv("w", num) + kv("n", b);
    } else if (!strcmp(n, "exec")) {
        { std::lock_guard<std::mutex> g(g_mapm); g_task_of_token[a] = tl_cur_task; }
        e = J("exec") + kv("t", tl_cur_task) + kv("lvl", b);          // "cb" is appended by the caller (see do_exec)
        emit_at(seq, e + "}");                                          // the cb flag travels in the preceding "submit" event
        S().pass(name, role, sr.c_str());
        return;
    } else if (!strcmp(n, "status") || !strcmp(n, "cancel")) { tl_query_seq = seq; S().pass(name, role, sr.c_str()); return; }
    else if (!strcmp(n, "cleanup.collect")) e = J("collect") + kv("n", a) + kb("flag", b != 0);
    else if (!strcmp(n, "cleanup.flag")) e = J("flag");
    else if (!strcmp(n, "cleanup.joined")) e = J("joined");
    else if (!strcmp(n, "w.exit_decide")) e = J("exit_decide") + kv("w", w) + kb("atomic", b != 0);
    else if (!strcmp(n, "w.wait")) e = J("wait") + kv("w", w);
    else if (!strcmp(n, "w.woken")) e = J("woken") + kv("w", w) + kb("flag", b != 0);
    else if (!strcmp(n, "w.pop")) e = J("pop") + kv("w", w) + kv("t", b ? task_of(b) : 0);
    else if (!strcmp(n, "w.unlocked")) e = J("unlocked") + kv("w", w);
    else if (!strcmp(n, "w.mark")) { if (b != 0) e = J("mark") + kv("w", w) + kv("t", task_of(b)); }
    else if (!strcmp(n, "w.body_begin")) e = J("body_begin") + kv("w", w) + kv("t", task_of(b));
    else if (!strcmp(n, "w.body_end")) e = J("body_end") + kv("w", w) + kv("t", task_of(b));
    else if (!strcmp(n, "w.erase")) e = J("erase") + kv("w", w) + kv("t", task_of(b));
    else if (!strcmp(n, "w.leaving")) e = J("leaving") + kv("w", w) + kb("joinme", b != 0);
    else if (!strcmp(n, "w.exit_free")) e = J("exit_free") + kv("w", w) + kb("found", b != 0);
    if (!e.empty()) emit_at(seq, e + "}");
    S().pass(name, role, sr.c_str());
}

// ------------------------------------------------------------------ the system under test ---------------------------
struct TaskRec { std::atomic<int> body{0}, cb{0}; bool has_cb = false, cancelled = false, accepted = false; eventx::ThreadPool::TaskToken tok; };
static event::Loop *g_loop = nullptr;
static eventx::ThreadPool *g_pool = nullptr;
static eventx::WorkThread *g_work = nullptr;        // "work" executions use the single work thread instead of the pool
static std::vector<TaskRec *> g_tasks;       // index = task number (1-based)
static bool g_ready = false;

static void spin_loop() { g_loop->runNext([] {}, "spin"); g_loop->runLoop(event::Loop::Mode::kOnce); }

// "work" executions have a second loop B on a thread of its own: a task may name the loop its completion callback must run on
static event::Loop *g_loopB = nullptr;
static std::thread g_thB;
static thread_local bool tl_is_b = false;
static const char *on_which() { return is_main() ? "M" : tl_is_b ? "B" : "X"; }

static void do_exec(int k, int prio, int dur_us, bool cb, bool onB = false, bool throws = false) {
    while ((int)g_tasks.size() <= k) g_tasks.push_back(new TaskRec);
    TaskRec *r = g_tasks[k];
    r->has_cb = cb;
    tl_cur_task = k;
    auto body = [k, r, dur_us, throws] {
        emit(J("body") + kv("t", k) + kb("worker", !is_main() && tl_worker > 0) + "}");
        if (dur_us > 0) std::this_thread::sleep_for(std::chrono::microseconds(dur_us));
        r->body++;
        if (throws) throw std::runtime_error("task body throws");     // the pool catches it: the task has been executed all the same
    };
    auto done = [k, r] { emit(J("cb") + kv("t", k) + ks("on", on_which()) + "}"); r->cb++; };
    onB = onB && g_work && g_loopB && cb;
    CallGuard cg;
    // the "exec" event is emitted inside execute() by the hook; the cb flag is emitted just before as its own event
    emit(J("submit") + kv("t", k) + kb("cb", cb) + kv("prio", g_work ? -2 : prio) + ks("loop", onB ? "B" : "M") + "}");   // WorkThread: one FIFO queue (level 0)
    if (g_work) { if (cb) r->tok = onB ? g_work->execute(body, done, g_loopB) : g_work->execute(body, done); else r->tok = g_work->execute(body); }
    else if (cb) r->tok = g_pool->execute(body, done, prio); else r->tok = g_pool->execute(body, prio);
    r->accepted = !r->tok.isNull();
    if (!r->accepted) emit(J("rejected") + kv("t", k) + "}");
}
static void do_status(int k) {
    if (k >= (int)g_tasks.size() || !g_tasks[k]->accepted) return;
    CallGuard cg;
    tl_query_seq = 0;
    int si = g_work ? (int)g_work->getTaskStatus(g_tasks[k]->tok) : (int)g_pool->getTaskStatus(g_tasks[k]->tok);
    const char *a = si == (int)eventx::ThreadPool::TaskStatus::kWaiting ? "waiting" : si == (int)eventx::ThreadPool::TaskStatus::kExecuting ? "executing" : "notfound";
    emit_at(tl_query_seq ? tl_query_seq : next_seq(), J("status") + kv("t", k) + ",\"ans\":\"" + a + "\"}");
}
static void do_cancel(int k) {
    if (k >= (int)g_tasks.size() || !g_tasks[k]->accepted) return;
    CallGuard cg;
    tl_query_seq = 0;
    int a = g_work ? g_work->cancel(g_tasks[k]->tok) : g_pool->cancel(g_tasks[k]->tok);
    if (a == 0) g_tasks[k]->cancelled = true;
    emit_at(tl_query_seq ? tl_query_seq : next_seq(), J("cancel") + kv("t", k) + kv("ans", a) + "}");
}
static void do_init(int mn, int mx) {
    CallGuard cg;
    if (g_work) return;
    bool ok = g_pool->initialize(mn, mx);
    emit(J("init_ret") + kb("ok", ok) + "}");
    if (ok) g_ready = true;
}
static void do_cleanup() {
    CallGuard cg;
    if (g_work) g_work->cleanup(); else g_pool->cleanup();
    emit(J("cleanup_ret") + "}");
    g_ready = false;
}
static void wait_quiescent() {
    // every task accepted since the last initialize and not cancelled must run (C05: accepted tasks are executed)
    long long t0 = now_ms();
    for (;;) {
        bool all = true;
        for (size_t k = 1; k < g_tasks.size(); ++k) {
            TaskRec *r = g_tasks[k];
            if (!r->accepted || r->cancelled) continue;
            if (r->body.load() == 0 || (r->has_cb && r->cb.load() == 0)) all = false;
        }
        if (all) return;
        spin_loop();
        if (now_ms() - t0 > 20000) hang("accepted tasks were not executed within 20 s while the pool was idle");
        std::this_thread::sleep_for(std::chrono::microseconds(200));
    }
}

static void run_execution(const json &x) {
    S().reset(x); set_gpoints();
    if (x.contains("schedule")) S().seq_load(x["schedule"]);
    for (auto t : g_tasks) delete t;
    g_tasks.clear(); g_tasks.push_back(new TaskRec);
    { std::lock_guard<std::mutex> g(g_mapm); g_task_of_token.clear(); g_worker_of_token.clear(); g_next_worker = 0; }
    g_ready = false;
    const bool work = x.value("kind", std::string("pool")) == "work";
    if (work) {
        // the constructor starts the one worker: same data model with min = max = 1
        emit(J("spawn") + kv("w", 1) + kv("n", 1) + "}"); emit(J("init") + kv("min", 1) + kv("max", 1) + "}");
        { std::lock_guard<std::mutex> g(g_mapm); g_next_worker = 1; }
        g_work = new eventx::WorkThread(g_loop); g_pool = nullptr; g_ready = true;
        g_loopB = event::Loop::New();
        {   event::Loop *lb = g_loopB; g_thB = std::thread([lb] { tl_is_b = true; lb->runLoop(event::Loop::Mode::kForever); }); }
    } else { g_work = nullptr; g_pool = new eventx::ThreadPool(g_loop); }
    bool dropped_since_init = false;
    for (auto &op : x["ops"]) {
        std::string o = op["o"];
        if (op.value("call", false)) { if (S().seq_wait("M", "call")) S().seq_done("M", "call"); }     // its turn in the replayed behaviour
        if (o == "init") { do_init(op["min"], op["max"]); }
        else if (o == "exec") do_exec(op["t"], op.value("prio", 0), op.value("us", 0), op.value("cb", false), op.value("loop", std::string("M")) == "B", op.value("throw", false));
        else if (o == "status") do_status(op["t"]);
        else if (o == "cancel") do_cancel(op["t"]);
        else if (o == "spin") { for (int i = 0; i < op.value("n", 1); ++i) spin_loop(); }
        else if (o == "sleep") std::this_thread::sleep_for(std::chrono::microseconds(op.value("us", 100)));
        else if (o == "await") S().await(op["key"], op.value("n", 1));
        else if (o == "cleanup") {
            // tasks still waiting are dropped by cleanup: mark them so that the final wait does not expect them
            do_cleanup(); dropped_since_init = true;
            for (size_t k = 1; k < g_tasks.size(); ++k) if (g_tasks[k]->accepted && g_tasks[k]->body.load() == 0) g_tasks[k]->cancelled = true;
        }
    }
    (void)dropped_since_init;
    if (g_ready) { wait_quiescent(); do_cleanup(); }
    for (int i = 0; i < 3; ++i) spin_loop();          // drain posted completion callbacks / join closures
    {   CallGuard cg; delete g_pool; g_pool = nullptr; delete g_work; g_work = nullptr; }
    for (int i = 0; i < 2; ++i) spin_loop();
    if (g_loopB) {          // loop B runs what was posted to it, then stops
        event::Loop *lb = g_loopB;
        {   CallGuard cg; lb->runInLoop([lb] { lb->exitLoop(); }, "verif"); g_thB.join(); }
        delete lb; g_loopB = nullptr;
    }
    emit(J("end") + kv("gate_timeouts", S().gate_timeouts.load()) + kv("seq_diverged", S().seq_diverged.load()) + kv("seq_div_at", S().seq_div_at) + ks("seq_div_who", S().seq_div_who + (S().seq_div_at >= 0 && (size_t)S().seq_div_at < S().seq.size() ? " expected " + S().seq[S().seq_div_at].first + ":" + S().seq[S().seq_div_at].second : std::string())) + "}");
    flush_events(true);
}

static json random_execution(vh::Rng &rng, uint64_t seed) {
    json x; x["seed"] = seed; x["delay_pct"] = (int)rng.pick(std::vector<int>{0, 30, 60, 90});
    json ops = json::array();
    static const int cfgs[][2] = {{0, 1}, {0, 2}, {1, 1}, {1, 2}, {0, 3}, {2, 4}, {1, 3}};
    auto &c = cfgs[rng.below(7)];
    const bool work = rng.chance(25);
    if (work) x["kind"] = "work";
    else ops.push_back({{"o", "init"}, {"min", c[0]}, {"max", c[1]}});
    int nt = 0, nops = (int)rng.range(4, 30);
    bool ready = true;
    for (int i = 0; i < nops; ++i) {
        int r = (int)rng.below(100);
        if (!ready) {
            if (work) break;                 // a cleaned-up work thread cannot be re-initialised
            if (rng.chance(70)) { auto &d = cfgs[rng.below(7)]; ops.push_back({{"o", "init"}, {"min", d[0]}, {"max", d[1]}}); ready = true; }
            else ops.push_back({{"o", "spin"}, {"n", 1}});
            continue;
        }
        if (r < 45 || nt == 0) {
            ++nt;
            int us = rng.chance(50) ? 0 : rng.chance(70) ? (int)rng.range(1, 300) : (int)rng.range(300, 3000);
            ops.push_back({{"o", "exec"}, {"t", nt}, {"prio", (int)rng.range(-3, 3)}, {"us", us}, {"cb", rng.chance(50)}, {"loop", (work && rng.chance(40)) ? "B" : "M"}, {"throw", rng.chance(12)}});
        } else if (r < 65) ops.push_back({{"o", "status"}, {"t", (int)rng.range(1, nt)}});
        else if (r < 80) ops.push_back({{"o", "cancel"}, {"t", (int)rng.range(1, nt)}});
        else if (r < 90) ops.push_back({{"o", "spin"}, {"n", (int)rng.range(1, 3)}});
        else if (r < 96) ops.push_back({{"o", "sleep"}, {"us", (int)rng.range(10, 2000)}});
        else { ops.push_back({{"o", "cleanup"}}); ready = false; }
    }
    x["ops"] = ops;
    return x;
}

int main(int argc, char **argv) {
    if (argc < 4) return 3;
    vs::init();
    g_main_tid = std::this_thread::get_id();
    tbox::verif::Hooks().point = hook;
    g_loop = event::Loop::New();
    start_watchdog();
    std::string mode = argv[1];
    if (mode == "random") {
        uint64_t seed = strtoull(argv[2], nullptr, 10); int nexec = atoi(argv[3]);
        vh::T().open(argv[4]);
        vh::Rng rng(seed);
        std::ofstream scripts(std::string(argv[4]) + ".scripts");
        for (int i = 0; i < nexec; ++i) {
            json x = random_execution(rng, seed * 100000 + i);
            scripts << x.dump() << "\n"; scripts.flush();
            run_execution(x);
        }
    } else if (mode == "script") {
        vh::T().open(argv[3]);
        std::ifstream in(argv[2]); std::string line;
        while (std::getline(in, line)) { if (line.empty()) continue; run_execution(json::parse(line)); }
    } else return 3;
    vh::T().close();
    _exit(0);       // skip static destruction while the detached watchdog may still run
}
