// C01 conformance driver for the event loop's deferred tasks (runInLoop / runNext / run / cancel / exit / re-run / destroy).
//   driver random <seed> <nexec> <out.ndjson>
//   driver script <scripts.jsonl> <out.ndjson>
// The main thread owns the loop (pre-loop submissions, runLoop, re-run, destruction); foreign threads submit numbered callables
// through runInLoop() while it starts, iterates, exits and restarts. Hook points inside the loop's critical sections give each
// queue operation a position in one global order; callables log their own execution (task, thread). TLC validates the sorted
// events against spec/Loop/Trace_Deferred.tla. If a run of the loop does not come back (a lost wake-up: the exit task is
// submitted through runInLoop by the last foreign thread) the watchdog ends the trace with a Fault.
#include <vsched.h>
#include <fstream>
#include <tbox/base/verif_hook.h>
#include <tbox/event/loop.h>

using namespace vs;
using tbox::event::Loop;

static std::thread::id g_main_tid;
static thread_local int tl_cur_task = 0;
static thread_local const char *tl_name = "M";
static Loop *g_loop = nullptr;
static std::mutex g_idm;
static std::map<int, Loop::RunId> g_id_of_task;
static json g_bodies;                         // task number (string) -> list of body ops
static std::atomic<int> g_foreign_left{0};
static int g_exit_task = 0;
static std::atomic<int> g_internal{0};
static std::atomic<bool> g_in_drain{false};       // the loop thread is inside the shutdown drain (which the code runs under its lock)
static std::atomic<int> g_submits_done{0};      // cross-thread submissions that have returned

static bool is_main() { return std::this_thread::get_id() == g_main_tid; }
static const char *role() { return is_main() ? "M" : "F"; }

static void hook(const char *name, long a, long b) {
    if (strncmp(name, "loop.", 5)) return;
    const char *n = name + 5;
    if (!strcmp(n, "after.enter") || !strcmp(n, "destroy.cleanup")) g_in_drain = true;       // cleared when runLoop() has returned / at the next start
    else if (!strcmp(n, "start.enter")) g_in_drain = false;
    S().arrive(name, role(), b);
    uint64_t seq = next_seq();
    std::string e;
    // a push that is not one of the driver's submissions is the library's own deferred work (e.g. freeing the finished exit timer)
    int t = tl_cur_task; const char *th = tl_name;
    if (t == 0 && (!strcmp(n, "ril.push") || !strcmp(n, "next.push"))) { t = 1000 + g_internal.fetch_add(1); th = "L"; }
    if (!strcmp(n, "ril.push")) e = J("push_in") + kv("t", t) + ks("th", th) + kb("wrote", b != 0);
    else if (!strcmp(n, "next.push")) e = J("push_next") + kv("t", t) + ks("th", th);
    else if (!strcmp(n, "swap.next")) e = J("swap_next") + kv("n", a) + kv("left", b);
    else if (!strcmp(n, "swap.in")) e = J("swap_in") + kv("n", a) + kv("left", b);
    else if (!strcmp(n, "drain.gen")) e = J("drain_gen") + kv("nn", a) + kv("ni", b);
    else if (!strcmp(n, "start.locked")) e = J("start_locked") + kv("n", a) + kb("wrote", b != 0);
    else if (!strcmp(n, "after.closed")) e = J("after_closed") + kb("req", a != 0);
    if (!e.empty()) emit_at(seq, e + "}");
    S().pass(name, role());
}

static void do_op(const json &op);
static std::function<void()> make_task(int k) {
    return [k] {
        emit(J("exec") + kv("t", k) + kb("main", is_main()) + "}");
        auto it = g_bodies.find(std::to_string(k));
        if (it != g_bodies.end()) for (auto &op : *it) do_op(op);
    };
}
static void submit(const std::string &entry, int k) {
    tl_cur_task = k;
    Loop::RunId id = 0;
    if (entry == "ril") id = g_loop->runInLoop(make_task(k), "verif");
    else if (entry == "next") id = g_loop->runNext(make_task(k), "verif");
    else id = g_loop->run(make_task(k), "verif");
    tl_cur_task = 0;
    std::lock_guard<std::mutex> g(g_idm);
    g_id_of_task[k] = id;
}
static void do_op(const json &op) {
    std::string o = op["o"];
    if (o == "ril" || o == "next" || o == "run") submit(o, op["t"]);
    else if (o == "cancel") {
        int k = op["t"]; Loop::RunId id = 0;
        { std::lock_guard<std::mutex> g(g_idm); auto i = g_id_of_task.find(k); if (i == g_id_of_task.end()) return; id = i->second; }
        bool r = g_loop->cancel(id);
        emit(J("cancel") + kv("t", k) + kb("res", r) + "}");
    } else if (o == "exit") {        // immediately, or through the exit timer
        int ms = op.value("ms", 0);
        emit(J("exit") + kv("ms", ms) + "}");
        if (ms > 0) g_loop->exitLoop(std::chrono::milliseconds(ms)); else g_loop->exitLoop();
    }
    else if (o == "sleep") std::this_thread::sleep_for(std::chrono::microseconds(op.value("us", 50)));
    else if (o == "await_submit") {
        // a task (on the loop thread) waits until one more cross-thread submission has RETURNED (or no submitter is left): runInLoop() from
        // another thread must not be blocked by whatever the loop thread is executing
        // (not during the shutdown drain: the code runs that under its lock, by design cross-thread submitters wait until it is over)
        int c0 = g_submits_done.load(); long long t0 = now_ms();
        while (!g_in_drain.load() && g_submits_done.load() == c0 && g_foreign_left.load() > 0) {
            if (now_ms() - t0 > 3000) vh::fault("blocked", "a cross-thread runInLoop() did not return for 3 s while a task was executing");    // ends the run
            std::this_thread::sleep_for(std::chrono::microseconds(50));
        }
    }
}
static void foreign_thread(json ops, std::string name) {
    tl_name = strdup(name.c_str());
    for (auto &op : ops) {
        if (op.contains("us")) std::this_thread::sleep_for(std::chrono::microseconds(op["us"].get<int>()));
        do_op(op);
        g_submits_done.fetch_add(1);
    }
    if (g_foreign_left.fetch_sub(1) == 1) submit("ril", g_exit_task);      // the last foreign thread asks the loop to exit
}

static void run_execution(const json &x) {
    S().reset(x); g_internal = 0;
    S().gpoints = {"loop.ril.enter", "loop.start.enter", "loop.start.enabled", "loop.after.enter", "loop.pass.begin", "loop.after.drained"};
    g_bodies = x.value("tasks", json::object());
    watchdog_ms() = x.value("watchdog_ms", 20000);
    { std::lock_guard<std::mutex> g(g_idm); g_id_of_task.clear(); }
    g_loop = Loop::New(x.value("backend", std::string("epoll")));
    emit(J("begin") + ks("backend", x.value("backend", std::string("epoll"))) + "}");
    for (auto &round : x["rounds"]) {
        for (auto &op : round.value("pre", json::array())) do_op(op);
        g_exit_task = round["exit_task"];
        g_bodies[std::to_string(g_exit_task)] = json::array({{{"o", "exit"}, {"ms", round.value("exit_ms", 0)}}});
        bool once = round.value("mode", std::string("forever")) == "once";      // one pass only: whatever is submitted later stays pending
        std::vector<std::thread> th;
        auto fs = round.value("foreign", json::array());
        g_foreign_left = (int)fs.size();
        int i = 0;
        for (auto &ops : fs) { ++i; th.emplace_back(foreign_thread, ops, "F" + std::to_string(i)); }
        if (fs.empty()) submit("next", g_exit_task);
        emit(J("run_loop") + kb("once", once) + "}");
        {   CallGuard cg; g_loop->runLoop(once ? Loop::Mode::kOnce : Loop::Mode::kForever); }
        g_in_drain = false;
        emit(J("loop_return") + "}");
        for (auto &t : th) t.join();
    }
    if (x.contains("after_cleanup")) {
        // the owner calls cleanup() on the stopped loop itself (it drains what is pending), defers some more work, and only then destroys the
        // loop: what was deferred after the explicit cleanup() still has to run (at destruction)
        emit(J("cleanup_call") + "}");
        g_in_drain = true;
        {   CallGuard cg; g_loop->cleanup(); }
        g_in_drain = false;
        emit(J("cleanup_ret") + "}");
        for (auto &op : x["after_cleanup"]) do_op(op);
    }
    emit(J("destroy") + "}");
    g_in_drain = true;
    {   CallGuard cg; delete g_loop; g_loop = nullptr; }
    emit(J("destroyed") + "}");
    emit(J("end") + kv("gate_timeouts", S().gate_timeouts.load()) + "}");
    flush_events(true);
}

static json random_execution(vh::Rng &rng, uint64_t seed) {
    json x; x["seed"] = seed; x["delay_pct"] = (int)rng.pick(std::vector<int>{0, 30, 60, 90});
    x["backend"] = rng.chance(50) ? "epoll" : "select";
    int next_task = 0;
    json tasks = json::object(), rounds = json::array();
    int nrounds = (int)rng.range(1, 3);
    std::vector<int> known;
    auto body = [&](int depth) {
        json b = json::array();
        int n = rng.chance(60) ? 0 : (int)rng.range(1, 3);
        for (int i = 0; i < n; ++i) {
            int r = (int)rng.below(100);
            if (r < 35 && depth < 2) { int k = ++next_task; known.push_back(k); b.push_back({{"o", rng.chance(50) ? "next" : rng.chance(50) ? "ril" : "run"}, {"t", k}}); tasks[std::to_string(k)] = json::array(); }
            else if (r < 70 && !known.empty()) b.push_back({{"o", "cancel"}, {"t", known[rng.below(known.size())]}});
            else if (r < 78) b.push_back({{"o", "exit"}, {"ms", rng.chance(30) ? (int)rng.range(1, 4) : 0}});
            else if (r < 84) b.push_back({{"o", "await_submit"}});
            else b.push_back({{"o", "sleep"}, {"us", (int)rng.range(1, 200)}});
        }
        return b;
    };
    if (rng.chance(10)) {
        // a chain of tasks, each submitting the next, deeper than the 100 generations one shutdown drain works through: whatever the drain leaves
        // is still pending and runs when the loop runs again or is destroyed - nothing may be dropped
        int L = (int)rng.range(101, 140); std::string kind = rng.chance(50) ? "next" : "ril";
        json round; json pre = json::array();
        pre.push_back({{"o", kind}, {"t", 1}});
        for (int k = 1; k <= L; ++k) tasks[std::to_string(k)] = k < L ? json::array({{{"o", kind}, {"t", k + 1}}}) : json::array();
        next_task = L;
        round["pre"] = pre; round["foreign"] = json::array(); round["exit_task"] = ++next_task;
        if (rng.chance(50)) round["mode"] = "once";
        rounds.push_back(round);
        x["rounds"] = rounds; x["tasks"] = tasks;
        return x;
    }
    for (int r = 0; r < nrounds; ++r) {
        json round; json pre = json::array();
        int npre = (int)rng.range(0, 4);
        for (int i = 0; i < npre; ++i) {
            if (rng.chance(20) && !known.empty()) { pre.push_back({{"o", "cancel"}, {"t", known[rng.below(known.size())]}}); continue; }
            int k = ++next_task; known.push_back(k);
            pre.push_back({{"o", rng.chance(40) ? "next" : rng.chance(50) ? "ril" : "run"}, {"t", k}});
            tasks[std::to_string(k)] = body(0);
        }
        json foreign = json::array();
        int nf = (int)rng.range(0, 3);
        for (int f = 0; f < nf; ++f) {
            json ops = json::array();
            int n = (int)rng.range(1, 6);
            for (int i = 0; i < n; ++i) {
                int k = ++next_task; known.push_back(k);
                json op = {{"o", "ril"}, {"t", k}};
                if (rng.chance(50)) op["us"] = (int)rng.range(0, 400);
                ops.push_back(op);
                tasks[std::to_string(k)] = body(1);
            }
            foreign.push_back(ops);
        }
        round["pre"] = pre; round["foreign"] = foreign; round["exit_task"] = ++next_task;
        if (rng.chance(25)) round["mode"] = "once";
        if (rng.chance(25)) round["exit_ms"] = (int)rng.range(1, 4);
        rounds.push_back(round);
    }
    if (rng.chance(30)) {       // explicit cleanup() of the stopped loop, then a few more submissions left pending for the destructor
        json ac = json::array();
        int n = (int)rng.range(0, 3);
        for (int i = 0; i < n; ++i) { int k = ++next_task; ac.push_back({{"o", rng.chance(50) ? "next" : rng.chance(50) ? "ril" : "run"}, {"t", k}}); tasks[std::to_string(k)] = json::array(); }
        x["after_cleanup"] = ac;
    }
    x["rounds"] = rounds; x["tasks"] = tasks;
    return x;
}

int main(int argc, char **argv) {
    if (argc < 4) return 3;
    vs::init();
    g_main_tid = std::this_thread::get_id();
    tbox::verif::Hooks().point = hook;
    start_watchdog();
    std::string mode = argv[1];
    if (mode == "random" && argc == 5) {
        uint64_t seed = strtoull(argv[2], nullptr, 10); int nexec = atoi(argv[3]);
        vh::T().open(argv[4]);
        vh::Rng rng(seed);
        std::ofstream scripts(std::string(argv[4]) + ".scripts");
        for (int i = 0; i < nexec; ++i) {
            json x = random_execution(rng, seed * 100000 + i);
            scripts << x.dump() << "\n"; scripts.flush();
            run_execution(x);
        }
    } else if (mode == "script") {
        vh::T().open(argv[3]);
        std::ifstream in(argv[2]); std::string line;
        while (std::getline(in, line)) { if (line.empty()) continue; run_execution(json::parse(line)); }
    } else return 3;
    vh::T().close();
    _exit(0);
}
