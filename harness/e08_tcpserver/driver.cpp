// E08 conformance driver for tbox::network::TcpServer (on TcpAcceptor + TcpConnection).
//   driver script <scripts.jsonl> <sockdir> <out.ndjson>
//        one JSON object per line: {"fam":"unix"|"tcp","arm":{"C":..,"R":..,"D":..},"ops":[{"o":..,"t":..,"c":..,"n":..}...]}
//        ops: init start stop cleanup send(t,n) disc(t) shutdown(t) arm(w,a) cconnect csend(c,n) cclose(c) pass
//   driver random <seed> <nexec> <nops> <sockdir> <out.ndjson>
// The server lives in a real epoll loop driven pass by pass (kForever; the driver is a runNext task that re-posts itself for a
// `pass`).  The clients are sockets of this program (AF_UNIX path in <sockdir> / 127.0.0.1 in a private network namespace):
// `cconnect` opens the next one, `csend` writes bytes whose values identify the client and the position in its stream,
// `cclose` closes it.  Tokens are reported as small numbers in the order in which the connected callback first shows them (a
// token seen twice gets its old number; t beyond the known ones / 0 stands for a token the server never issued).
// The callbacks record Connected / Received / Disconnected and, when armed (one shot), call the API from inside the callback
// (React_<what> target ... ReactRet value).  Every op is recorded before it is applied, then the events it caused, then a `ret`
// line: return value, state(), the tokens isClientValid() accepts, and per open client the bytes it has received from the
// server and whether it has read the end of the stream.  The trace is validated by TLC against
// spec/TcpServer/Trace_TcpServer.tla; this program decides nothing.
#include <vh.h>
#include <fstream>
#include <functional>
#include <map>
#include <memory>
#include <nlohmann/json.hpp>
#include <tbox/base/verif_hook.h>
#include <tbox/event/loop.h>
#include <tbox/network/tcp_server.h>
#include "../e07_tcpclient/netsim.h"

using json = nlohmann::json;
using namespace tbox;
using namespace tbox::network;

struct Op { std::string o; int t = 0, c = 0, n = 0; std::string w, a; };
struct Script { std::string fam; std::map<std::string, std::string> arm; std::vector<Op> ops; };

static void out(const std::string &s) { vh::T().line(s); vh::T().flush(); }
static void ev(const std::string &e, long a = 0, long b = 0, long c = 0) {
    out("{\"e\":\"" + e + "\",\"a\":" + std::to_string(a) + ",\"b\":" + std::to_string(b) + ",\"c\":" + std::to_string(c) + "}");
}

static event::Loop *loop = nullptr;
static std::string sockdir;
static int tcp_port = 0;

static Script cur;
static TcpServer *server = nullptr;
static std::map<std::string, std::string> arm;
static std::vector<TcpServer::ConnToken> toks;    // index i-1 <-> token number i
struct Client { int fd = -1; size_t got = 0; bool eof = false; size_t sent = 0; };
static std::vector<Client> clients;                // index c-1 <-> client c
static int exec_no = 0;

static std::string unix_path() { return sockdir + "/e08.sock"; }
static SockAddr bind_addr() {
    if (cur.fam == "unix") return SockAddr(DomainSockPath(unix_path()));
    return SockAddr(IPAddress::Loop(), (uint16_t)tcp_port);
}
static const char *sv_state() {
    if (!server) return "none";
    switch (server->state()) {
        case TcpServer::State::kNone: return "none";
        case TcpServer::State::kInited: return "inited";
        case TcpServer::State::kRunning: return "running";
    }
    return "?";
}
static TcpServer::ConnToken token_of(int t) {      // t = 0 / unknown: a token the server never issued
    if (t >= 1 && t <= (int)toks.size()) return toks[t - 1];
    return TcpServer::ConnToken(77777, 5);
}
static int number_of(const TcpServer::ConnToken &tk, bool add) {
    for (size_t i = 0; i < toks.size(); ++i) if (toks[i] == tk) return (int)i + 1;
    if (!add) return 0;
    toks.push_back(tk);
    return (int)toks.size();
}
static unsigned char seed_of(int c) { return (unsigned char)((50 * c) % 251); }

static void react(const char *w, int self) {
    std::string a = arm[w];
    if (a == "none" || a.empty()) return;
    arm[w] = "none";
    int tgt = 0;
    if (a == "disc_self" || a == "send_self") tgt = self;
    else if (a == "disc_other" || a == "send_other") {
        for (size_t i = 0; i < toks.size() && !tgt; ++i) if ((int)i + 1 != self && server->isClientValid(toks[i])) tgt = (int)i + 1;
    }
    ev("React_" + a, tgt);
    int r = 0;
    if (a == "disc_self" || a == "disc_other") r = server->disconnect(token_of(tgt));
    else if (a == "send_self" || a == "send_other") { char c = 'r'; r = server->send(token_of(tgt), &c, 1); }
    else if (a == "stop") server->stop();
    else if (a == "cleanup") server->cleanup();
    ev("ReactRet", r);
}

static int do_init() {
    bool ok = server->initialize(bind_addr(), 8);
    if (ok) {
        server->setConnectedCallback([](const TcpServer::ConnToken &tk) { int t = number_of(tk, true); ev("Connected", t); react("C", t); });
        server->setDisconnectedCallback([](const TcpServer::ConnToken &tk) { int t = number_of(tk, false); ev("Disconnected", t); react("D", t); });
        server->setReceiveCallback([](const TcpServer::ConnToken &tk, Buffer &b) {
            int t = number_of(tk, false);
            size_t n = b.readableSize(); const uint8_t *p = b.readableBegin();
            long first = n ? p[0] : -1; bool contig = true;
            for (size_t i = 1; i < n; ++i) if (p[i] != (unsigned char)((p[0] + i) % 251)) contig = false;
            b.hasReadAll();
            ev("Received", t, first, contig ? (long)n : -1);
            react("R", t);
        }, 0);
    }
    return ok ? 1 : 0;
}

static void close_fd(int &fd) { if (fd >= 0) { close(fd); fd = -1; } }

static void ret_line(int v) {
    if (cur.fam == "tcp") ns::settle();
    std::string s = "{\"e\":\"ret\",\"v\":" + std::to_string(v) + ",\"st\":\"" + sv_state() + "\",\"valid\":[";
    bool first = true;
    if (server) {
        for (size_t i = 0; i < toks.size(); ++i) if (server->isClientValid(toks[i])) { s += (first ? "" : ",") + std::to_string(i + 1); first = false; }
        if (server->isClientValid(token_of(0))) { s += first ? "0" : ",0"; first = false; }
    }
    s += "],\"cl\":[";
    first = true;
    for (size_t i = 0; i < clients.size(); ++i) {
        Client &c = clients[i];
        if (c.fd < 0) continue;
        c.got += ns::drain(c.fd, nullptr, c.eof);
        s += std::string(first ? "" : ",") + "[" + std::to_string(i + 1) + "," + std::to_string(c.got) + "," + (c.eof ? "1" : "0") + "]";
        first = false;
    }
    out(s + "]}");
}

static void begin_exec(const Script &s) {
    cur = s; arm = s.arm; ++exec_no;
    const char *ws[] = {"C", "R", "D"};
    std::string h = "{\"e\":\"Begin\",\"fam\":\"" + s.fam + "\",\"arm\":{";
    for (int i = 0; i < 3; ++i) { std::string a = arm[ws[i]]; if (a.empty()) a = arm[ws[i]] = "none"; h += std::string(i ? "," : "") + "\"" + ws[i] + "\":\"" + a + "\""; }
    out(h + "}}");
    ::unlink(unix_path().c_str());
    toks.clear(); clients.clear();
    server = new TcpServer(loop);
}
static void end_exec() {
    out("{\"e\":\"destroy\"}");
    delete server; server = nullptr;
    ret_line(0);
    for (auto &c : clients) close_fd(c.fd);
    clients.clear();
    if (cur.fam == "tcp") ns::settle();
    out("{\"e\":\"Reset\"}");
}

static bool client_open(int c) { return c >= 1 && c <= (int)clients.size() && clients[c - 1].fd >= 0; }
static bool applicable(const Op &op) {
    if (op.o == "csend") return client_open(op.c) && !clients[op.c - 1].eof;     // assumption: no write to a connection known to be closed
    if (op.o == "cclose") return client_open(op.c);
    return true;
}
static void apply(const Op &op) {          // every op but `pass`
    if (op.o == "init") { out("{\"e\":\"init\"}"); int v = do_init(); ret_line(v); }
    else if (op.o == "start") { out("{\"e\":\"start\"}"); bool r = server->start(); ret_line(r); }
    else if (op.o == "stop") { out("{\"e\":\"stop\"}"); server->stop(); ret_line(0); }
    else if (op.o == "cleanup") { out("{\"e\":\"cleanup\"}"); server->cleanup(); ret_line(0); }
    else if (op.o == "send") {
        out("{\"e\":\"send\",\"t\":" + std::to_string(op.t) + ",\"n\":" + std::to_string(op.n) + "}");
        std::string d((size_t)op.n, 's'); bool r = server->send(token_of(op.t), d.data(), d.size()); ret_line(r);
    }
    else if (op.o == "disc") { out("{\"e\":\"disc\",\"t\":" + std::to_string(op.t) + "}"); bool r = server->disconnect(token_of(op.t)); ret_line(r); }
    else if (op.o == "shutdown") { out("{\"e\":\"shutdown\",\"t\":" + std::to_string(op.t) + "}"); bool r = server->shutdown(token_of(op.t), SHUT_WR); ret_line(r); }
    else if (op.o == "arm") { out("{\"e\":\"arm\",\"w\":\"" + op.w + "\",\"a\":\"" + op.a + "\"}"); arm[op.w] = op.a; ret_line(0); }
    else if (op.o == "cconnect") {
        out("{\"e\":\"cconnect\"}");
        int fd = cur.fam == "unix" ? ns::unix_connect(unix_path()) : ns::tcp_connect(tcp_port);
        if (fd >= 0) { Client c; c.fd = fd; clients.push_back(c); }
        ret_line(fd >= 0);
    }
    else if (op.o == "csend") {
        out("{\"e\":\"csend\",\"c\":" + std::to_string(op.c) + ",\"n\":" + std::to_string(op.n) + "}");
        Client &c = clients[op.c - 1];
        std::string d; for (int i = 0; i < op.n; ++i) d.push_back((char)((seed_of(op.c) + c.sent + i) % 251));
        ssize_t w = ::send(c.fd, d.data(), d.size(), MSG_NOSIGNAL);
        if (w != (ssize_t)d.size()) { fprintf(stderr, "client write failed: %s\n", strerror(errno)); vh::T().flush(); _exit(4); }
        c.sent += d.size();
        ret_line(0);
    }
    else if (op.o == "cclose") {
        out("{\"e\":\"cclose\",\"c\":" + std::to_string(op.c) + "}");
        Client &c = clients[op.c - 1];
        c.got += ns::drain(c.fd, nullptr, c.eof);
        close_fd(c.fd);
        ret_line(0);
    }
    else { fprintf(stderr, "unknown op %s\n", op.o.c_str()); _exit(3); }
}

// ---- op sources ----
static std::function<bool(Script &)> next_exec;
static std::function<bool(Op &)> next_op;

static bool in_exec = false, awaiting_pass = false;
static void step() {
    if (awaiting_pass) { ret_line(0); awaiting_pass = false; }
    for (;;) {
        if (ns::g_settle_timeout) {        // infrastructure, not a verdict: exit like a timeout (vlib: rc 124 = Infra)
            fprintf(stderr, "the kernel did not settle a loopback TCP exchange within 20 s (execution %d)\n", exec_no);
            vh::T().flush(); _exit(124);
        }
        if (!in_exec) {
            Script s;
            if (!next_exec(s)) { loop->exitLoop(); return; }
            begin_exec(s); in_exec = true;
        }
        Op op;
        if (!next_op(op)) { end_exec(); in_exec = false; continue; }
        if (!applicable(op)) continue;
        if (op.o == "pass") {
            out("{\"e\":\"pass\"}");
            awaiting_pass = true;
            loop->runNext(step, "driver");
            return;
        }
        apply(op);
    }
}

int main(int argc, char **argv) {
    if (argc < 2) return 3;
    std::string mode = argv[1];
    signal(SIGPIPE, SIG_IGN);
    vh::install_faults();
    bool priv = ns::private_netns();
    tbox::verif::Hooks().steady_ms = ns::steady_hook;
    if (priv) tcp_port = 7077;
    else { int s = ns::tcp_bound_socket(0, &tcp_port); if (s < 0) { perror("tcp port"); return 4; } close(s); }

    std::vector<Script> scripts; size_t ei = 0, oi = 0;
    std::unique_ptr<vh::Rng> rng; int nexec = 0, nops = 0, xi = 0, made = 0;
    if (mode == "script" && argc == 5) {
        std::ifstream in(argv[2]); std::string line;
        while (std::getline(in, line)) {
            if (line.empty()) continue;
            json j = json::parse(line);
            Script s; s.fam = j["fam"].get<std::string>();
            if (j.contains("arm")) for (auto it = j["arm"].begin(); it != j["arm"].end(); ++it) s.arm[it.key()] = it.value().get<std::string>();
            for (auto &e : j["ops"]) {
                Op op; op.o = e["o"].get<std::string>(); op.t = e.value("t", 0); op.c = e.value("c", 0); op.n = e.value("n", 0);
                op.w = e.value("w", std::string()); op.a = e.value("a", std::string()); s.ops.push_back(op);
            }
            scripts.push_back(s);
        }
        sockdir = argv[3];
        vh::T().open(argv[4]);
        next_exec = [&](Script &s) { if (ei >= scripts.size()) return false; s = scripts[ei]; oi = 0; return true; };
        next_op = [&](Op &op) { if (oi >= scripts[ei].ops.size()) { ++ei; return false; } op = scripts[ei].ops[oi++]; return true; };
    } else if (mode == "random" && argc == 7) {
        rng.reset(new vh::Rng(strtoull(argv[2], nullptr, 10)));
        nexec = atoi(argv[3]); nops = atoi(argv[4]);
        sockdir = argv[5];
        vh::T().open(argv[6]);
        static const char *arms[] = {"none", "none", "none", "disc_self", "disc_other", "send_self", "send_other", "stop", "cleanup"};
        next_exec = [&](Script &s) {
            if (xi >= nexec) return false;
            ++xi; made = 0;
            vh::Rng &r = *rng;
            s = Script();
            s.fam = r.chance(65) ? "unix" : "tcp";
            s.arm["C"] = arms[r.below(9)]; s.arm["R"] = arms[r.below(9)]; s.arm["D"] = arms[r.below(9)];
            return true;
        };
        next_op = [&](Op &op) {
            if (made >= nops) return false;
            ++made;
            vh::Rng &r = *rng;
            if (made == 1) { op = Op(); op.o = "init"; return true; }
            if (made == 2 && r.chance(85)) { op = Op(); op.o = "start"; return true; }
            for (int tries = 0; tries < 30; ++tries) {
                int x = (int)r.below(100);
                op = Op();
                int nt = (int)toks.size(), ncl = (int)clients.size();
                if (x < 24) op.o = "pass";
                else if (x < 38) { if (ncl >= 7) continue; op.o = "cconnect"; }
                else if (x < 53) { if (!ncl) continue; op.o = "csend"; op.c = (int)r.range(1, ncl); op.n = r.chance(80) ? (int)r.range(1, 5) : (int)r.range(200, 3000); }
                else if (x < 62) { if (!ncl) continue; op.o = "cclose"; op.c = (int)r.range(1, ncl); }
                else if (x < 70) { op.o = "send"; op.t = (int)r.range(0, nt + 1); op.n = (int)r.range(1, 4); }
                else if (x < 76) { op.o = "disc"; op.t = (int)r.range(0, nt + 1); }
                else if (x < 79) { op.o = "shutdown"; op.t = (int)r.range(0, nt + 1); }
                else if (x < 83) op.o = "start";
                else if (x < 86) op.o = "stop";
                else if (x < 88) op.o = "cleanup";
                else if (x < 91) op.o = "init";
                else { op.o = "arm"; int k = (int)r.below(3); op.w = k == 0 ? "C" : k == 1 ? "R" : "D"; op.a = arms[3 + r.below(6)]; }
                if (!applicable(op)) continue;
                return true;
            }
            op = Op(); op.o = "pass";
            return true;
        };
    } else return 3;
    mkdir(sockdir.c_str(), 0700);
    loop = event::Loop::New();
    loop->runNext(step, "driver");
    loop->runLoop(event::Loop::Mode::kForever);
    delete loop;
    ::unlink(unix_path().c_str());
    vh::T().close();
    return 0;
}
