// C13 conformance driver for the cpp-tbox terminal shell.
//   driver run <scripts.jsonl> <out.ndjson>
// Every input line is one execution (script), produced by checks/c13.py from TLC-generated key sequences,
// seeded random sessions or byte streams:
//   {"via":"fake"|"telnet"|"rpc"|"framing", "echo":0|1, "rst":0|1,
//    "chunks":[{"k":[keys...], "segs":[[bytes...],...], "hostile":0|1}, ...]}
// via=fake    a real Terminal, a fake Connection (public interface), one onRecvString() per segment
// via=telnet  the real Telnetd service + the real Terminal on loopback, one TCP send per segment, the
//             server is pumped until it has consumed the segment before the next one is sent
// via=rpc     the real TcpRpc service (quiet mode) + the real Terminal on loopback
// via=framing the real Telnetd service bound to a RECORDING TerminalInteract: what the telnet layer
//             hands to the terminal (text, window sizes, echo option) is recorded per execution
// A probe function node "p" records the argument lists it receives.  Per chunk one ndjson event is written:
// the keys, the probe calls, the number of prompts ("# ") and error reports ("Error") in the bytes sent
// back, and the history listing if the bytes sent back are one.  This program decides nothing; the trace
// is validated by TLC (spec/Terminal/Trace_LineEditor.tla, Trace_Telnet.tla).
// exit codes: 0 ok (also after a Fault line has been written), 3 harness watchdog / setup problem.
#include <vh.h>
#include <arpa/inet.h>
#include <fcntl.h>
#include <fstream>
#include <functional>
#include <linux/sockios.h>
#include <map>
#include <memory>
#include <netinet/in.h>
#include <linux/tcp.h>
#include <sys/ioctl.h>
#include <sys/socket.h>
#include <time.h>
#include <nlohmann/json.hpp>
#include <tbox/event/loop.h>
#include <tbox/terminal/connection.h>
#include <tbox/terminal/service/tcp_rpc.h>
#include <tbox/terminal/service/telnetd.h>
#include <tbox/terminal/session.h>
#include <tbox/terminal/terminal.h>

using json = nlohmann::json;
using namespace tbox;
using namespace tbox::terminal;

static event::Loop *g_loop;
static std::vector<std::vector<std::string>> g_calls;      // probe calls since the last event

static void harness_fail(const char *what) {
    fprintf(stderr, "HARNESS: %s\n", what);
    vh::T().flush();
    _exit(3);
}
static double now_s() { timespec ts; clock_gettime(CLOCK_MONOTONIC, &ts); return ts.tv_sec + ts.tv_nsec * 1e-9; }

// every line is flushed at once: a sanitizer report ends the process without running our handlers
static void emit(const std::string &s) { vh::T().line(s); vh::T().flush(); }

static void pump() {        // one bounded turn of the real loop; never blocks (a task is always pending)
    g_loop->runNext([] {}, "c13 pump");
    g_loop->runLoop(event::Loop::Mode::kOnce);
}

// ---------------------------------------------------------------- projections -----------------------
static std::string bytes_of(const json &a) { std::string s; for (auto &x : a) s.push_back((char)(int)x); return s; }
static json codes_of(const std::string &s) { json a = json::array(); for (unsigned char c : s) a.push_back((int)c); return a; }
static int count_of(const std::string &hay, const std::string &needle) {
    int n = 0; size_t p = 0;
    while ((p = hay.find(needle, p)) != std::string::npos) { ++n; p += needle.size(); }
    return n;
}
// "<index right-aligned in 2 columns><2 blanks><line>\r\n" per stored line, nothing else
static bool parse_listing(std::string body, std::vector<std::string> &lines) {
    if (body.compare(0, 2, "\r\n") == 0) body.erase(0, 2);                               // echo of Enter
    if (body.size() >= 2 && body.compare(body.size() - 2, 2, "# ") == 0) body.erase(body.size() - 2);   // the prompt
    size_t pos = 0; size_t idx = 0;
    while (pos < body.size()) {
        size_t e = body.find("\r\n", pos);
        if (e == std::string::npos) return false;
        std::string ln = body.substr(pos, e - pos);
        size_t i = 0;
        while (i < ln.size() && ln[i] == ' ') ++i;
        size_t d = i; unsigned long v = 0;
        while (d < ln.size() && isdigit((unsigned char)ln[d]) && d - i < 6) { v = v * 10 + (ln[d] - '0'); ++d; }
        if (d == i || v != idx || ln.compare(d, 2, "  ") != 0) return false;
        lines.push_back(ln.substr(d + 2));
        pos = e + 2; ++idx;
    }
    return true;
}
static void add_obs(json &ev, const std::string &out) {
    json calls = json::array();
    for (auto &c : g_calls) { json a = json::array(); for (auto &w : c) a.push_back(codes_of(w)); calls.push_back(a); }
    ev["calls"] = calls;
    ev["prompts"] = count_of(out, "# ");
    std::string low = out; for (auto &c : low) c = (char)tolower((unsigned char)c);
    ev["errs"] = count_of(low, "error");
    std::vector<std::string> lines;
    bool ok = parse_listing(out, lines);
    ev["listok"] = ok;
    json l = json::array();
    if (ok) for (auto &s : lines) l.push_back(codes_of(s));
    ev["list"] = l;
    ev["nout"] = out.size();
}

// ---------------------------------------------------------------- fake connection ---------------------
struct FakeConn : public Connection {
    std::string out; int ends = 0;
    bool send(const SessionToken &, char ch) override { out.push_back(ch); return true; }
    bool send(const SessionToken &, const std::string &s) override { out += s; return true; }
    bool endSession(const SessionToken &) override { ++ends; return true; }
    bool isValid(const SessionToken &) const override { return true; }
};

// ---------------------------------------------------------------- recording terminal (framing) -------
struct RecTerminal : public TerminalInteract {
    struct S { uint32_t opts = 0; };
    std::map<SessionToken, S> ss; size_t next = 1;
    std::string text; json wins = json::array(); int begins = 0, deletes = 0;
    SessionToken newSession(Connection *) override { SessionToken t(next++, 1); ss[t] = S(); return t; }
    bool deleteSession(const SessionToken &st) override { ++deletes; return ss.erase(st) > 0; }
    uint32_t getOptions(const SessionToken &st) const override { auto i = ss.find(st); return i == ss.end() ? 0 : i->second.opts; }
    void setOptions(const SessionToken &st, uint32_t o) override { auto i = ss.find(st); if (i != ss.end()) i->second.opts = o; }
    bool onBegin(const SessionToken &) override { ++begins; return true; }
    bool onExit(const SessionToken &) override { return true; }
    bool onRecvString(const SessionToken &, const std::string &s) override { text += s; return true; }
    bool onRecvWindowSize(const SessionToken &, uint16_t w, uint16_t h) override { wins.push_back(json::array({(int)w, (int)h})); return true; }
    bool echo() const { for (auto &p : ss) if (p.second.opts & kEnableEcho) return true; return false; }
};

// ---------------------------------------------------------------- loopback client --------------------
struct Client {
    int fd = -1, sfd = -1; std::string rx; bool eof = false; sockaddr_in me{}; uint64_t sent_total = 0;
    bool open(int port) {
        fd = socket(AF_INET, SOCK_STREAM, 0);
        if (fd < 0) return false;
        sockaddr_in a{}; a.sin_family = AF_INET; a.sin_port = htons(port); a.sin_addr.s_addr = htonl(INADDR_LOOPBACK);
        if (connect(fd, (sockaddr *)&a, sizeof a) != 0) { ::close(fd); fd = -1; return false; }
        int one = 1; setsockopt(fd, IPPROTO_TCP, TCP_NODELAY, &one, sizeof one);
        setsockopt(fd, IPPROTO_TCP, TCP_QUICKACK, &one, sizeof one);   // the server side uses Nagle: ACK at once or every echo costs 40 ms
        fcntl(fd, F_SETFL, fcntl(fd, F_GETFL) | O_NONBLOCK);
        socklen_t l = sizeof me; getsockname(fd, (sockaddr *)&me, &l);
        eof = false; rx.clear(); sfd = -1; sent_total = 0;
        return true;
    }
    bool server_side_is(int f) const {      // f is the accepted socket of this connection
        if (f < 0 || f == fd) return false;
        sockaddr_in p{}; socklen_t l = sizeof p;
        if (getpeername(f, (sockaddr *)&p, &l) != 0 || p.sin_family != AF_INET) return false;
        return p.sin_port == me.sin_port && p.sin_addr.s_addr == me.sin_addr.s_addr;
    }
    void find_server_side() {
        if (server_side_is(sfd)) return;
        sfd = -1;
        for (int f = 3; f < 256; ++f) if (server_side_is(f)) { sfd = f; return; }
    }
    void drain() {
        char b[4096];
        while (fd >= 0 && !eof) {
            ssize_t n = recv(fd, b, sizeof b, 0);
            if (n > 0) rx.append(b, n);
            else if (n == 0) { eof = true; }
            else { if (errno != EAGAIN && errno != EWOULDBLOCK && errno != EINTR) eof = true; break; }
        }
        if (fd >= 0) { int one = 1; setsockopt(fd, IPPROTO_TCP, TCP_QUICKACK, &one, sizeof one); }
    }
    void send_all(const std::string &s) {
        size_t off = 0; double t0 = now_s();
        while (fd >= 0 && off < s.size()) {
            ssize_t n = ::send(fd, s.data() + off, s.size() - off, MSG_NOSIGNAL);
            if (n > 0) { off += n; sent_total += n; }
            else if (errno == EAGAIN || errno == EWOULDBLOCK) { pump(); drain(); if (now_s() - t0 > 20) harness_fail("send stalled"); }
            else return;      // the server closed the connection: the rest cannot be delivered
        }
    }
    // Everything sent so far has been read by the server and everything it wrote has reached us.  Decided from the
    // byte counters of the two sockets (both are in this process), not from ACKs (delayed ACK would cost 40 ms a turn).
    bool quiet() {
        if (fd < 0) return true;
        find_server_side();
        if (sfd < 0) return eof;            // not accepted yet, or dropped by the server: then its FIN/RST must be seen
        tcp_info si{}, ci{}; socklen_t l = sizeof si;
        if (getsockopt(sfd, IPPROTO_TCP, TCP_INFO, &si, &l) != 0) return false;
        if (!eof && si.tcpi_bytes_received < sent_total) return false;
        int n = 0; if (ioctl(sfd, FIONREAD, &n) == 0 && n) return false;
        int u = 0; if (ioctl(sfd, SIOCOUTQNSD, &u) == 0 && u) return false;
        l = sizeof ci;
        if (!eof && getsockopt(fd, IPPROTO_TCP, TCP_INFO, &ci, &l) == 0 && ci.tcpi_bytes_received < si.tcpi_bytes_sent) return false;
        int m = 0; if (!eof && ioctl(fd, FIONREAD, &m) == 0 && m) return false;
        return true;
    }
    // the server application has read every byte sent so far (or has dropped the connection)
    bool consumed() {
        find_server_side();
        if (sfd < 0) return true;
        tcp_info si{}; socklen_t l = sizeof si;
        if (getsockopt(sfd, IPPROTO_TCP, TCP_INFO, &si, &l) != 0) return false;
        if (si.tcpi_bytes_received < sent_total) return false;
        int n = 0; if (ioctl(sfd, FIONREAD, &n) == 0 && n) return false;
        return true;
    }
    void send_raw(const std::string &s) {      // from inside a loop task: never pumps
        if (fd < 0) return;
        ssize_t n = ::send(fd, s.data(), s.size(), MSG_NOSIGNAL);
        if (n > 0) sent_total += n;
    }
    // "More bytes arrive after the session has ended but before the connection is closed": `last` is sent, then the real
    // loop runs pass by pass (kForever) with an in-loop task that, in the very pass in which the server has read `last`
    // (+ `delay` passes), writes `late` on the client socket - i.e. before any task deferred by that input (session
    // teardown, deferred disconnect) of a LATER pass has run.  kOnce cannot do this: it drains all deferred generations.
    void send_with_late(const std::string &last, const std::string &late, int delay) {
        send_all(last);
        int phase = 0, wait = 0, after = 0; double t0 = now_s(); long it = 0;
        std::function<void()> task = [&] {
            drain();
            if (phase == 0 && consumed()) { phase = 1; wait = delay; }
            if (phase == 1) { if (wait-- <= 0) { send_raw(late); phase = 2; } }
            else if (phase == 2) { if (++after >= 6 && (consumed() || eof)) { g_loop->exitLoop(); return; } }
            if ((++it & 1023) == 0 && now_s() - t0 > 20) harness_fail("late segment: loop did not get quiet");
            g_loop->runNext(task, "c13 late driver");
        };
        g_loop->runNext(task, "c13 late driver");
        g_loop->runLoop(event::Loop::Mode::kForever);
        drain();
    }
    void settle(int stable_need = 3) {
        int stable = 0; double t0 = now_s();
        for (long it = 0;; ++it) {
            size_t before = rx.size(); bool eof_before = eof;
            pump(); drain();
            if (quiet() && rx.size() == before && eof == eof_before) ++stable; else stable = 0;
            if (stable >= stable_need) return;
            if ((it & 1023) == 1023 && now_s() - t0 > 20) harness_fail("connection did not become quiet");
        }
    }
    void close(bool rst) {
        if (fd < 0) return;
        if (rst) { linger lg{1, 0}; setsockopt(fd, SOL_SOCKET, SO_LINGER, &lg, sizeof lg); }
        ::close(fd); fd = -1;
        double t0 = now_s();
        for (long it = 0;; ++it) {        // until the server has dropped its side
            pump();
            find_server_side();
            if (sfd < 0) break;
            if ((it & 1023) == 1023 && now_s() - t0 > 20) harness_fail("server did not close its side");
        }
        for (int i = 0; i < 4; ++i) pump();
    }
};

static int free_port() {
    int s = socket(AF_INET, SOCK_STREAM, 0);
    sockaddr_in a{}; a.sin_family = AF_INET; a.sin_addr.s_addr = htonl(INADDR_LOOPBACK); a.sin_port = 0;
    if (bind(s, (sockaddr *)&a, sizeof a) != 0) harness_fail("bind");
    socklen_t l = sizeof a; getsockname(s, (sockaddr *)&a, &l);
    ::close(s);
    return ntohs(a.sin_port);
}
template <class Svc> static int start_service(Svc &svc) {
    for (int i = 0; i < 50; ++i) {
        int port = free_port();
        if (svc.initialize("127.0.0.1:" + std::to_string(port)) && svc.start()) return port;
        svc.cleanup();
    }
    harness_fail("cannot start service");
    return 0;
}

int main(int argc, char **argv) {
    if (argc < 4 || std::string(argv[1]) != "run") { fprintf(stderr, "usage: driver run <scripts.jsonl> <out.ndjson>\n"); return 3; }
    vh::T().open(argv[3]);
    vh::install_faults();
    signal(SIGPIPE, SIG_IGN);
    auto &T = vh::T();

    g_loop = event::Loop::New();
    auto *term = new Terminal(g_loop);
    auto probe = term->createFuncNode([](const Session &, const Args &a) { g_calls.push_back(a); }, "probe");
    term->mountNode(term->rootNode(), probe, "p");
    // a small tree with a cycle and a dangling entry for the hostile built-in commands (ls/cd/tree/help)
    auto d1 = term->createDirNode("dir one"), d2 = term->createDirNode("dir two"), gone = term->createDirNode("gone");
    term->mountNode(term->rootNode(), d1, "d");
    term->mountNode(d1, d2, "e"); term->mountNode(d2, d1, "back"); term->mountNode(d2, term->rootNode(), "root");
    term->mountNode(d1, probe, "f"); term->mountNode(d1, gone, "x"); term->deleteNode(gone);

    FakeConn conn;
    Telnetd telnetd(g_loop, term); int telnet_port = 0;
    TcpRpc rpc(g_loop, term); int rpc_port = 0;
    RecTerminal rec;
    Telnetd framing(g_loop, &rec); int framing_port = 0;

    std::ifstream in(argv[2]);
    std::string line; long nexec = 0;
    while (std::getline(in, line)) {
        if (line.empty()) continue;
        json sc = json::parse(line);
        std::string via = sc.value("via", "fake");
        bool echo = sc.value("echo", 0) != 0, rst = sc.value("rst", 0) != 0;
        ++nexec;
        if (via == "fake") {
            conn.out.clear(); g_calls.clear();
            auto st = term->newSession(&conn);
            term->setOptions(st, echo ? TerminalInteract::kEnableEcho : 0);
            term->onBegin(st);
            json b = {{"e", "Begin"}, {"via", via}, {"quiet", false}, {"prompts", count_of(conn.out, "# ")}, {"idx", nexec - 1}};
            emit(b.dump());
            for (auto &ch : sc["chunks"]) {
                conn.out.clear(); g_calls.clear();
                size_t nbytes = 0;
                for (auto &sg : ch["segs"]) { std::string s = bytes_of(sg); nbytes += s.size(); term->onRecvString(st, s); pump(); }
                json ev;
                if (ch.value("hostile", 0)) { ev = {{"e", "Hostile"}, {"n", nbytes}}; }
                else { ev = {{"e", "Seg"}, {"keys", ch["k"]}}; add_obs(ev, conn.out); }
                emit(ev.dump());
            }
            term->deleteSession(st);
            pump();
        } else if (via == "telnet" || via == "rpc") {
            bool is_rpc = via == "rpc";
            if (!is_rpc && !telnet_port) telnet_port = start_service(telnetd);
            if (is_rpc && !rpc_port) rpc_port = start_service(rpc);
            Client c;
            if (!c.open(is_rpc ? rpc_port : telnet_port)) harness_fail("connect");
            g_calls.clear();
            c.settle();
            json b = {{"e", "Begin"}, {"via", via}, {"quiet", is_rpc}, {"prompts", count_of(c.rx, "# ")}, {"idx", nexec - 1}};
            emit(b.dump());
            for (auto &ch : sc["chunks"]) {
                c.rx.clear(); g_calls.clear();
                size_t nbytes = 0;
                if (ch.value("nopump", 0)) {        // the bytes and the peer's close reach the server in the same loop pass
                    for (auto &sg : ch["segs"]) { std::string s = bytes_of(sg); nbytes += s.size(); c.send_all(s); }
                    c.close(rst);
                    json ev = {{"e", "Hostile"}, {"n", nbytes}};
                    emit(ev.dump());
                    break;
                }
                size_t nseg = ch["segs"].size(), iseg = 0;
                int late = ch.value("late", -1);        // >= 0: the last segment arrives `late` passes after the one before it was read
                for (auto &sg : ch["segs"]) {
                    std::string s = bytes_of(sg); nbytes += s.size(); ++iseg;
                    if (late >= 0 && nseg >= 2 && iseg == nseg - 1) {
                        std::string l = bytes_of(ch["segs"][nseg - 1]); nbytes += l.size();
                        c.send_with_late(s, l, late);
                        break;
                    }
                    c.send_all(s);
                    double t0 = now_s();
                    for (long it = 0; !c.quiet(); ++it) { pump(); c.drain(); if ((it & 1023) == 1023 && now_s() - t0 > 20) harness_fail("segment not consumed"); }
                    pump(); c.drain();
                }
                c.settle();
                json ev;
                if (ch.value("hostile", 0)) { ev = {{"e", "Hostile"}, {"n", nbytes}}; }
                else { ev = {{"e", "Seg"}, {"keys", ch["k"]}}; add_obs(ev, c.rx); }
                emit(ev.dump());
            }
            c.close(rst);
        } else if (via == "framing") {
            if (!framing_port) framing_port = start_service(framing);
            Client c;
            if (!c.open(framing_port)) harness_fail("connect");
            c.settle();
            rec.text.clear(); rec.wins = json::array();
            std::string all;
            json lens = json::array();
            for (auto &ch : sc["chunks"]) for (auto &sg : ch["segs"]) {
                std::string s = bytes_of(sg); all += s; lens.push_back(s.size());
                c.send_all(s);
                double t0 = now_s();
                for (long it = 0; !c.quiet(); ++it) { pump(); c.drain(); if ((it & 1023) == 1023 && now_s() - t0 > 20) harness_fail("segment not consumed"); }
                pump(); c.drain();
            }
            c.settle();
            json ev = {{"e", "Tel"}, {"bytes", codes_of(all)}, {"lens", lens}, {"text", codes_of(rec.text)}, {"wins", rec.wins},
                       {"echo", rec.echo()}, {"idx", nexec - 1}};
            emit(ev.dump());
            c.close(rst);
        } else harness_fail("unknown via");
        emit("{\"e\":\"Reset\"}");
    }
    T.flush();
    // orderly shutdown of the real objects (faults here count as well)
    telnetd.cleanup(); rpc.cleanup(); framing.cleanup();
    delete term;
    delete g_loop;
    T.close();
    return 0;
}
