// Common helpers for the conformance harnesses: ndjson trace emitter, seeded RNG, fault capture.
#ifndef VERIF_VH_H
#define VERIF_VH_H
#include <atomic>
#include <csignal>
#include <cstdarg>
#include <cstdint>
#include <cstdio>
#include <cstdlib>
#include <cstring>
#include <exception>
#include <mutex>
#include <pthread.h>
#include <string>
#include <typeinfo>
#include <unistd.h>
#include <vector>

namespace vh {

// ---------------------------------------------------------------- trace ------------------------
struct Trace {
    FILE *f = nullptr;
    std::mutex m;
    std::atomic<uint64_t> seq{0};
    void open(const char *path) { f = fopen(path, "w"); if (!f) { perror(path); _exit(3); } setvbuf(f, nullptr, _IOFBF, 1 << 20); }
    void line(const std::string &s) {
        std::lock_guard<std::mutex> g(m);
        fputs(s.c_str(), f); fputc('\n', f);
    }
    void printf(const char *fmt, ...) __attribute__((format(printf, 2, 3))) {
        std::lock_guard<std::mutex> g(m);
        va_list ap; va_start(ap, fmt); vfprintf(f, fmt, ap); va_end(ap); fputc('\n', f);
    }
    void flush() { if (f) fflush(f); }
    void close() { if (f) { fclose(f); f = nullptr; } }
};
inline Trace &T() { static Trace t; return t; }

inline std::string jarr(const std::vector<long long> &v) {
    std::string s = "[";
    for (size_t i = 0; i < v.size(); ++i) { if (i) s += ','; s += std::to_string(v[i]); }
    return s + "]";
}
inline std::string jstr(const std::string &in) {
    std::string s = "\"";
    for (unsigned char c : in) {
        if (c == '"' || c == '\\') { s += '\\'; s += (char)c; }
        else if (c < 0x20 || c >= 0x7f) { char b[8]; snprintf(b, sizeof b, "\\u%04x", c); s += b; }
        else s += (char)c;
    }
    return s + "\"";
}

// ---------------------------------------------------------------- rng --------------------------
struct Rng {
    uint64_t s;
    explicit Rng(uint64_t seed) : s(seed * 0x9E3779B97F4A7C15ull + 0x1234567ull) {}
    uint64_t next() { uint64_t z = (s += 0x9E3779B97F4A7C15ull); z = (z ^ (z >> 30)) * 0xBF58476D1CE4E5B9ull;
                      z = (z ^ (z >> 27)) * 0x94D049BB133111EBull; return z ^ (z >> 31); }
    uint64_t below(uint64_t n) { return n ? next() % n : 0; }
    long long range(long long lo, long long hi) { return lo + (long long)below((uint64_t)(hi - lo + 1)); }
    bool chance(int pct) { return (int)below(100) < pct; }
    template <class V> const typename V::value_type &pick(const V &v) { return v[below(v.size())]; }
};
inline uint64_t seed_env() { const char *s = getenv("VERIF_SEED"); return s ? strtoull(s, nullptr, 10) : 1; }

// ---------------------------------------------------------------- faults -----------------------
// Any crash / uncaught exception / sanitizer death becomes a {"e":"Fault"} line that no spec action accepts.
inline void (*&pre_fault())(bool) { static void (*f)(bool) = nullptr; return f; }   // e.g. flush buffered events (arg: inside a sanitizer report)
inline void fault(const char *kind, const char *what) {
    static std::atomic<int> once{0};
    static std::atomic<pthread_t> owner{0};
    if (once.fetch_add(1) != 0) {
        if (pthread_equal(owner.load(), pthread_self())) _exit(97);             // a report raised while reporting: give up cleanly
        for (;;) pause();                                                        // another thread is already reporting
    }
    owner = pthread_self();
    if (pre_fault()) { void (*f)(bool) = pre_fault(); pre_fault() = nullptr; f(!strcmp(kind, "sanitizer")); }
    Trace &t = T();
    std::string line = std::string("{\"e\":\"Fault\",\"kind\":\"") + kind + "\",\"what\":" + jstr(what ? what : "") + "}\n";
    if (t.f) { fflush(t.f); ssize_t w = write(fileno(t.f), line.data(), line.size()); (void)w; }
    std::string msg = std::string("FAULT kind=") + kind + " what=" + (what ? what : "") + "\n";
    ssize_t w2 = write(2, msg.data(), msg.size()); (void)w2;
    _exit(97);
}
inline void on_terminate() {
    const char *what = "unknown";
    std::string w;
    if (auto e = std::current_exception()) {
        try { std::rethrow_exception(e); }
        catch (const std::exception &ex) { w = std::string(typeid(ex).name()) + ": " + ex.what(); what = w.c_str(); }
        catch (...) { what = "non-std exception"; }
    }
    fault("terminate", what);
}
inline void on_signal(int sig) { fault("signal", sig == SIGSEGV ? "SIGSEGV" : sig == SIGABRT ? "SIGABRT" : sig == SIGBUS ? "SIGBUS" : sig == SIGFPE ? "SIGFPE" : "signal"); }
}  // namespace vh

extern "C" {
// sanitizer death callbacks (weakly referenced by the runtimes)
inline void vh_san_death() { vh::fault("sanitizer", "report"); }
void __sanitizer_set_death_callback(void (*)(void)) __attribute__((weak));
}

namespace vh {
inline void install_faults() {
    std::set_terminate(on_terminate);
    static char altstack[1 << 16];
    stack_t ss; ss.ss_sp = altstack; ss.ss_size = sizeof altstack; ss.ss_flags = 0; sigaltstack(&ss, nullptr);
    struct sigaction sa; memset(&sa, 0, sizeof sa); sa.sa_handler = on_signal; sa.sa_flags = SA_ONSTACK;
    sigaction(SIGSEGV, &sa, nullptr); sigaction(SIGABRT, &sa, nullptr); sigaction(SIGBUS, &sa, nullptr); sigaction(SIGFPE, &sa, nullptr);
    if (__sanitizer_set_death_callback) __sanitizer_set_death_callback(vh_san_death);
}
}  // namespace vh
#endif
