// Shared by the threaded harnesses (C01, C05, C09, C10): event buffer ordered by a global sequence number, schedule control
// (gates + seeded random delays at named points), hang watchdog.
#ifndef VERIF_VSCHED_H
#define VERIF_VSCHED_H
#include <vh.h>
#include <algorithm>
#include <chrono>
#include <condition_variable>
#include <functional>
#include <map>
#include <set>
#include <thread>
#include <nlohmann/json.hpp>

namespace vs {
using json = nlohmann::json;
using Clock = std::chrono::steady_clock;

// ------------------------------------------------------------------ event buffer --------------------------------
struct Ev { uint64_t seq; std::string line; };
inline std::mutex &evm() { static std::mutex m; return m; }
inline std::vector<Ev> &events() { static std::vector<Ev> v; return v; }
inline std::atomic<uint64_t> &seqc() { static std::atomic<uint64_t> s{1}; return s; }
inline uint64_t next_seq() { return seqc().fetch_add(1); }
inline void emit_at(uint64_t seq, const std::string &body) { std::lock_guard<std::mutex> g(evm()); events().push_back({seq, body}); }
inline uint64_t emit(const std::string &body) { uint64_t s = next_seq(); emit_at(s, body); return s; }
inline void flush_events(bool reset) {
    std::lock_guard<std::mutex> g(evm());
    auto &v = events();
    std::sort(v.begin(), v.end(), [](const Ev &a, const Ev &b) { return a.seq < b.seq; });
    for (auto &e : v) vh::T().line(e.line);
    v.clear();
    if (reset) vh::T().line("{\"e\":\"Reset\"}");
    vh::T().flush();
}
inline void flush_on_fault(bool in_sanitizer) {      // best effort: try to get the buffer mutex for a while, then go on without it
    bool locked = false;      // (never touch a mutex from inside a sanitizer's death callback: its runtime may hold internal locks)
    for (int i = 0; !in_sanitizer && i < 200 && !(locked = evm().try_lock()); ++i) usleep(1000);
    auto &v = events();
    std::sort(v.begin(), v.end(), [](const Ev &a, const Ev &b) { return a.seq < b.seq; });
    std::string all;
    for (auto &e : v) { all += e.line; all += '\n'; }
    if (vh::T().f) { fflush(vh::T().f); size_t o = 0; while (o < all.size()) { ssize_t w = write(fileno(vh::T().f), all.data() + o, all.size() - o); if (w <= 0) break; o += (size_t)w; } }
}
inline std::string J(const char *e) { return std::string("{\"e\":\"") + e + "\""; }
inline std::string kv(const char *k, long long v) { return std::string(",\"") + k + "\":" + std::to_string(v); }
inline std::string kb(const char *k, bool v) { return std::string(",\"") + k + "\":" + (v ? "true" : "false"); }
inline std::string ks(const char *k, const std::string &v) { return std::string(",\"") + k + "\":" + vh::jstr(v); }

// ------------------------------------------------------------------ schedule control ---------------------------
struct Gate { std::string hold_role, hold_pt, until_role, until_pt, after_key; int until_n = 1, after_n = 1; long hold_b = -1; bool rel = false; };
struct Sched {
    std::vector<Gate> gates;
    std::mutex m;
    std::condition_variable cv;
    std::map<std::string, int> passed;       // "role:point" -> count
    int delay_pct = 0;
    uint64_t delay_seed = 1;
    int gate_timeout_ms = 1500;
    std::atomic<int> gate_timeouts{0};
    std::set<std::string> gpoints;           // points between critical sections where a random delay may be injected
    // sequence mode: a total order of (thread, point) steps taken from a TLC behaviour; every thread is held at its hook
    // points until it is its turn. If the expected thread does not arrive in time the sequence is abandoned (free run).
    std::vector<std::pair<std::string, std::string>> seq;
    size_t seq_idx = 0;
    std::atomic<bool> seq_active{false};
    int seq_timeout_ms = 1500;
    std::atomic<int> seq_diverged{0};
    int seq_div_at = -1; std::string seq_div_who;
    std::set<std::string> seq_points;
    void seq_load(const json &hist) {
        std::lock_guard<std::mutex> lk(m);
        seq.clear(); seq_points.clear(); seq_idx = 0; seq_diverged = 0; seq_div_at = -1; seq_div_who.clear();
        for (auto &h : hist) { seq.push_back({h["r"].get<std::string>(), h["p"].get<std::string>()}); if (h["p"] != "call") seq_points.insert(h["p"].get<std::string>()); }
        seq_active = !seq.empty();
    }
    // wait until the head of the sequence is (role, point); returns false if the sequence is (or becomes) inactive
    bool seq_wait(const std::string &role, const std::string &point) {
        std::unique_lock<std::mutex> lk(m);
        if (!seq_active) return false;
        bool ok = cv.wait_for(lk, std::chrono::milliseconds(seq_timeout_ms), [&] {
            return !seq_active || seq_idx >= seq.size() || (seq[seq_idx].first == role && seq[seq_idx].second == point); });
        if (!seq_active) return false;
        if (!ok) { seq_active = false; seq_diverged++; seq_div_at = (int)seq_idx; seq_div_who = role + ":" + point; cv.notify_all(); return false; }
        if (seq_idx >= seq.size()) { seq_active = false; cv.notify_all(); return false; }
        return true;
    }
    void seq_done(const std::string &role, const std::string &point) {
        std::lock_guard<std::mutex> lk(m);
        if (seq_active && seq_idx < seq.size() && seq[seq_idx].first == role && seq[seq_idx].second == point) { ++seq_idx; if (seq_idx >= seq.size()) seq_active = false; cv.notify_all(); }
    }
    void reset(const json &x) {
        gates.clear(); passed.clear(); gate_timeouts = 0; seq.clear(); seq_active = false; seq_idx = 0;
        if (x.contains("gates")) for (auto &g : x["gates"]) {
            Gate G; G.hold_role = g["hold"][0]; G.hold_pt = g["hold"][1]; G.hold_b = g["hold"].size() > 2 ? g["hold"][2].get<long>() : -1;
            G.until_role = g["until"][0]; G.until_pt = g["until"][1]; G.until_n = g["until"].size() > 2 ? g["until"][2].get<int>() : 1;
            G.rel = g.value("rel", false);
            if (g.contains("after")) { G.after_key = g["after"][0].get<std::string>() + ":" + g["after"][1].get<std::string>(); G.after_n = g["after"].size() > 2 ? g["after"][2].get<int>() : 1; }
            gates.push_back(G);
        }
        delay_pct = x.value("delay_pct", 0);
        delay_seed = x.value("seed", 1);
        gate_timeout_ms = x.value("gate_timeout_ms", 1500);
    }
    // call on arrival at a point, before its effect is published
    void arrive(const char *name, const char *role, long b, const char *seq_role = nullptr) {
        if (seq_active && seq_points.count(name)) seq_wait(seq_role ? seq_role : role, name);
        if (!gates.empty()) { std::lock_guard<std::mutex> lk(m); passed[std::string(role) + ":" + name + "@"]++; cv.notify_all(); }   // arrival ("@" keys)
        for (auto &g : gates) {
            if (g.hold_pt != name || g.hold_role != role || (g.hold_b >= 0 && g.hold_b != b)) continue;
            std::unique_lock<std::mutex> lk(m);
            if (!g.after_key.empty() && passed[g.after_key] < g.after_n) continue;      // gate not armed yet
            std::string key = g.until_role + ":" + g.until_pt;
            int target = g.rel ? passed[key] + g.until_n : g.until_n;
            if (!cv.wait_for(lk, std::chrono::milliseconds(gate_timeout_ms), [&] { return passed[key] >= target; })) gate_timeouts++;
        }
        if (delay_pct > 0 && gpoints.count(name)) {
            static thread_local vh::Rng *rng = nullptr;
            if (!rng) rng = new vh::Rng(delay_seed * 1000003ull + std::hash<std::thread::id>()(std::this_thread::get_id()));
            if ((int)rng->below(100) < delay_pct) {
                int us = (int)rng->below(4) == 0 ? (int)rng->range(200, 1500) : (int)rng->range(1, 120);
                std::this_thread::sleep_for(std::chrono::microseconds(us));
            } else if (rng->below(4) == 0) std::this_thread::yield();
        }
    }
    void pass(const char *name, const char *role, const char *seq_role = nullptr) {
        if (seq_active && seq_points.count(name)) seq_done(seq_role ? seq_role : role, name);
        if (gates.empty()) return;
        std::lock_guard<std::mutex> lk(m);
        passed[std::string(role) + ":" + name]++;
        cv.notify_all();
    }
    void await(const std::string &key, int n) {
        std::unique_lock<std::mutex> lk(m);
        if (!cv.wait_for(lk, std::chrono::milliseconds(gate_timeout_ms), [&] { return passed[key] >= n; })) gate_timeouts++;
    }
};
inline Sched &S() { static Sched s; return s; }

// ------------------------------------------------------------------ hang watchdog ------------------------------
inline long long now_ms() { return std::chrono::duration_cast<std::chrono::milliseconds>(Clock::now().time_since_epoch()).count(); }
inline std::atomic<bool> &in_call() { static std::atomic<bool> b{false}; return b; }
inline std::atomic<long long> &call_start() { static std::atomic<long long> t{0}; return t; }
inline std::atomic<int> &watchdog_ms() { static std::atomic<int> ms{20000}; return ms; }
struct CallGuard { CallGuard() { call_start() = now_ms(); in_call() = true; } ~CallGuard() { in_call() = false; } };
inline void hang(const char *what) { vh::fault("hang", what); }
inline void start_watchdog() {
    std::thread([] {
        for (;;) {
            std::this_thread::sleep_for(std::chrono::milliseconds(200));
            if (in_call().load() && now_ms() - call_start().load() > watchdog_ms()) hang("a call into the component under test did not return within the watchdog interval");
        }
    }).detach();
}
inline void init() { vh::install_faults(); vh::pre_fault() = flush_on_fault; }
}  // namespace vs
#endif
