// C11 conformance driver for tbox::main::Module trees.
//   driver script <scripts.jsonl> <out.ndjson>
//        one JSON object per line: {"p":{"n":N,"parent":[..],"req":[..],"iok":[[..],..],"sok":[[..],..]},"named":[..],
//                                   "wrap":bool,"c":["initialize",..]}
//        calls: initialize | start | stop | cleanup | destroy | main
//   driver random <seed> <nexec> <maxn> <maxdepth> <maxcalls> <out.ndjson>
// A program is data: modules 1..N numbered in pre-order (parent[1] = 0, children in registration order),
// required flags, per module the result of the k-th call of its onInit / onStart (non-empty list, the last
// element repeats - so a module can fail in one life cycle and succeed in the next), and how each module is
// named (0 unnamed, 1 named by its constructor, 2 renamed by addAs()).  "wrap": the calls are made on a plain
// Module("") that owns the program's tree (as `apps` in Main() owns the user's modules); such a tree may be
// destroyed in ANY state (running, initialised, ...): ~Module() of the plain root must then stop and clean up
// everything below it through the overrides.  Without "wrap" the calls are made on module 1 itself, and the
// script must call cleanup() before destroy (C++ cannot deliver module 1's own hooks from its destructor).  The driver builds REAL tbox::main::Module subclasses (probes that only log
// their hooks), makes the root calls, destroys the tree and records one ndjson line per root call with every hook
// event that reached a user override during that call.  "main" performs the call sequence of tbox::main::Main()
// (run_in_frontend.cpp / run_in_backend.cpp) on a plain Module("") root that owns the program's tree.
// The trace is validated by TLC against spec/ModuleTree/Trace_ModuleTree.tla; this program decides nothing.
#include <vh.h>
#include <algorithm>
#include <fstream>
#include <memory>
#include <nlohmann/json.hpp>
#include <tbox/base/json.hpp>
#include <tbox/main/module.h>

using tbox::Json;
using tbox::main::Module;
using json = nlohmann::json;

namespace {

// Module only stores the reference; nothing in module.cpp calls into the context.
struct NullContext : public tbox::main::Context {
    tbox::event::Loop *loop() const override { return nullptr; }
    tbox::eventx::ThreadPool *thread_pool() const override { return nullptr; }
    tbox::eventx::TimerPool *timer_pool() const override { return nullptr; }
    tbox::eventx::Async *async() const override { return nullptr; }
    tbox::terminal::TerminalNodes *terminal() const override { return nullptr; }
    tbox::coroutine::Scheduler *coroutine() const override { return nullptr; }
    std::chrono::milliseconds running_time() const override { return std::chrono::milliseconds(0); }
    std::chrono::system_clock::time_point start_time_point() const override { return std::chrono::system_clock::time_point(); }
};
NullContext g_ctx;

std::vector<std::string> g_hooks;   // hook events of the current root call
void hook(const char *h, int m, bool r) {
    g_hooks.push_back(std::string("{\"h\":\"") + h + "\",\"m\":" + std::to_string(m) + ",\"r\":" + (r ? "true" : "false") + "}");
}

typedef std::vector<bool> Plan;          // result of the k-th call; the last element repeats
bool outcome(const Plan &p, size_t &calls) { bool r = p[std::min(calls, p.size() - 1)]; ++calls; return r; }

struct Probe : public Module {
    int id; Plan iok, sok; size_t ni = 0, ns = 0;
    Probe(const std::string &name, int id_, const Plan &iok_, const Plan &sok_) : Module(name, g_ctx), id(id_), iok(iok_), sok(sok_) {}
  protected:
    void onFillDefaultConfig(Json &js) override { js["cfg" + std::to_string(id)] = id; }
    bool onInit(const Json &) override { bool r = outcome(iok, ni); hook("I", id, r); return r; }
    bool onStart() override { bool r = outcome(sok, ns); hook("S", id, r); return r; }
    void onStop() override { hook("T", id, true); }
    void onCleanup() override { hook("C", id, true); }
};

struct Prog {
    int n = 0;
    std::vector<int> parent, named;       // 1-based
    std::vector<bool> req;
    std::vector<Plan> iok, sok;
};

std::string jbools(const std::vector<bool> &v) {
    std::string s = "[";
    for (size_t i = 1; i < v.size(); ++i) { if (i > 1) s += ','; s += v[i] ? "true" : "false"; }
    return s + "]";
}
std::string jplans(const std::vector<Plan> &v) {
    std::string s = "[";
    for (size_t i = 1; i < v.size(); ++i) {
        if (i > 1) s += ',';
        s += '[';
        for (size_t k = 0; k < v[i].size(); ++k) { if (k) s += ','; s += v[i][k] ? "true" : "false"; }
        s += ']';
    }
    return s + "]";
}
std::string jints(const std::vector<int> &v) {
    std::string s = "[";
    for (size_t i = 1; i < v.size(); ++i) { if (i > 1) s += ','; s += std::to_string(v[i]); }
    return s + "]";
}

struct Run {
    Module *root = nullptr;     // the object the calls are made on (the program's module 1, or the plain wrapper in main mode)
    Json conf;
    bool wrapped = false;
    std::string last;           // previous root call

    void build(const Prog &p, bool wrap, const char *mode) {
        wrapped = wrap;
        std::vector<Module *> mod(p.n + 1, nullptr);
        for (int m = 1; m <= p.n; ++m) {
            std::string name = "m" + std::to_string(m);
            mod[m] = new Probe(p.named[m] == 1 ? name : p.named[m] == 2 ? "tmp" : "", m, p.iok[m], p.sok[m]);
        }
        for (int m = 2; m <= p.n; ++m) {
            bool ok = p.named[m] == 2 ? mod[p.parent[m]]->addAs(mod[m], "m" + std::to_string(m), p.req[m])
                                      : mod[p.parent[m]]->add(mod[m], p.req[m]);
            if (!ok) { fprintf(stderr, "add() refused module %d\n", m); _exit(3); }
        }
        if (wrap) {
            root = new Module("", g_ctx);       // like `Module apps("", ctx)` in Main(); RegisterApps() adds with required = true
            if (!root->add(mod[1])) { fprintf(stderr, "add() refused the root\n"); _exit(3); }
        } else root = mod[1];
        conf = Json::object();
        root->fillDefaultConfig(conf);          // as Main() does: creates the key of every named module
        vh::T().line("{\"e\":\"prog\",\"n\":" + std::to_string(p.n) + ",\"parent\":" + jints(p.parent) + ",\"req\":" + jbools(p.req) +
                     ",\"iok\":" + jplans(p.iok) + ",\"sok\":" + jplans(p.sok) + ",\"named\":" + jints(p.named) +
                     ",\"wrap\":" + (wrap ? "true" : "false") + ",\"mode\":\"" + mode + "\"}");
    }
    void emit(const char *op, bool ret) {
        std::string s = std::string("{\"e\":\"call\",\"op\":\"") + op + "\",\"ret\":" + (ret ? "true" : "false") + ",\"hk\":[";
        for (size_t i = 0; i < g_hooks.size(); ++i) { if (i) s += ','; s += g_hooks[i]; }
        vh::T().line(s + "]}");
        g_hooks.clear();
    }
    bool call(const std::string &op) {
        if (!root) { fprintf(stderr, "call %s on a destroyed tree\n", op.c_str()); _exit(3); }
        bool ret = true;
        if (op == "initialize") ret = root->initialize(conf);
        else if (op == "start") ret = root->start();
        else if (op == "stop") root->stop();
        else if (op == "cleanup") root->cleanup();
        else if (op == "destroy") {
            if (!wrapped && last != "cleanup") { fprintf(stderr, "script destroys module 1 itself without cleanup()\n"); _exit(3); }
            delete root; root = nullptr;
        }
        else { fprintf(stderr, "unknown call %s\n", op.c_str()); _exit(3); }
        emit(op.c_str(), ret);
        last = op;
        return ret;
    }
    // the sequencing of Main() / Start()+Stop() over `apps` (the context's own steps left out)
    void main_sequence() {
        if (call("initialize")) {
            if (call("start"))
                call("stop");           // the stop signal / Stop()
            call("cleanup");
        }
        call("destroy");                // `apps` goes out of scope
    }
    void finish() {
        if (root) { if (!wrapped) call("cleanup"); call("destroy"); }
        vh::T().line("{\"e\":\"Reset\"}");
    }
};

void exec(const Prog &p, const std::vector<std::string> &calls, bool wrap) {
    Run r;
    bool is_main = calls.size() == 1 && calls[0] == "main";
    wrap = wrap || is_main;
    g_hooks.clear();
    r.build(p, wrap, is_main ? "main" : "script");
    if (is_main) r.main_sequence();
    else for (auto &c : calls) r.call(c);
    r.finish();
}

}  // namespace

int main(int argc, char **argv) {
    if (argc < 2) return 3;
    std::string mode = argv[1];
    vh::install_faults();
    if (mode == "script" && argc == 4) {
        vh::T().open(argv[3]);
        std::ifstream in(argv[2]); std::string line;
        while (std::getline(in, line)) {
            if (line.empty()) continue;
            json j = json::parse(line);
            Prog p; p.n = j["p"]["n"].get<int>();
            p.parent.assign(1, 0); p.named.assign(1, 0); p.req.assign(1, false); p.iok.assign(1, Plan()); p.sok.assign(1, Plan());
            auto plan = [](const json &x) {         // a single boolean or a non-empty list
                Plan q;
                if (x.is_boolean()) q.push_back(x.get<bool>()); else for (auto &b : x) q.push_back(b.get<bool>());
                if (q.empty()) { fprintf(stderr, "empty outcome plan\n"); _exit(3); }
                return q;
            };
            for (int m = 0; m < p.n; ++m) {
                p.parent.push_back(j["p"]["parent"][m].get<int>()); p.req.push_back(j["p"]["req"][m].get<bool>());
                p.iok.push_back(plan(j["p"]["iok"][m])); p.sok.push_back(plan(j["p"]["sok"][m]));
                p.named.push_back(j.contains("named") ? j["named"][m].get<int>() : 1);
            }
            std::vector<std::string> calls;
            for (auto &c : j["c"]) calls.push_back(c.get<std::string>());
            exec(p, calls, j.value("wrap", false));
        }
    } else if (mode == "random" && argc == 8) {
        vh::Rng rng(strtoull(argv[2], nullptr, 10));
        int nexec = atoi(argv[3]), maxn = atoi(argv[4]), maxdepth = atoi(argv[5]), maxcalls = atoi(argv[6]);
        vh::T().open(argv[7]);
        static const char *ops[] = {"initialize", "start", "stop", "cleanup"};
        for (int x = 0; x < nexec; ++x) {
            Prog p; p.n = (int)rng.range(1, maxn);
            std::vector<int> depth(p.n + 1, 1);
            p.parent.assign(p.n + 1, 0); p.named.assign(p.n + 1, 1);
            p.req.assign(p.n + 1, true); p.iok.assign(p.n + 1, Plan(1, true)); p.sok.assign(p.n + 1, Plan(1, true));
            int shape = (int)rng.below(3);      // 0: any, 1: deep, 2: wide
            for (int m = 2; m <= p.n; ++m) {
                std::vector<int> chain;         // path root .. m-1, admissible parents keep the depth bound
                for (int a = m - 1; a != 0; a = p.parent[a]) if (depth[a] < maxdepth) chain.push_back(a);
                int pick = shape == 1 ? (rng.chance(75) ? 0 : (int)rng.below(chain.size()))
                         : shape == 2 ? (rng.chance(60) ? (int)chain.size() - 1 : (int)rng.below(chain.size()))
                         : (int)rng.below(chain.size());
                p.parent[m] = chain[pick]; depth[m] = depth[p.parent[m]] + 1;
            }
            int fail = (int)rng.below(4);       // 0: nothing fails, 1: few, 2: some, 3: only optional modules fail
            std::vector<bool> has_unnamed(p.n + 1, false);
            for (int m = 1; m <= p.n; ++m) {
                p.req[m] = m == 1 || rng.chance(60);
                int pct = fail == 0 ? 0 : fail == 1 ? 6 : 18;
                if (fail != 3 || !p.req[m]) {
                    // results of the 1st, 2nd, 3rd.. call: a module may fail in one life cycle and succeed in another
                    int len = rng.chance(50) ? 1 : (int)rng.range(2, 3);
                    p.iok[m].clear(); p.sok[m].clear();
                    for (int k = 0; k < len; ++k) { p.iok[m].push_back(!rng.chance(pct)); p.sok[m].push_back(!rng.chance(pct)); }
                }
                p.named[m] = (int)rng.below(3);
                if (m > 1 && p.named[m] == 0) {       // add() refuses two children with the same (empty) name
                    if (has_unnamed[p.parent[m]]) p.named[m] = 1; else has_unnamed[p.parent[m]] = true;
                }
            }
            std::vector<std::string> calls;
            int style = (int)rng.below(10);
            if (style == 0) calls.push_back("main");
            else if (style <= 5) {              // the documented order with noise
                static const char *order[] = {"initialize", "start", "stop", "cleanup"};
                int rounds = (int)rng.range(1, 3);          // several life cycles of the same tree
                for (int k = 0; k < rounds; ++k)
                    for (int i = 0; i < 4; ++i) {
                        if (rng.chance(12)) calls.push_back(ops[rng.below(4)]);
                        if (!rng.chance(12)) calls.push_back(order[i]);
                        if (rng.chance(8)) calls.push_back(order[i]);
                    }
            } else {
                int k = (int)rng.range(0, maxcalls);
                for (int i = 0; i < k; ++i) calls.push_back(ops[rng.below(4)]);
            }
            bool wrap = style == 0 || rng.chance(50);
            if (style != 0) {
                // a wrapped tree may be destroyed in whatever state it is in; module 1 itself only after cleanup()
                if (!wrap || rng.chance(40)) calls.push_back("cleanup");
                else if (style <= 5 && rng.chance(50)) {       // cut the last life cycle short: destroy while running / initialised
                    size_t cut = (size_t)rng.below(4);
                    while (cut-- && !calls.empty()) calls.pop_back();
                }
                calls.push_back("destroy");
            }
            exec(p, calls, wrap);
        }
    } else return 3;
    vh::T().close();
    return 0;
}
