// C17 conformance driver: builds REAL tbox::flow action trees from programs (JSON, one per line),
// drives the event loop pass by pass from inside (kForever + self re-posting runNext task), applies the
// control script to the root and records an ndjson trace.  It decides nothing; TLC (Trace_ActionTree) does.
//
//   driver run <programs.jsonl> <trace.ndjson>
//     each input line: {"prog":[node,...], "script":["start","-","pause","reset+start","~stop",...], "passes":N}
//     script entry: calls joined by "+" are made back to back; a leading "~" places them in the middle of the next batch
//     node: {"k":kind,"m":mode,"c":[child ids, 0 = absent],"p":parent,"o":outcome,"d":delay,"tag":t,"to":timeout,"n":times}
//
// One pass of the loop = timers (SleepAction, action timeouts; virtual clock) -> this driver's step -> the deferred
// notifications queued before the step.  The step: snapshot of the previous pass, control call, tick.
#include <cstdio>
#include <cstdlib>
#include <fstream>
#include <functional>
#include <memory>
#include <string>
#include <vector>

#include <nlohmann/json.hpp>

#include <tbox/base/verif_hook.h>
#include <tbox/base/log_output.h>
#include <tbox/event/loop.h>
#include <tbox/flow/action.h>
#include <tbox/flow/actions/sequence_action.h>
#include <tbox/flow/actions/parallel_action.h>
#include <tbox/flow/actions/if_else_action.h>
#include <tbox/flow/actions/if_then_action.h>
#include <tbox/flow/actions/switch_action.h>
#include <tbox/flow/actions/loop_action.h>
#include <tbox/flow/actions/loop_if_action.h>
#include <tbox/flow/actions/repeat_action.h>
#include <tbox/flow/actions/wrapper_action.h>
#include <tbox/flow/actions/composite_action.h>
#include <tbox/flow/actions/function_action.h>
#include <tbox/flow/actions/sleep_action.h>

#include "vh.h"

using namespace tbox;
using namespace tbox::flow;
using nlohmann::json;

namespace {

uint64_t g_now_ms = 100000;
bool VirtualClock(uint64_t &ms) { ms = g_now_ms; return true; }
const int kTickMs = 10;

std::vector<std::pair<std::string, int>> g_ev;     // observable events since the last snapshot
void Ev(const char *k, int n) { g_ev.emplace_back(k, n); }

const char *TagMsg(int tag) { return tag == 1 ? "case:a" : tag == 2 ? "case:b" : "none"; }

// Probe leaf: completes `delay` ticks after it was started (counted only while it is running);
// outcome succ / fail / never / block (blocks first; after being resumed it completes with success).
class Probe : public Action {
  public:
    Probe(event::Loop &loop, int node, const std::string &outcome, int delay, int tag)
      : Action(loop, "Probe"), node_(node), outcome_(outcome), delay_(delay), tag_(tag) { }
    virtual bool isReady() const override { return true; }

    void tick() {
        if (state() != State::kRunning || outcome_ == "never")
            return;
        if (cnt_ > 0 && --cnt_ == 0)
            fire();
    }

  protected:
    virtual void onStart() override {
        Action::onStart();
        Ev("start", node_);
        cnt_ = delay_; phase_ = 0;
        if (delay_ == 0) fire();
    }
    virtual void onPause() override { Ev("pause", node_); Action::onPause(); }
    virtual void onResume() override {
        Action::onResume();
        Ev("resume", node_);
        if (phase_ == 1) {
            phase_ = 2; cnt_ = delay_;
            if (delay_ == 0) fire();
        }
    }
    virtual void onStop() override { Ev("stop", node_); Action::onStop(); }
    virtual void onReset() override { Ev("reset", node_); cnt_ = 0; phase_ = 0; Action::onReset(); }
    virtual void onFinal() override { Ev("final", node_); }

  private:
    void fire() {
        if (outcome_ == "succ") finish(true, Reason(TagMsg(tag_)));
        else if (outcome_ == "fail") finish(false, Reason(TagMsg(tag_)));
        else if (outcome_ == "block") {
            if (phase_ == 0) { phase_ = 1; block(Reason(1)); }
            else finish(true, Reason(TagMsg(tag_)));
        }
    }
    int node_; std::string outcome_; int delay_; int tag_;
    int cnt_ = 0; int phase_ = 0;
};

class NamedComposite : public CompositeAction {
  public:
    explicit NamedComposite(event::Loop &loop) : CompositeAction(loop, "Comp") { }
};

struct Tree {
    std::vector<Action*> nodes;      // index = node id (1-based), [0] unused
    std::vector<Probe*> probes;
    Action *root = nullptr;
};

[[noreturn]] void Bad(const std::string &what) { fprintf(stderr, "driver: bad program: %s\n", what.c_str()); _exit(4); }

Action *Build(event::Loop &loop, const json &prog, int id, Tree &t) {
    const json &nd = prog.at(id - 1);
    std::string k = nd.at("k");
    int m = nd.at("m"), to = nd.at("to");
    std::vector<int> c = nd.at("c").get<std::vector<int>>();
    Action *a = nullptr;
    auto kid = [&](size_t i) -> Action * { return (i < c.size() && c[i] != 0) ? Build(loop, prog, c[i], t) : nullptr; };
    auto ok = [&](bool r) { if (!r) Bad("child refused in node " + std::to_string(id)); };

    if (k == "Leaf") {
        auto p = new Probe(loop, id, nd.at("o"), nd.at("d"), nd.at("tag"));
        t.probes.push_back(p);
        a = p;
    } else if (k == "Func") {
        bool r = nd.at("o") == "succ";
        a = new FunctionAction(loop, [r] { return r; });
    } else if (k == "Sleep") {
        a = new SleepAction(loop, std::chrono::milliseconds(int(nd.at("d")) * kTickMs));
    } else if (k == "Seq") {
        auto s = new SequenceAction(loop, static_cast<SequenceAction::Mode>(m));
        for (size_t i = 0; i < c.size(); ++i) ok(s->addChild(kid(i)) == int(i));
        a = s;
    } else if (k == "Par") {
        auto s = new ParallelAction(loop, static_cast<ParallelAction::Mode>(m));
        for (size_t i = 0; i < c.size(); ++i) ok(s->addChild(kid(i)) == int(i));
        a = s;
    } else if (k == "IfElse") {
        auto s = new IfElseAction(loop);
        ok(s->setChildAs(kid(0), "if"));
        if (c.at(1)) ok(s->setChildAs(kid(1), "then"));
        if (c.at(2)) ok(s->setChildAs(kid(2), "else"));
        a = s;
    } else if (k == "IfThen") {
        auto s = new IfThenAction(loop);
        for (size_t i = 0; i + 1 < c.size(); i += 2) {
            ok(s->addChildAs(kid(i), "if") >= 0);
            ok(s->addChildAs(kid(i + 1), "then") >= 0);
        }
        a = s;
    } else if (k == "Switch") {
        auto s = new SwitchAction(loop);
        ok(s->setChildAs(kid(0), "switch"));
        if (c.at(1)) ok(s->setChildAs(kid(1), "default"));
        if (c.at(2)) ok(s->setChildAs(kid(2), "case:a"));
        if (c.at(3)) ok(s->setChildAs(kid(3), "case:b"));
        a = s;
    } else if (k == "Loop") {
        auto s = new LoopAction(loop, static_cast<LoopAction::Mode>(m));
        ok(s->setChild(kid(0)));
        a = s;
    } else if (k == "LoopIf") {
        auto s = new LoopIfAction(loop);
        ok(s->setChildAs(kid(0), "if"));
        ok(s->setChildAs(kid(1), "exec"));
        s->setFinishResult(m == 1);
        a = s;
    } else if (k == "Repeat") {
        auto s = new RepeatAction(loop, size_t(int(nd.at("n"))), static_cast<RepeatAction::Mode>(m));
        ok(s->setChild(kid(0)));
        a = s;
    } else if (k == "Wrap") {
        auto s = new WrapperAction(loop, static_cast<WrapperAction::Mode>(m));
        ok(s->setChild(kid(0)));
        a = s;
    } else if (k == "Comp") {
        auto s = new NamedComposite(loop);
        ok(s->setChild(kid(0)));
        a = s;
    } else {
        Bad("kind " + k);
    }
    if (auto as = dynamic_cast<AssembleAction*>(a))
        as->setFinalCallback([id] { Ev("final", id); });
    if (to > 0)
        a->setTimeout(std::chrono::milliseconds(to * kTickMs));
    t.nodes[id] = a;
    return a;
}

const char *StName(Action::State s) {
    switch (s) {
        case Action::State::kIdle: return "Idle";
        case Action::State::kRunning: return "Running";
        case Action::State::kPause: return "Pause";
        case Action::State::kFinished: return "Finished";
        case Action::State::kStoped: return "Stoped";
    }
    return "?";
}
const char *ResName(Action::Result r) {
    switch (r) {
        case Action::Result::kUnsure: return "Unsure";
        case Action::Result::kSuccess: return "Succ";
        case Action::Result::kFail: return "Fail";
    }
    return "?";
}

void Snap(const Tree &t) {
    std::string s = "{\"e\":\"Snap\",\"st\":[";
    for (size_t i = 1; i < t.nodes.size(); ++i) { if (i > 1) s += ','; s += '"'; s += StName(t.nodes[i]->state()); s += '"'; }
    s += "],\"res\":[";
    for (size_t i = 1; i < t.nodes.size(); ++i) { if (i > 1) s += ','; s += '"'; s += ResName(t.nodes[i]->result()); s += '"'; }
    s += "],\"ev\":[";
    for (size_t i = 0; i < g_ev.size(); ++i) {
        if (i) s += ',';
        s += "[\"" + g_ev[i].first + "\"," + std::to_string(g_ev[i].second) + "]";
    }
    s += "]}";
    g_ev.clear();
    vh::T().line(s);
}

void RunOne(const json &job) {
    const json &prog = job.at("prog");
    std::vector<std::string> script = job.at("script").get<std::vector<std::string>>();
    int passes = job.value("passes", int(script.size()) + 6);

    vh::T().line("{\"e\":\"Prog\",\"prog\":" + prog.dump() + "}");
    g_ev.clear();

    event::Loop *loop = event::Loop::New();
    Tree t;
    t.nodes.assign(prog.size() + 1, nullptr);
    t.root = Build(*loop, prog, 1, t);
    t.root->setFinishCallback([](bool succ, const Action::Reason &, const Action::Trace &) { Ev("rootfin", succ ? 1 : 0); });
    t.root->setBlockCallback([](const Action::Reason &, const Action::Trace &) { Ev("rootblk", 0); });

    int pass = 0;
    // applies one script entry ("stop", "reset+start", ...) to the root, one Ctl line per call
    auto apply = [&](const std::string &entry, bool mid) {
        size_t pos = 0;
        while (pos <= entry.size()) {
            size_t e = entry.find('+', pos);
            if (e == std::string::npos) e = entry.size();
            std::string op = entry.substr(pos, e - pos);
            pos = e + 1;
            bool ret = true;
            if (op == "start") ret = t.root->start();
            else if (op == "pause") ret = t.root->pause();
            else if (op == "resume") ret = t.root->resume();
            else if (op == "stop") ret = t.root->stop();
            else if (op == "reset") t.root->reset();
            else Bad("op " + op);
            vh::T().printf("{\"e\":\"Ctl\",\"op\":\"%s\",\"ret\":%s,\"mid\":%s}", op.c_str(), ret ? "true" : "false", mid ? "true" : "false");
        }
    };
    std::function<void()> step = [&] {
        if (pass > 0) Snap(t);                 // state after the previous pass (its timers and deliveries included)
        if (pass >= passes) { loop->exitLoop(); return; }
        loop->runNext(step, "driver");         // keep this task first in the next batch
        std::string entry = pass < int(script.size()) ? script[pass] : "-";
        if (entry != "-" && entry[0] != '~')
            apply(entry, false);
        for (auto p : t.probes) p->tick();
        g_now_ms += kTickMs;
        vh::T().line("{\"e\":\"Tick\"}");
        ++pass;
        if (entry[0] == '~') {
            // a call placed in the middle of the next batch: after the notifications queued by this step,
            // before those queued by this pass's deliveries
            std::string late = entry.substr(1);
            loop->runNext([&, late] { Snap(t); apply(late, true); }, "driver-mid");
        }
    };
    loop->runNext(step, "driver");
    loop->runLoop(event::Loop::Mode::kForever);
    // whatever is still queued was run by the loop's exit clean-up while the tree was alive
    delete t.root;
    delete loop;
    g_ev.clear();
    vh::T().line("{\"e\":\"Reset\"}");      // end of this execution
}

}  // namespace

int main(int argc, char **argv) {
    if (argc < 4 || std::string(argv[1]) != "run") { fprintf(stderr, "usage: driver run <programs.jsonl> <trace.ndjson>\n"); return 2; }
    vh::T().open(argv[3]);
    vh::install_faults();
    tbox::verif::Hooks().steady_ms = VirtualClock;
    std::ifstream in(argv[2]);
    if (!in) { perror(argv[2]); return 3; }
    std::string line;
    while (std::getline(in, line)) {
        if (line.empty()) continue;
        RunOne(json::parse(line));
    }
    vh::T().close();
    return 0;
}
