// E07 conformance driver for tbox::network::TcpConnector and tbox::network::TcpClient.
//   driver script <scripts.jsonl> <sockdir> <out.ndjson>
//        one JSON object per line: {"kind":"connector"|"client","fam":"unix"|"tcp",
//                                   "cfg":{"tries":n,"hasfail":bool,"dly":k,"autorc":bool,"arm":{"C":..,"F":..,"D":..,"R":..}},"ops":[{"o":..,"n":..}...]}
//        ops: init listen unlisten start stop cleanup adv(n ms) pass arm(w,a) send(n) shutdown psend(n) pclose
//   driver random <seed> <nexec> <nops> <sockdir> <out.ndjson>
// The object under test lives in a real epoll loop that is driven pass by pass (kForever, the driver is a runNext task that
// re-posts itself for a `pass`), time is virtual (reconnect delays are timers of the loop), the server is a listening socket of
// this program (AF_UNIX path in <sockdir> / 127.0.0.1 in a private network namespace) that is opened (`listen`), closed
// (`unlisten`), and whose accepted end of the client's connection writes (`psend`) and closes (`pclose`).
// The user's callbacks record Connected / ConnectFail / DelayCalc / Disconnected / Recv and, when armed (one shot), call the API
// from inside the callback (React_<what> ... ReactRet).  Every op is recorded before it is applied, followed by the events it
// caused and a `ret` line: return value, state(), bytes / end of stream seen by the accepted end while the client is connected.
// The trace is validated by TLC against spec/TcpClient/Trace_TcpClient.tla; this program decides nothing.
#include <vh.h>
#include <fstream>
#include <functional>
#include <map>
#include <memory>
#include <nlohmann/json.hpp>
#include <tbox/base/verif_hook.h>
#include <tbox/event/loop.h>
#include <tbox/network/tcp_client.h>
#include <tbox/network/tcp_connection.h>
#include <tbox/network/tcp_connector.h>
#include "netsim.h"

using json = nlohmann::json;
using namespace tbox;
using namespace tbox::network;

struct Op { std::string o; int n = 0; std::string w, a; };
struct Cfg { int tries = 0; bool hasfail = false; int dly = 0; bool autorc = true; std::map<std::string, std::string> arm; };
struct Script { std::string kind, fam; Cfg cfg; std::vector<Op> ops; };

static void out(const std::string &s) { vh::T().line(s); vh::T().flush(); }
static void ev(const std::string &e, long a = 0, long b = 0) {
    out("{\"e\":\"" + e + "\",\"a\":" + std::to_string(a) + ",\"b\":" + std::to_string(b) + "}");
}

static event::Loop *loop = nullptr;
static std::string sockdir;
static int tcp_port = 0, tcp_holder = -1;

// ---- the execution in progress ----
static Script cur;
static TcpConnector *connector = nullptr;
static TcpClient *client = nullptr;
static std::map<std::string, std::string> arm;
static std::vector<TcpConnection *> delivered;     // connections handed to the connector's callback (destroyed after the op)
static int lis_fd = -1;
static std::vector<int> accepted;                  // accepted and not yet bound / closed
static int peer_fd = -1;                           // accepted end of the client's current connection
static bool peer_closed = false;                   // pclose done
static size_t peer_got = 0; static bool peer_eof = false;
static unsigned char peer_seq = 0;                 // next byte value the peer writes (mod 251)
static int exec_no = 0;

static bool is_cn() { return cur.kind == "connector"; }
static std::string unix_path() { return sockdir + "/e07.sock"; }
static SockAddr server_addr() {
    if (cur.fam == "unix") return SockAddr(DomainSockPath(unix_path()));
    return SockAddr(IPAddress::Loop(), (uint16_t)tcp_port);
}
static const char *cn_state() {
    switch (connector->state()) {
        case TcpConnector::State::kNone: return "none";
        case TcpConnector::State::kInited: return "inited";
        case TcpConnector::State::kReconnectDelay: return "delay";
        case TcpConnector::State::kConnecting: return "connecting";
    }
    return "?";
}
static const char *cl_state() {
    switch (client->state()) {
        case TcpClient::State::kNone: return "none";
        case TcpClient::State::kInited: return "inited";
        case TcpClient::State::kConnecting: return "connecting";
        case TcpClient::State::kConnected: return "connected";
    }
    return "?";
}

// a user callback calls the API (armed reactions are one shot)
static void react(const char *w) {
    std::string a = arm[w];
    if (a == "none" || a.empty()) return;
    arm[w] = "none";
    ev("React_" + a);
    int r = 0;
    if (is_cn()) {
        if (a == "start") r = connector->start();
        else if (a == "stop") connector->stop();
        else if (a == "cleanup") connector->cleanup();
    } else {
        if (a == "start") r = client->start();
        else if (a == "stop") client->stop();
        else if (a == "cleanup") client->cleanup();
        else if (a == "send") { char c = 'r'; r = client->send(&c, 1); }
    }
    ev("ReactRet", r);
}

static int do_init() {
    if (is_cn()) {
        connector->initialize(server_addr());
        connector->setConnectedCallback([](TcpConnection *c) { delivered.push_back(c); ev("Connected"); react("C"); });
        connector->setTryTimes(cur.cfg.tries);
        if (cur.cfg.hasfail) connector->setConnectFailCallback([] { ev("ConnectFail"); react("F"); });
        if (cur.cfg.dly > 0) { int k = cur.cfg.dly; connector->setReconnectDelayCalcFunc([k](int n) { ev("DelayCalc", n); return k * n; }); }
        return 0;
    } else {
        bool ok = client->initialize(server_addr());
        if (ok) {
            client->setConnectedCallback([] { ev("Connected"); react("C"); });
            client->setDisconnectedCallback([] { ev("Disconnected"); react("D"); });
            client->setReceiveCallback([](Buffer &b) {
                size_t n = b.readableSize(); const uint8_t *p = b.readableBegin();
                long first = n ? p[0] : -1; bool contig = true;
                for (size_t i = 1; i < n; ++i) if (p[i] != (unsigned char)((p[0] + i) % 251)) contig = false;
                b.hasReadAll();
                ev("Recv", first, contig ? (long)n : -1);
                react("R");
            }, 0);
            client->setAutoReconnect(cur.cfg.autorc);
        }
        return ok ? 1 : 0;
    }
}

static void close_fd(int &fd) { if (fd >= 0) { close(fd); fd = -1; } }
static void do_listen() {
    if (cur.fam == "unix") lis_fd = ns::unix_listener(unix_path());
    else { lis_fd = ns::tcp_bound_socket(tcp_port, nullptr); if (lis_fd >= 0 && listen(lis_fd, 64) != 0) close_fd(lis_fd); }
    if (lis_fd < 0) { fprintf(stderr, "cannot listen: %s\n", strerror(errno)); _exit(4); }
}

// after every op: let the kernel finish, accept what has arrived, bind / drop accepted ends, read the bound end
static void accept_all() {
    if (lis_fd >= 0) for (;;) { int fd = accept4(lis_fd, nullptr, nullptr, SOCK_NONBLOCK | SOCK_CLOEXEC); if (fd < 0) break; accepted.push_back(fd); }
}
static void after_op() {
    if (cur.fam == "tcp") ns::settle(true, accept_all);
    accept_all();
    for (auto c : delivered) delete c;
    delivered.clear();
    if (is_cn()) {
        if (connector && connector->state() != TcpConnector::State::kConnecting) { for (int &fd : accepted) close_fd(fd); accepted.clear(); }
        if (cur.fam == "tcp") ns::settle();
        return;
    }
    TcpClient::State st = client ? client->state() : TcpClient::State::kNone;
    if (st == TcpClient::State::kConnected) {
        if (peer_fd < 0 && !peer_closed && !accepted.empty()) {          // the newest accepted end is the live one
            peer_fd = accepted.back(); accepted.pop_back();
            for (int &fd : accepted) close_fd(fd);
            accepted.clear();
            peer_got = 0; peer_eof = false; peer_seq = 0;
        }
        if (peer_fd >= 0) peer_got += ns::drain(peer_fd, nullptr, peer_eof);
    } else {
        close_fd(peer_fd); peer_closed = false; peer_got = 0; peer_eof = false;
        if (st != TcpClient::State::kConnecting) { for (int &fd : accepted) close_fd(fd); accepted.clear(); }
    }
    if (cur.fam == "tcp") ns::settle();
}
static void ret_line(int v) {
    after_op();
    bool conn = !is_cn() && client && client->state() == TcpClient::State::kConnected;
    out("{\"e\":\"ret\",\"v\":" + std::to_string(v) + ",\"st\":\"" + (is_cn() ? (connector ? cn_state() : "none") : (client ? cl_state() : "none")) +
        "\",\"pg\":" + std::to_string(conn ? peer_got : 0) + ",\"pe\":" + (conn && peer_eof ? "1" : "0") + "}");
}

static void begin_exec(const Script &s) {
    cur = s; arm = s.cfg.arm; ++exec_no;
    std::string h = "{\"e\":\"Begin\",\"kind\":\"" + s.kind + "\",\"fam\":\"" + s.fam + "\",\"tries\":" + std::to_string(s.cfg.tries) +
                    ",\"hasfail\":" + (s.cfg.hasfail ? "1" : "0") + ",\"dly\":" + std::to_string(s.cfg.dly) + ",\"autorc\":" + (s.cfg.autorc ? "1" : "0") +
                    ",\"arm\":{";
    const char *ws[] = {"C", "F", "D", "R"};
    for (int i = 0; i < 4; ++i) { std::string a = arm[ws[i]]; if (a.empty()) a = arm[ws[i]] = "none"; h += std::string(i ? "," : "") + "\"" + ws[i] + "\":\"" + a + "\""; }
    out(h + "}}");
    ::unlink(unix_path().c_str());
    if (is_cn()) connector = new TcpConnector(loop); else client = new TcpClient(loop);
}
static void end_exec() {
    out("{\"e\":\"destroy\"}");
    delete connector; connector = nullptr;
    delete client; client = nullptr;
    out("{\"e\":\"ret\",\"v\":0,\"st\":\"none\",\"pg\":0,\"pe\":0}");
    for (int &fd : accepted) close_fd(fd);
    accepted.clear();
    close_fd(peer_fd); close_fd(lis_fd);
    peer_closed = false; peer_got = 0; peer_eof = false;
    out("{\"e\":\"Reset\"}");
}

// driver-side applicability (only what the driver itself would trip over; everything else is TLC's business)
static bool applicable(const Op &op) {
    if (op.o == "listen") return lis_fd < 0;
    if (op.o == "unlisten") return lis_fd >= 0;
    if (op.o == "init" && is_cn()) return connector->state() == TcpConnector::State::kNone;
    if (op.o == "psend" || op.o == "pclose") return !is_cn() && peer_fd >= 0 && !peer_closed && client->state() == TcpClient::State::kConnected;
    if (op.o == "send") return !is_cn() && !peer_closed;      // environment assumption: no write to a connection known to be closed
    if (op.o == "shutdown") return !is_cn();
    return true;
}
static void apply(const Op &op) {          // every op but `pass`
    if (op.o == "init") { out("{\"e\":\"init\"}"); int v = do_init(); ret_line(v); }
    else if (op.o == "listen") { out("{\"e\":\"listen\"}"); do_listen(); ret_line(0); }
    else if (op.o == "unlisten") { out("{\"e\":\"unlisten\"}"); close_fd(lis_fd); ret_line(0); }
    else if (op.o == "start") { out("{\"e\":\"start\"}"); bool r = is_cn() ? connector->start() : client->start(); ret_line(r); }
    else if (op.o == "stop") { out("{\"e\":\"stop\"}"); if (is_cn()) connector->stop(); else client->stop(); ret_line(0); }
    else if (op.o == "cleanup") { out("{\"e\":\"cleanup\"}"); if (is_cn()) connector->cleanup(); else client->cleanup(); ret_line(0); }
    else if (op.o == "adv") { out("{\"e\":\"adv\",\"n\":" + std::to_string(op.n) + "}"); ns::g_vnow += (uint64_t)op.n; ret_line(0); }
    else if (op.o == "arm") { out("{\"e\":\"arm\",\"w\":\"" + op.w + "\",\"a\":\"" + op.a + "\"}"); arm[op.w] = op.a; ret_line(0); }
    else if (op.o == "send") {
        out("{\"e\":\"send\",\"n\":" + std::to_string(op.n) + "}");
        std::string d((size_t)op.n, 's'); bool r = client->send(d.data(), d.size()); ret_line(r);
    }
    else if (op.o == "shutdown") { out("{\"e\":\"shutdown\"}"); bool r = client->shutdown(SHUT_WR); ret_line(r); }
    else if (op.o == "psend") {
        out("{\"e\":\"psend\",\"n\":" + std::to_string(op.n) + "}");
        std::string d; for (int i = 0; i < op.n; ++i) { d.push_back((char)peer_seq); peer_seq = (unsigned char)((peer_seq + 1) % 251); }
        ssize_t w = ::send(peer_fd, d.data(), d.size(), MSG_NOSIGNAL);
        if (w != (ssize_t)d.size()) { fprintf(stderr, "peer write failed: %s\n", strerror(errno)); _exit(4); }
        ret_line(0);
    }
    else if (op.o == "pclose") {
        out("{\"e\":\"pclose\"}");
        bool e = false; peer_got += ns::drain(peer_fd, nullptr, e);
        shutdown(peer_fd, SHUT_WR);
        if (cur.fam == "tcp") ns::settle();
        close_fd(peer_fd); peer_closed = true;
        ret_line(0);
    }
    else { fprintf(stderr, "unknown op %s\n", op.o.c_str()); _exit(3); }
}

// ---- op sources ----
static std::function<bool(Script &)> next_exec;  // prepares the next execution; false: no more
static std::function<bool(Op &)> next_op;        // next op of the current execution; false: execution over

static bool in_exec = false, awaiting_pass = false;
static void step() {
    if (awaiting_pass) { ret_line(0); awaiting_pass = false; }
    for (;;) {
        if (ns::g_settle_timeout) {        // infrastructure, not a verdict: exit like a timeout (vlib: rc 124 = Infra)
            fprintf(stderr, "the kernel did not settle a loopback TCP exchange within 20 s (execution %d)\n", exec_no);
            vh::T().flush(); _exit(124);
        }
        if (!in_exec) {
            Script s;
            if (!next_exec(s)) { loop->exitLoop(); return; }
            begin_exec(s); in_exec = true;
        }
        Op op;
        if (!next_op(op)) { end_exec(); in_exec = false; continue; }
        if (!applicable(op)) continue;
        if (op.o == "pass") {
            out("{\"e\":\"pass\"}");
            awaiting_pass = true;
            loop->runNext(step, "driver");
            return;
        }
        apply(op);
    }
}

static Cfg parse_cfg(const json &j) {
    Cfg c;
    c.tries = j.value("tries", 0);
    c.hasfail = j.value("hasfail", false);
    c.dly = j.value("dly", 0);
    c.autorc = j.value("autorc", true);
    if (j.contains("arm")) for (auto it = j["arm"].begin(); it != j["arm"].end(); ++it) c.arm[it.key()] = it.value().get<std::string>();
    return c;
}

int main(int argc, char **argv) {
    if (argc < 2) return 3;
    std::string mode = argv[1];
    signal(SIGPIPE, SIG_IGN);
    vh::install_faults();
    ns::private_netns();
    tbox::verif::Hooks().steady_ms = ns::steady_hook;
    tcp_holder = ns::tcp_bound_socket(0, &tcp_port);
    if (tcp_holder < 0) { perror("tcp port"); return 4; }

    std::vector<Script> scripts; size_t ei = 0, oi = 0;
    std::unique_ptr<vh::Rng> rng; int nexec = 0, nops = 0, xi = 0, made = 0;
    if (mode == "script" && argc == 5) {
        std::ifstream in(argv[2]); std::string line;
        while (std::getline(in, line)) {
            if (line.empty()) continue;
            json j = json::parse(line);
            Script s; s.kind = j["kind"].get<std::string>(); s.fam = j["fam"].get<std::string>(); s.cfg = parse_cfg(j["cfg"]);
            for (auto &e : j["ops"]) { Op op; op.o = e["o"].get<std::string>(); op.n = e.value("n", 0); op.w = e.value("w", std::string()); op.a = e.value("a", std::string()); s.ops.push_back(op); }
            scripts.push_back(s);
        }
        sockdir = argv[3];
        vh::T().open(argv[4]);
        next_exec = [&](Script &s) { if (ei >= scripts.size()) return false; s = scripts[ei]; oi = 0; return true; };
        next_op = [&](Op &op) { if (oi >= scripts[ei].ops.size()) { ++ei; return false; } op = scripts[ei].ops[oi++]; return true; };
    } else if (mode == "random" && argc == 7) {
        rng.reset(new vh::Rng(strtoull(argv[2], nullptr, 10)));
        nexec = atoi(argv[3]); nops = atoi(argv[4]);
        sockdir = argv[5];
        vh::T().open(argv[6]);
        static const char *cn_arms[] = {"none", "none", "start", "stop", "cleanup"};
        static const char *cl_c[] = {"none", "none", "stop", "cleanup", "send"};
        static const char *cl_d[] = {"none", "none", "start", "stop", "cleanup"};
        next_exec = [&](Script &s) {
            if (xi >= nexec) return false;
            ++xi; made = 0;
            vh::Rng &r = *rng;
            s = Script();
            s.kind = r.chance(45) ? "connector" : "client";
            s.fam = r.chance(50) ? "unix" : "tcp";
            if (s.kind == "connector") {
                s.cfg.tries = (int)r.below(4); s.cfg.hasfail = r.chance(75); s.cfg.dly = r.chance(50) ? 0 : (int)r.range(1, 2);
                s.cfg.arm["C"] = cn_arms[r.below(5)]; s.cfg.arm["F"] = cn_arms[r.below(5)];
            } else {
                s.cfg.autorc = r.chance(60);
                s.cfg.arm["C"] = cl_c[r.below(5)]; s.cfg.arm["D"] = cl_d[r.below(5)]; s.cfg.arm["R"] = cl_c[r.below(5)];
            }
            return true;
        };
        next_op = [&](Op &op) {
            if (made >= nops) return false;
            ++made;
            vh::Rng &r = *rng;
            if (made == 1) { op = Op(); op.o = "init"; return true; }
            for (int tries = 0; tries < 30; ++tries) {
                int x = (int)r.below(100);
                op = Op();
                bool cn = is_cn();
                if (x < 22) op.o = "pass";
                else if (x < 36) op.o = "start";
                else if (x < 43) op.o = "stop";
                else if (x < 47) op.o = "cleanup";
                else if (x < 53) op.o = "init";
                else if (x < 63) op.o = lis_fd < 0 ? "listen" : (r.chance(45) ? "unlisten" : "pass");
                else if (x < 73) { op.o = "adv"; op.n = r.chance(70) ? 1000 : 500; }
                else if (x < 80) {
                    op.o = "arm";
                    if (cn) { op.w = r.chance(50) ? "C" : "F"; op.a = cn_arms[1 + r.below(4)]; }
                    else { int k = (int)r.below(3); op.w = k == 0 ? "C" : k == 1 ? "D" : "R"; op.a = (k == 1 ? cl_d : cl_c)[1 + r.below(4)]; }
                }
                else if (cn) continue;
                else if (x < 86) { op.o = "send"; op.n = (int)r.range(1, 3); }
                else if (x < 89) op.o = "shutdown";
                else if (x < 95) { op.o = "psend"; op.n = (int)r.range(1, 300); }
                else op.o = "pclose";
                if (!applicable(op)) continue;
                return true;
            }
            op = Op(); op.o = "pass";
            return true;
        };
    } else return 3;
    mkdir(sockdir.c_str(), 0700);
    loop = event::Loop::New();
    loop->runNext(step, "driver");
    loop->runLoop(event::Loop::Mode::kForever);
    delete loop;
    ::unlink(unix_path().c_str());
    vh::T().close();
    return 0;
}
