// Driver-side network environment shared by the E07 (TcpConnector / TcpClient) and E08 (TcpAcceptor / TcpServer) drivers:
// a private network namespace (own loopback, no port clashes with anybody), a TCP port reserved for the whole run, a virtual
// monotonic clock, and settle(): a bounded wait until the kernel has nothing in flight on the TCP sockets of this process
// (no SYN_SENT socket, every byte and FIN sent has been acknowledged), so that what a call on one end caused is visible on
// the other end before the next call is made.  AF_UNIX stream sockets are synchronous and need no settling.
#ifndef VERIF_E07_NETSIM_H
#define VERIF_E07_NETSIM_H
#include <arpa/inet.h>
#include <cerrno>
#include <csignal>
#include <cstdint>
#include <cstdio>
#include <cstring>
#include <fcntl.h>
#include <net/if.h>
#include <netinet/in.h>
#include <linux/tcp.h>
#include <poll.h>
#include <sched.h>
#include <string>
#include <sys/ioctl.h>
#include <sys/socket.h>
#include <sys/stat.h>
#include <sys/un.h>
#include <time.h>
#include <unistd.h>

namespace ns {

static uint64_t g_vnow = 1000;                                   // virtual monotonic clock (ms)
inline bool steady_hook(uint64_t &ms) { ms = g_vnow; return true; }

inline bool private_netns() {                                    // best effort: own loopback
    if (unshare(CLONE_NEWNET) != 0) return false;
    int s = socket(AF_INET, SOCK_DGRAM, 0);
    if (s < 0) return false;
    struct ifreq ifr; memset(&ifr, 0, sizeof ifr); strcpy(ifr.ifr_name, "lo");
    bool ok = ioctl(s, SIOCGIFFLAGS, &ifr) == 0;
    if (ok) { ifr.ifr_flags |= IFF_UP | IFF_RUNNING; ok = ioctl(s, SIOCSIFFLAGS, &ifr) == 0; }
    close(s);
    if (ok) {                                                    // many short connections: TIME_WAIT keeps their ports for a minute
        int f = open("/proc/sys/net/ipv4/ip_local_port_range", O_WRONLY);
        if (f >= 0) { ssize_t w = write(f, "2000 65000\n", 11); (void)w; close(f); }
    }
    return ok;
}

inline int tcp_bound_socket(int port, int *out_port) {           // SO_REUSEPORT: several sockets may hold the port, only listeners get SYNs
    int s = socket(AF_INET, SOCK_STREAM | SOCK_NONBLOCK | SOCK_CLOEXEC, 0);
    if (s < 0) return -1;
    int one = 1;
    setsockopt(s, SOL_SOCKET, SO_REUSEPORT, &one, sizeof one);
    setsockopt(s, SOL_SOCKET, SO_REUSEADDR, &one, sizeof one);
    sockaddr_in a; memset(&a, 0, sizeof a); a.sin_family = AF_INET; a.sin_port = htons(port); a.sin_addr.s_addr = htonl(INADDR_LOOPBACK);
    if (bind(s, (sockaddr *)&a, sizeof a) != 0) { close(s); return -1; }
    socklen_t n = sizeof a; getsockname(s, (sockaddr *)&a, &n);
    if (out_port) *out_port = ntohs(a.sin_port);
    return s;
}

static bool g_settle_timeout = false;

inline double mono() { timespec ts; clock_gettime(CLOCK_MONOTONIC, &ts); return ts.tv_sec + ts.tv_nsec * 1e-9; }

// TCP states (include/net/tcp_states.h)
enum { ST_ESTABLISHED = 1, ST_SYN_SENT, ST_SYN_RECV, ST_FIN_WAIT1, ST_FIN_WAIT2, ST_TIME_WAIT, ST_CLOSE, ST_CLOSE_WAIT, ST_LAST_ACK, ST_LISTEN, ST_CLOSING };

struct SockView { int fd; int state; unsigned lport, rport; unsigned long long sent, received, notsent, unacked; };

inline int tcp_sockets(SockView *v, int cap, int maxfd = 256) {
    int n = 0, closed_run = 0;
    for (int fd = 3; fd < maxfd && closed_run < 24 && n < cap; ++fd) {              // descriptors are allocated lowest first
        struct tcp_info ti; socklen_t len = sizeof ti; memset(&ti, 0, sizeof ti);
        if (getsockopt(fd, IPPROTO_TCP, TCP_INFO, &ti, &len) != 0) {                 // not a TCP socket / not open
            if (errno == EBADF) ++closed_run; else closed_run = 0;
            continue;
        }
        closed_run = 0;
        sockaddr_in a; socklen_t al = sizeof a; memset(&a, 0, sizeof a);
        SockView s; s.fd = fd; s.state = ti.tcpi_state; s.lport = s.rport = 0;
        if (getsockname(fd, (sockaddr *)&a, &al) == 0) s.lport = ntohs(a.sin_port);
        al = sizeof a;
        if (getpeername(fd, (sockaddr *)&a, &al) == 0) s.rport = ntohs(a.sin_port);
        s.sent = ti.tcpi_bytes_sent; s.received = ti.tcpi_bytes_received; s.notsent = ti.tcpi_notsent_bytes; s.unacked = ti.tcpi_unacked;
        v[n++] = s;
    }
    return n;
}
inline bool sent_fin(int st) { return st == ST_FIN_WAIT1 || st == ST_FIN_WAIT2 || st == ST_CLOSING || st == ST_LAST_ACK || st == ST_TIME_WAIT; }
inline bool got_fin(int st) { return st == ST_CLOSE_WAIT || st == ST_LAST_ACK || st == ST_CLOSING || st == ST_TIME_WAIT || st == ST_CLOSE; }

// Bounded wait until no TCP socket of this process is in the middle of a handshake.
// With pairs: ... and until everything one end of a loopback connection has sent (bytes, end of stream) has arrived at the
// other end; an end whose other end is not open in this process must have seen the end of the stream, unless it is one of the
// connections still waiting in a listener's accept queue (each_spin may accept them).  Acknowledgements are not waited for: the kernel delays them.
inline void settle(bool pairs = true, void (*each_spin)() = nullptr) {
    double t0 = mono();
    for (int spin = 0;; ++spin) {
        if (each_spin) each_spin();                                                   // e.g. accept what has arrived meanwhile
        SockView v[64];
        int n = tcp_sockets(v, 64);
        bool busy = false;
        int unpaired = 0, queued = 0;                       // ends without a visible other end / connections waiting in accept queues
        for (int i = 0; i < n && !busy; ++i) {
            const SockView &a = v[i];
            if (a.state == ST_SYN_SENT || a.state == ST_SYN_RECV) { busy = true; break; }
            if (a.state == ST_LISTEN) { queued += (int)a.unacked; continue; }
            if (!pairs || a.state == ST_CLOSE || a.rport == 0) continue;
            const SockView *b = nullptr;
            for (int j = 0; j < n; ++j) if (j != i && v[j].lport == a.rport && v[j].rport == a.lport) b = &v[j];
            if (b) {
                if (a.notsent > 0 || b->received < a.sent) busy = true;
                else if (sent_fin(a.state) && !got_fin(b->state)) busy = true;
            } else if (!got_fin(a.state)) ++unpaired;
        }
        if (pairs && unpaired > queued) busy = true;
        if (!busy) return;
        if (mono() - t0 > 20.0) { g_settle_timeout = true; return; }
        if (spin > 50) usleep(200); else sched_yield();
    }
}

inline int unix_listener(const std::string &path) {
    ::unlink(path.c_str());
    int s = socket(AF_UNIX, SOCK_STREAM | SOCK_NONBLOCK | SOCK_CLOEXEC, 0);
    if (s < 0) return -1;
    sockaddr_un a; memset(&a, 0, sizeof a); a.sun_family = AF_UNIX; strncpy(a.sun_path, path.c_str(), sizeof a.sun_path - 1);
    if (bind(s, (sockaddr *)&a, sizeof a) != 0 || listen(s, 64) != 0) { close(s); return -1; }
    return s;
}
inline int unix_connect(const std::string &path) {               // nonblocking client socket; -1: refused
    int s = socket(AF_UNIX, SOCK_STREAM | SOCK_NONBLOCK | SOCK_CLOEXEC, 0);
    if (s < 0) return -1;
    sockaddr_un a; memset(&a, 0, sizeof a); a.sun_family = AF_UNIX; strncpy(a.sun_path, path.c_str(), sizeof a.sun_path - 1);
    if (connect(s, (sockaddr *)&a, sizeof a) != 0) { close(s); return -1; }
    return s;
}
inline int tcp_connect(int port) {                               // nonblocking; the verdict is there after settle()
    int s = socket(AF_INET, SOCK_STREAM | SOCK_NONBLOCK | SOCK_CLOEXEC, 0);
    if (s < 0) return -1;
    sockaddr_in a; memset(&a, 0, sizeof a); a.sin_family = AF_INET; a.sin_port = htons(port); a.sin_addr.s_addr = htonl(INADDR_LOOPBACK);
    int r = connect(s, (sockaddr *)&a, sizeof a);
    if (r != 0 && errno != EINPROGRESS) { close(s); return -1; }
    settle(false);
    int e = 0; socklen_t n = sizeof e; getsockopt(s, SOL_SOCKET, SO_ERROR, &e, &n);
    if (e != 0) { close(s); return -1; }
    return s;
}

// read whatever is there; returns number of bytes appended to *out (may be null), sets eof on end of stream / reset
inline size_t drain(int fd, std::string *out, bool &eof) {
    size_t total = 0; char buf[4096];
    for (;;) {
        ssize_t r = recv(fd, buf, sizeof buf, MSG_DONTWAIT);
        if (r > 0) { total += (size_t)r; if (out) out->append(buf, (size_t)r); continue; }
        if (r == 0) { eof = true; break; }
        if (errno == EINTR) continue;
        if (errno != EAGAIN && errno != EWOULDBLOCK) eof = true;
        break;
    }
    return total;
}

}  // namespace ns
#endif
