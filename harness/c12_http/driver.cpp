// C12 conformance driver for the cpp-tbox HTTP server.
//   driver parse <scripts.jsonl> <out.ndjson>
//       each line {"hex":"<stream bytes>","cuts":[n1,n2,...],"claim":"wf"|"any"}: the real http::server::RequestParser is fed the stream,
//       segment by segment, through the same leftover-buffer loop as server_imp.cpp (append to a util::Buffer, call
//       parse() on everything unconsumed, hasRead(consumed), take the request when finished, stop on failure).
//       Every parse() call is given an exactly sized heap copy so that an over-read is visible to ASan.
//   driver srv <scripts.jsonl> <out.ndjson>
//       one real http::server::Server on an AF_UNIX socket, driven pass by pass by an in-loop task (no sleeps, no clocks):
//       {"mode":"stream","hex":..,"cuts":[..]}  a raw client writes the segments (one per settle), the handler logs every
//                                               request it is handed and answers at once;
//       {"mode":"pipe","ops":[..]}              pipeline behaviours
//            {"op":"seg","reqs":[{"c":0|1|2,"cb":[..],"sz":n}..]}  k requests written in ONE segment; c: 0 = HTTP/1.1 keep-alive,
//                                               1 = HTTP/1.1 + Connection: close, 2 = HTTP/1.0; cb = request numbers whose
//                                               context is released inside THIS request's callback (own number = do not keep);
//                                               sz = response body size
//            {"op":"complete","i":n}            release the kept ContextSptr of request n (the response is committed)
//            {"op":"pass"}                      let one loop pass go by (ops between two passes run within the same pass)
//            {"op":"settle"}                    passes until nothing observable happens any more
//            {"op":"peerclose"}                 the client closes its socket
// The program records what it did and what it saw (ndjson); TLC decides (spec/Http/Trace_*.tla).
#include <vh.h>
#include <fcntl.h>
#include <fstream>
#include <map>
#include <memory>
#include <nlohmann/json.hpp>
#include <sys/socket.h>
#include <sys/un.h>
#include <tbox/base/log.h>
#include <tbox/event/loop.h>
#include <tbox/http/server/request_parser.h>
#include <tbox/http/server/server.h>
#include <tbox/network/sockaddr.h>
#include <tbox/util/buffer.h>

using json = nlohmann::json;
using namespace tbox;
using namespace tbox::http;
using tbox::http::server::RequestParser;

static std::string jbytes(const std::string &s) {
    std::string o = "[";
    o.reserve(s.size() * 4 + 2);
    for (size_t i = 0; i < s.size(); ++i) { if (i) o += ','; o += std::to_string((unsigned char)s[i]); }
    return o + "]";
}
static std::string unhex(const std::string &h) {
    std::string o; o.reserve(h.size() / 2);
    auto v = [](char c) { return c <= '9' ? c - '0' : (c | 0x20) - 'a' + 10; };
    for (size_t i = 0; i + 1 < h.size(); i += 2) o.push_back((char)(v(h[i]) * 16 + v(h[i + 1])));
    return o;
}
static std::string req_json(const Request &r) {
    std::string h = "[";
    bool first = true;
    for (auto &kv : r.headers) { if (!first) h += ','; first = false; h += "[" + jbytes(kv.first) + "," + jbytes(kv.second) + "]"; }
    h += "]";
    return "\"m\":" + jbytes(MethodToString(r.method)) + ",\"t\":" + jbytes(UrlPathToString(r.url)) + ",\"v\":" +
           jbytes(HttpVerToString(r.http_ver)) + ",\"h\":" + h + ",\"b\":" + jbytes(r.body);
}
static const char *st_name(RequestParser::State s) {
    switch (s) {
        case RequestParser::State::kInit: return "init";
        case RequestParser::State::kFinishedStartLine: return "startline";
        case RequestParser::State::kFinishedHeads: return "heads";
        case RequestParser::State::kFinishedAll: return "all";
        case RequestParser::State::kFail: return "fail";
    }
    return "other";
}

// ------------------------------------------------------------------------------------------ parse mode
static void run_parse(const json &c) {
    auto &T = vh::T();
    std::string bytes = unhex(c["hex"].get<std::string>());
    T.line("{\"e\":\"Stream\",\"mode\":\"parse\",\"claim\":\"" + c.value("claim", "any") + "\",\"cuts\":" + c["cuts"].dump() + ",\"bytes\":" + jbytes(bytes) + "}");
    RequestParser parser;
    util::Buffer buff;
    size_t off = 0;
    bool stop = false;
    for (auto &k : c["cuts"]) {
        size_t n = k.get<size_t>();
        if (off + n > bytes.size()) { fprintf(stderr, "bad cuts\n"); _exit(3); }
        T.printf("{\"e\":\"Seg\",\"n\":%zu}", n);
        buff.append(bytes.data() + off, n);
        off += n;
        while (buff.readableSize() > 0) {
            size_t given = buff.readableSize();
            std::unique_ptr<char[]> exact(new char[given]);
            memcpy(exact.get(), buff.readableBegin(), given);
            size_t r = parser.parse(exact.get(), given);
            RequestParser::State st = parser.state();
            T.printf("{\"e\":\"Parse\",\"given\":%zu,\"consumed\":%zu,\"st\":\"%s\"}", given, r, st_name(st));
            if (r > given) { stop = true; break; }
            buff.hasRead(r);
            if (st == RequestParser::State::kFinishedAll) {
                Request *req = parser.getRequest();
                if (req == nullptr) { T.line("{\"e\":\"NoRequest\"}"); stop = true; break; }
                T.line("{\"e\":\"Req\"," + req_json(*req) + "}");
                delete req;
            } else if (st == RequestParser::State::kFail) {
                T.line("{\"e\":\"Closed\"}");      // the server drops the connection here
                stop = true; break;
            } else break;
        }
        if (stop) break;
    }
    T.line("{\"e\":\"End\"}");
    T.line("{\"e\":\"Reset\"}");
}

// ------------------------------------------------------------------------------------------ server modes
struct Srv {
    event::Loop *loop = nullptr;
    server::Server *srv = nullptr;
    std::string path;
    std::vector<json> scripts;
    size_t si = 0;          // current script
    // per execution
    int cfd = -1;
    std::string rx;         // bytes read from the client socket, not yet parsed into responses
    bool eof = false, eof_logged = false, peer_closed = false;
    std::map<int, server::ContextSptr> held;
    std::map<int, json> plan;   // request number -> {"cb":[..],"sz":n}
    int nsent = 0;
    bool activity = false;
    bool stream_mode = false;
    // step machine
    size_t opi = 0, cut_i = 0, off = 0;
    std::string bytes;
    int phase = 0, quiet = 0, settle_budget = 0;
};
static Srv S;

static std::string resp_body(int n, size_t sz) {
    std::string b = "r" + std::to_string(n) + ":";
    while (b.size() < sz) b.push_back((char)('a' + (b.size() * 7 + n) % 26));
    return b;
}

// read whatever the client socket has; parse complete responses; log them
static void client_read() {
    auto &T = vh::T();
    if (S.cfd < 0) return;
    char tmp[65536];
    for (;;) {
        ssize_t r = ::read(S.cfd, tmp, sizeof tmp);
        if (r > 0) { S.rx.append(tmp, (size_t)r); S.activity = true; continue; }
        if (r == 0) { if (!S.eof) S.activity = true; S.eof = true; }
        else if (errno != EAGAIN && errno != EWOULDBLOCK) { if (!S.eof) S.activity = true; S.eof = true; }   // reset counts as closed
        break;
    }
    for (;;) {
        size_t he = S.rx.find("\r\n\r\n");
        if (he == std::string::npos) break;
        std::string head = S.rx.substr(0, he);
        size_t cl = head.find("Content-Length: ");
        if (head.compare(0, 9, "HTTP/1.1 ") != 0 || cl == std::string::npos) { T.line("{\"e\":\"WireGarbage\",\"bytes\":" + jbytes(S.rx.substr(0, 200)) + "}"); S.rx.clear(); break; }
        size_t len = strtoul(head.c_str() + cl + 16, nullptr, 10);
        if (S.rx.size() < he + 4 + len) break;
        std::string body = S.rx.substr(he + 4, len);
        S.rx.erase(0, he + 4 + len);
        int n = -1;
        if (body.size() >= 2 && body[0] == 'r') n = atoi(body.c_str() + 1);
        bool intact = n >= 0 && body == resp_body(n, body.size()) && head.compare(9, 6, "200 OK") == 0;
        if (!S.stream_mode) T.printf("{\"e\":\"Wire\",\"n\":%d,\"len\":%zu,\"intact\":%s}", n, body.size(), intact ? "true" : "false");
    }
    if (S.eof && !S.eof_logged) {
        S.eof_logged = true;
        if (S.stream_mode) { T.line("{\"e\":\"Closed\"}"); return; }
        if (!S.rx.empty()) T.printf("{\"e\":\"WireTruncated\",\"left\":%zu}", S.rx.size());
        T.line("{\"e\":\"Eof\"}");
    }
}

static void complete(int n) {     // release the kept context of request n
    auto it = S.held.find(n);
    if (it == S.held.end()) { vh::T().printf("{\"e\":\"CompleteSkipped\",\"n\":%d}", n); return; }   // never handed to the handler
    vh::T().printf("{\"e\":\"Complete\",\"n\":%d}", n);
    server::ContextSptr keep = it->second;
    S.held.erase(it);
    keep.reset();                   // -> Context::~Context -> commitRespond
}

static void on_request(server::ContextSptr ctx, const server::NextFunc &) {
    auto &T = vh::T();
    S.activity = true;
    if (S.stream_mode) {
        T.line("{\"e\":\"Req\"," + req_json(ctx->req()) + "}");
        ctx->res().status_code = StatusCode::k200_OK;
        ctx->res().body = "ok";
        return;
    }
    const std::string &p = ctx->req().url.path;
    int n = (p.size() > 2 && p[1] == 'r') ? atoi(p.c_str() + 2) : -1;
    T.printf("{\"e\":\"Dispatch\",\"n\":%d}", n);
    auto pl = S.plan.find(n);
    if (pl == S.plan.end()) return;             // not a request of this execution: answered 404 at once; the spec sees Dispatch
    ctx->res().status_code = StatusCode::k200_OK;
    ctx->res().body = resp_body(n, pl->second.value("sz", (size_t)0));
    S.held[n] = ctx;
    for (auto &x : pl->second["cb"]) {
        int i = x.get<int>();
        if (i == n) {                           // own context: not kept, committed when the server drops its reference
            T.printf("{\"e\":\"Complete\",\"n\":%d}", n);
            S.held.erase(n);
        } else complete(i);
    }
    client_read();
}

static void client_read();
static void client_connect() {
    S.cfd = ::socket(AF_UNIX, SOCK_STREAM | SOCK_NONBLOCK | SOCK_CLOEXEC, 0);
    struct sockaddr_un a; memset(&a, 0, sizeof a); a.sun_family = AF_UNIX; strncpy(a.sun_path, S.path.c_str(), sizeof a.sun_path - 1);
    if (S.cfd < 0 || ::connect(S.cfd, (struct sockaddr *)&a, sizeof a) != 0) { perror("connect"); _exit(3); }
    S.rx.clear(); S.eof = S.eof_logged = S.peer_closed = false; S.held.clear(); S.plan.clear(); S.nsent = 0;
}
static void client_write(const std::string &d) {
    size_t o = 0;
    while (o < d.size()) {          // segments are far smaller than the socket buffer; a short write would be an infra problem
        ssize_t w = ::send(S.cfd, d.data() + o, d.size() - o, MSG_NOSIGNAL);
        if (w <= 0) {
            // the server has already closed the connection: the rest of the segment is lost; what the client can see is the EOF
            int e = errno;
            client_read();
            if (!S.eof) vh::T().printf("{\"e\":\"ClientWriteFailed\",\"errno\":%d}", e);
            return;
        }
        o += (size_t)w;
    }
}

static void step();
static void repost() { S.loop->runNext(step, "c12 driver"); }
static void begin_settle() { S.quiet = 0; S.settle_budget = 60; }
// one settle pass; true when settled
static bool settle_pass() {
    client_read();
    if (S.activity) S.quiet = 0; else ++S.quiet;
    S.activity = false;
    return S.quiet >= 3 || --S.settle_budget <= 0;
}

static void finish_execution() {
    auto &T = vh::T();
    T.line("{\"e\":\"End\"}");
    // cleanup, not part of the behaviour: drop kept contexts, close the client
    S.held.clear();
    if (S.cfd >= 0) { ::close(S.cfd); S.cfd = -1; }
}

// phases: 0 = start execution (connect), 1 = settle after connect, 2 = run ops, 3 = settling inside an op, 4 = final settle,
//         5 = cleanup settle, then next script
static void step() {
    auto &T = vh::T();
    if (S.phase == 0) {
        if (S.si >= S.scripts.size()) { S.loop->exitLoop(); return; }
        const json &sc = S.scripts[S.si];
        S.stream_mode = sc.value("mode", "pipe") == "stream";
        client_connect();
        if (S.stream_mode) {
            S.bytes = unhex(sc["hex"].get<std::string>());
            T.line("{\"e\":\"Stream\",\"mode\":\"srv\",\"claim\":\"" + sc.value("claim", "any") + "\",\"cuts\":" + sc["cuts"].dump() + ",\"bytes\":" + jbytes(S.bytes) + "}");
            S.cut_i = 0; S.off = 0;
        } else {
            T.line("{\"e\":\"Begin\",\"script\":" + sc.dump() + "}");
            S.opi = 0;
        }
        begin_settle(); S.phase = 1;
    } else if (S.phase == 1) {
        if (settle_pass()) S.phase = 2;
    } else if (S.phase == 2) {
        const json &sc = S.scripts[S.si];
        if (S.stream_mode) {
            if (S.cut_i >= sc["cuts"].size() || S.eof) { begin_settle(); S.phase = 4; }
            else {
                size_t n = sc["cuts"][S.cut_i++].get<size_t>();
                T.printf("{\"e\":\"Seg\",\"n\":%zu}", n);
                client_write(S.bytes.substr(S.off, n)); S.off += n;
                begin_settle(); S.phase = 3;
            }
        } else {
            // ops up to the next "pass" / "settle" are executed in this one driver step, i.e. within the same loop pass
            for (;;) {
                if (S.opi >= sc["ops"].size()) { begin_settle(); S.phase = 4; break; }
                const json &op = sc["ops"][S.opi++];
                std::string o = op["op"].get<std::string>();
                if (o == "seg") {
                    std::string data, flags = "[";
                    for (auto &r : op["reqs"]) {
                        int n = ++S.nsent, c = r.value("c", 0);
                        S.plan[n] = r;
                        data += "GET /r" + std::to_string(n) + (c == 2 ? " HTTP/1.0\r\n" : " HTTP/1.1\r\n");
                        if (c == 1) data += "Connection: close\r\n";
                        data += "Content-Length: 0\r\n\r\n";
                        if (flags.size() > 1) flags += ',';
                        flags += std::to_string(c);
                    }
                    T.line("{\"e\":\"Send\",\"reqs\":" + flags + "]}");
                    if (!S.peer_closed) client_write(data);
                } else if (o == "complete") { complete(op["i"].get<int>()); client_read(); }
                else if (o == "pass") { client_read(); break; }
                else if (o == "settle") { begin_settle(); S.phase = 3; break; }
                else if (o == "peerclose") {
                    if (!S.peer_closed) T.line("{\"e\":\"PeerClose\"}");
                    if (S.cfd >= 0) { ::close(S.cfd); S.cfd = -1; }
                    S.peer_closed = true;
                } else { fprintf(stderr, "unknown op %s\n", o.c_str()); _exit(3); }
            }
        }
    } else if (S.phase == 3) {
        if (settle_pass()) S.phase = 2;
    } else if (S.phase == 4) {
        if (settle_pass()) { finish_execution(); begin_settle(); S.phase = 5; }
    } else if (S.phase == 5) {
        if (settle_pass()) { T.line("{\"e\":\"Reset\"}"); ++S.si; S.phase = 0; }
    }
    repost();
}

static int run_srv(const char *script_path, const char *out) {
    vh::T().open(out);
    std::ifstream in(script_path); std::string line;
    while (std::getline(in, line)) if (!line.empty()) S.scripts.push_back(json::parse(line));
    S.path = std::string(out) + ".sock";
    if (S.path.size() > 100) S.path = "/tmp/c12_" + std::to_string(getpid()) + ".sock";   // sun_path limit (socket file only)
    S.loop = event::Loop::New();
    S.srv = new server::Server(S.loop);
    if (!S.srv->initialize(network::SockAddr(network::DomainSockPath(S.path)), 16) || !S.srv->start()) { fprintf(stderr, "server start failed\n"); return 3; }
    S.srv->use(on_request);
    repost();
    S.loop->runLoop(event::Loop::Mode::kForever);
    S.srv->stop(); S.srv->cleanup();
    delete S.srv; delete S.loop;
    ::unlink(S.path.c_str());
    vh::T().close();
    return 0;
}

int main(int argc, char **argv) {
    if (argc != 4) return 3;
    std::string mode = argv[1];
    vh::install_faults();
    signal(SIGPIPE, SIG_IGN);
    if (mode == "parse") {
        vh::T().open(argv[3]);
        std::ifstream in(argv[2]); std::string line;
        while (std::getline(in, line)) if (!line.empty()) run_parse(json::parse(line));
        vh::T().close();
        return 0;
    }
    if (mode == "srv") return run_srv(argv[2], argv[3]);
    return 3;
}
