// E03 conformance driver for tbox::flow::EventPublisherImpl.
//   driver script <scripts.jsonl> <out.ndjson>
//        one JSON object per line: {"top":[op...], "cb":[{"ops":[op...],"r":bool}...]}, op = {"o":"sub"|"unsub"|"kill"|"pub","s":n}
//        "top" is executed at top level; the k-th onEvent call of the execution (in real order, whichever subscriber it
//        reaches) performs cb[k].ops and returns cb[k].r; calls beyond the list do nothing and return false.
//   driver random <seed> <nexec> <nops> <nsubs> <out.ndjson>
//        seeded random top-level calls; every onEvent draws a random reaction (0..2 calls incl. nested publish, handled 15 %).
// Probe subscribers record every onEvent entry/return; every call into the publisher is recorded before it is made and the
// return of publish after it.  "kill" = unsubscribe + destroy the probe object (what EventAction's destructor does; recorded as
// `unsub`; only issued for a probe that is not executing) - a later delivery to it is a use-after-free that ASan reports.
// Every execution ends with a passive probe publish that shows the subscriber list.  The trace is validated by TLC against
// spec/EventPublisher/Trace_EventPublisher.tla; this program decides nothing.
#include <vh.h>
#include <fstream>
#include <memory>
#include <nlohmann/json.hpp>
#include <tbox/flow/event_publisher_impl.h>
#include <tbox/flow/event_subscriber.h>

using json = nlohmann::json;
using namespace tbox::flow;

struct Op { std::string o; int s = 0; };
struct Reaction { std::vector<Op> ops; bool r = false; };

struct Probe;
static const int MAXS = 8;
static std::unique_ptr<EventPublisherImpl> pub;
static Probe *probe[MAXS + 1];
static int active[MAXS + 1];            // onEvent activations of probe s on the stack
static int nsubs = 3, depth = 0, evcount = 0, ndlv = 0;
static bool passive = false;

// reaction source
static std::vector<Reaction> script_cb;
static bool random_mode = false;
static vh::Rng *rng = nullptr;
static int cb_budget = 0;

static void out(const std::string &s) { vh::T().line(s); vh::T().flush(); }
static void do_op(const Op &op);

static Reaction next_reaction() {
    Reaction r;
    int k = ndlv++;
    if (passive) return r;
    if (!random_mode) { if (k < (int)script_cb.size()) r = script_cb[k]; return r; }
    if (cb_budget <= 0) return r;
    int n = rng->chance(45) ? 0 : rng->chance(60) ? 1 : 2;
    for (int i = 0; i < n && cb_budget > 0; ++i) {
        Op op; int x = (int)rng->below(10);
        op.s = (int)rng->range(1, nsubs);
        if (x < 3) op.o = "sub";
        else if (x < 6) op.o = "unsub";
        else if (x < 7) op.o = "kill";
        else if (depth < 3) op.o = "pub";
        else op.o = "unsub";
        --cb_budget;
        r.ops.push_back(op);
    }
    r.r = rng->chance(15);
    return r;
}

struct Probe : public EventSubscriber {
    int s;
    explicit Probe(int id) : s(id) {}
    bool onEvent(Event e) override {
        int me = s;                                   // `this` may be a destroyed object when the publisher misbehaves
        out("{\"e\":\"dlv\",\"s\":" + std::to_string(me) + ",\"ev\":" + std::to_string(e.id) + "}");
        if (me < 1 || me > MAXS) return false;
        ++active[me];
        Reaction r = next_reaction();
        for (auto &op : r.ops) do_op(op);
        --active[me];
        out("{\"e\":\"ret\",\"s\":" + std::to_string(me) + ",\"r\":" + (r.r ? "true" : "false") + "}");
        return r.r;
    }
};

static void do_op(const Op &op) {
    int s = op.s;
    if (op.o == "sub") {
        if (!probe[s]) probe[s] = new Probe(s);
        out("{\"e\":\"sub\",\"s\":" + std::to_string(s) + "}");
        pub->subscribe(probe[s]);
    } else if (op.o == "unsub" || op.o == "kill") {
        if (!probe[s]) probe[s] = new Probe(s);
        bool kill = op.o == "kill" && active[s] == 0;
        out("{\"e\":\"unsub\",\"s\":" + std::to_string(s) + (kill ? ",\"k\":1}" : "}"));
        pub->unsubscribe(probe[s]);
        if (kill) { delete probe[s]; probe[s] = nullptr; }
    } else if (op.o == "pub") {
        int ev = ++evcount;
        out("{\"e\":\"pub\",\"ev\":" + std::to_string(ev) + "}");
        ++depth;
        pub->publish(Event(ev));
        --depth;
        out("{\"e\":\"end\",\"ev\":" + std::to_string(ev) + "}");
    } else { fprintf(stderr, "unknown op %s\n", op.o.c_str()); _exit(3); }
}

static void begin_exec() {
    pub.reset(new EventPublisherImpl);
    for (int s = 1; s <= MAXS; ++s) { probe[s] = nullptr; active[s] = 0; }
    depth = 0; evcount = 0; ndlv = 0; passive = false;
}
static void end_exec() {
    passive = true;
    do_op(Op{"pub", 0});                 // shows who is subscribed, in which order
    pub.reset();
    for (int s = 1; s <= MAXS; ++s) { delete probe[s]; probe[s] = nullptr; }
    out("{\"e\":\"Reset\"}");
}

static Op parse_op(const json &e) { Op op; op.o = e["o"].get<std::string>(); op.s = e.value("s", 0); return op; }

int main(int argc, char **argv) {
    if (argc < 2) return 3;
    std::string mode = argv[1];
    vh::install_faults();
    if (mode == "script" && argc == 4) {
        vh::T().open(argv[3]);
        std::ifstream in(argv[2]); std::string line;
        while (std::getline(in, line)) {
            if (line.empty()) continue;
            json j = json::parse(line);
            script_cb.clear();
            for (auto &c : j["cb"]) { Reaction r; for (auto &e : c["ops"]) r.ops.push_back(parse_op(e)); r.r = c.value("r", false); script_cb.push_back(r); }
            begin_exec();
            for (auto &e : j["top"]) do_op(parse_op(e));
            end_exec();
        }
    } else if (mode == "random" && argc == 7) {
        vh::Rng r(strtoull(argv[2], nullptr, 10)); rng = &r; random_mode = true;
        int nexec = atoi(argv[3]), nops = atoi(argv[4]); nsubs = atoi(argv[5]);
        if (nsubs < 1 || nsubs > MAXS) return 3;
        vh::T().open(argv[6]);
        for (int x = 0; x < nexec; ++x) {
            begin_exec();
            for (int i = 0; i < nops; ++i) {
                Op op; int k = (int)r.below(10);
                op.s = (int)r.range(1, nsubs);
                op.o = k < 4 ? "sub" : k < 6 ? "unsub" : k < 7 ? "kill" : "pub";
                cb_budget = 6;
                do_op(op);
            }
            end_exec();
        }
    } else return 3;
    vh::T().close();
    return 0;
}
