// E11 conformance driver for tbox::trace::Sink.
//   driver script <scripts.jsonl> <out.ndjson> <scratchdir>     one JSON object per line: {"ops":[op...],"rep":R,"pad":P}
//        op = {"o":"prefix","ok":true|false} | {"o":"rm","w":"names"|"mods"|"thrs"} | {"o":"enable"} | {"o":"disable"} |
//             {"o":"set","w":"strat","v":"permit"|"reject"} | {"o":"set","w":"exempt","v":[mod...]} | {"o":"set","w":"max","v":N} |
//             {"o":"commit","t":1..3,"nb":base,"l":line,"m":module[,"np":pad]}     (repeated R times, names padded by P)
//        every call completes before the next one starts (commits run on the committer thread t, the controller waits)
//   driver random <seed> <nexec> <nsteps> <out.ndjson> <scratchdir> [race]
//        seeded random histories: sequential calls and bursts (all committer threads commit concurrently while the controller
//        makes further calls, including disable()/enable()); `race` = mostly bursts overlapped by disable()/enable()
// A fresh Sink (subclass: the destructor is protected) per execution; three persistent committer threads; the controller is the
// main thread.  Recorded lines (ndjson): see spec/TraceSink/Trace_TraceSink.tla.  `front`, `pop`, `done` come from the AsyncPipe
// verification points (CPP_TBOX_VERIF_POINT ap.p.enter / ap.b.pop / ap.b.recycle|shrink), which are also used to inject small
// random delays.  After every disable() and at the end of an execution the table files and the record files of the current
// directory are read back and decoded (own decoder for the scalable integers) - decoded, never judged: TLC validates the trace
// against the specification; this program decides nothing.
#include <vh.h>
#include <algorithm>
#include <condition_variable>
#include <dirent.h>
#include <fstream>
#include <ftw.h>
#include <memory>
#include <nlohmann/json.hpp>
#include <sstream>
#include <sys/stat.h>
#include <sys/syscall.h>
#include <thread>
#include <tbox/base/verif_hook.h>
#include <tbox/trace/sink.h>

using json = nlohmann::json;
static const int NT = 3;

struct MySink : public tbox::trace::Sink {};
static MySink *S = nullptr;
static void out(const std::string &s) { vh::T().line(s); vh::T().flush(); }

// ------------------------------------------------------------------ hook: pipe points ------------------------------------
struct TCtx { int t = 0; bool active = false; int stage = 0; long bytes = 0; uint64_t rng = 88172645463325252ull; };
static thread_local TCtx tctx;
static std::atomic<int> jitter{0};      // per-mille chance of a delay at a pipe point
static inline uint64_t trnd() { uint64_t &x = tctx.rng; x ^= x << 13; x ^= x >> 7; x ^= x << 17; return x; }
static void maybe_delay() {
    int j = jitter.load(std::memory_order_relaxed);
    if (!j || (int)(trnd() % 1000) >= j) return;
    switch (trnd() % 3) {
        case 0: sched_yield(); break;
        case 1: { volatile int s = 0; for (int i = 0, n = (int)(trnd() % 3000); i < n; ++i) s = s + i; break; }
        default: usleep((useconds_t)(trnd() % 150)); break;
    }
}
static void point(const char *name, long a, long) {
    if (name[0] != 'a' || name[1] != 'p' || name[2] != '.') return;
    const char *n = name + 3;
    if (n[0] == 'p') {
        if (!strcmp(n, "p.enter")) {
            if (tctx.active && tctx.stage++ == 0) out("{\"e\":\"front\",\"t\":" + std::to_string(tctx.t) + ",\"h\":" + std::to_string(a) + "}");
        } else if (!strcmp(n, "p.exit")) { if (tctx.active) tctx.bytes += a; }
    } else if (n[0] == 'b') {
        if (!strcmp(n, "b.pop")) out("{\"e\":\"pop\",\"n\":" + std::to_string(a) + "}");
        else if (!strcmp(n, "b.recycle") || !strcmp(n, "b.shrink")) out("{\"e\":\"done\"}");
    }
    maybe_delay();
}

// ------------------------------------------------------------------ committer threads ------------------------------------
struct Commit { int k; std::string base; int pad, line; std::string mod; uint64_t ts; };
struct Worker {
    std::thread th; std::mutex m; std::condition_variable cv;
    std::vector<Commit> todo; bool go = false, done = true, quit = false; long tid = 0;
};
static Worker W[NT + 1];
static long tid_of[NT + 1];

static void do_commit(int t, const Commit &c) {
    std::string name = c.base + std::string((size_t)c.pad, 'x');
    // exact-size heap copies: an over-read of name / module is visible to ASan
    std::unique_ptr<char[]> nm(new char[name.size() + 1]); memcpy(nm.get(), name.c_str(), name.size() + 1);
    std::unique_ptr<char[]> md(new char[c.mod.size() + 1]); memcpy(md.get(), c.mod.c_str(), c.mod.size() + 1);
    out("{\"e\":\"commit\",\"t\":" + std::to_string(t) + ",\"k\":" + std::to_string(c.k) + ",\"nb\":" + vh::jstr(c.base) + ",\"np\":" +
        std::to_string(c.pad) + ",\"l\":" + std::to_string(c.line) + ",\"m\":" + vh::jstr(c.mod) + ",\"ts\":" + std::to_string(c.ts) +
        ",\"d\":" + std::to_string(c.k) + "}");
    tctx.active = true; tctx.stage = 0; tctx.bytes = 0;
    S->commitRecord(nm.get(), md.get(), (uint32_t)c.line, c.ts, (uint64_t)c.k);
    tctx.active = false;
    out("{\"e\":\"cret\",\"t\":" + std::to_string(t) + ",\"b\":" + std::to_string(tctx.bytes) + "}");
}
static void worker_main(int t, uint64_t seed) {
    Worker &w = W[t];
    tctx.t = t; tctx.rng = seed * 2654435761ull + (uint64_t)t * 0x9E3779B97F4A7C15ull + 1;
    { std::lock_guard<std::mutex> g(w.m); w.tid = ::syscall(SYS_gettid); w.done = true; }
    w.cv.notify_all();
    for (;;) {
        std::vector<Commit> job;
        { std::unique_lock<std::mutex> lk(w.m); w.cv.wait(lk, [&] { return w.go || w.quit; }); if (w.quit) return; job.swap(w.todo); w.go = false; }
        for (auto &c : job) do_commit(t, c);
        { std::lock_guard<std::mutex> g(w.m); w.done = true; }
        w.cv.notify_all();
    }
}
static void start_job(int t, std::vector<Commit> job) {
    Worker &w = W[t];
    { std::lock_guard<std::mutex> g(w.m); w.todo = std::move(job); w.done = false; w.go = true; }
    w.cv.notify_all();
}
static void wait_job(int t) { Worker &w = W[t]; std::unique_lock<std::mutex> lk(w.m); w.cv.wait(lk, [&] { return w.done; }); }

// ------------------------------------------------------------------ read back ------------------------------------------
static long long clampv(uint64_t v) { return v > 2000000000ull ? 2147483647ll : (long long)v; }
static long long clamps(uint64_t v) { int64_t s = (int64_t)v; return (s > 2000000000ll || s < -2000000000ll) ? 2147483647ll : (long long)s; }
// scalable integer: leading bytes have the top bit set, 7 value bits each, n bytes encode offset(n) + value
static size_t parse_si(const uint8_t *p, size_t n, uint64_t &v) {
    static const uint64_t off[11] = {0, 0, 0x80ull, 0x4080ull, 0x204080ull, 0x10204080ull, 0x0810204080ull, 0x040810204080ull,
                                     0x02040810204080ull, 0x0102040810204080ull, 0x8102040810204080ull};
    uint64_t x = 0;
    for (size_t i = 0; i < n && i < 10; ++i) {
        x = (x << 7) | (p[i] & 0x7f);
        if (!(p[i] & 0x80)) { v = off[i + 1] + x; return i + 1; }
    }
    return 0;
}
static bool read_lines(const std::string &path, std::vector<std::string> &lines) {
    std::ifstream in(path, std::ios::binary);
    if (!in) return false;
    std::stringstream ss; ss << in.rdbuf(); std::string all = ss.str();
    size_t a = 0;
    while (a < all.size()) {
        size_t b = all.find('\n', a);
        if (b == std::string::npos) { lines.push_back(all.substr(a) + "<no newline>"); break; }
        lines.push_back(all.substr(a, b - a)); a = b + 1;
    }
    return true;
}
static std::string name_entry(const std::string &ln) {       // "f3xxxx at L2" -> ["f3",4,2]
    size_t p = ln.rfind(" at L");
    std::string nm = ln; long line = -1;
    if (p != std::string::npos && p + 5 < ln.size() && ln.find_first_not_of("0123456789", p + 5) == std::string::npos) {
        nm = ln.substr(0, p); line = atol(ln.c_str() + p + 5);
    }
    size_t e = nm.size(); while (e > 0 && nm[e - 1] == 'x') --e;
    return "[" + vh::jstr(nm.substr(0, e)) + "," + std::to_string(nm.size() - e) + "," + std::to_string(line) + "]";
}
static void read_back() {
    std::string dir = S->getDirPath();
    std::vector<std::string> nl, ml, tl;
    bool np = !dir.empty() && read_lines(dir + "/names.txt", nl), mp = !dir.empty() && read_lines(dir + "/modules.txt", ml),
         tp = !dir.empty() && read_lines(dir + "/threads.txt", tl);
    std::string s = std::string("{\"e\":\"tables\",\"p\":[") + (np ? "true" : "false") + "," + (mp ? "true" : "false") + "," + (tp ? "true" : "false") + "],\"names\":[";
    for (size_t i = 0; i < nl.size(); ++i) s += (i ? "," : "") + name_entry(nl[i]);
    s += "],\"mods\":[";
    for (size_t i = 0; i < ml.size(); ++i) s += (i ? "," : "") + vh::jstr(ml[i]);
    s += "],\"thrs\":[";
    for (size_t i = 0; i < tl.size(); ++i) {
        long tid = atol(tl[i].c_str()); int t = -1;
        for (int u = 1; u <= NT; ++u) if (tid_of[u] == tid && std::to_string(tid) == tl[i]) t = u;
        s += (i ? "," : "") + std::to_string(t);
    }
    out(s + "]}");
    // record files in creation order: <YYYYMMDD_HHMMSS>.bin[.N]
    std::vector<std::pair<std::pair<std::string, long>, std::string>> files;
    if (!dir.empty()) {
        if (DIR *d = opendir((dir + "/records").c_str())) {
            while (struct dirent *e = readdir(d)) {
                std::string n = e->d_name;
                if (n == "." || n == "..") continue;
                size_t p = n.find(".bin");
                long idx = (p != std::string::npos && p + 4 < n.size()) ? atol(n.c_str() + p + 5) : 0;
                files.push_back({{n.substr(0, p), idx}, n});
            }
            closedir(d);
        }
    }
    std::sort(files.begin(), files.end());
    for (size_t i = 0; i < files.size(); ++i) {
        std::ifstream in(dir + "/records/" + files[i].second, std::ios::binary);
        std::stringstream ss; ss << in.rdbuf(); std::string data = ss.str();
        // exact-size heap copy: the decoder cannot read past the file content unnoticed
        std::unique_ptr<uint8_t[]> buf(new uint8_t[data.size() ? data.size() : 1]); memcpy(buf.get(), data.data(), data.size());
        std::string r = "{\"e\":\"file\",\"i\":" + std::to_string(i + 1) + ",\"recs\":[";
        size_t pos = 0; bool first = true;
        for (;;) {
            uint64_t v[5]; size_t p = pos; bool ok = true;
            for (int f = 0; f < 5 && ok; ++f) { size_t n = parse_si(buf.get() + p, data.size() - p, v[f]); if (!n) ok = false; else p += n; }
            if (!ok) break;
            // file order: time difference, duration, thread index, name index, module index
            r += std::string(first ? "" : ",") + "[" + std::to_string(clampv(v[2])) + "," + std::to_string(clampv(v[3])) + "," + std::to_string(clampv(v[4])) +
                 "," + std::to_string(clamps(v[0])) + "," + std::to_string(clampv(v[1])) + "," + std::to_string(p - pos) + "]";
            first = false; pos = p;
        }
        out(r + "],\"tail\":" + std::to_string(data.size() - pos) + "}");
    }
    out("{\"e\":\"files\",\"n\":" + std::to_string(files.size()) + "}");
}

// ------------------------------------------------------------------ calls -----------------------------------------------
static std::string scratch; static long execno = 0; static int nprefix = 0; static bool enabled = false;
static int kctr[NT + 1]; static uint64_t tsctr = 0;

static int rm_one(const char *p, const struct stat *, int, struct FTW *) { return ::remove(p); }
static void rm_rf(const std::string &p) { nftw(p.c_str(), rm_one, 16, FTW_DEPTH | FTW_PHYS); }
static void call_prefix(bool ok) {
    std::string p = ok ? scratch + "/x" + std::to_string(execno) + "/p" + std::to_string(++nprefix) : (nprefix % 2 ? std::string("  ") : scratch + "/x" + std::to_string(execno) + "/bad/");
    if (!ok) ++nprefix;
    bool r = S->setPathPrefix(p);
    out(std::string("{\"e\":\"prefix\",\"ok\":") + (ok ? "true" : "false") + ",\"ret\":" + (r ? "true" : "false") + "}");
}
static void call_rm(const std::string &w) {
    std::string dir = S->getDirPath();
    std::string f = dir + (w == "names" ? "/names.txt" : w == "mods" ? "/modules.txt" : "/threads.txt");
    if (dir.empty() || ::unlink(f.c_str()) != 0) return;          // nothing to remove: no event
    out("{\"e\":\"rm\",\"w\":\"" + w + "\"}");
}
static void call_enable() {
    out("{\"e\":\"enable\"}");
    bool r = S->enable();
    out(std::string("{\"e\":\"eret\",\"ret\":") + (r ? "true" : "false") + "}");
    if (r) enabled = true;
}
static void call_disable() {
    out("{\"e\":\"disable\"}");
    S->disable();
    out("{\"e\":\"dret\"}");
    enabled = false;
    read_back();
}
static void call_set(const std::string &w, const json &v) {
    out("{\"e\":\"set\",\"w\":\"" + w + "\",\"v\":" + v.dump() + "}");
    if (w == "strat") S->setFilterStrategy(v.get<std::string>() == "permit" ? tbox::trace::Sink::FilterStrategy::kPermit : tbox::trace::Sink::FilterStrategy::kReject);
    else if (w == "exempt") { tbox::trace::Sink::ExemptSet x; for (auto &m : v) x.insert(m.get<std::string>()); S->setFilterExemptSet(x); }
    else S->setRecordFileMaxSize((size_t)v.get<long long>());
    out("{\"e\":\"sret\"}");
}
static Commit mk_commit(int t, const std::string &base, int pad, int line, const std::string &mod, uint64_t ts) {
    Commit c; c.k = ++kctr[t]; c.base = base; c.pad = pad; c.line = line; c.mod = mod; c.ts = ts; return c;
}
static void begin_exec() {
    ++execno; nprefix = 0; enabled = false; tsctr = 0;
    for (int t = 0; t <= NT; ++t) kctr[t] = 0;
    S = new MySink;
}
static void end_exec() {
    for (int t = 1; t <= NT; ++t) wait_job(t);
    if (enabled) call_disable(); else read_back();
    delete S; S = nullptr;
    rm_rf(scratch + "/x" + std::to_string(execno));
    out("{\"e\":\"Reset\"}");
}

static void run_script(const json &sc) {
    int rep = sc.value("rep", 1), pad = sc.value("pad", 0);
    begin_exec();
    for (auto &e : sc["ops"]) {
        std::string o = e["o"].get<std::string>();
        if (o == "prefix") call_prefix(e.value("ok", true));
        else if (o == "rm") call_rm(e["w"].get<std::string>());
        else if (o == "enable") call_enable();
        else if (o == "disable") call_disable();
        else if (o == "set") call_set(e["w"].get<std::string>(), e["v"]);
        else if (o == "commit") {
            int t = e["t"].get<int>();
            std::vector<Commit> job;
            for (int i = 0; i < rep; ++i) { tsctr += 7 + (uint64_t)(i % 5) * 40; job.push_back(mk_commit(t, e["nb"].get<std::string>(), e.value("np", pad), e.value("l", 1), e["m"].get<std::string>(), tsctr)); }
            start_job(t, std::move(job)); wait_job(t);
        } else { fprintf(stderr, "unknown op %s\n", o.c_str()); _exit(3); }
    }
    end_exec();
}

static const char *MODS[] = {"a", "b", "c", "a_long_module_name_0123456789"};
static void run_random(vh::Rng &rng, int nsteps, bool race) {
    begin_exec();
    jitter = rng.chance(50) ? 0 : (int)rng.range(1, 60);
    // name pool of this execution: few names (indices reused) or many
    int nnames = rng.chance(70) ? (int)rng.range(1, 6) : (int)rng.range(7, 40);
    int padmode = (int)rng.below(4);          // 0: none, 1: small, 2: mixed with large, 3: large (a pipe buffer holds about ten records)
    auto rnd_commit = [&](int t) {
        std::string base = "f" + std::to_string(rng.below((uint64_t)nnames));
        int pad = padmode == 0 ? 0 : padmode == 1 ? (int)rng.range(0, 40) : padmode == 2 ? (rng.chance(50) ? (int)rng.range(0, 30) : (int)rng.range(300, 900)) : (int)rng.range(700, 930);
        if (padmode && rng.chance(50)) pad = (int)(rng.below(3)) * 450;        // recurring lengths: recurring names
        int line = (int)rng.below(3);
        switch (rng.below(10)) {          // end time: mostly small forward steps, sometimes a big step or a step back
            case 0: tsctr += (uint64_t)rng.range(1000, 3000000); break;
            case 1: tsctr = tsctr > 5000 ? tsctr - (uint64_t)rng.range(1, 5000) : tsctr; break;
            default: tsctr += (uint64_t)rng.range(0, 300); break;
        }
        if (tsctr > 900000000ull) tsctr = 1000;
        return mk_commit(t, base, pad, line, MODS[rng.below(4)], tsctr);
    };
    auto rnd_control = [&](bool allow_toggle) {
        switch (rng.below(allow_toggle ? 9 : 5)) {
            case 0: call_set("strat", json(rng.chance(50) ? "permit" : "reject")); break;
            case 1: case 2: { json x = json::array(); for (int i = 0; i < 4; ++i) if (rng.chance(35)) x.push_back(MODS[i]); call_set("exempt", x); break; }
            case 3: case 4: { static const long long mx[] = {1, 12, 40, 150, 1000, 20000, 1000000000}; call_set("max", json(mx[rng.below(7)])); break; }
            case 5: case 6: if (enabled) call_disable(); else call_enable(); break;
            case 7: if (!enabled) call_prefix(rng.chance(85)); else call_enable(); break;
            default: if (!enabled) call_rm(rng.chance(34) ? "names" : rng.chance(50) ? "mods" : "thrs"); else call_disable(); break;
        }
    };
    if (rng.chance(90)) call_prefix(true);
    if (rng.chance(85)) call_enable();
    for (int s = 0; s < nsteps; ++s) {
        int what = (int)rng.below(100);
        if (race) what = what < 70 ? 99 : what;
        if (what < 30) rnd_control(true);
        else if (what < 60) { int t = (int)rng.range(1, NT); std::vector<Commit> job; int n = (int)rng.range(1, padmode >= 2 ? 14 : 4); for (int i = 0; i < n; ++i) job.push_back(rnd_commit(t)); start_job(t, std::move(job)); wait_job(t); }
        else {      // burst: the committers run concurrently with each other and with further control calls
            int nthreads = (int)rng.range(1, NT);
            for (int t = 1; t <= nthreads; ++t) { std::vector<Commit> job; int n = (int)rng.range(1, race ? 30 : 25); for (int i = 0; i < n; ++i) job.push_back(rnd_commit(t)); start_job(t, std::move(job)); }
            int nc = race ? (int)rng.range(1, 4) : (int)rng.below(3);
            bool filter_set = false;       // at most one filter change inside a burst, followed by a read back soon (keeps TLC's search small:
                                           // a change that falls inside a batch is tried at every record of the batch)
            for (int i = 0; i < nc; ++i) {
                if (rng.chance(50)) { volatile int sp = 0; for (int j = 0, n = (int)rng.below(20000); j < n; ++j) sp = sp + j; }
                int c = race ? 0 : (int)rng.below(100);
                if (c < 55) { if (enabled) call_disable(); else call_enable(); }
                else if (c < 75) { static const long long mx[] = {1, 12, 40, 150, 1000, 20000}; call_set("max", json(mx[rng.below(6)])); }
                else if (!filter_set) {
                    filter_set = true;
                    if (rng.chance(40)) call_set("strat", json(rng.chance(50) ? "permit" : "reject"));
                    else { json x = json::array(); for (int m = 0; m < 4; ++m) if (rng.chance(35)) x.push_back(MODS[m]); call_set("exempt", x); }
                }
            }
            if (filter_set && enabled) call_disable();
            for (int t = 1; t <= nthreads; ++t) wait_job(t);
        }
    }
    end_exec();
}

int main(int argc, char **argv) {
    if (argc < 2) return 3;
    std::string mode = argv[1];
    vh::install_faults();
    tbox::verif::Hooks().point = point;
    setenv("TZ", "UTC", 1);
    uint64_t seed = mode == "random" && argc >= 3 ? strtoull(argv[2], nullptr, 10) : 1;
    auto start_workers = [&] {
        for (int t = 1; t <= NT; ++t) { W[t].done = false; W[t].th = std::thread(worker_main, t, seed); }
        for (int t = 1; t <= NT; ++t) { wait_job(t); tid_of[t] = W[t].tid; }
    };
    auto stop_workers = [&] {
        for (int t = 1; t <= NT; ++t) { { std::lock_guard<std::mutex> g(W[t].m); W[t].quit = true; } W[t].cv.notify_all(); W[t].th.join(); }
    };
    if (mode == "script" && argc == 5) {
        vh::T().open(argv[3]); scratch = argv[4];
        start_workers();
        std::ifstream in(argv[2]); std::string line;
        while (std::getline(in, line)) { if (line.empty()) continue; run_script(json::parse(line)); }
        stop_workers();
    } else if (mode == "random" && argc >= 7) {
        vh::Rng rng(seed);
        int nexec = atoi(argv[3]), nsteps = atoi(argv[4]);
        vh::T().open(argv[5]); scratch = argv[6];
        bool race = argc >= 8 && !strcmp(argv[7], "race");
        start_workers();
        for (int x = 0; x < nexec; ++x) run_random(rng, nsteps, race);
        stop_workers();
    } else return 3;
    vh::T().close();
    return 0;
}
