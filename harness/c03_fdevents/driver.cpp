// C03 conformance driver for the descriptor events of tbox::event (epoll and select back-ends).
//   driver run <scenarios.jsonl> <epoll|select> <out.ndjson>
// Every line of <scenarios.jsonl> is one scenario (produced by TLC from spec/FdEvents/Gen_FdEvents.tla or by the
// seeded generator in checks/c03.py):
//   {"id":7,"kinds":["sock","pr"],"rank":[1,0],               descriptors 1..n: kind and order of their numbers
//    "ev":[{"m":"R","os":false},...],                           event slots 1..k created before the loop runs
//    "setup":[op...],                                           operations at main level before the first pass
//    "gaps":[[op...],[op...]],                                  operations at main level after pass 1, 2, ...; #passes = len
//    "scripts":{"1":[[op...],[op...]],...}}                     what the j-th callback invocation of event i does
//   op = {"k":"en"|"dis"|"del","e":i} | {"k":"init","e":i,"fd":f} | {"k":"close","fd":f} | {"k":"new","e":i,"m":"RW","os":true}
//        | {"k":"init","e":i,"fd":f,"m":"R","os":true}   (re-initialise with other conditions / mode; without m/os: the slot's current ones)
//        | {"k":"arm"}                     (arm the scenario's one-shot 1 ms timer; it is due in the next pass, its callback runs "tscripts")
//        | {"k":"ready","fd":f,"s":"RW"}   (main level only: make descriptor f ready for exactly these conditions)
// The loop's timers read a virtual clock (hook steady_ms) that the in-loop driver advances by 2 ms per pass, so an armed timer
// expires exactly in the next pass, before the ready descriptors of that pass are served; nothing sleeps.
// Descriptors are ends of socket pairs / pipes whose other end stays with the driver, so readiness is produced by
// writing / draining on the other end.  The loop runs in kForever mode; a self-re-posting runNext task is the in-loop
// driver: it runs once at the end of every pass (after the ready descriptors were served), logs the pass end, applies
// the operations of the gap and finally exits the loop.  Scripts are interpreted inside the real callbacks.
// An operation that is not applicable in the current state (target not alive, delete of the running event, ...) is
// skipped and not logged.  The program decides nothing: the trace is validated by TLC against Trace_FdEvents.tla.
#include <vh.h>
#include <fcntl.h>
#include <poll.h>
#include <sys/socket.h>
#include <fstream>
#include <map>
#include <nlohmann/json.hpp>
#include <tbox/event/loop.h>
#include <tbox/event/fd_event.h>
#include <tbox/event/timer_event.h>
#include <tbox/base/verif_hook.h>

using json = nlohmann::json;
using namespace tbox::event;

namespace {

struct Desc { std::string kind; int fd = -1, peer = -1; bool closed = false; };
struct Scenario {
    Loop *loop = nullptr;
    std::vector<Desc> d;                // [1..n]
    std::vector<FdEvent *> ev;          // [1..k], nullptr = not alive
    std::vector<std::string> evm;       // subscribed conditions of the slot
    std::vector<int> inv;               // callback invocations so far
    json scripts, gaps, tscripts;
    TimerEvent *timer = nullptr;
    bool timer_pending = false;
    int tinv = 0;
    int pass = 0;                       // passes completed
    int running = 0;                    // event whose callback is running
};
Scenario *S = nullptr;
const int TIMER = 1000;                 // "in" of operations performed by the timer callback
uint64_t vnow = 1000;                   // virtual monotonic clock, ms
bool vclock(uint64_t &ms) { ms = vnow; return true; }

std::string mask_json(bool r, bool w, bool x) {
    std::string s = "[";
    auto add = [&](const char *n) { if (s.size() > 1) s += ','; s += '"'; s += n; s += '"'; };
    if (r) add("R");
    if (w) add("W");
    if (x) add("X");
    return s + "]";
}
short mask_bits(const std::string &m) {
    short b = 0;
    if (m.find('R') != std::string::npos) b |= FdEvent::kReadEvent;
    if (m.find('W') != std::string::npos) b |= FdEvent::kWriteEvent;
    return b;
}
void set_nonblock(int fd) { fcntl(fd, F_SETFL, fcntl(fd, F_GETFL) | O_NONBLOCK); }
int move_fd(int fd, int to) { if (fd == to) return fd; int r = dup2(fd, to); if (r < 0) { perror("dup2"); _exit(3); } close(fd); return to; }

bool readable(int fd) { struct pollfd p = {fd, POLLIN, 0}; return poll(&p, 1, 0) > 0 && (p.revents & POLLIN); }
bool writable(int fd) { struct pollfd p = {fd, POLLOUT, 0}; return poll(&p, 1, 0) > 0 && (p.revents & POLLOUT); }
void drain(int fd) { char b[4096]; while (read(fd, b, sizeof b) > 0) {} }
void fill(int fd) { char b[1024]; memset(b, 'x', sizeof b); while (write(fd, b, sizeof b) > 0) {} char c = 'x'; while (write(fd, &c, 1) > 0) {} }

void open_desc(Desc &x, int num, int peernum) {
    int p[2];
    if (x.kind == "sock") {
        if (socketpair(AF_UNIX, SOCK_STREAM, 0, p) != 0) { perror("socketpair"); _exit(3); }
        int small = 1; setsockopt(p[0], SOL_SOCKET, SO_SNDBUF, &small, sizeof small);
        x.fd = p[0]; x.peer = p[1];
    } else {
        if (pipe(p) != 0) { perror("pipe"); _exit(3); }
        fcntl(p[1], F_SETPIPE_SZ, 4096);
        if (x.kind == "pr") { x.fd = p[0]; x.peer = p[1]; } else { x.fd = p[1]; x.peer = p[0]; }
    }
    x.fd = move_fd(x.fd, num); x.peer = move_fd(x.peer, peernum);
    set_nonblock(x.fd); set_nonblock(x.peer);
    fcntl(x.fd, F_SETFD, FD_CLOEXEC); fcntl(x.peer, F_SETFD, FD_CLOEXEC);
}
// make descriptor x ready for exactly the conditions in want (as far as its kind allows)
void make_ready(Desc &x, const std::string &want) {
    bool wr = want.find('R') != std::string::npos, ww = want.find('W') != std::string::npos;
    if (x.kind != "pw") {
        bool r = readable(x.fd);
        if (wr && !r) { char c = 'r'; if (write(x.peer, &c, 1) != 1) { /* peer full: leave as is, actual state is logged */ } }
        if (!wr && r) drain(x.fd);
    }
    if (x.kind != "pr") {
        bool w = writable(x.fd);
        if (ww && !w) drain(x.peer);
        if (!ww && w) fill(x.fd);
    }
}
void log_ready(int f) {
    Desc &x = S->d[f];
    if (x.closed) return;
    vh::T().printf("{\"e\":\"Ready\",\"fd\":%d,\"s\":%s}", f, mask_json(readable(x.fd), writable(x.fd), false).c_str());
}

void on_event(int i, short events);

// executes one operation if it is applicable; in = running event (0 = main level)
void do_op(const json &op, int in) {
    auto &T = vh::T();
    std::string k = op.at("k");
    int e = op.value("e", 0), f = op.value("fd", 0);
    int ne = (int)S->ev.size() - 1, nf = (int)S->d.size() - 1;
    if (k == "ready") {
        if (in != 0 || f < 1 || f > nf || S->d[f].closed) return;
        make_ready(S->d[f], op.value("s", std::string()));
        log_ready(f);
        return;
    }
    if (k == "arm") {
        if (S->timer_pending) return;
        S->timer->initialize(std::chrono::milliseconds(1), Event::Mode::kOneshot);
        S->timer->enable();
        S->timer_pending = true;
        T.printf("{\"e\":\"Op\",\"in\":%d,\"k\":\"arm\",\"ev\":0,\"fd\":0,\"ret\":true}", in);
        return;
    }
    if (k == "close") {
        if (f < 1 || f > nf || S->d[f].closed) return;
        close(S->d[f].fd); S->d[f].closed = true;
        T.printf("{\"e\":\"Op\",\"in\":%d,\"k\":\"close\",\"ev\":0,\"fd\":%d,\"ret\":true}", in, f);
        return;
    }
    if (e < 1 || e > ne) return;
    if (k == "new") {
        if (S->ev[e]) return;
        std::string m = op.value("m", std::string("R")); bool os = op.value("os", false);
        FdEvent *p = S->loop->newFdEvent("e" + std::to_string(e));
        p->setCallback([e](short events) { on_event(e, events); });
        S->ev[e] = p; S->evm[e] = m + (os ? "1" : "0");
        T.printf("{\"e\":\"New\",\"in\":%d,\"ev\":%d,\"m\":%s,\"os\":%s}", in, e,
                 mask_json(m.find('R') != std::string::npos, m.find('W') != std::string::npos, false).c_str(), os ? "true" : "false");
        return;
    }
    FdEvent *p = S->ev[e];
    if (!p) return;
    if (k == "en") { bool r = p->enable(); T.printf("{\"e\":\"Op\",\"in\":%d,\"k\":\"en\",\"ev\":%d,\"fd\":0,\"ret\":%s}", in, e, r ? "true" : "false"); }
    else if (k == "dis") { bool r = p->disable(); T.printf("{\"e\":\"Op\",\"in\":%d,\"k\":\"dis\",\"ev\":%d,\"fd\":0,\"ret\":%s}", in, e, r ? "true" : "false"); }
    else if (k == "del") {
        if (e == in) return;                                     // an event is never deleted from inside its own callback
        T.printf("{\"e\":\"Op\",\"in\":%d,\"k\":\"del\",\"ev\":%d,\"fd\":0,\"ret\":true}", in, e);   // logged first: a crash inside is a Fault after it
        T.flush();
        delete p; S->ev[e] = nullptr;
    } else if (k == "init") {
        if (f < 1 || f > nf) return;
        const std::string &cur = S->evm[e];
        std::string m = op.contains("m") ? op.value("m", std::string("R")) : cur.substr(0, cur.size() - 1);
        bool os = op.contains("os") ? op.value("os", false) : cur.back() == '1';
        bool r = p->initialize(S->d[f].fd, mask_bits(m), os ? Event::Mode::kOneshot : Event::Mode::kPersist);
        if (r) S->evm[e] = m + (os ? "1" : "0");
        T.printf("{\"e\":\"Op\",\"in\":%d,\"k\":\"init\",\"ev\":%d,\"fd\":%d,\"m\":%s,\"os\":%s,\"ret\":%s}", in, e, f,
                 mask_json(m.find('R') != std::string::npos, m.find('W') != std::string::npos, false).c_str(), os ? "true" : "false", r ? "true" : "false");
    }
}

void on_event(int i, short events) {
    auto &T = vh::T();
    int j = ++S->inv[i];
    FdEvent *self = S->ev[i];
    T.printf("{\"e\":\"Cb\",\"p\":%d,\"ev\":%d,\"m\":%s,\"en\":%s}", S->pass + 1, i,
             mask_json(events & FdEvent::kReadEvent, events & FdEvent::kWriteEvent, events & ~3).c_str(),
             (self && self->isEnabled()) ? "true" : "false");
    T.flush();
    int saved = S->running; S->running = i;
    std::string key = std::to_string(i);
    if (S->scripts.contains(key) && (int)S->scripts[key].size() >= j)
        for (const auto &op : S->scripts[key][j - 1]) do_op(op, i);
    S->running = saved;
    T.printf("{\"e\":\"Ret\",\"ev\":%d}", i);
}

void on_timer() {
    auto &T = vh::T();
    S->timer_pending = false;
    int j = ++S->tinv;
    T.printf("{\"e\":\"TimerCb\",\"p\":%d}", S->pass + 1);
    T.flush();
    int saved = S->running; S->running = TIMER;
    if ((int)S->tscripts.size() >= j)
        for (const auto &op : S->tscripts[j - 1]) do_op(op, TIMER);
    S->running = saved;
    T.printf("{\"e\":\"TimerRet\"}");
}

void log_pass_end() {
    std::string st = "[";
    for (size_t i = 1; i < S->ev.size(); ++i) {
        if (i > 1) st += ',';
        st += std::string("{\"a\":") + (S->ev[i] ? "true" : "false") + ",\"en\":" + ((S->ev[i] && S->ev[i]->isEnabled()) ? "true" : "false") + "}";
    }
    vh::T().printf("{\"e\":\"PassEnd\",\"p\":%d,\"st\":%s]}", S->pass, st.c_str());
}

void step() {                                                    // the in-loop driver: end of one pass
    ++S->pass;
    log_pass_end();
    int npass = (int)S->gaps.size();
    if (S->pass >= npass) { S->loop->exitLoop(); return; }
    for (const auto &op : S->gaps[S->pass - 1]) do_op(op, 0);
    for (size_t f = 1; f < S->d.size(); ++f) log_ready((int)f);   // the environment's truth right before the next poll
    vnow += 2;                                                    // an armed timer is due in the next pass
    S->loop->runNext(step, "c03 driver");
}

void run_scenario(const json &sc, const std::string &be) {
    auto &T = vh::T();
    Scenario s; S = &s;
    T.printf("{\"e\":\"Reset\"}");
    T.printf("{\"e\":\"Begin\",\"be\":\"%s\",\"id\":%lld}", be.c_str(), (long long)sc.value("id", 0));
    int nf = (int)sc.at("kinds").size();
    s.d.resize(nf + 1);
    for (int f = 1; f <= nf; ++f) {
        s.d[f].kind = sc["kinds"][f - 1];
        int rank = sc.contains("rank") ? (int)sc["rank"][f - 1] : f - 1;
        open_desc(s.d[f], 100 + 7 * rank, 200 + f);
    }
    s.loop = Loop::New(be);
    if (!s.loop) { fprintf(stderr, "no such back-end %s\n", be.c_str()); _exit(3); }
    int ne = (int)sc.at("ev").size();
    s.ev.assign(ne + 1, nullptr); s.evm.assign(ne + 1, "R0"); s.inv.assign(ne + 1, 0);
    s.scripts = sc.value("scripts", json::object());
    s.gaps = sc.value("gaps", json::array({json::array()}));
    s.tscripts = sc.value("tscripts", json::array());
    s.timer = s.loop->newTimerEvent("c03 timer");
    s.timer->setCallback(on_timer);
    for (int e = 1; e <= ne; ++e) {
        const json &v = sc["ev"][e - 1];
        if (v.is_null()) continue;                               // slot left empty at the start
        do_op(json{{"k", "new"}, {"e", e}, {"m", v.value("m", std::string("R"))}, {"os", v.value("os", false)}}, 0);
    }
    for (const auto &op : sc.value("setup", json::array())) do_op(op, 0);
    for (int f = 1; f <= nf; ++f) log_ready(f);
    T.flush();
    vnow += 2;
    s.loop->runNext(step, "c03 driver");
    s.loop->runLoop(Loop::Mode::kForever);
    T.printf("{\"e\":\"End\"}");
    delete s.timer; s.timer = nullptr;
    for (int e = 1; e <= ne; ++e) { delete s.ev[e]; s.ev[e] = nullptr; }
    delete s.loop;
    for (int f = 1; f <= nf; ++f) { if (!s.d[f].closed) close(s.d[f].fd); close(s.d[f].peer); }
    S = nullptr;
}

}  // namespace

int main(int argc, char **argv) {
    if (argc != 5 || std::string(argv[1]) != "run") { fprintf(stderr, "usage: driver run <scenarios.jsonl> <epoll|select> <out.ndjson>\n"); return 3; }
    signal(SIGPIPE, SIG_IGN);
    vh::T().open(argv[4]);
    vh::install_faults();
    tbox::verif::Hooks().steady_ms = vclock;
    std::ifstream in(argv[2]);
    std::string line;
    while (std::getline(in, line)) {
        if (line.empty()) continue;
        run_scenario(json::parse(line), argv[3]);
    }
    vh::T().close();
    return 0;
}
