// E02 conformance driver: tbox::eventx::RequestPool<Ctx> with its TimeoutMonitor on a real event loop.
//   driver run <scripts.jsonl> <out.ndjson>
// One script per line:
//   {"top":[ {"o":"init","i":<interval ms>,"n":<check_times>}, {"o":"setaction","k":"action"|"cb"}, {"o":"new","c":true|false},
//             {"o":"update","r":<request>}, {"o":"remove","r":<request>}, {"o":"adv","d":<ms>}, {"o":"pass"}, {"o":"cleanup"}, ... ],
//    "cb":{ "<k>":[ops...] } }       operations issued from inside the k-th timeout callback of the execution
// Requests are numbered 1,2,3.. in the order of newRequest(); the driver keeps the Token of each (a number that was never
// issued stands for a default-constructed Token).  Contexts are objects with a unique number whose construction and
// destruction the driver observes ("alive" = context numbers not yet deleted by anybody).
// The driver owns a real Loop, installs the virtual monotonic clock (time moves only on "adv"), and drives the loop from
// inside: the loop runs kForever with a self-reposting runNext task that executes the top-level operations up to the next
// "pass" marker, so one loop iteration = one handleExpiredTimers() = one pass, and nothing ever sleeps.
// Every operation, every timeout callback (entry and return) and every pass boundary is one ndjson line with the answer,
// the virtual time and the set of live contexts.  The trace is validated by TLC against spec/RequestPool/Trace_RequestPool.tla;
// this program decides nothing.  (Operations whose precondition does not hold - newRequest() on a pool that is not initialised,
// initialize() of an initialised one, a clock step inside a callback - are skipped, not logged.)
#include <vh.h>
#include <chrono>
#include <fstream>
#include <functional>
#include <map>
#include <memory>
#include <set>
#include <nlohmann/json.hpp>
#include <tbox/base/verif_hook.h>
#include <tbox/event/loop.h>
#include <tbox/eventx/request_pool.hpp>

using json = nlohmann::json;
using tbox::event::Loop;

static uint64_t g_vnow = 1000;       // virtual monotonic clock (ms)
static bool steady_hook(uint64_t &ms) { ms = g_vnow; return true; }

static std::set<int> g_alive;
struct Ctx {
    int id;
    explicit Ctx(int i) : id(i) { g_alive.insert(id); }
    ~Ctx() { g_alive.erase(id); id = -1; }
};
using Pool = tbox::eventx::RequestPool<Ctx>;

struct Exec {
    Loop *loop = nullptr;
    Pool *pool = nullptr;
    uint64_t base = 1000;
    std::vector<Pool::Token> tok;      // tok[r], r >= 1
    std::vector<Ctx *> mine;           // the context the driver last handed to the pool for request r (to release what the pool hands back)
    int nctx = 0;
    int ncb = 0;                       // timeout callbacks so far
    int depth = 0;                     // inside a timeout callback
    unsigned long long guard = 0;
    json top, cb;
    size_t pc = 0;
    bool in_pass = false;
    bool inited = false;               // input validity only: newRequest() needs an initialised pool, initialize() a pristine one

    long long now() const { return (long long)(g_vnow - base); }
    std::string tail() const {
        std::string s = ",\"cb\":" + std::to_string(depth) + ",\"now\":" + std::to_string(now()) + ",\"alive\":[";
        bool first = true;
        for (int id : g_alive) { if (!first) s += ','; first = false; s += std::to_string(id); }
        return s + "]}";
    }
    void log(const std::string &body) { vh::T().line("{" + body + tail()); vh::T().flush(); }
    Pool::Token token_of(int r) const { return (r >= 1 && r < (int)tok.size()) ? tok[r] : Pool::Token(); }

    void on_timeout(Ctx *c) {
        int k = ++ncb;
        if (++guard > 100000) vh::fault("runaway", "more timeout callbacks than requests could explain");
        ++depth;
        log("\"e\":\"timeout\",\"c\":" + std::to_string(c ? c->id : 0));
        auto it = cb.find(std::to_string(k));
        if (it != cb.end())
            for (auto &op : *it) apply(op);
        for (size_t r = 1; r < mine.size(); ++r) if (mine[r] == c) mine[r] = nullptr;     // the pool releases it when this returns
        log("\"e\":\"cbend\"");
        --depth;
    }

    void apply(const json &op) {
        std::string o = op.at("o");
        if (o == "adv") {
            long long d = op.value("d", 0);
            if (d <= 0 || depth > 0) return;
            g_vnow += (uint64_t)d;
            log("\"e\":\"adv\",\"d\":" + std::to_string(d));
        } else if (o == "init") {
            long long i = op.value("i", 1); int n = op.value("n", 1);
            if (i < 1 || (inited && n >= 1)) return;
            bool r = pool->initialize(std::chrono::milliseconds(i), n);
            if (r) inited = true;
            log("\"e\":\"init\",\"i\":" + std::to_string(i) + ",\"n\":" + std::to_string(n) + ",\"ret\":" + (r ? "true" : "false"));
        } else if (o == "setaction") {
            std::string k = op.value("k", std::string("action"));
            if (k == "action") pool->setTimeoutAction([this](Ctx *c) { on_timeout(c); });
            else pool->setTimeoutAction(Pool::TimeoutAction());
            log("\"e\":\"setaction\",\"k\":\"" + k + "\"");
        } else if (o == "new") {
            bool with = op.value("c", true);
            if (!inited) return;
            Ctx *c = with ? new Ctx(++nctx) : nullptr;
            Pool::Token t = with ? pool->newRequest(c) : pool->newRequest();
            if (tok.empty()) { tok.push_back(Pool::Token()); mine.push_back(nullptr); }
            tok.push_back(t); mine.push_back(c);
            log("\"e\":\"new\",\"r\":" + std::to_string(tok.size() - 1) + ",\"c\":" + std::to_string(c ? c->id : 0) +
                ",\"null\":" + (t.isNull() ? "true" : "false"));
        } else if (o == "update") {
            int r = op.value("r", 0);
            Ctx *c = new Ctx(++nctx);
            int id = c->id;
            bool ok = pool->updateRequest(token_of(r), c);
            // the pool never releases a context it was told to forget: the caller does (here: at once)
            if (ok) { if (r >= 1 && r < (int)mine.size()) { delete mine[r]; mine[r] = c; } }
            else delete c;
            log("\"e\":\"update\",\"r\":" + std::to_string(r) + ",\"c\":" + std::to_string(id) + ",\"ret\":" + (ok ? "true" : "false"));
        } else if (o == "remove") {
            int r = op.value("r", 0);
            Ctx *c = pool->removeRequest(token_of(r));
            int id = c ? c->id : 0;      // reading a context the pool already deleted is a use-after-free (ASan)
            if (c) { delete c; if (r >= 1 && r < (int)mine.size()) mine[r] = nullptr; }     // handed back: the caller's to release
            log("\"e\":\"remove\",\"r\":" + std::to_string(r) + ",\"ret\":" + std::to_string(id));
        } else if (o == "cleanup") {
            log("\"e\":\"cleanup_begin\"");
            pool->cleanup();
            inited = false;
            log("\"e\":\"cleanup\"");
        }
    }

    // executes top-level operations up to the next "pass" marker; returns false when the script is finished
    bool segment() {
        while (pc < top.size()) {
            const json &op = top[pc++];
            if (op.at("o") == "pass") { log("\"e\":\"pass\""); in_pass = true; return true; }
            apply(op);
        }
        return false;
    }
    void step() {      // the in-loop driver task: runs after the timers of this iteration
        if (in_pass) { log("\"e\":\"passend\""); in_pass = false; }
        if (segment()) loop->runNext([this] { step(); }, "e02-driver");
        else loop->exitLoop();
    }
};

static void run_one(const json &sc) {
    Exec x;
    x.top = sc.at("top");
    x.cb = sc.value("cb", json::object());
    x.base = g_vnow;
    x.loop = Loop::New();
    if (!x.loop) { fprintf(stderr, "no loop\n"); _exit(3); }
    x.pool = new Pool(x.loop);
    x.loop->runNext([&x] { x.step(); }, "e02-driver");
    x.loop->runLoop(Loop::Mode::kForever);
    x.log("\"e\":\"destroy_begin\"");
    delete x.pool; x.pool = nullptr;          // the destructor cleans up: every context still held is released, once
    x.log("\"e\":\"destroy\"");
    x.loop->cleanup();
    delete x.loop;
    // contexts the pool was told to forget (updateRequest) or never owned are the driver's; nothing else may be left
    vh::T().line("{\"e\":\"Reset\"}");
    vh::T().flush();
    for (int id : std::set<int>(g_alive)) (void)id;
    g_alive.clear();
}

int main(int argc, char **argv) {
    if (argc < 4 || std::string(argv[1]) != "run") { fprintf(stderr, "usage: driver run <scripts.jsonl> <out.ndjson>\n"); return 3; }
    vh::T().open(argv[3]);
    vh::install_faults();
    tbox::verif::Hooks().steady_ms = steady_hook;
    std::ifstream in(argv[2]);
    std::string line;
    while (std::getline(in, line)) {
        if (line.empty()) continue;
        run_one(json::parse(line));
    }
    vh::T().close();
    return 0;
}
