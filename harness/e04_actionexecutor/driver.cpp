// E04 conformance driver for tbox::flow::ActionExecutor.
//   driver script <scripts.jsonl> <out.ndjson>      one JSON object per line: {"ops":[op...]}
//        op = {"o":"append","p":0..2,"k":"normal"|"instant"} | {"o":"finish","a":id} | {"o":"pass"} |
//             {"o":"cancel","a":id} | {"o":"cancelCurrent"} | {"o":"cancelAll"}
//   driver random <seed> <nexec> <nops> <out.ndjson>
// Everything runs inside the event loop (kForever, from a driver task): a `pass` op re-posts the driver task behind the finish
// notifications that the actions have posted, so the next op is applied after exactly those notifications were delivered.
// Probe actions (subclass of Action) record their hooks Start/Pause/Resume/Stop; `normal` probes finish when the script says
// (Action::finish through the probe), `instant` probes finish inside onStart like FunctionAction.  The executor's callbacks are
// recorded as StartedCb/FinishedCb/AllFinished.  Every op is recorded before it is applied ({"e":<op>,...}), followed by the events
// it caused and a `ret` line: return value, current(), and the live probes (not destroyed) with their Action::state().
// Every execution ends with the destruction of the executor (`destroy`).  The trace is validated by TLC against
// spec/ActionExecutor/Trace_ActionExecutor.tla; this program decides nothing.
#include <vh.h>
#include <fstream>
#include <functional>
#include <map>
#include <memory>
#include <nlohmann/json.hpp>
#include <tbox/event/loop.h>
#include <tbox/flow/action.h>
#include <tbox/flow/action_executor.h>

using json = nlohmann::json;
using namespace tbox;
using namespace tbox::flow;

struct Op { std::string o; int p = 1; std::string k = "normal"; int a = 0; };

class Probe;
static std::map<int, Probe *> live;       // probes that exist, by executor action id
static bool quiet = false;                // executor is being destroyed: hooks are not recorded
static void out(const std::string &s) { vh::T().line(s); vh::T().flush(); }
static void ev(const char *e, int a) { out(std::string("{\"e\":\"") + e + "\",\"a\":" + std::to_string(a) + "}"); }

class Probe : public Action {
  public:
    Probe(event::Loop &loop, int xid, bool instant) : Action(loop, "Probe"), xid_(xid), instant_(instant) { live[xid_] = this; }
    ~Probe() override { live.erase(xid_); }
    bool isReady() const override { return true; }
    bool doFinish() { return finish(true); }
  protected:
    void onStart() override { Action::onStart(); ev("Start", xid_); if (instant_) finish(true); }
    void onPause() override { Action::onPause(); ev("Pause", xid_); }
    void onResume() override { Action::onResume(); ev("Resume", xid_); }
    void onStop() override { Action::onStop(); if (!quiet) ev("Stop", xid_); }
  private:
    int xid_; bool instant_;
};

static const char *st_name(Action::State s) {
    switch (s) {
        case Action::State::kIdle: return "idle";
        case Action::State::kRunning: return "running";
        case Action::State::kPause: return "paused";
        case Action::State::kFinished: return "finished";
        case Action::State::kStoped: return "stopped";
    }
    return "?";
}

static event::Loop *loop = nullptr;
static ActionExecutor *exec = nullptr;
static int appended = 0;

static void ret_line(const std::string &v) {
    std::string s = "{\"e\":\"ret\",\"v\":" + v + ",\"cur\":" + std::to_string(exec ? exec->current() : -1) + ",\"live\":[";
    bool first = true;
    for (auto &kv : live) {
        if (!first) s += ','; first = false;
        s += "[" + std::to_string(kv.first) + ",\"" + st_name(kv.second->state()) + "\"]";
    }
    out(s + "]}");
}
static const char *B(bool b) { return b ? "true" : "false"; }

static void begin_exec() {
    exec = new ActionExecutor;
    appended = 0;
    exec->setActionStartedCallback([](ActionExecutor::ActionId id) { ev("StartedCb", id); });
    exec->setActionFinishedCallback([](ActionExecutor::ActionId id) { ev("FinishedCb", id); });
    exec->setAllFinishedCallback([] { out("{\"e\":\"AllFinished\",\"a\":0}"); });
}
static void end_exec() {
    out("{\"e\":\"destroy\"}");
    quiet = true; delete exec; exec = nullptr; quiet = false;
    ret_line("0");
    out("{\"e\":\"Reset\"}");
}

static bool applicable(const Op &op) {
    if (op.o == "finish") { auto it = live.find(op.a); return it != live.end() && it->second->isUnderway(); }
    if (op.o == "cancel") return op.a > 0;
    if (op.o == "append") return op.p >= 0 && op.p <= 2;
    return true;
}
static void apply(const Op &op) {       // every op but `pass`
    if (op.o == "append") {
        int xid = ++appended;            // ids are handed out in append order (checked through the returned id)
        out("{\"e\":\"append\",\"p\":" + std::to_string(op.p) + ",\"k\":\"" + op.k + "\"}");
        int id = exec->append(new Probe(*loop, xid, op.k == "instant"), op.p);
        ret_line(std::to_string(id));
    } else if (op.o == "finish") {
        out("{\"e\":\"finish\",\"a\":" + std::to_string(op.a) + "}");
        bool r = live[op.a]->doFinish();
        ret_line(B(r));
    } else if (op.o == "cancel") {
        out("{\"e\":\"cancel\",\"a\":" + std::to_string(op.a) + "}");
        bool r = exec->cancel(op.a);
        ret_line(B(r));
    } else if (op.o == "cancelCurrent") {
        out("{\"e\":\"cancelCurrent\"}");
        bool r = exec->cancelCurrent();
        ret_line(B(r));
    } else if (op.o == "cancelAll") {
        out("{\"e\":\"cancelAll\"}");
        exec->cancelAll();
        ret_line("0");
    } else { fprintf(stderr, "unknown op %s\n", op.o.c_str()); _exit(3); }
}

// ---- op sources ----
static std::function<bool()> next_exec;          // prepares the next execution; false: no more
static std::function<bool(Op &)> next_op;        // next op of the current execution; false: execution over

static bool in_exec = false, awaiting_pass = false;
static void step() {
    if (awaiting_pass) { ret_line("0"); awaiting_pass = false; }
    for (;;) {
        if (!in_exec) {
            if (!next_exec()) { loop->exitLoop(); return; }
            begin_exec(); in_exec = true;
        }
        Op op;
        if (!next_op(op)) { end_exec(); in_exec = false; continue; }
        if (!applicable(op)) continue;
        if (op.o == "pass") {
            out("{\"e\":\"pass\"}");
            awaiting_pass = true;
            loop->runNext(step, "driver");       // behind the finish notifications posted so far
            return;
        }
        apply(op);
    }
}

int main(int argc, char **argv) {
    if (argc < 2) return 3;
    std::string mode = argv[1];
    vh::install_faults();
    std::vector<std::vector<Op>> scripts; size_t ei = 0, oi = 0;
    std::unique_ptr<vh::Rng> rng; int nexec = 0, nops = 0, xi = 0, made = 0;
    if (mode == "script" && argc == 4) {
        std::ifstream in(argv[2]); std::string line;
        while (std::getline(in, line)) {
            if (line.empty()) continue;
            json j = json::parse(line);
            std::vector<Op> ops;
            for (auto &e : j["ops"]) { Op op; op.o = e["o"].get<std::string>(); op.p = e.value("p", 1); op.k = e.value("k", std::string("normal")); op.a = e.value("a", 0); ops.push_back(op); }
            scripts.push_back(ops);
        }
        vh::T().open(argv[3]);
        next_exec = [&] { if (ei >= scripts.size()) return false; oi = 0; return true; };
        next_op = [&](Op &op) { if (oi >= scripts[ei].size()) { ++ei; return false; } op = scripts[ei][oi++]; return true; };
    } else if (mode == "random" && argc == 6) {
        rng.reset(new vh::Rng(strtoull(argv[2], nullptr, 10)));
        nexec = atoi(argv[3]); nops = atoi(argv[4]);
        vh::T().open(argv[5]);
        next_exec = [&] { if (xi >= nexec) return false; ++xi; made = 0; return true; };
        next_op = [&](Op &op) {
            if (made >= nops) return false;
            ++made;
            vh::Rng &r = *rng;
            for (int tries = 0; tries < 20; ++tries) {
                int x = (int)r.below(100);
                op = Op();
                if (x < 34) { op.o = "append"; op.p = r.chance(50) ? 1 : r.chance(50) ? 0 : 2; op.k = r.chance(30) ? "instant" : "normal"; if (appended >= 40) continue; }
                else if (x < 56) {
                    std::vector<int> c; for (auto &kv : live) if (kv.second->isUnderway()) c.push_back(kv.first);
                    if (c.empty()) continue;
                    op.o = "finish"; op.a = c[r.below(c.size())];
                }
                else if (x < 76) op.o = "pass";
                else if (x < 88) { op.o = "cancel"; op.a = (int)r.range(1, appended + 1); }
                else if (x < 96) op.o = "cancelCurrent";
                else op.o = "cancelAll";
                return true;
            }
            op = Op(); op.o = "pass";
            return true;
        };
    } else return 3;
    loop = event::Loop::New();
    loop->runNext(step, "driver");
    loop->runLoop(event::Loop::Mode::kForever);
    delete loop;
    vh::T().close();
    return 0;
}
