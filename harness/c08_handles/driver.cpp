// C08 conformance driver: cabinet tokens, pooled objects, shared fd handles, lifetime tags.
//   driver <kind> <scripts.jsonl|-> <seed> <nexec> <nops> <nlong> <out.ndjson>      kind = cabinet | pool | fd | tag
// First executes every script of <scripts.jsonl> (one JSON array of ops per line, produced by TLC from the Gen_* specs, or
// extracted from a saved trace for --replay; "-" = none), then <nexec> seeded random histories of about <nops> operations (every
// eighth one 8x longer) and, if <nlong> > 0, one history of <nlong> operations, all on the REAL templates/classes.
// One ndjson event per call: the call, its arguments, what it returned and a cheap projection of the
// state after it (see each section).  Executions are separated by {"e":"Reset"}.  The trace is validated by TLC against
// spec/Handles/Trace_*.tla; this program decides nothing.
#include <vh.h>
#include <fcntl.h>
#include <fstream>
#include <functional>
#include <map>
#include <memory>
#include <set>
#include <nlohmann/json.hpp>
#include <tbox/base/cabinet.hpp>
#include <tbox/base/lifetime_tag.hpp>
#include <tbox/base/object_pool.hpp>
#include <tbox/util/fd.h>

using json = nlohmann::json;
static std::string S(long long v) { return std::to_string(v); }
static const char *B(bool b) { return b ? "true" : "false"; }
static long long clampi(unsigned long long v) { return v > 2000000000ull ? 2000000000ll : (long long)v; }

struct Op {
    std::string e;
    long long k = 0, o = 0, h = 0, s = 0, v = 0, j = 0, x = 0, y = 0, keep = 0;
    bool real = false, th = false;
    std::string ty;
};
static Op parse(const json &j) {
    Op op; op.e = j.at("e").get<std::string>();
    op.k = j.value("k", 0LL); op.o = j.value("o", 0LL); op.h = j.value("h", 0LL); op.s = j.value("s", 0LL); op.v = j.value("v", 0LL);
    op.j = j.value("j", 0LL); op.x = j.value("x", 0LL); op.y = j.value("y", 0LL); op.keep = j.value("keep", 0LL);
    op.real = j.value("real", false); op.th = j.value("th", false); op.ty = j.value("ty", std::string("big"));
    return op;
}
static void bad_script(const Op &op, const char *why) { fprintf(stderr, "script op not applicable (%s): %s\n", why, op.e.c_str()); _exit(3); }

// =====================================================================================================================
// Cabinet
// =====================================================================================================================
namespace cab {
using tbox::cabinet::Token;
struct Obj { int id; };
static const int NOBJ = 8;
static Obj objs[NOBJ + 1];
static std::unique_ptr<tbox::cabinet::Cabinet<Obj>> c;
static std::vector<Token> issued;           // by issue index k (1-based); k = 0 is the null token
static std::set<Token> distinct;            // every token value ever issued in this execution (live and stale)

static Obj *ptr(long long o) { return o >= 1 && o <= NOBJ ? &objs[o] : nullptr; }
static long long oid(Obj *p) { if (!p) return 0; if (p >= objs + 1 && p <= objs + NOBJ) return p - objs; return -1; }   // -1: garbage
static std::string tj(const Token &t) { return "{\"i\":" + S(clampi(t.id())) + ",\"p\":" + S(clampi(t.pos())) + "}"; }
static Token tok(long long k) { return k >= 1 && k <= (long long)issued.size() ? issued[k - 1] : Token(); }

// projection after every call: size(), empty(), and the result of at() for EVERY token ever issued (only non-null ones are printed)
static std::string post() {
    std::string r = ",\"size\":" + S(clampi(c->size())) + ",\"empty\":" + B(c->empty()) + ",\"nq\":" + S((long long)distinct.size()) + ",\"res\":[";
    bool first = true;
    for (const Token &t : distinct) {
        Obj *p = c->at(t);
        if (!p) continue;
        if (!first) r += ','; first = false;
        r += "{\"t\":" + tj(t) + ",\"o\":" + S(oid(p)) + "}";
    }
    Token null_token;
    if (Obj *p = c->at(null_token)) { if (!first) r += ','; r += "{\"t\":" + tj(null_token) + ",\"o\":" + S(oid(p)) + "}"; }
    return r + "]}";
}
static void simple(const Op &op) {          // alloc / update / free / at / clear
    auto &T = vh::T();
    if (op.e == "alloc") {
        Token t = c->alloc(ptr(op.o));
        issued.push_back(t); distinct.insert(t);
        T.line("{\"e\":\"alloc\",\"o\":" + S(op.o) + ",\"k\":" + S((long long)issued.size()) + ",\"tok\":" + tj(t) + post());
    } else if (op.e == "update") {
        bool r = c->update(tok(op.k), ptr(op.o));
        T.line("{\"e\":\"update\",\"k\":" + S(op.k) + ",\"o\":" + S(op.o) + ",\"tok\":" + tj(tok(op.k)) + ",\"ret\":" + B(r) + post());
    } else if (op.e == "free") {
        Obj *r = c->free(tok(op.k));
        T.line("{\"e\":\"free\",\"k\":" + S(op.k) + ",\"tok\":" + tj(tok(op.k)) + ",\"ret\":" + S(oid(r)) + post());
    } else if (op.e == "at") {
        Obj *r = (op.k % 2) ? c->at(tok(op.k)) : (*c)[tok(op.k)];
        T.line("{\"e\":\"at\",\"k\":" + S(op.k) + ",\"tok\":" + tj(tok(op.k)) + ",\"ret\":" + S(oid(r)) + post());
    } else if (op.e == "clear") {
        c->clear();
        T.line("{\"e\":\"clear\"" + post());
    } else bad_script(op, "cabinet");
}
static bool in_walk_ok(const Op &op) { return op.e == "update" || op.e == "free" || op.e == "at"; }

// A walk in a script is the flat sequence  wbegin, (update|free|at)*, visit, (update|free|at)*, visit, ..., wend.
// The calls listed after the j-th "visit" are made from inside the j-th callback of the real foreach().
static void walk(const std::vector<Op> &ops, size_t &i) {
    auto &T = vh::T();
    T.line("{\"e\":\"wbegin\"" + post());
    ++i;
    while (i < ops.size() && in_walk_ok(ops[i])) simple(ops[i++]);       // before the first visit: same as before the call
    c->foreach([&](Obj *p) {
        T.line("{\"e\":\"visit\",\"o\":" + S(oid(p)) + post());
        if (i < ops.size() && ops[i].e == "visit") ++i;
        while (i < ops.size() && in_walk_ok(ops[i])) simple(ops[i++]);
    });
    while (i < ops.size() && ops[i].e != "wend") { if (in_walk_ok(ops[i])) simple(ops[i]); ++i; }
    if (i < ops.size()) ++i;
    T.line("{\"e\":\"wend\"" + post());
}
static void begin() { c.reset(new tbox::cabinet::Cabinet<Obj>()); issued.clear(); distinct.clear(); }
static void end() { c.reset(); }
static void run_script(const std::vector<Op> &ops) {
    begin();
    for (size_t i = 0; i < ops.size();) {
        if (ops[i].e == "wbegin") walk(ops, i);
        else if (ops[i].e == "visit" || ops[i].e == "wend") ++i;
        else simple(ops[i++]);
    }
    end();
}
static std::vector<Op> random_ops(vh::Rng &rng, int nops) {
    // generated against a shadow of which tokens the DRIVER believes live (only to aim the calls at live tokens mostly, at stale
    // ones often and at the null token sometimes; the shadow is never compared with anything)
    std::vector<Op> ops; std::vector<long long> live; long long nissued = 0;
    int maxlive = rng.chance(30) ? 2 : rng.chance(50) ? 5 : 24;
    auto rm = [&](long long k) { for (size_t q = 0; q < live.size(); ++q) if (live[q] == k) { live.erase(live.begin() + q); break; } };
    auto aim = [&]() -> long long {
        if (nissued == 0 || rng.chance(4)) return 0;
        if (!live.empty() && rng.chance(65)) return live[rng.below(live.size())];
        return rng.range(1, nissued);
    };
    while ((int)ops.size() < nops) {
        int d = (int)rng.below(100); Op op;
        if (d < 38 || nissued == 0) { if ((int)live.size() >= maxlive) continue; op.e = "alloc"; op.o = rng.chance(8) ? 0 : rng.range(1, NOBJ); live.push_back(++nissued); ops.push_back(op); }
        else if (d < 66) { op.e = "free"; op.k = aim(); rm(op.k); ops.push_back(op); }
        else if (d < 76) { op.e = "update"; op.k = aim(); op.o = rng.chance(10) ? 0 : rng.range(1, NOBJ); ops.push_back(op); }
        else if (d < 84) { op.e = "at"; op.k = aim(); ops.push_back(op); }
        else if (d < 88) { op.e = "clear"; live.clear(); ops.push_back(op); }
        else {      // foreach with removals/updates from inside the callback
            op.e = "wbegin"; ops.push_back(op);
            size_t nv = live.size();
            for (size_t v = 0; v < nv; ++v) {
                Op vi; vi.e = "visit"; ops.push_back(vi);
                int nin = rng.chance(50) ? 0 : (int)rng.range(1, 3);
                for (int q = 0; q < nin; ++q) {
                    Op in; int dd = (int)rng.below(10);
                    if (dd < 7) { in.e = "free"; in.k = aim(); rm(in.k); }
                    else if (dd < 9) { in.e = "update"; in.k = aim(); in.o = rng.range(0, NOBJ); }
                    else { in.e = "at"; in.k = aim(); }
                    ops.push_back(in);
                }
            }
            Op we; we.e = "wend"; ops.push_back(we);
        }
    }
    return ops;
}
}  // namespace cab

// =====================================================================================================================
// ObjectPool
// =====================================================================================================================
namespace pool {
static long long n_ctor = 0, n_dtor = 0, n_damaged = 0;    // n_damaged: constructors/destructors that found their object overwritten
static const void *last_ctor = nullptr, *last_dtor = nullptr;
// Re-entrancy: the driver arms a hook for exactly the NEXT constructor / destructor of the element type; the hook then calls
// alloc()/free() of the same pool from inside it (a pooled node that owns pooled children) and may make the constructor throw.
static std::function<void(void *)> ctor_hook, dtor_hook;
struct Boom {};
static void fire(std::function<void(void *)> &hook, void *self) { if (hook) { auto h = std::move(hook); hook = nullptr; h(self); } }
struct Big {
    unsigned long long magic; int v; char pad[44];
    explicit Big(int x) : magic(0xC0FFEE0000ull + (unsigned)x), v(x) {
        memset(pad, x, sizeof pad); ++n_ctor; last_ctor = this;
        fire(ctor_hook, this);                          // may call into the pool, may throw Boom
        if (value() != v) ++n_damaged;                  // somebody wrote into the object under construction
    }
    ~Big() {
        if (value() != v) ++n_damaged;
        ++n_dtor; last_dtor = this;
        fire(dtor_hook, this);
        if (value() != v) ++n_damaged;                  // somebody wrote into the object under destruction
        magic = 0xDEAD;
    }
    int value() const { for (char ch : pad) if (ch != (char)v) return -2; return magic == 0xC0FFEE0000ull + (unsigned)v ? v : -1; }
};
struct Small {      // smaller than a pointer: the pool's block must still hold its free-list link
    signed char v;
    explicit Small(int x) : v((signed char)x) { ++n_ctor; last_ctor = this; fire(ctor_hook, this); if (v != (signed char)x) ++n_damaged; }
    ~Small() { signed char w = v; ++n_dtor; last_dtor = this; fire(dtor_hook, this); if (v != w) ++n_damaged; }
    int value() const { return v; }
};
static std::map<const void *, int> addr_ix;     // address -> dense index (same address -> same index within an execution)
static int ix(const void *p) { if (!p) return 0; auto it = addr_ix.find(p); if (it != addr_ix.end()) return it->second; int n = (int)addr_ix.size() + 1; addr_ix[p] = n; return n; }

struct Runner {
    virtual ~Runner() {}
    virtual void step(const std::vector<Op> &ops, size_t &i) = 0;
    virtual void finish() = 0;
};
template <class P> struct R : Runner {
    enum { DEAD = 0, LIVE = 1, CONSTRUCTING = 2, DESTRUCTING = 3 };
    std::unique_ptr<tbox::ObjectPool<P>> pl;
    std::vector<P *> obj;           // by allocation index j (1-based: the j-th alloc call of the execution)
    std::vector<char> st;
    std::string post() {
        std::string r = ",\"ctor\":" + S(n_ctor) + ",\"dtor\":" + S(n_dtor) + ",\"ca\":" + S(ix(last_ctor)) + ",\"da\":" + S(ix(last_dtor)) + ",\"bad\":" + S(n_damaged) + ",\"vals\":[";
        bool first = true;
        for (size_t j = 0; j < obj.size(); ++j) {       // contents of every COMPLETE object in use
            if (st[j] != LIVE) continue;
            if (!first) r += ','; first = false;
            r += "{\"a\":" + S(ix(obj[j])) + ",\"v\":" + S(obj[j]->value()) + "}";
        }
        return r + "]}";
    }
    bool live(long long j) const { return j >= 1 && j <= (long long)obj.size() && st[j - 1] == LIVE; }
    // skip a bracket whose constructor / destructor never ran (i is just behind the opening op)
    static void skip_to(const std::vector<Op> &ops, size_t &i, const char *close) {
        int depth = 0;
        for (; i < ops.size(); ++i) {
            const std::string &e = ops[i].e;
            if (e == "cbeg" || e == "dbeg") ++depth;
            else if (e == "cend" || e == "dend") { if (depth == 0 && e == close) return; if (depth > 0) --depth; }
        }
    }
    // executes ops[i] (for cbeg / dbeg: the whole bracket up to its cend / dend) and leaves i behind it
    void step(const std::vector<Op> &ops, size_t &i) override {
        auto &T = vh::T();
        const Op &op = ops[i];
        if (op.e == "pnew") {
            if (pl) bad_script(op, "pool exists");
            if (op.keep < 0) pl.reset(new tbox::ObjectPool<P>()); else pl.reset(new tbox::ObjectPool<P>((size_t)op.keep));
            T.line("{\"e\":\"pnew\",\"keep\":" + S(op.keep) + ",\"ty\":\"" + op.ty + "\"" + post());
            ++i;
        } else if (op.e == "palloc") {
            if (!pl) bad_script(op, "no pool");
            P *p = pl->alloc((int)op.v);
            obj.push_back(p); st.push_back(LIVE);
            T.line("{\"e\":\"palloc\",\"v\":" + S(op.v) + ",\"j\":" + S((long long)obj.size()) + ",\"a\":" + S(ix(p)) + post());
            ++i;
        } else if (op.e == "pfree") {
            if (!pl || !live(op.j)) bad_script(op, "not in use");
            P *p = obj[op.j - 1]; st[op.j - 1] = DEAD;
            pl->free(p);
            T.line("{\"e\":\"pfree\",\"j\":" + S(op.j) + ",\"a\":" + S(ix(p)) + post());
            ++i;
        } else if (op.e == "cbeg") {        // alloc() whose constructor calls into the pool: ops up to the matching cend run inside it
            if (!pl) bad_script(op, "no pool");
            const size_t j = obj.size(); const long long v = op.v;
            obj.push_back(nullptr); st.push_back(CONSTRUCTING);
            bool entered = false, threw = false;
            ctor_hook = [&, j, v](void *self) {
                entered = true; obj[j] = static_cast<P *>(self);
                T.line("{\"e\":\"cbeg\",\"v\":" + S(v) + ",\"j\":" + S((long long)j + 1) + ",\"a\":" + S(ix(self)) + post());
                ++i;
                while (i < ops.size() && ops[i].e != "cend") step(ops, i);
                if (i < ops.size() && ops[i].th) throw Boom();
            };
            P *r = nullptr;
            try { r = pl->alloc((int)v); } catch (const Boom &) { threw = true; }
            if (!entered) { ctor_hook = nullptr; ++i; skip_to(ops, i, "cend"); }     // no constructor ran: the trace shows it (cend without cbeg)
            obj[j] = threw ? nullptr : r; st[j] = threw || !r ? DEAD : LIVE;
            T.line("{\"e\":\"cend\",\"j\":" + S((long long)j + 1) + ",\"a\":" + S(threw ? 0 : ix(r)) + ",\"th\":" + B(threw) + post());
            if (i < ops.size()) ++i;
        } else if (op.e == "dbeg") {        // free() whose destructor calls into the pool
            if (!pl || !live(op.j)) bad_script(op, "not in use");
            const long long j = op.j;
            P *p = obj[j - 1]; st[j - 1] = DESTRUCTING;
            bool entered = false;
            dtor_hook = [&, j](void *self) {
                entered = true;
                T.line("{\"e\":\"dbeg\",\"j\":" + S(j) + ",\"a\":" + S(ix(self)) + post());
                ++i;
                while (i < ops.size() && ops[i].e != "dend") step(ops, i);
            };
            pl->free(p);
            if (!entered) { dtor_hook = nullptr; ++i; skip_to(ops, i, "dend"); }
            st[j - 1] = DEAD;
            T.line("{\"e\":\"dend\",\"j\":" + S(j) + post());
            if (i < ops.size()) ++i;
        } else if (op.e == "cend" || op.e == "dend") {
            ++i;                            // unmatched closing bracket (a script cut in the middle): nothing to do
        } else if (op.e == "pdel") {
            if (!pl) bad_script(op, "no pool");
            for (char c : st) if (c != DEAD) bad_script(op, "objects in use");
            pl.reset();
            T.line("{\"e\":\"pdel\"" + post());
            ++i;
        } else bad_script(op, "pool");
    }
    void finish() override {       // objects must be given back through the pool before it goes away
        if (!pl) return;
        std::vector<Op> tail;
        for (size_t j = 0; j < obj.size(); ++j) if (st[j] == LIVE) { Op f; f.e = "pfree"; f.j = (long long)j + 1; tail.push_back(f); }
        Op d; d.e = "pdel"; tail.push_back(d);
        for (size_t i = 0; i < tail.size();) step(tail, i);
    }
};
static void run_script(const std::vector<Op> &ops) {
    n_ctor = n_dtor = n_damaged = 0; last_ctor = last_dtor = nullptr; addr_ix.clear(); ctor_hook = nullptr; dtor_hook = nullptr;
    std::unique_ptr<Runner> r;
    for (size_t i = 0; i < ops.size();) {
        if (!r) { if (ops[i].e != "pnew") bad_script(ops[i], "first op must be pnew"); if (ops[i].ty == "small") r.reset(new R<Small>()); else r.reset(new R<Big>()); }
        r->step(ops, i);
    }
    if (r) r->finish();
}
// n more operations at nesting level `depth`; constructors / destructors re-enter the pool up to two levels deep
static void gen_some(vh::Rng &rng, std::vector<Op> &ops, std::vector<long long> &inuse, long long &nalloc, int depth, int n, int maxuse) {
    for (int k = 0; k < n; ++k) {
        int d = (int)rng.below(100); Op op;
        if (depth < 2 && d < 12) {                                  // alloc whose constructor allocates / frees, sometimes throws
            op.e = "cbeg"; op.v = rng.range(1, 100); long long j = ++nalloc; ops.push_back(op);
            gen_some(rng, ops, inuse, nalloc, depth + 1, (int)rng.range(1, 3), maxuse);
            Op e; e.e = "cend"; e.th = rng.chance(12); ops.push_back(e);
            if (!e.th) inuse.push_back(j);
        } else if (depth < 2 && d < 24 && !inuse.empty()) {         // free whose destructor frees / allocates
            size_t q = rng.below(inuse.size()); op.e = "dbeg"; op.j = inuse[q]; inuse.erase(inuse.begin() + q); ops.push_back(op);
            gen_some(rng, ops, inuse, nalloc, depth + 1, (int)rng.range(1, 3), maxuse);
            Op e; e.e = "dend"; ops.push_back(e);
        } else if (inuse.empty() || ((int)inuse.size() < maxuse && d < 62)) {
            op.e = "palloc"; op.v = rng.range(1, 100); inuse.push_back(++nalloc); ops.push_back(op);
        } else {
            size_t q = rng.below(inuse.size()); op.e = "pfree"; op.j = inuse[q]; inuse.erase(inuse.begin() + q); ops.push_back(op);
        }
    }
}
static std::vector<Op> random_ops(vh::Rng &rng, int nops) {
    std::vector<Op> ops; Op n; n.e = "pnew"; n.ty = rng.chance(35) ? "small" : "big";
    static const long long keeps[] = {-1, 0, 1, 2, 3, 8};
    n.keep = keeps[rng.below(6)]; ops.push_back(n);
    std::vector<long long> inuse; long long nalloc = 0;
    int maxuse = rng.chance(40) ? 3 : 12;
    while ((int)ops.size() < nops) gen_some(rng, ops, inuse, nalloc, 0, 4, maxuse);
    return ops;
}
}  // namespace pool

// =====================================================================================================================
// Fd
// =====================================================================================================================
namespace fdh {
using tbox::util::Fd;
static const int NH = 4;
static std::unique_ptr<Fd> slot[NH + 1];
static std::vector<long long> closes;                   // serials closed during the current call (CloseFunc calls / real closes)
struct RealFd { int fd; long long serial; };
static std::vector<RealFd> reals;                       // descriptors opened by the driver for handles WITHOUT a close function
static int devnull = -1;
static long long nserial = 0;
static std::map<int, long long> serial_of_real;

static bool is_open(int fd) { return fcntl(fd, F_GETFD) != -1; }
// real descriptors: detect "closed during this call" by probing; a closed number is re-occupied at once by a placeholder, so that
// a SECOND close of the same number (a double close) is seen as well and never hits an unrelated descriptor
static void poll_reals() {
    for (auto &r : reals) if (!is_open(r.fd)) { closes.push_back(r.serial); if (dup2(devnull, r.fd) != r.fd) { perror("dup2"); _exit(3); } }
}
static bool zero_fake = false;      // this script's fake descriptor with serial 1 carries the value 0
static long long serial_of(int v) {
    if (v == -1) return 0;
    if (v == 0 && zero_fake) return 1;
    if (v >= 1000000) return v - 1000000;
    auto it = serial_of_real.find(v); return it == serial_of_real.end() ? -1 : it->second;
}
static std::string post() {
    poll_reals();
    std::string r = ",\"cl\":" + vh::jarr(closes) + ",\"st\":[";
    for (int h = 1; h <= NH; ++h) {
        if (h > 1) r += ',';
        if (!slot[h]) { r += "{\"a\":false,\"g\":0,\"n\":true}"; continue; }
        r += std::string("{\"a\":true,\"g\":") + S(serial_of(slot[h]->get())) + ",\"n\":" + B(slot[h]->isNull()) + "}";
    }
    closes.clear();
    return r + "]}";
}
static bool applicable(const Op &op) {
    bool hh = op.h >= 1 && op.h <= NH, ss = op.s >= 1 && op.s <= NH;
    if (!hh) return false;
    bool ah = (bool)slot[op.h], as = ss && slot[op.s];
    if (op.e == "fnew" || op.e == "fnull") return !ah;
    if (op.e == "fcopyc") return !ah && as;
    if (op.e == "fmovec") return !ah && as && op.h != op.s;
    if (op.e == "fcopya" || op.e == "fmovea" || op.e == "fswap") return ah && as;
    return ah;      // freset fclose fdel
}
static void apply(const Op &op) {
    if (!applicable(op)) bad_script(op, "fd");
    std::string extra;
    if (op.e == "fnew") {
        long long k = ++nserial;
        if (op.real) {
            int fd = dup(devnull); if (fd < 0) { perror("dup"); _exit(3); }
            reals.push_back({fd, k}); serial_of_real[fd] = k;
            slot[op.h].reset(new Fd(fd));
        } else {
            if (k == 1) zero_fake = true;
            int v = k == 1 ? 0 : 1000000 + (int)k;      // descriptor 0 is a descriptor like any other (the first fake one of every script)
            slot[op.h].reset(new Fd(v, [k, v](int got) { closes.push_back(got == v ? k : -1); }));
        }
        extra = std::string(",\"real\":") + B(op.real) + ",\"k\":" + S(k);
    } else if (op.e == "fnull") slot[op.h].reset(new Fd());
    else if (op.e == "fcopyc") slot[op.h].reset(new Fd(*slot[op.s]));
    else if (op.e == "fmovec") slot[op.h].reset(new Fd(std::move(*slot[op.s])));
    else if (op.e == "fcopya") { Fd &d = *slot[op.h]; const Fd &s = *slot[op.s]; d = s; }
    else if (op.e == "fmovea") { Fd &d = *slot[op.h]; Fd &s = *slot[op.s]; d = std::move(s); }
    else if (op.e == "fswap") slot[op.h]->swap(*slot[op.s]);
    else if (op.e == "freset") slot[op.h]->reset();
    else if (op.e == "fclose") slot[op.h]->close();
    else if (op.e == "fdel") slot[op.h].reset();
    else bad_script(op, "fd op");
    vh::T().line("{\"e\":\"" + op.e + "\",\"h\":" + S(op.h) + ",\"s\":" + S(op.s) + extra + post());
}
static void begin() {
    if (devnull < 0) { devnull = open("/dev/null", O_RDWR); if (devnull < 0) { perror("/dev/null"); _exit(3); } }
    nserial = 0; closes.clear(); zero_fake = false;
}
static void end() {     // the remaining copies go away: logged, so that "closed when the last copy goes away" is checked too
    for (int h = 1; h <= NH; ++h) if (slot[h]) { Op d; d.e = "fdel"; d.h = h; apply(d); }
    for (auto &r : reals) ::close(r.fd);        // placeholders (or descriptors the code failed to close: the trace already shows that)
    reals.clear(); serial_of_real.clear();
}
static void run_script(const std::vector<Op> &ops) { begin(); for (const Op &op : ops) apply(op); end(); }
static std::vector<Op> random_ops(vh::Rng &rng, int nops) {
    // aimed with a shadow of which slots exist (driver-side bookkeeping only)
    std::vector<Op> ops; bool a[NH + 1] = {false};
    static const char *names[] = {"fnew", "fnew", "fnull", "fcopyc", "fcopyc", "fmovec", "fcopya", "fcopya", "fmovea", "fmovea", "fswap", "freset", "fclose", "fdel", "fdel"};
    int realpct = rng.chance(50) ? 0 : 40;
    int guard = 0;
    while ((int)ops.size() < nops && ++guard < nops * 200) {
        Op op; op.e = names[rng.below(sizeof names / sizeof *names)]; op.h = rng.range(1, NH); op.s = rng.range(1, NH);
        bool ah = a[op.h], as = a[op.s];
        if (op.e == "fnew" || op.e == "fnull") { if (ah) continue; a[op.h] = true; op.real = op.e == "fnew" && rng.chance(realpct); op.s = 0; }
        else if (op.e == "fcopyc") { if (ah || !as) continue; a[op.h] = true; }
        else if (op.e == "fmovec") { if (ah || !as || op.h == op.s) continue; a[op.h] = true; }
        else if (op.e == "fcopya" || op.e == "fmovea" || op.e == "fswap") { if (!ah || !as) continue; }
        else { if (!ah) continue; op.s = 0; if (op.e == "fdel") a[op.h] = false; }
        ops.push_back(op);
    }
    return ops;
}
}  // namespace fdh

// =====================================================================================================================
// LifetimeTag
// =====================================================================================================================
namespace tag {
using tbox::LifetimeTag;
typedef LifetimeTag::Watcher W;
static const int NT = 3, NW = 4;
static std::unique_ptr<LifetimeTag> t[NT + 1];
static std::unique_ptr<W> w[NW + 1];
static std::string post() {
    std::string r = ",\"ta\":[";
    for (int x = 1; x <= NT; ++x) { if (x > 1) r += ','; r += B((bool)t[x]); }
    r += "],\"st\":[";
    for (int y = 1; y <= NW; ++y) {
        if (y > 1) r += ',';
        if (!w[y]) { r += "{\"a\":false,\"v\":false}"; continue; }
        bool v1 = w[y]->isAlive(), v2 = (bool)*w[y];
        r += std::string("{\"a\":true,\"v\":") + B(v1) + ",\"b\":" + B(v2) + "}";
    }
    return r + "]}";
}
static bool T_(long long x) { return x >= 1 && x <= NT && t[x]; }
static bool W_(long long y) { return y >= 1 && y <= NW && w[y]; }
static bool applicable(const Op &op) {
    const std::string &e = op.e;
    if (e == "tnew") return op.x >= 1 && op.x <= NT && !t[op.x];
    if (e == "tcopyc" || e == "tmovec") return op.x >= 1 && op.x <= NT && !t[op.x] && T_(op.s);
    if (e == "tassign" || e == "tmassign") return T_(op.x) && T_(op.s);
    if (e == "tdel") return T_(op.x);
    if (e == "wnull") return op.y >= 1 && op.y <= NW && !w[op.y];
    if (e == "wtag" || e == "wget") return op.y >= 1 && op.y <= NW && !w[op.y] && T_(op.x);
    if (e == "wcopyc") return op.y >= 1 && op.y <= NW && !w[op.y] && W_(op.s);
    if (e == "wmovec") return op.y >= 1 && op.y <= NW && !w[op.y] && W_(op.s) && op.y != op.s;
    if (e == "wasgt") return W_(op.y) && T_(op.x);
    if (e == "wcopya" || e == "wmovea" || e == "wswap") return W_(op.y) && W_(op.s);
    if (e == "wreset" || e == "wdel") return W_(op.y);
    return false;
}
static void apply(const Op &op) {
    if (!applicable(op)) bad_script(op, "tag");
    const std::string &e = op.e;
    if (e == "tnew") t[op.x].reset(new LifetimeTag());
    else if (e == "tcopyc") t[op.x].reset(new LifetimeTag(*t[op.s]));
    else if (e == "tmovec") t[op.x].reset(new LifetimeTag(std::move(*t[op.s])));
    else if (e == "tassign") { LifetimeTag &d = *t[op.x]; const LifetimeTag &s = *t[op.s]; d = s; }
    else if (e == "tmassign") { LifetimeTag &d = *t[op.x]; LifetimeTag &s = *t[op.s]; d = std::move(s); }
    else if (e == "tdel") t[op.x].reset();
    else if (e == "wnull") w[op.y].reset(new W());
    else if (e == "wtag") w[op.y].reset(new W(*t[op.x]));
    else if (e == "wget") w[op.y].reset(new W(t[op.x]->get()));
    else if (e == "wcopyc") w[op.y].reset(new W(*w[op.s]));
    else if (e == "wmovec") w[op.y].reset(new W(std::move(*w[op.s])));
    else if (e == "wasgt") *w[op.y] = *t[op.x];
    else if (e == "wcopya") { W &d = *w[op.y]; const W &s = *w[op.s]; d = s; }
    else if (e == "wmovea") { W &d = *w[op.y]; W &s = *w[op.s]; d = std::move(s); }
    else if (e == "wswap") w[op.y]->swap(*w[op.s]);
    else if (e == "wreset") w[op.y]->reset();
    else if (e == "wdel") w[op.y].reset();
    vh::T().line("{\"e\":\"" + e + "\",\"x\":" + S(op.x) + ",\"y\":" + S(op.y) + ",\"s\":" + S(op.s) + post());
}
static void end() {
    // everything goes away, watchers and tags in slot order (logged)
    for (int y = 1; y <= NW; ++y) if (w[y] && (y % 2)) { Op d; d.e = "wdel"; d.y = y; apply(d); }
    for (int x = 1; x <= NT; ++x) if (t[x]) { Op d; d.e = "tdel"; d.x = x; apply(d); }
    for (int y = 1; y <= NW; ++y) if (w[y]) { Op d; d.e = "wdel"; d.y = y; apply(d); }
}
static void run_script(const std::vector<Op> &ops) { for (const Op &op : ops) apply(op); end(); }
static std::vector<Op> random_ops(vh::Rng &rng, int nops) {
    std::vector<Op> ops; bool ta[NT + 1] = {false}, wa[NW + 1] = {false};
    static const char *names[] = {"tnew", "tnew", "tcopyc", "tmovec", "tassign", "tmassign", "tdel", "tdel", "wnull", "wtag", "wtag", "wget", "wcopyc", "wcopyc",
                                  "wmovec", "wasgt", "wasgt", "wcopya", "wcopya", "wmovea", "wmovea", "wswap", "wreset", "wdel", "wdel"};
    int guard = 0;
    while ((int)ops.size() < nops && ++guard < nops * 200) {
        Op op; op.e = names[rng.below(sizeof names / sizeof *names)];
        const std::string &e = op.e;
        if (e[0] == 't') { op.x = rng.range(1, NT); op.s = rng.range(1, NT); } else { op.y = rng.range(1, NW); op.s = rng.range(1, NW); op.x = rng.range(1, NT); }
        if (e == "tnew") { if (ta[op.x]) continue; ta[op.x] = true; op.s = 0; }
        else if (e == "tcopyc" || e == "tmovec") { if (ta[op.x] || !ta[op.s]) continue; ta[op.x] = true; }
        else if (e == "tassign" || e == "tmassign") { if (!ta[op.x] || !ta[op.s]) continue; }
        else if (e == "tdel") { if (!ta[op.x]) continue; ta[op.x] = false; op.s = 0; }
        else if (e == "wnull") { if (wa[op.y]) continue; wa[op.y] = true; op.s = 0; op.x = 0; }
        else if (e == "wtag" || e == "wget") { if (wa[op.y] || !ta[op.x]) continue; wa[op.y] = true; op.s = 0; }
        else if (e == "wcopyc") { if (wa[op.y] || !wa[op.s]) continue; wa[op.y] = true; op.x = 0; }
        else if (e == "wmovec") { if (wa[op.y] || !wa[op.s] || op.y == op.s) continue; wa[op.y] = true; op.x = 0; }
        else if (e == "wasgt") { if (!wa[op.y] || !ta[op.x]) continue; op.s = 0; }
        else if (e == "wcopya" || e == "wmovea" || e == "wswap") { if (!wa[op.y] || !wa[op.s]) continue; op.x = 0; }
        else { if (!wa[op.y]) continue; op.s = 0; op.x = 0; if (e == "wdel") wa[op.y] = false; }
        ops.push_back(op);
    }
    return ops;
}
}  // namespace tag

// =====================================================================================================================
// UBSan reports do not reach the sanitizer death callback of vh.h: turn them into a Fault event here
extern "C" void __ubsan_get_current_report_data(const char **kind, const char **msg, const char **file, unsigned *line, unsigned *col, char **addr);
extern "C" void __ubsan_on_report(void) {
    const char *kind = "", *msg = "", *file = ""; unsigned line = 0, col = 0; char *addr = nullptr;
    __ubsan_get_current_report_data(&kind, &msg, &file, &line, &col, &addr);
    std::string w = std::string("UBSan ") + (kind ? kind : "") + ": " + (msg ? msg : "") + " at " + (file ? file : "?") + ":" + std::to_string(line);
    vh::fault("sanitizer", w.c_str());
}

static void run(const std::string &kind, const std::vector<Op> &ops) {
    if (kind == "cabinet") cab::run_script(ops);
    else if (kind == "pool") pool::run_script(ops);
    else if (kind == "fd") fdh::run_script(ops);
    else if (kind == "tag") tag::run_script(ops);
    else _exit(3);
    vh::T().line("{\"e\":\"Reset\"}");
}

int main(int argc, char **argv) {
    if (argc != 8) { fprintf(stderr, "usage: driver <cabinet|pool|fd|tag> <scripts.jsonl|-> <seed> <nexec> <nops> <nlong> <out.ndjson>\n"); return 3; }
    std::string kind = argv[1], scripts = argv[2];
    unsigned long long seed = strtoull(argv[3], nullptr, 10);
    int nexec = atoi(argv[4]), nops = atoi(argv[5]), nlong = atoi(argv[6]);
    for (int i = 1; i <= cab::NOBJ; ++i) cab::objs[i].id = i;
    vh::install_faults();
    vh::T().open(argv[7]);
    setvbuf(vh::T().f, nullptr, _IOLBF, 1 << 16);      // whole lines only, also when the process is killed by a sanitizer
    if (scripts != "-") {
        std::ifstream in(scripts); std::string line;
        if (!in) { perror(scripts.c_str()); return 3; }
        while (std::getline(in, line)) {
            if (line.empty()) continue;
            json j = json::parse(line);
            std::vector<Op> ops;
            for (auto &e : j) ops.push_back(parse(e));
            run(kind, ops);
        }
    }
    vh::Rng rng(seed * 7919 + (kind == "cabinet" ? 1 : kind == "pool" ? 2 : kind == "fd" ? 3 : 4));
    for (int x = 0; x < nexec + (nlong > 0 ? 1 : 0); ++x) {
        // histories of mixed length: most around nops, every eighth one eight times longer, one very long (slot-reuse chains)
        int n = (x == nexec) ? nlong : (x % 8 == 7) ? nops * 8 : (int)rng.range(nops / 2, nops);
        std::vector<Op> ops;
        if (kind == "cabinet") ops = cab::random_ops(rng, n);
        else if (kind == "pool") ops = pool::random_ops(rng, n);
        else if (kind == "fd") ops = fdh::random_ops(rng, n);
        else if (kind == "tag") ops = tag::random_ops(rng, n);
        else return 3;
        run(kind, ops);
    }
    vh::T().close();
    return 0;
}
