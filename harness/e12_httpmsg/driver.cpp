// E12 conformance driver for tbox::http::Url, Request::toString / Respond::toString, RequestParser fed with printed requests,
// and the (unimplemented) http client.
//   driver cases <cases.jsonl> <out.ndjson> <seed>     one case per line, printed by spec/HttpMsg/Gen_HttpMsg.tla:
//        {"k":"url","u":U} | {"k":"str","s":[bytes]} | {"k":"port","s":[bytes]} | {"k":"reqs","rs":[R..]} | {"k":"resps","rs":[P..]}
//        U = {scheme,user,password,host,port,path,params:[[k,v]..],query:[[k,v]..],frag}   (all texts as byte arrays)
//        R = {m,url:{path,params,query,frag},v,h:[[k,v]..],b}     P = {v,code,reason,h,b}
//   driver random <seed> <n> <out.ndjson>              seeded random cases of the same kinds (hostile bytes, long bodies)
// Recorded per case (then a Reset line):
//   url   -> print:     UrlToString(u), then StringToUrl of that text (ret, exception, parsed value)
//            printpath: UrlPathToString(u.path part), StringToUrlPath of that text
//   str   -> parse:     StringToUrl(s) (ret, exception, parsed value, UrlToString of the parsed value)
//            parsepath: StringToUrlPath(s) when s starts with '/'          parsehost: StringToUrlHost(s) when s has no '/'
//   reqs  -> reqs:      the concatenated Request::toString() texts; then for several segmentations `pipe`, and the server's receive
//                       loop on the real RequestParser: `got` per request, `end` with (bytes given, consumed, state) of every parse()
//   resps -> resps:     the concatenated Respond::toString() texts
// The parser gets exactly sized heap copies of the unconsumed bytes, so an over-read is an ASan report.  TLC validates the trace against
// spec/HttpMsg/Trace_HttpMsg.tla; this program decides nothing.
#include <vh.h>
#include <fstream>
#include <memory>
#include <nlohmann/json.hpp>
#include <tbox/http/client/client.h>
#include <tbox/http/request.h>
#include <tbox/http/respond.h>
#include <tbox/http/server/request_parser.h>
#include <tbox/http/url.h>
#include <tbox/util/buffer.h>

using json = nlohmann::json;
using namespace tbox::http;

static void out(const std::string &s) { vh::T().line(s); vh::T().flush(); }
static std::string bytes_of(const json &a) { std::string s; for (auto &x : a) s.push_back((char)(unsigned char)x.get<int>()); return s; }
static std::string jb(const std::string &s) {
    std::string r = "[";
    for (size_t i = 0; i < s.size(); ++i) { if (i) r += ','; r += std::to_string((unsigned char)s[i]); }
    return r + "]";
}
static std::string jmap(const std::map<std::string, std::string> &m) {
    std::string r = "["; bool first = true;
    for (auto &p : m) { r += std::string(first ? "" : ",") + "[" + jb(p.first) + "," + jb(p.second) + "]"; first = false; }
    return r + "]";
}
static std::string jpath(const Url::Path &p) { return "\"path\":" + jb(p.path) + ",\"params\":" + jmap(p.params) + ",\"query\":" + jmap(p.query) + ",\"frag\":" + jb(p.frag); }
static std::string jurl(const Url &u) {
    return "{\"scheme\":" + jb(u.scheme) + ",\"user\":" + jb(u.host.user) + ",\"password\":" + jb(u.host.password) + ",\"host\":" + jb(u.host.host) +
           ",\"port\":" + std::to_string(u.host.port) + "," + jpath(u.path) + "}";
}
static void path_from(const json &j, Url::Path &p) {
    p.path = bytes_of(j["path"]); p.frag = bytes_of(j["frag"]);
    for (auto &kv : j["params"]) p.params[bytes_of(kv[0])] = bytes_of(kv[1]);
    for (auto &kv : j["query"]) p.query[bytes_of(kv[0])] = bytes_of(kv[1]);
}
static void url_from(const json &j, Url &u) {
    u.scheme = bytes_of(j["scheme"]); u.host.user = bytes_of(j["user"]); u.host.password = bytes_of(j["password"]);
    u.host.host = bytes_of(j["host"]); u.host.port = (uint16_t)j["port"].get<int>(); path_from(j, u.path);
}
static std::string exact(const std::string &s) { return std::string(s.data(), s.size()); }      // a copy with no spare room behind the text
template <class F> static std::string guarded(F f) {       // "" or the exception that escaped
    try { f(); return ""; } catch (const std::exception &e) { return std::string(typeid(e).name()) + ": " + e.what(); } catch (...) { return "non-std exception"; }
}

// ---------------------------------------------------------------- url -----------------------------------------------------
static void do_print(const Url &u) {
    out("{\"e\":\"begin\",\"what\":\"print\",\"u\":" + jurl(u) + "}");
    std::string s, exc = guarded([&] { s = UrlToString(u); });
    Url u2; bool ret = false; std::string in = exact(s);
    std::string exc2 = guarded([&] { ret = StringToUrl(in, u2); });
    out("{\"e\":\"print\",\"u\":" + jurl(u) + ",\"out\":" + jb(s) + ",\"exc\":" + vh::jstr(exc + exc2) + ",\"ret\":" + (ret ? "true" : "false") + ",\"u2\":" + jurl(u2) + "}");
    std::string ps; Url::Path p2; bool pret = false;
    std::string exc3 = guarded([&] { ps = UrlPathToString(u.path); std::string pin = exact(ps); pret = StringToUrlPath(pin, p2); });
    out("{\"e\":\"printpath\",\"u\":{" + jpath(u.path) + "},\"out\":" + jb(ps) + ",\"exc\":" + vh::jstr(exc3) + ",\"ret\":" + (pret ? "true" : "false") + ",\"u2\":{" + jpath(p2) + "}}");
}
static void do_parse(const std::string &s0) {
    std::string s = exact(s0);
    out("{\"e\":\"begin\",\"what\":\"parse\",\"in\":" + jb(s) + "}");
    Url u; bool ret = false; std::string re;
    std::string exc = guarded([&] { ret = StringToUrl(s, u); if (ret) re = UrlToString(u); });
    out("{\"e\":\"parse\",\"in\":" + jb(s) + ",\"ret\":" + (ret ? "true" : "false") + ",\"exc\":" + vh::jstr(exc) + ",\"u\":" + jurl(u) + ",\"re\":" + jb(re) + "}");
    if (!s.empty() && s[0] == '/') {
        Url::Path p; bool pret = false;
        std::string e2 = guarded([&] { pret = StringToUrlPath(s, p); });
        out("{\"e\":\"parsepath\",\"in\":" + jb(s) + ",\"ret\":" + (pret ? "true" : "false") + ",\"exc\":" + vh::jstr(e2) + ",\"u\":{" + jpath(p) + "}}");
    }
    if (s.find('/') == std::string::npos) {
        Url::Host h; bool hret = false;
        std::string e3 = guarded([&] { hret = StringToUrlHost(s, h); });
        out("{\"e\":\"parsehost\",\"in\":" + jb(s) + ",\"ret\":" + (hret ? "true" : "false") + ",\"exc\":" + vh::jstr(e3) + ",\"u\":{\"user\":" + jb(h.user) + ",\"password\":" + jb(h.password) +
            ",\"host\":" + jb(h.host) + ",\"port\":" + std::to_string(h.port) + "}}");
    }
}

// ---------------------------------------------------------------- messages ------------------------------------------------
static std::string jreq_fields(const std::string &m, const Url::Path &u, const std::string &v, const Headers &h, const std::string &b) {
    return "{\"m\":" + jb(m) + ",\"url\":{" + jpath(u) + "},\"v\":" + jb(v) + ",\"h\":" + jmap(h) + ",\"b\":" + jb(b) + "}";
}
static const char *st_name(server::RequestParser::State s) {
    using S = server::RequestParser::State;
    switch (s) { case S::kInit: return "init"; case S::kFinishedStartLine: return "startline"; case S::kFinishedHeads: return "heads"; case S::kFinishedAll: return "all"; case S::kFail: return "fail"; }
    return "?";
}
// the receive loop of the http server (server_imp.cpp onTcpReceived) on a bare parser
static void feed(const std::string &stream, const std::vector<size_t> &cuts) {
    std::string c = "[";
    for (size_t i = 0; i < cuts.size(); ++i) c += (i ? "," : "") + std::to_string(cuts[i]);
    out("{\"e\":\"pipe\",\"cuts\":" + c + "]}");
    server::RequestParser parser; tbox::util::Buffer buf; bool failed = false;
    size_t pos = 0; std::string calls = "["; bool first = true;
    for (size_t k = 0; k <= cuts.size() && !failed; ++k) {
        size_t end = k < cuts.size() ? cuts[k] : stream.size();
        if (end <= pos) continue;
        buf.append(stream.data() + pos, end - pos); pos = end;
        while (buf.readableSize() > 0) {
            size_t given = buf.readableSize();
            std::unique_ptr<uint8_t[]> copy(new uint8_t[given]); memcpy(copy.get(), buf.readableBegin(), given);
            size_t consumed = parser.parse(copy.get(), given);
            calls += std::string(first ? "" : ",") + "[" + std::to_string(given) + "," + std::to_string(consumed) + ",\"" + st_name(parser.state()) + "\"]"; first = false;
            if (consumed > given) consumed = given;
            buf.hasRead(consumed);
            if (parser.state() == server::RequestParser::State::kFinishedAll) {
                std::unique_ptr<Request> r(parser.getRequest());
                out("{\"e\":\"got\",\"r\":" + jreq_fields(MethodToString(r->method), r->url, HttpVerToString(r->http_ver), r->headers, r->body) + "}");
            } else if (parser.state() == server::RequestParser::State::kFail) { out("{\"e\":\"failed\"}"); failed = true; break; }
            else if (consumed == 0) break;          // needs more bytes
        }
    }
    out("{\"e\":\"end\",\"calls\":" + calls + "]}");
}
static void do_reqs(const json &rs, vh::Rng &rng, bool bytewise) {
    std::string all, list = "[";
    for (size_t i = 0; i < rs.size(); ++i) {
        Request r; r.method = StringToMethod(bytes_of(rs[i]["m"])); r.http_ver = StringToHttpVer(bytes_of(rs[i]["v"]));
        path_from(rs[i]["url"], r.url);
        for (auto &kv : rs[i]["h"]) r.headers[bytes_of(kv[0])] = bytes_of(kv[1]);
        r.body = bytes_of(rs[i]["b"]);
        list += (i ? "," : "") + jreq_fields(MethodToString(r.method), r.url, HttpVerToString(r.http_ver), r.headers, r.body);
        std::string s; std::string exc = guarded([&] { s = r.toString(); });
        if (!exc.empty()) out("{\"e\":\"Fault\",\"kind\":\"exception\",\"what\":" + vh::jstr(exc) + "}");
        all += s;
    }
    out("{\"e\":\"reqs\",\"rs\":" + list + "],\"out\":" + jb(all) + "}");
    feed(all, {});                                                          // one segment
    if (bytewise && all.size() <= 600) { std::vector<size_t> c; for (size_t i = 1; i < all.size(); ++i) c.push_back(i); feed(all, c); }   // byte by byte
    for (int rep = bytewise ? 0 : 1; rep < 2; ++rep) {                      // random cuts (coarse, fine)
        std::vector<size_t> c; size_t p = 0;
        long long fine = all.size() > 4000 ? (long long)all.size() / 16 : 12;       // parse() copies what it is given: keep the number of calls on large bodies small
        while (p < all.size()) { p += (size_t)rng.range(1, rep ? fine : (long long)all.size()); if (p < all.size()) c.push_back(p); }
        feed(all, c);
    }
}
static void do_resps(const json &rs) {
    std::string all, list = "[";
    for (size_t i = 0; i < rs.size(); ++i) {
        Respond r; r.http_ver = StringToHttpVer(bytes_of(rs[i]["v"])); r.status_code = (StatusCode)rs[i]["code"].get<int>();
        for (auto &kv : rs[i]["h"]) r.headers[bytes_of(kv[0])] = bytes_of(kv[1]);
        r.body = bytes_of(rs[i]["b"]);
        list += std::string(i ? "," : "") + "{\"v\":" + jb(HttpVerToString(r.http_ver)) + ",\"code\":" + std::to_string((int)r.status_code) + ",\"h\":" + jmap(r.headers) + ",\"b\":" + jb(r.body) +
                ",\"valid\":" + (r.isValid() ? "true" : "false") + "}";
        std::string s; std::string exc = guarded([&] { s = r.toString(); });
        if (!exc.empty()) out("{\"e\":\"Fault\",\"kind\":\"exception\",\"what\":" + vh::jstr(exc) + "}");
        all += s;
    }
    out("{\"e\":\"resps\",\"rs\":" + list + "],\"out\":" + jb(all) + "}");
}
// the http client of this version is a stub: the calls must return; what they do is not compared
static void do_client() {
    int cbs = 0; bool init = false;
    std::string exc = guarded([&] {
        client::Client c(nullptr);
        tbox::network::SockAddr addr;
        init = c.initialize(addr);
        Request r; r.method = Method::kGet; r.http_ver = HttpVer::k1_1; r.url.path = "/";
        c.request(r, [&](const Respond &) { ++cbs; });
        c.cleanup(); c.cleanup();
    });
    out(std::string("{\"e\":\"client\",\"init\":") + (init ? "true" : "false") + ",\"cbs\":" + std::to_string(cbs) + ",\"exc\":" + vh::jstr(exc) + "}");
}

static bool rs_small(const json &rs) { return rs.size() == 1; }
static void run_case(const json &c, vh::Rng &rng) {
    std::string k = c["k"].get<std::string>();
    if (k == "url") { Url u; url_from(c["u"], u); do_print(u); }
    else if (k == "str" || k == "port") do_parse(bytes_of(c["s"]));
    else if (k == "reqs") do_reqs(c["rs"], rng, c.value("bytewise", rs_small(c["rs"])));
    else if (k == "resps") do_resps(c["rs"]);
    else { fprintf(stderr, "unknown case %s\n", k.c_str()); _exit(3); }
    out("{\"e\":\"Reset\"}");
}

// ---------------------------------------------------------------- random cases --------------------------------------------
static json jbytes(const std::string &s) { json a = json::array(); for (unsigned char ch : s) a.push_back((int)ch); return a; }
static std::string rnd_text(vh::Rng &rng, int maxlen, int kind) {      // kind 0: plain, 1: url specials, 2: any byte
    static const std::string plain = "abcxyzABC019-._", spec = " +&=<>\"#,%{}|\\^[]`;?:@$/.~!*'()";
    std::string s; int n = (int)rng.range(0, maxlen);
    for (int i = 0; i < n; ++i) {
        int r = (int)rng.below(10);
        if (kind == 0 || r < 5) s.push_back(plain[rng.below(plain.size())]);
        else if (kind == 1 || r < 9) s.push_back(spec[rng.below(spec.size())]);
        else s.push_back((char)rng.below(256));
    }
    return s;
}
static json rnd_map(vh::Rng &rng, int kind) {
    json m = json::array(); std::map<std::string, std::string> seen;
    int n = (int)rng.below(4);
    for (int i = 0; i < n; ++i) { std::string k = rnd_text(rng, 4, kind); if (k.empty()) k = "k"; seen[k] = rnd_text(rng, 5, kind); }
    for (auto &p : seen) m.push_back(json::array({jbytes(p.first), jbytes(p.second)}));
    return m;
}
static json rnd_pathpart(vh::Rng &rng, int kind) {
    json p; p["path"] = jbytes("/" + rnd_text(rng, 8, kind)); p["params"] = rnd_map(rng, kind); p["query"] = rnd_map(rng, kind); p["frag"] = jbytes(rnd_text(rng, 6, kind));
    return p;
}
static json rnd_case(vh::Rng &rng) {
    json c; int what = (int)rng.below(10);
    if (what < 3) {
        json u = rnd_pathpart(rng, (int)rng.below(3));
        u["scheme"] = jbytes(rng.chance(50) ? "" : rnd_text(rng, 5, 0)); u["user"] = jbytes(rng.chance(50) ? "" : rnd_text(rng, 4, (int)rng.below(3)));
        u["password"] = jbytes(u["user"].empty() || rng.chance(50) ? "" : rnd_text(rng, 4, (int)rng.below(3)));
        std::string h = rnd_text(rng, 6, 0); u["host"] = jbytes(h.empty() ? "h" : h);
        u["port"] = rng.chance(50) ? 0 : (int)rng.range(1, 65535);
        c["k"] = "url"; c["u"] = u;
    } else if (what < 6) {       // token soup and mutated well-formed texts
        static const char *tok[] = {"http", "://", "u", ":", "p", "@", "h.x", ":80", ":0", ":65535", ":65536", ":70000", ":-1", ": 80", ":80x", "/", "/a", "/a/b", ";", ";k=v", ";k=", ";=v", "?", "?q=1", "&", "&r=2",
                                    "=", "#", "#f", "%", "%4", "%41", "%zz", "%2F", "%00", " ", "\x80", "~", "[::1]"};
        std::string s; int n = (int)rng.range(0, 9);
        for (int i = 0; i < n; ++i) s += tok[rng.below(sizeof tok / sizeof *tok)];
        if (rng.chance(30)) s = "http://u:p@h:80/a/b;k=v?q=1&r=2#f" + s;
        if (rng.chance(20) && !s.empty()) s[rng.below(s.size())] = (char)rng.below(256);
        c["k"] = "str"; c["s"] = jbytes(s);
    } else if (what < 9) {
        json rs = json::array(); int n = (int)rng.range(1, 4);
        for (int i = 0; i < n; ++i) {
            json r; static const char *ms[] = {"GET", "POST", "PUT", "DELETE", "HEAD", "OPTIONS", "TRACE"}; static const char *vs[] = {"HTTP/1.0", "HTTP/1.1", "HTTP/2.0"};
            r["m"] = jbytes(ms[rng.below(7)]); r["v"] = jbytes(vs[rng.below(3)]); r["url"] = rnd_pathpart(rng, (int)rng.below(3));
            json h = json::array(); std::map<std::string, std::string> hm; int nh = (int)rng.below(4);
            for (int j = 0; j < nh; ++j) { std::string k = rnd_text(rng, 6, 0), v = rnd_text(rng, 8, 0); hm[k.empty() ? "K" : k] = v.empty() ? "v" : v; }
            if (rng.chance(15)) hm["Content-Length"] = std::to_string(rng.below(50));
            for (auto &p : hm) h.push_back(json::array({jbytes(p.first), jbytes(p.second)}));
            r["h"] = h;
            std::string b; size_t bl = rng.chance(70) ? (size_t)rng.below(40) : rng.chance(80) ? (size_t)rng.below(3000) : (size_t)rng.below(70000);
            int bk = (int)rng.below(3);
            for (size_t j = 0; j < bl; ++j) b.push_back(bk == 0 ? (char)('a' + j % 26) : bk == 1 ? "\r\n\r\nGET / HTTP/1.1\r\nContent-Length: 5\r\n"[j % 40] : (char)rng.below(256));
            r["b"] = jbytes(b);
            rs.push_back(r);
        }
        c["k"] = "reqs"; c["rs"] = rs;
    } else {
        json rs = json::array(); int n = (int)rng.range(1, 3);
        static const int codes[] = {200, 201, 204, 206, 301, 304, 400, 404, 417, 500, 505};
        for (int i = 0; i < n; ++i) {
            json r; r["v"] = jbytes(rng.chance(50) ? "HTTP/1.1" : "HTTP/1.0"); r["code"] = codes[rng.below(11)]; r["reason"] = jbytes("");
            json h = json::array(); if (rng.chance(50)) h.push_back(json::array({jbytes("Content-Type"), jbytes("text/plain")}));
            r["h"] = h; std::string b; size_t bl = (size_t)rng.below(rng.chance(80) ? 60 : 5000);
            for (size_t j = 0; j < bl; ++j) b.push_back(rng.chance(50) ? "\r\n\r\nHTTP/1.1 200 OK\r\n"[j % 21] : (char)rng.below(256));
            r["b"] = jbytes(b); rs.push_back(r);
        }
        c["k"] = "resps"; c["rs"] = rs;
    }
    return c;
}

int main(int argc, char **argv) {
    if (argc < 2) return 3;
    std::string mode = argv[1];
    vh::install_faults();
    if (mode == "cases" && argc == 5) {
        vh::T().open(argv[3]); vh::Rng rng(strtoull(argv[4], nullptr, 10));
        do_client(); out("{\"e\":\"Reset\"}");
        std::ifstream in(argv[2]); std::string line;
        while (std::getline(in, line)) { if (!line.empty()) run_case(json::parse(line), rng); }
    } else if (mode == "random" && argc == 5) {
        vh::Rng rng(strtoull(argv[2], nullptr, 10)); int n = atoi(argv[3]);
        vh::T().open(argv[4]);
        do_client(); out("{\"e\":\"Reset\"}");
        for (int i = 0; i < n; ++i) run_case(rnd_case(rng), rng);
    } else return 3;
    vh::T().close();
    return 0;
}
