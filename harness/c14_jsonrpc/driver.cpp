// C14 conformance driver for the JSON-RPC framings (HeaderStreamProto, RawStreamProto, PacketProto) and jsonrpc::Rpc.
//   driver frame <scripts.jsonl> <out.ndjson>     framing: feed byte streams through the users' leftover-buffer loop
//   driver rpc   <scripts.jsonl> <out.ndjson>     Rpc wired to a scripted peer, virtual clock, loop driven from inside
// The program executes scripts (from TLC or from the seeded generators of checks/c14.py) on the REAL classes and records
// one ndjson event per call / callback.  It decides nothing: TLC validates the trace against spec/JsonRpc/Trace_*.tla.
//
// frame script: {"f":"raw"|"header"|"packet", "items":[ITEM..], "runs":[[cut,..],..]}
//   ITEM  {"enc":"req","id":n,"m":[bytes],"p":[bytes of a JSON text]|null}   written by the framing's own encoder (sendRequest)
//         {"enc":"res","id":n,"p":[bytes]}  (sendResult)      {"enc":"err","id":n,"code":c}  (sendError)
//         {"t":[bytes]}                 a text as is (header framing: behind a correct header)
//         {"h":[6 bytes],"t":[bytes]}   header framing: explicit header bytes
//         {"g":[bytes]}                 bytes between messages (white space in well-formed raw streams)
//   runs  cut positions (ascending, inside the stream) of each run; the first run must be [] (the unsegmented stream).
//         For "packet" every item is one datagram and cuts are ignored.
// Events: Begin{f, stream, items:[{a,b,v,d}], wf, src}  Run{cuts}  Feed{n}  Call{g,r,d}  RunEnd  Reset
//   v = the harness's own verdict on the item (nlohmann parse + JSON-RPC shape, or "written by the encoder"),
//   d = interned descriptors of the messages the item carries / the call delivered (equal text <=> equal number).
#include <vh.h>
#include <fstream>
#include <map>
#include <memory>
#include <nlohmann/json.hpp>
#include <tbox/base/json.hpp>
#include <tbox/base/verif_hook.h>
#include <tbox/event/loop.h>
#include <tbox/jsonrpc/proto.h>
#include <tbox/jsonrpc/protos/header_stream_proto.h>
#include <tbox/jsonrpc/protos/packet_proto.h>
#include <tbox/jsonrpc/protos/raw_stream_proto.h>
#include <tbox/jsonrpc/rpc.h>

using json = nlohmann::json;
using namespace tbox::jsonrpc;
typedef std::vector<uint8_t> Bytes;

static const uint16_t kMagic = 0x3e5a;
static uint64_t g_vnow = 1000;
static bool steady_hook(uint64_t &ms) { ms = g_vnow; return true; }

static Bytes bytes_of(const json &j) { Bytes b; if (j.is_array()) for (auto &x : j) b.push_back((uint8_t)x.get<int>()); return b; }
static std::string str_of(const json &j) { Bytes b = bytes_of(j); return std::string(b.begin(), b.end()); }
static std::string jints(const Bytes &b, size_t from = 0) {
    std::string s = "["; for (size_t i = from; i < b.size(); ++i) { if (i > from) s += ','; s += std::to_string((int)b[i]); } return s + "]";
}
static std::string jlist(const std::vector<int> &v) { std::string s = "["; for (size_t i = 0; i < v.size(); ++i) { if (i) s += ','; s += std::to_string(v[i]); } return s + "]"; }
static std::string dumps(const json &j) { return j.dump(-1, ' ', false, json::error_handler_t::replace); }

// descriptors are interned per script: equal strings <=> equal numbers
static std::map<std::string, int> g_tab;
static std::vector<std::string> g_tab_list;
static int intern(const std::string &s) {
    auto it = g_tab.find(s); if (it != g_tab.end()) return it->second;
    int n = (int)g_tab.size() + 1; g_tab[s] = n; g_tab_list.push_back(s); return n;
}
static std::string desc_req(int id, const std::string &m, const json &p) { return "Q|" + std::to_string(id) + "|" + m + "|" + dumps(p); }
static std::string desc_rsp(int id, int code, const json &r) { return "R|" + std::to_string(id) + "|" + std::to_string(code) + "|" + dumps(r); }

// Proto has no virtual destructor: the concrete object is owned through a shared_ptr that remembers its real type
typedef std::shared_ptr<Proto> ProtoPtr;
static ProtoPtr make_proto(const std::string &f) {
    if (f == "header") return std::make_shared<HeaderStreamProto>(kMagic);
    if (f == "raw") return std::make_shared<RawStreamProto>();
    if (f == "packet") return std::make_shared<PacketProto>();
    fprintf(stderr, "unknown framing %s\n", f.c_str()); _exit(3);
}

static bool int_in_range(const json &j) {
    if (!j.is_number_integer()) return false;
    if (j.is_number_unsigned()) return j.get<uint64_t>() <= 2147483647ull;
    long long v = j.get<long long>(); return v >= -2147483647ll - 1 && v <= 2147483647ll;
}
// What a JSON-RPC 2.0 text carries, per the JSON-RPC message shapes (not per the code under test). false: shape not
// covered -> the item is treated as hostile input (only the statement's clauses for malformed input apply to it).
static bool describe(const json &js, std::vector<int> &out, bool top = true) {
    if (js.is_array()) {
        if (!top || js.empty()) return false;
        for (auto &e : js) if (!e.is_object() || !describe(e, out, false)) return false;
        return true;
    }
    if (!js.is_object() || !js.contains("jsonrpc") || !js["jsonrpc"].is_string() || js["jsonrpc"].get<std::string>() != "2.0") return false;
    int id = 0;
    if (js.contains("id")) { if (!int_in_range(js["id"])) return false; id = js["id"].get<int>(); }
    if (js.contains("method")) {
        if (!js["method"].is_string() || js.contains("result") || js.contains("error")) return false;
        out.push_back(intern(desc_req(id, js["method"].get<std::string>(), js.contains("params") ? js["params"] : json())));
        return true;
    }
    if (js.contains("result")) {
        if (!js.contains("id") || (js.contains("error") && !js["error"].is_null())) return false;   // "error":null next to a result: a success
        out.push_back(intern(desc_rsp(id, 0, js["result"])));
        return true;
    }
    if (js.contains("error")) {
        const json &e = js["error"];
        if (!e.is_object() || !e.contains("code") || !int_in_range(e["code"])) return false;
        out.push_back(intern(desc_rsp(id, e["code"].get<int>(), json())));
        return true;
    }
    return false;
}
static bool parse_ok(const std::string &text, json &js) {
    try { js = json::parse(text); return true; } catch (const std::exception &) { return false; }
}
static bool all_ws(const Bytes &b) { for (uint8_t c : b) if (c != 32 && c != 9 && c != 10 && c != 13) return false; return true; }

struct Item { size_t a = 0, b = 0; bool v = false; std::vector<int> d; bool glue = false; };

// ------------------------------------------------------------------------------------------------ framing
static void run_frame(const json &sc) {
    auto &T = vh::T();
    g_tab.clear(); g_tab_list.clear();
    std::string f = sc.at("f").get<std::string>();
    Bytes stream; std::vector<Item> items; bool wf = true;
    std::vector<size_t> dgram_end;
    {   // build the stream
        ProtoPtr enc = make_proto(f);
        Bytes *sink = &stream;
        enc->setSendCallback([&](const void *p, size_t n) { const uint8_t *q = (const uint8_t *)p; sink->insert(sink->end(), q, q + n); });
        for (auto &it : sc.at("items")) {
            Item x; x.a = stream.size();
            if (it.contains("enc")) {
                std::string k = it["enc"].get<std::string>();
                int id = it.value("id", 0);
                if (k == "req") {
                    std::string m = str_of(it.value("m", json::array()));
                    json p; if (it.contains("p") && !it["p"].is_null()) p = json::parse(str_of(it["p"]));
                    enc->sendRequest(id, m, p);
                    x.d.push_back(intern(desc_req(id, m, p)));
                } else if (k == "res") {
                    json p = json::parse(str_of(it.at("p")));
                    enc->sendResult(id, p);
                    x.d.push_back(intern(desc_rsp(id, 0, p)));
                } else {
                    int code = it.value("code", -1);
                    enc->sendError(id, code);
                    x.d.push_back(intern(desc_rsp(id, code, json())));
                }
                x.v = true;
            } else if (it.contains("g")) {
                Bytes g = bytes_of(it["g"]); stream.insert(stream.end(), g.begin(), g.end());
                x.glue = true; if (!all_ws(g) || f != "raw") wf = false;
            } else {
                Bytes t = bytes_of(it.at("t"));
                bool hdr_ok = true;
                if (f == "header") {
                    Bytes h;
                    if (it.contains("h")) h = bytes_of(it["h"]);
                    else { uint32_t n = (uint32_t)t.size(); h = {(uint8_t)(kMagic >> 8), (uint8_t)kMagic, (uint8_t)(n >> 24), (uint8_t)(n >> 16), (uint8_t)(n >> 8), (uint8_t)n}; }
                    uint32_t n = (uint32_t)t.size();
                    Bytes good = {(uint8_t)(kMagic >> 8), (uint8_t)kMagic, (uint8_t)(n >> 24), (uint8_t)(n >> 16), (uint8_t)(n >> 8), (uint8_t)n};
                    hdr_ok = (h == good);
                    stream.insert(stream.end(), h.begin(), h.end());
                }
                stream.insert(stream.end(), t.begin(), t.end());
                json js;
                x.v = hdr_ok && parse_ok(std::string(t.begin(), t.end()), js) && (js.is_object() || js.is_array()) && describe(js, x.d);
                if (!x.v) x.d.clear();
            }
            x.b = stream.size();
            if (!x.glue) { if (!x.v) wf = false; items.push_back(x); }
            dgram_end.push_back(stream.size());
        }
    }
    {
        std::string s = "{\"e\":\"Begin\",\"f\":\"" + f + "\",\"wf\":" + (wf ? "true" : "false") + ",\"stream\":" + jints(stream) + ",\"items\":[";
        for (size_t i = 0; i < items.size(); ++i) {
            if (i) s += ',';
            s += "{\"a\":" + std::to_string(items[i].a) + ",\"b\":" + std::to_string(items[i].b) + ",\"v\":" + (items[i].v ? "true" : "false") + ",\"d\":" + jlist(items[i].d) + "}";
        }
        s += "],\"src\":" + sc.dump() + "}";
        T.line(s);
    }
    for (auto &run : sc.at("runs")) {
        std::vector<size_t> ends;
        if (f == "packet") ends = dgram_end;
        else { for (auto &c : run) { size_t k = c.get<size_t>(); if (k > 0 && k < stream.size() && (ends.empty() || k > ends.back())) ends.push_back(k); } ends.push_back(stream.size()); }
        T.line("{\"e\":\"Run\",\"cuts\":" + run.dump() + "}");
        ProtoPtr proto = make_proto(f);
        std::vector<int> got;
        proto->setRecvCallback(
            [&](int id, const std::string &m, const tbox::Json &p) { got.push_back(intern(desc_req(id, m, p))); },
            [&](int id, int code, const tbox::Json &r) { got.push_back(intern(desc_rsp(id, code, r))); });
        Bytes buf; size_t fed = 0; bool dead = false;
        for (size_t e : ends) {
            if (dead) break;
            if (e <= fed) continue;
            if (f == "packet") buf.clear();
            buf.insert(buf.end(), stream.begin() + fed, stream.begin() + e);
            T.line("{\"e\":\"Feed\",\"n\":" + std::to_string(e - fed) + "}");
            fed = e;
            // the loop of the cpp-tbox examples: while (readable) { r = onRecvData(); r > 0: consume; r < 0: reset; else break; }
            while (!buf.empty()) {
                size_t n = buf.size();
                std::unique_ptr<uint8_t[]> blk(new uint8_t[n]);   // exact-size copy: an over-read is visible to ASan
                memcpy(blk.get(), buf.data(), n);
                got.clear();
                ssize_t r = proto->onRecvData(blk.get(), n);
                T.line("{\"e\":\"Call\",\"g\":" + std::to_string(n) + ",\"r\":" + std::to_string((long long)r) + ",\"d\":" + jlist(got) + "}");
                if (r > 0) { if ((size_t)r > n) { dead = true; break; } buf.erase(buf.begin(), buf.begin() + r); if (f == "packet") break; }
                else if (r < 0) { dead = true; break; }
                else break;
            }
        }
        T.line("{\"e\":\"RunEnd\"}");
    }
    T.line("{\"e\":\"Reset\"}");
}

// ------------------------------------------------------------------------------------------------ rpc
// rpc script: {"f":framing, "N":timeout_sec, "T":units per tick, "steps":[STEP..]}
//   STEP {"o":"req","cb":true,"body":[BODYOP..]}     rpc.request("m", params, callback); the callback runs the body
//        {"o":"req","cb":false}                      rpc.notify
//        {"o":"rsp","k":n,"kind":"res"|"err","val":v} the peer answers the n-th request that has a callback (its real id is
//                                                      taken from the bytes the Rpc sent), written by the framing's encoder
//        {"o":"rsp","raw":"<id as JSON text, or empty: no id member>","kind":"res"|"err"|"req"}
//                                                      a result / error response (or an incoming request) whose id matches no
//                                                      waiting request: null, string, array, fraction, out of int range, ...
//        {"o":"inreq","m":"sync"|"async"|"nosuch","id":n}  the PEER sends a request with its own id n (the Rpc serves "sync" at once,
//                                                      "async" returns false and is answered by a later "respond" step, or never)
//        {"o":"respond","j":n}                         Rpc::respond() for the n-th request the async service has received
//        {"o":"adv","u":1}                            advance the virtual clock by u units of 1000/T ms, let the loop run
//        {"o":"cleanup"}
//   BODYOP ["req"] | ["rsp", k]   (k = 0: the request that is being completed, i.e. a duplicate)
// Events: Begin{N,T,t,src} Req{k,id,cb,t} Rsp{k,c,v} RspEnd{r} Cb{k,c,v} CbEnd{k} Adv{t} AdvEnd Cleanup Reset
//         InReq{id,m} .. InReqEnd{r}   Respond{j,id} .. RespondEnd   PeerRsp{id,c} (what the peer receives back)
struct RpcExec {
    tbox::event::Loop *loop = nullptr;
    ProtoPtr proto, peer;
    std::unique_ptr<Rpc> rpc;
    std::string f;
    json steps; size_t pc = 0;
    int unit_ms = 500;
    std::vector<int> ids;            // real id of the k-th request with a callback (as seen by the peer), 0 = not seen
    std::vector<int> seen_ids;       // ids of the requests the peer decoded since the last look
    Bytes to_rpc;                    // bytes the peer's encoder produced
    int settle = 0; bool adv_open = false; bool cleaned = false;
    int val_seq = 100;

    void deliver(const Bytes &b, const char *end_event = "RspEnd") {   // peer -> Rpc, through the users' loop
        Bytes buf = b; ssize_t last = 0;
        while (!buf.empty()) {
            std::unique_ptr<uint8_t[]> blk(new uint8_t[buf.size()]); memcpy(blk.get(), buf.data(), buf.size());
            last = proto->onRecvData(blk.get(), buf.size());
            if (last > 0 && (size_t)last <= buf.size()) { buf.erase(buf.begin(), buf.begin() + last); if (f == "packet") break; } else break;
        }
        vh::T().line(std::string("{\"e\":\"") + end_event + "\",\"r\":" + std::to_string((long long)last) + "}");
    }
    // the other direction: the peer sends a request with ITS id (the numbers overlap with ours) for the method "sync" (the service
    // answers at once), "async" (the service returns false; answered by a later "respond" step or never) or an unknown method
    std::vector<int> async_ids; std::vector<bool> async_done;
    void do_inreq(const std::string &m, int id) {
        if (cleaned) return;
        to_rpc.clear();
        json params = {{"q", id}};
        peer->sendRequest(id, m, params);
        vh::T().line("{\"e\":\"InReq\",\"id\":" + std::to_string(id) + ",\"m\":\"" + m + "\"}");
        Bytes b = to_rpc;
        deliver(b, "InReqEnd");
    }
    void do_respond(size_t j) {
        if (cleaned || j < 1 || j > async_ids.size() || async_done[j - 1]) return;
        async_done[j - 1] = true;
        vh::T().line("{\"e\":\"Respond\",\"j\":" + std::to_string(j) + ",\"id\":" + std::to_string(async_ids[j - 1]) + "}");
        json r = {{"job", (int)j}};
        rpc->respond(async_ids[j - 1], r);
        vh::T().line("{\"e\":\"RespondEnd\"}");
    }
    Bytes frame_text(const std::string &t) {
        Bytes b;
        if (f == "header") { uint32_t n = (uint32_t)t.size(); b = {(uint8_t)(kMagic >> 8), (uint8_t)kMagic, (uint8_t)(n >> 24), (uint8_t)(n >> 16), (uint8_t)(n >> 8), (uint8_t)n}; }
        b.insert(b.end(), t.begin(), t.end());
        return b;
    }
    void do_req(bool cb, const json &body) {
        if (cleaned) return;
        size_t k = 0;
        json params = {{"n", (int)ids.size() + 1}, {"s", "a\"}]\\{["}};
        seen_ids.clear();
        if (cb) {
            ids.push_back(0); k = ids.size();
            json b = body;
            std::shared_ptr<bool> ran = std::make_shared<bool>(false);   // the body runs on the first invocation only (keeps a wrong re-invocation finite)
            rpc->request("m", params, [this, k, b, ran](int code, const tbox::Json &res) {
                // copies: should the Rpc destroy this closure while it runs (it must not), the harness itself stays well-defined
                RpcExec *self = this; const size_t kk = k; const json body_copy = b; std::shared_ptr<bool> ran_copy = ran;
                self->run_cb(kk, body_copy, ran_copy, code, res);
            });
        } else {
            rpc->notify("m", params);
        }
        int id = seen_ids.empty() ? -1 : seen_ids.back();     // what the peer decoded from the bytes the Rpc sent
        if (cb && k >= 1) ids[k - 1] = id > 0 ? id : 0;
        vh::T().line("{\"e\":\"Req\",\"k\":" + std::to_string(k) + ",\"id\":" + std::to_string(id) + ",\"cb\":" + (cb ? "true" : "false") +
                     ",\"t\":" + std::to_string((long long)g_vnow) + "}");
    }
    void run_cb(size_t k, const json &b, std::shared_ptr<bool> ran, int code, const tbox::Json &res) {
        vh::T().line("{\"e\":\"Cb\",\"k\":" + std::to_string(k) + ",\"c\":" + std::to_string(code) + ",\"v\":" + std::to_string(intern(dumps(res))) + "}");
        bool first = !*ran; *ran = true;        // the body runs on the first invocation only
        if (first) for (auto &op : b) {
            std::string o = op[0].get<std::string>();
            if (o == "req") do_req(true, json::array());
            else if (o == "rsp") { size_t t = op[1].get<size_t>(); do_rsp_k(t == 0 ? k : t, "res", next_val()); }
        }
        vh::T().line("{\"e\":\"CbEnd\",\"k\":" + std::to_string(k) + "}");
    }
    int next_val() { return ++val_seq; }
    void do_rsp_k(size_t k, const std::string &kind, int val) {
        if (k < 1 || k > ids.size() || ids[k - 1] == 0) return;          // request not issued (yet): the operation is skipped
        int id = ids[k - 1];
        to_rpc.clear();
        int c = 0, c2 = 0; std::string v; bool amb = false;
        if (kind == "err") { c = val; peer->sendError(id, val); v = "null"; }
        else if (kind == "res_errnull") {     // a success response that also carries "error":null (JSON-RPC 1.x heritage): a success
            v = "{\"v\":" + std::to_string(val) + "}";
            Bytes t = frame_text("{\"jsonrpc\":\"2.0\",\"id\":" + std::to_string(id) + ",\"result\":" + v + ",\"error\":null}");
            to_rpc = t;
        } else if (kind == "err_resnull") {   // an error object AND "result":null: completes the request; success(null) or the error
            v = "null"; c = 0; c2 = val < 0 ? val : -val - 1; amb = true;
            Bytes t = frame_text("{\"jsonrpc\":\"2.0\",\"id\":" + std::to_string(id) + ",\"error\":{\"code\":" + std::to_string(c2) + "},\"result\":null}");
            to_rpc = t;
        } else { json r = {{"v", val}}; peer->sendResult(id, r); v = dumps(r); }
        if (!amb) c2 = c;
        vh::T().line("{\"e\":\"Rsp\",\"k\":" + std::to_string(k) + ",\"c\":" + std::to_string(c) + ",\"c2\":" + std::to_string(c2) + ",\"v\":" + std::to_string(intern(v)) + "}");
        Bytes b = to_rpc;
        deliver(b);
    }
    // a message from the peer whose id matches no waiting request: hand-written JSON text.  idtxt = the "id" member as JSON text
    // ("" = no id member at all); kind = "res" (result response), "err" (error response), "req" (an incoming request for a
    // method the Rpc does not serve).  Nothing may be completed by it.
    void do_rsp_raw(const std::string &idtxt, const std::string &kind, int val) {
        for (int id : ids) if (id != 0 && std::to_string(id) == idtxt) return;   // would not be a stranger
        std::string idm = idtxt.empty() ? std::string() : ",\"id\":" + idtxt;
        std::string t; int c = 0; std::string v = "null";
        if (kind == "err") { c = val < 0 ? val : -val - 1; t = "{\"jsonrpc\":\"2.0\",\"error\":{\"code\":" + std::to_string(c) + ",\"message\":\"x\"}" + idm + "}"; }
        else if (kind == "req") t = "{\"jsonrpc\":\"2.0\",\"method\":\"nosuch\"" + idm + ",\"params\":[" + std::to_string(val) + "]}";
        else { v = "{\"v\":" + std::to_string(val) + "}"; t = "{\"jsonrpc\":\"2.0\"" + idm + ",\"result\":" + v + "}"; }
        vh::T().line("{\"e\":\"Rsp\",\"k\":0,\"c\":" + std::to_string(c) + ",\"c2\":" + std::to_string(c) + ",\"v\":" + std::to_string(intern(v)) + "}");
        deliver(frame_text(t));
    }
    void apply(const json &op) {
        std::string o = op.at("o").get<std::string>();
        if (o == "req") do_req(op.value("cb", true), op.value("body", json::array()));
        else if (o == "rsp") {
            if (cleaned) return;
            if (op.contains("raw")) do_rsp_raw(op["raw"].get<std::string>(), op.value("kind", std::string("res")), next_val());
            else do_rsp_k(op.at("k").get<size_t>(), op.value("kind", std::string("res")), op.contains("val") ? op["val"].get<int>() : next_val());
        } else if (o == "inreq") {
            do_inreq(op.value("m", std::string("sync")), op.value("id", 1));
        } else if (o == "respond") {
            do_respond(op.value("j", (size_t)1));
        } else if (o == "adv") {
            g_vnow += (uint64_t)op.value("u", 1) * unit_ms;
            vh::T().line("{\"e\":\"Adv\",\"t\":" + std::to_string((long long)g_vnow) + "}");
            adv_open = true; settle = 3;       // the loop handles its timers in the following iterations
        } else if (o == "cleanup") {
            if (cleaned) return;
            rpc->cleanup(); cleaned = true;
            vh::T().line("{\"e\":\"Cleanup\"}");
        }
    }
    void step() {        // in-loop driver task: one iteration of the loop has run since the previous call
        if (adv_open) {
            if (--settle > 0) { loop->runNext([this] { step(); }, "c14-driver"); return; }
            vh::T().line("{\"e\":\"AdvEnd\"}"); adv_open = false;
        }
        while (pc < steps.size() && !adv_open) apply(steps[pc++]);
        if (adv_open || pc < steps.size()) loop->runNext([this] { step(); }, "c14-driver");
        else loop->exitLoop();
    }
};

static void run_rpc(const json &sc) {
    g_tab.clear(); g_tab_list.clear();
    RpcExec x;
    x.f = sc.value("f", std::string("raw"));
    int N = sc.value("N", 2), Tu = sc.value("T", 2);
    x.unit_ms = 1000 / Tu;
    x.steps = sc.at("steps");
    g_vnow = 1000 + 1000 * (uint64_t)sc.value("base", 0);
    vh::T().line("{\"e\":\"Begin\",\"N\":" + std::to_string(N) + ",\"T\":" + std::to_string(1000) + ",\"t\":" + std::to_string((long long)g_vnow) + ",\"src\":" + sc.dump() + "}");
    x.loop = tbox::event::Loop::New(sc.value("engine", std::string("epoll")));
    if (!x.loop) _exit(3);
    x.proto = make_proto(x.f); x.peer = make_proto(x.f);
    x.rpc.reset(new Rpc(x.loop));
    x.rpc->initialize(x.proto.get(), N);
    x.rpc->addService("sync", [](int id, const tbox::Json &, int &errcode, tbox::Json &result) { errcode = 0; result = {{"s", id}}; return true; });
    x.rpc->addService("async", [&x](int id, const tbox::Json &, int &, tbox::Json &) { x.async_ids.push_back(id); x.async_done.push_back(false); return false; });
    // Rpc -> peer: the peer decodes what the Rpc sends (requests) with its own proto instance
    x.proto->setSendCallback([&x](const void *p, size_t n) {
        Bytes buf((const uint8_t *)p, (const uint8_t *)p + n);
        while (!buf.empty()) {
            ssize_t r = x.peer->onRecvData(buf.data(), buf.size());
            if (r > 0 && (size_t)r <= buf.size()) { buf.erase(buf.begin(), buf.begin() + r); if (x.f == "packet") break; } else break;
        }
    });
    x.peer->setRecvCallback([&x](int id, const std::string &, const tbox::Json &) { x.seen_ids.push_back(id); },
                            [](int id, int code, const tbox::Json &) { vh::T().line("{\"e\":\"PeerRsp\",\"id\":" + std::to_string(id) + ",\"c\":" + std::to_string(code) + "}"); });
    // peer -> Rpc: the peer's encoder writes into to_rpc
    x.peer->setSendCallback([&x](const void *p, size_t n) { const uint8_t *q = (const uint8_t *)p; x.to_rpc.insert(x.to_rpc.end(), q, q + n); });
    x.loop->runNext([&x] { x.step(); }, "c14-driver");
    x.loop->runLoop(tbox::event::Loop::Mode::kForever);
    // teardown (crashes and sanitizer reports here still become a Fault line)
    if (!x.cleaned) x.rpc->cleanup();
    x.rpc.reset();
    x.loop->cleanup();
    delete x.loop;
    vh::T().line("{\"e\":\"Reset\"}");
}

int main(int argc, char **argv) {
    if (argc != 4) { fprintf(stderr, "usage: driver frame|rpc <scripts.jsonl> <out.ndjson>\n"); return 3; }
    std::string mode = argv[1];
    vh::T().open(argv[3]);
    vh::install_faults();
    tbox::verif::Hooks().steady_ms = steady_hook;
    std::ifstream in(argv[2]); std::string line;
    while (std::getline(in, line)) {
        if (line.empty()) continue;
        json sc = json::parse(line);
        if (mode == "frame") run_frame(sc);
        else if (mode == "rpc") run_rpc(sc);
        else return 3;
        vh::T().flush();
    }
    vh::T().close();
    return 0;
}
