// C06 conformance driver: BufferedFd / TcpServer / TcpClient (TcpConnection) byte-stream contract.
//   driver <scripts.jsonl> <out.ndjson> <engine epoll|select> <scratch dir for unix socket paths>
// Every line of scripts.jsonl is one execution:
//   {"t":"pipe|unix|tcps4|tcpsu|tcpc4|tcpcu","thr":T,"buf":B,"ops":[...]}
//   ops: {"o":"send","n":N} {"o":"enable"} {"o":"disable"} {"o":"disconnect"}
//        {"o":"pread","n":N} {"o":"pwrite","n":N} {"o":"pshut"} {"o":"pclose"} {"o":"pabort"}
//                         pshut: shutdown(SHUT_WR); pclose: drain input, close; pabort: SO_LINGER 0 + close without draining (RST)
//        {"o":"pass","c":C,"w":"recv|complete|close","in":[ops]}   one loop pass; the receive callback consumes
//                         min(C,len) bytes (C<0: all); ops in "in" are executed from inside the next callback of kind w
//                         (in this pass or, if none fires now, whenever it fires later - also during settle)
//        {"o":"hook","w":"recv|complete|close","in":[ops],"times":T}   the same for the next T callbacks of kind w
//                         (e.g. chunked streaming: on every send-complete, send the next chunk)
//        {"o":"shrinks"} {"o":"shrinkr"}  shrinkSendBuffer() / shrinkRecvBuffer()      {"o":"bind"} {"o":"unbind"}  forward to a recording ByteStream
//        {"o":"settle"}   let the loop run and the peer read until nothing moves any more
// The object under test lives on a real event loop which is driven pass by pass from inside (a runNext task that
// executes script ops up to the next "pass" and re-posts itself), so nothing depends on wall-clock time.
// The peer is a raw non-blocking descriptor operated with direct system calls.
// Recorded (ndjson, one line per event, in real order): every public call and its result, every user callback
// (receive presentation as runs of the stream pattern + bytes consumed, send-complete, read-zero/disconnected),
// every write/read-family system call the object makes on its descriptor (linker --wrap; result, errno class, the
// bytes the kernel took / delivered as runs), and what the peer read / could write.  This program decides nothing:
// the trace is validated by TLC against spec/ByteStream/Trace_BufferedFd.tla.
#include <vh.h>
#include <fcntl.h>
#include <poll.h>
#include <sys/socket.h>
#include <sys/stat.h>
#include <sys/uio.h>
#include <sys/un.h>
#include <netinet/in.h>
#include <arpa/inet.h>
#include <fstream>
#include <map>
#include <memory>
#include <nlohmann/json.hpp>
#include <tbox/event/loop.h>
#include <tbox/network/buffered_fd.h>
#include <tbox/network/tcp_server.h>
#include <tbox/network/tcp_client.h>
#include <tbox/network/sockaddr.h>
#include <tbox/network/ip_address.h>

using json = nlohmann::json;
using namespace tbox;
using namespace tbox::network;
static const int P = 251;

// ---------------------------------------------------------------- runs of the stream pattern ---------------
struct RunAcc {
    std::string s = "["; bool first = true; bool open = false; int start = 0; long long len = 0; int last = 0;
    void feed(const uint8_t *p, size_t n) {
        for (size_t i = 0; i < n; ++i) {
            if (open && last < P && p[i] == (last + 1) % P) { ++len; last = p[i]; continue; }
            flush(); open = true; start = p[i]; len = 1; last = p[i];
        }
    }
    void flush() { if (!open) return; if (!first) s += ','; first = false;
                   s += "{\"s\":" + std::to_string(start) + ",\"n\":" + std::to_string(len) + "}"; open = false; }
    std::string done() { flush(); return s + "]"; }
};
static std::string runs_of(const uint8_t *p, size_t n) { RunAcc a; a.feed(p, n); return a.done(); }
static void fill(uint8_t *p, size_t n, long long off) { int v = (int)(off % P); for (size_t i = 0; i < n; ++i) { p[i] = (uint8_t)v; if (++v == P) v = 0; } }

// ---------------------------------------------------------------- system-call observation -------------------
extern "C" {
ssize_t __real_write(int, const void *, size_t);
ssize_t __real_writev(int, const struct iovec *, int);
ssize_t __real_send(int, const void *, size_t, int);
ssize_t __real_sendto(int, const void *, size_t, int, const struct sockaddr *, socklen_t);
ssize_t __real_sendmsg(int, const struct msghdr *, int);
ssize_t __real_read(int, void *, size_t);
ssize_t __real_readv(int, const struct iovec *, int);
ssize_t __real_recv(int, void *, size_t, int);
ssize_t __real_recvfrom(int, void *, size_t, int, struct sockaddr *, socklen_t *);
ssize_t __real_recvmsg(int, struct msghdr *, int);
}
static bool g_rec = false;
static long long g_events = 0;          // number of events logged (used only to detect quiescence)
static long long g_rtot = 0;            // driver-side copies, used only to decide how long to keep waiting
static void ev(const std::string &s) { ++g_events; vh::T().line(s); }
static bool watched(int fd) {
    if (!g_rec || fd <= 2) return false;
    struct stat st; if (fstat(fd, &st) != 0) return true;       // let a bad descriptor show up in the trace
    return S_ISSOCK(st.st_mode) || S_ISFIFO(st.st_mode);
}
static bool again(int e) { return e == EAGAIN || e == EWOULDBLOCK || e == EINTR; }
static void log_io(const char *what, ssize_t r, int e, const struct iovec *iov, int cnt) {
    RunAcc a; size_t left = r > 0 ? (size_t)r : 0; size_t req = 0;
    for (int i = 0; i < cnt; ++i) req += iov[i].iov_len;
    for (int i = 0; i < cnt && left > 0; ++i) { size_t k = std::min(left, iov[i].iov_len); a.feed((const uint8_t *)iov[i].iov_base, k); left -= k; }
    if (what[0] == 'R' && r > 0) g_rtot += r;
    ev(std::string("{\"e\":\"") + what + "\",\"req\":" + std::to_string(req) + ",\"ret\":" + std::to_string((long long)r) + ",\"err\":" + std::to_string(r < 0 ? e : 0) +
       ",\"again\":" + ((r < 0 && again(e)) ? "true" : "false") + ",\"runs\":" + a.done() + "}");
}
#define OBS1(kind, call, fd, buf, len) \
    ssize_t r = call; int e = errno; \
    if (watched(fd)) { struct iovec v; v.iov_base = (void *)(buf); v.iov_len = (len); log_io(kind, r, e, &v, 1); } \
    errno = e; return r;
#define OBSV(kind, call, fd, iov, cnt) \
    ssize_t r = call; int e = errno; if (watched(fd)) log_io(kind, r, e, iov, cnt); errno = e; return r;
extern "C" {
ssize_t __wrap_write(int fd, const void *p, size_t n) { OBS1("W", __real_write(fd, p, n), fd, p, n) }
ssize_t __wrap_writev(int fd, const struct iovec *iov, int c) { OBSV("W", __real_writev(fd, iov, c), fd, iov, c) }
ssize_t __wrap_send(int fd, const void *p, size_t n, int fl) { OBS1("W", __real_send(fd, p, n, fl), fd, p, n) }
ssize_t __wrap_sendto(int fd, const void *p, size_t n, int fl, const struct sockaddr *a, socklen_t al) { OBS1("W", __real_sendto(fd, p, n, fl, a, al), fd, p, n) }
ssize_t __wrap_sendmsg(int fd, const struct msghdr *m, int fl) { OBSV("W", __real_sendmsg(fd, m, fl), fd, m->msg_iov, (int)m->msg_iovlen) }
ssize_t __wrap_read(int fd, void *p, size_t n) { OBS1("R", __real_read(fd, p, n), fd, p, n) }
ssize_t __wrap_readv(int fd, const struct iovec *iov, int c) { OBSV("R", __real_readv(fd, iov, c), fd, iov, c) }
ssize_t __wrap_recv(int fd, void *p, size_t n, int fl) { OBS1("R", __real_recv(fd, p, n, fl), fd, p, n) }
ssize_t __wrap_recvfrom(int fd, void *p, size_t n, int fl, struct sockaddr *a, socklen_t *al) { OBS1("R", __real_recvfrom(fd, p, n, fl, a, al), fd, p, n) }
ssize_t __wrap_recvmsg(int fd, struct msghdr *m, int fl) { OBSV("R", __real_recvmsg(fd, m, fl), fd, m->msg_iov, (int)m->msg_iovlen) }
}

[[noreturn]] static void infra(const std::string &why) { fprintf(stderr, "INFRA: %s\n", why.c_str()); vh::T().flush(); _exit(3); }

// ---------------------------------------------------------------- one execution ------------------------------
struct PassCtx { long long c = -1; };
struct Hook { json in; int times = 0; };      // "on the next <times> callbacks of this kind, make these calls from inside the callback"

struct Exec {
    std::string t; bool tcp = false, server = false, local = false;
    size_t thr = 0; int buf = 0; json ops; size_t cursor = 0;
    // raw
    BufferedFd *bw = nullptr, *br = nullptr;
    // tcp
    TcpServer *srv = nullptr; TcpServer::ConnToken tok; bool have_conn = false;
    TcpClient *cli = nullptr; int lsn = -1; std::string path;
    int peer_r = -1, peer_w = -1;       // raw peer descriptors (equal for sockets)
    // driver-side mirror, used only to steer waiting in settle (never to decide anything)
    long long sent = 0, pgot = 0, pwrote = 0; bool running = false, gone = false, pclosed = false, peer_eof = false, closerep = false;
    PassCtx pc;
    std::map<std::string, Hook> hooks;       // kind ("recv" | "complete" | "close") -> pending in-callback calls; survives passes and settle
};

static event::Loop *g_loop = nullptr;
static std::vector<json> g_execs; static size_t g_xi = 0;
static std::unique_ptr<Exec> X;
static std::string g_dir;
static vh::Rng g_rng(1);
enum Phase { P_IDLE, P_CONNECT, P_RUN, P_SETTLE, P_FLUSH };
static Phase g_phase = P_IDLE; static int g_tries = 0, g_idle = 0, g_waited = 0, g_flush = 0; static long long g_lastev = 0;
static int g_seq = 0;
static int g_wait_budget = 12000;      // ms
static long g_waited_total = 0;

static void set_nb(int fd) { int f = fcntl(fd, F_GETFL, 0); fcntl(fd, F_SETFL, f | O_NONBLOCK); }
static void exec_op(const json &op, bool in_cb);
static void run_in_ops(const char *kind) {
    if (!X) return;
    auto it = X->hooks.find(kind);
    if (it == X->hooks.end() || it->second.times <= 0) return;
    --it->second.times;
    json ops = it->second.in;                // copy: an op may install another hook
    for (auto &o : ops) exec_op(o, true);
}

// ---- a bound receiver: a second ByteStream whose send() records what is forwarded to it ------------------------------
struct Recorder : public ByteStream {
    void setReceiveCallback(const ReceiveCallback &, size_t) override {}
    void setSendCompleteCallback(const SendCompleteCallback &) override {}
    bool send(const void *p, size_t n) override {
        ev("{\"e\":\"Fwd\",\"len\":" + std::to_string(n) + ",\"runs\":" + runs_of((const uint8_t *)p, n) + "}");
        return true;
    }
    void bind(ByteStream *) override {}
    void unbind() override {}
    Buffer *getReceiveBuffer() override { return nullptr; }
};
static Recorder g_recorder;

// ---- user callbacks -------------------------------------------------------------------------------------------
static bool g_settling = false;
static void on_recv(Buffer &b) {
    size_t len = b.readableSize();
    ev("{\"e\":\"Recv\",\"len\":" + std::to_string(len) + ",\"runs\":" + runs_of(b.readableBegin(), len) + "}");
    run_in_ops("recv");
    long long c = (g_settling || X->pc.c < 0) ? (long long)len : std::min<long long>(X->pc.c, (long long)len);
    b.hasRead((size_t)c);
    ev("{\"e\":\"RecvRet\",\"c\":" + std::to_string(c) + "}");
}
static void on_complete() { ev("{\"e\":\"Complete\"}"); run_in_ops("complete"); ev("{\"e\":\"CompleteRet\"}"); }
static void raw_disable(bool log);
static void on_close(const char *kind, int err) {
    X->closerep = true;
    if (X->tcp) { X->gone = true; X->running = false; }
    ev(std::string("{\"e\":\"Close\",\"kind\":\"") + kind + "\",\"err\":" + std::to_string(err) + "}");
    if (!X->tcp) raw_disable(true);      // convention of every user in the repository (TcpConnection): stop watching a closed stream
    run_in_ops("close");
    ev("{\"e\":\"CloseRet\"}");
}

// ---- operations -------------------------------------------------------------------------------------------------
static void raw_disable(bool) {
    bool r = X->bw->disable(); if (X->br != X->bw) r = X->br->disable() && r;
    X->running = false;
    ev(std::string("{\"e\":\"Disable\",\"ret\":") + (r ? "true" : "false") + "}");
}
static void peer_read(long long want, bool quiet_if_nothing) {
    if (X->peer_r < 0) return;
    static std::vector<uint8_t> buf(1 << 20);
    RunAcc a; long long got = 0; bool eof = false; int err = 0;
    while (got < want) {
        size_t k = (size_t)std::min<long long>(want - got, (long long)buf.size());
        ssize_t r = __real_read(X->peer_r, buf.data(), k);
        if (r > 0) { a.feed(buf.data(), (size_t)r); got += r; continue; }
        if (r == 0) { eof = true; break; }
        if (!again(errno)) { err = errno; eof = true; }      // ECONNRESET after the local side closed: end of stream as well
        break;
    }
    bool news = got > 0 || (eof && !X->peer_eof);
    if (eof) X->peer_eof = true;
    X->pgot += got;
    if (!news && quiet_if_nothing) return;
    ev("{\"e\":\"PRead\",\"n\":" + std::to_string(got) + ",\"eof\":" + (eof ? "true" : "false") + ",\"err\":" + std::to_string(err) +
       ",\"runs\":" + a.done() + "}");
}
static void peer_write(long long n) {
    if (X->peer_w < 0 || X->pclosed) return;
    std::vector<uint8_t> d((size_t)n); fill(d.data(), (size_t)n, X->pwrote);
    long long done = 0; int err = 0;
    while (done < n) {
        ssize_t r = __real_write(X->peer_w, d.data() + done, (size_t)(n - done));
        if (r > 0) { done += r; continue; }
        if (r < 0 && !again(errno)) err = errno;
        break;
    }
    X->pwrote += done;
    ev("{\"e\":\"PWrite\",\"n\":" + std::to_string(n) + ",\"ret\":" + std::to_string(done) + ",\"err\":" + std::to_string(err) + "}");
}
static void peer_shut(int how) {        // 1: shut down the sending side, 2: drain the input, then close, 3: abort (reset)
    if (X->pclosed && how == 1) return;
    if (how >= 2) {
        if (X->peer_r < 0) return;
        if (how == 2) peer_read(1LL << 40, true);      // a closing peer that leaves unread input would reset the connection
        ev("{\"e\":\"PShut\",\"how\":" + std::to_string(how) + "}");
        if (how == 3 && X->t != "pipe") {              // abort: RST at once (TCP), ECONNRESET if input is unread (AF_UNIX)
            struct linger lg; lg.l_onoff = 1; lg.l_linger = 0; setsockopt(X->peer_r, SOL_SOCKET, SO_LINGER, &lg, sizeof lg);
        }
        if (X->peer_w >= 0 && X->peer_w != X->peer_r) close(X->peer_w);
        close(X->peer_r); X->peer_r = X->peer_w = -1;
    } else {
        ev("{\"e\":\"PShut\",\"how\":1}");
        if (X->t == "pipe") { close(X->peer_w); X->peer_w = -1; } else shutdown(X->peer_w, SHUT_WR);
    }
    X->pclosed = true;
}
static void do_send(long long n) {
    std::unique_ptr<uint8_t[]> d(new uint8_t[(size_t)n]);       // exact size: an over-read is visible to ASan
    fill(d.get(), (size_t)n, X->sent);
    ev("{\"e\":\"Send\",\"n\":" + std::to_string(n) + "}");
    bool r;
    if (!X->tcp) r = X->bw->send(d.get(), (size_t)n);
    else if (X->server) r = X->srv->send(X->tok, d.get(), (size_t)n);
    else r = X->cli->send(d.get(), (size_t)n);
    if (r) X->sent += n;
    ev(std::string("{\"e\":\"SendRet\",\"ret\":") + (r ? "true" : "false") + "}");
}
static void exec_op(const json &op, bool in_cb) {
    const std::string o = op["o"].get<std::string>();
    if (o == "send") do_send(op["n"].get<long long>());
    else if (o == "enable") {
        if (X->tcp || X->closerep) return;      // a descriptor whose peer closed is not re-enabled (it would report the close again)
        bool r = X->bw->enable(); if (X->br != X->bw) r = X->br->enable() && r;
        X->running = true;
        ev(std::string("{\"e\":\"Enable\",\"ret\":") + (r ? "true" : "false") + "}");
    } else if (o == "disable") { if (!X->tcp) raw_disable(true); }
    else if (o == "disconnect") {
        if (!X->tcp) return;
        bool r;
        if (X->server) r = X->srv->disconnect(X->tok);
        else { r = X->cli->state() == TcpClient::State::kConnected; X->cli->stop(); }
        if (r) { X->gone = true; X->running = false; }
        ev(std::string("{\"e\":\"Disconnect\",\"ret\":") + (r ? "true" : "false") + "}");
    } else if (o == "pread") peer_read(op["n"].get<long long>(), false);
    else if (o == "pwrite") peer_write(op["n"].get<long long>());
    else if (o == "shrinks") {          // BufferedFd::shrinkSendBuffer(): no effect on the stream
        if (X->tcp) return;
        X->bw->shrinkSendBuffer(); ev("{\"e\":\"Shrink\",\"w\":\"send\"}");
    } else if (o == "shrinkr") {        // shrinkRecvBuffer() / getReceiveBuffer()->shrink(): no effect on the stream
        if (!X->tcp) X->br->shrinkRecvBuffer();
        else {
            Buffer *b = X->gone ? nullptr : X->server ? X->srv->getClientReceiveBuffer(X->tok) : X->cli->getReceiveBuffer();
            if (!b) return;
            b->shrink();
        }
        ev("{\"e\":\"Shrink\",\"w\":\"recv\"}");
    } else if (o == "bind" || o == "unbind") {      // forwarding mode: received bytes go to the bound ByteStream
        bool b = o == "bind";
        if (!X->tcp) { if (b) X->br->bind(&g_recorder); else X->br->unbind(); }
        else if (!X->server && !X->gone) { if (b) X->cli->bind(&g_recorder); else X->cli->unbind(); }
        else return;                                // TcpServer has no bind()
        ev(std::string("{\"e\":\"") + (b ? "Bind" : "Unbind") + "\"}");
    }
    else if (o == "hook") { Hook h; h.in = op["in"]; h.times = op.value("times", 1); X->hooks[op["w"].get<std::string>()] = h; }
    else if (o == "pshut") peer_shut(1);
    else if (o == "pclose") peer_shut(2);
    else if (o == "pabort") peer_shut(3);
    else if (in_cb) infra("op not allowed inside a callback: " + o);
    else infra("unknown op " + o);
}

// ---- set-up / tear-down -------------------------------------------------------------------------------------------
static void raw_setup() {
    int a[2], b[2];
    if (X->t == "pipe") {
        if (pipe(a) || pipe(b)) infra("pipe");
        if (X->buf > 0) { fcntl(a[1], F_SETPIPE_SZ, X->buf); fcntl(b[1], F_SETPIPE_SZ, X->buf); }
        // a: object writes a[1] -> peer reads a[0];  b: peer writes b[1] -> object reads b[0]
        X->peer_r = a[0]; X->peer_w = b[1]; set_nb(a[0]); set_nb(b[1]);
        X->bw = new BufferedFd(g_loop); X->br = new BufferedFd(g_loop);
        if (!X->bw->initialize(Fd(a[1]), BufferedFd::kWriteOnly) || !X->br->initialize(Fd(b[0]), BufferedFd::kReadOnly)) infra("initialize");
    } else {
        if (socketpair(AF_UNIX, SOCK_STREAM, 0, a)) infra("socketpair");
        if (X->buf > 0) { int v = X->buf; setsockopt(a[0], SOL_SOCKET, SO_SNDBUF, &v, sizeof v); setsockopt(a[1], SOL_SOCKET, SO_SNDBUF, &v, sizeof v); }
        X->peer_r = X->peer_w = a[1]; set_nb(a[1]);
        X->bw = X->br = new BufferedFd(g_loop);
        if (!X->bw->initialize(Fd(a[0]), BufferedFd::kReadWrite)) infra("initialize");
    }
    X->br->setReceiveCallback(on_recv, X->thr);
    X->bw->setSendCompleteCallback(on_complete);
    X->br->setReadZeroCallback([] { on_close("zero", 0); });
    X->br->setReadErrorCallback([](int e) { on_close("error", e); });
    X->bw->setWriteErrorCallback([](int) {});                  // the failing write() itself is in the trace
}
static struct sockaddr_un un_addr(const std::string &p) { struct sockaddr_un u; memset(&u, 0, sizeof u); u.sun_family = AF_UNIX; strncpy(u.sun_path, p.c_str(), sizeof u.sun_path - 1); return u; }
static void tcp_setup() {
    X->path = g_dir + "/s" + std::to_string(getpid()) + "_" + std::to_string(++g_seq);
    if (X->server) {
        X->srv = new TcpServer(g_loop);
        uint16_t port = 0; bool ok = false;
        for (int i = 0; i < 200 && !ok; ++i) {
            if (X->local) ok = X->srv->initialize(SockAddr(DomainSockPath(X->path)), 4);
            else { port = (uint16_t)g_rng.range(20000, 60000); ok = X->srv->initialize(SockAddr(IPAddress::FromString("127.0.0.1"), port), 4); }
        }
        if (!ok) infra("TcpServer::initialize");
        X->srv->setConnectedCallback([](const TcpServer::ConnToken &t) { X->tok = t; X->have_conn = true; });
        X->srv->setDisconnectedCallback([](const TcpServer::ConnToken &) { on_close("disc", 0); });
        X->srv->setReceiveCallback([](const TcpServer::ConnToken &, Buffer &b) { on_recv(b); }, X->thr);
        X->srv->setSendCompleteCallback([](const TcpServer::ConnToken &) { on_complete(); });
        if (!X->srv->start()) infra("TcpServer::start");
        int s = socket(X->local ? AF_UNIX : AF_INET, SOCK_STREAM | SOCK_NONBLOCK, 0);
        int rc;
        if (X->local) { auto u = un_addr(X->path); rc = connect(s, (struct sockaddr *)&u, sizeof u); }
        else { struct sockaddr_in in; memset(&in, 0, sizeof in); in.sin_family = AF_INET; in.sin_port = htons(port); in.sin_addr.s_addr = htonl(INADDR_LOOPBACK);
               rc = connect(s, (struct sockaddr *)&in, sizeof in); }
        if (rc != 0 && errno != EINPROGRESS) infra(std::string("peer connect: ") + strerror(errno));
        X->peer_r = X->peer_w = s;
    } else {
        int s = socket(X->local ? AF_UNIX : AF_INET, SOCK_STREAM | SOCK_NONBLOCK, 0);
        SockAddr addr;
        if (X->local) { auto u = un_addr(X->path); unlink(X->path.c_str()); if (bind(s, (struct sockaddr *)&u, sizeof u)) infra("bind unix"); addr = SockAddr(DomainSockPath(X->path)); }
        else { struct sockaddr_in in; memset(&in, 0, sizeof in); in.sin_family = AF_INET; in.sin_port = 0; in.sin_addr.s_addr = htonl(INADDR_LOOPBACK);
               if (bind(s, (struct sockaddr *)&in, sizeof in)) infra("bind inet"); socklen_t l = sizeof in; getsockname(s, (struct sockaddr *)&in, &l);
               addr = SockAddr(IPAddress::FromString("127.0.0.1"), ntohs(in.sin_port)); }
        if (listen(s, 4)) infra("listen");
        X->lsn = s;
        X->cli = new TcpClient(g_loop);
        if (!X->cli->initialize(addr)) infra("TcpClient::initialize");
        X->cli->setAutoReconnect(false);
        X->cli->setConnectedCallback([] { X->have_conn = true; });
        X->cli->setDisconnectedCallback([] { on_close("disc", 0); });
        X->cli->setReceiveCallback(on_recv, X->thr);
        X->cli->setSendCompleteCallback(on_complete);
        if (!X->cli->start()) infra("TcpClient::start");
    }
}
static bool tcp_connected() {
    if (X->server) {
        struct pollfd p = {X->peer_r, POLLOUT, 0};
        if (poll(&p, 1, 0) != 1 || !(p.revents & POLLOUT)) return false;
        int e = 0; socklen_t l = sizeof e; getsockopt(X->peer_r, SOL_SOCKET, SO_ERROR, &e, &l);
        if (e) infra(std::string("peer connect failed: ") + strerror(e));
        return X->have_conn;
    }
    if (X->peer_r < 0) { int c = accept4(X->lsn, nullptr, nullptr, SOCK_NONBLOCK); if (c >= 0) X->peer_r = X->peer_w = c; }
    return X->peer_r >= 0 && X->have_conn;
}
static void begin_exec(const json &j) {
    X.reset(new Exec);
    X->t = j["t"].get<std::string>(); X->thr = j.value("thr", 0); X->buf = j.value("buf", 0); X->ops = j["ops"];
    X->tcp = X->t.compare(0, 3, "tcp") == 0; X->server = X->tcp && X->t[3] == 's'; X->local = X->tcp && X->t[4] == 'u';
    g_rtot = 0; g_settling = false;
    if (!X->tcp) {
        raw_setup(); g_rec = true; g_phase = P_RUN;
        ev("{\"e\":\"Init\",\"tcp\":false,\"thr\":" + std::to_string(X->thr) + ",\"t\":\"" + X->t + "\",\"buf\":" + std::to_string(X->buf) + "}");
    } else { tcp_setup(); g_tries = 0; g_phase = P_CONNECT; g_rec = true; }
}
static void end_exec() {
    g_rec = false;
    if (!X->tcp) { if (X->br != X->bw) delete X->br; delete X->bw; }
    else { delete X->srv; delete X->cli; if (X->lsn >= 0) close(X->lsn); unlink(X->path.c_str()); }
    if (X->peer_w >= 0 && X->peer_w != X->peer_r) close(X->peer_w);
    if (X->peer_r >= 0) close(X->peer_r);
    X->peer_r = X->peer_w = -1;
}

// ---- settle: let everything that can still move, move -----------------------------------------------------------------
static bool need_more() {       // only decides whether it is worth waiting a little longer (kernel asynchrony on TCP)
    if (X->tcp && X->gone && X->peer_r >= 0 && !X->peer_eof) return true;   // the local side left: the end of the stream is on its way
    if (!X->running) return false;
    if (!X->pclosed && X->pgot < X->sent) return true;
    if (g_rtot < X->pwrote) return true;
    if (X->pclosed && !X->closerep) return true;
    return false;
}
static bool settle_step() {     // one call per loop pass; true when quiescent
    long long before = g_events;
    peer_read(1LL << 40, true);
    bool moved = g_events != g_lastev;      // anything logged since the previous settle step (callbacks, system calls, peer reads)
    g_lastev = g_events; (void)before;
    if (moved) { g_idle = 0; return false; }
    if (++g_idle < 4) return false;
    // loopback TCP is asynchronous (Nagle + delayed ACK hold small segments back for ~40 ms): wait while data is known to be in flight.  The total waiting of one
    // process is bounded, so a tree on which many executions are stuck is still reported quickly.
    if (X->tcp && need_more() && g_waited < 3000 && g_wait_budget > 0) { poll(nullptr, 0, 5); g_waited += 5; g_wait_budget -= 5; g_waited_total += 5; return false; }
    if (!need_more()) g_wait_budget += g_waited;     // waiting that ended in completion does not use up the budget
    return true;
}

static void step() {
    for (;;) {
        switch (g_phase) {
        case P_IDLE:
            if (g_xi == g_execs.size()) { g_loop->exitLoop(); return; }
            begin_exec(g_execs[g_xi]);
            continue;
        case P_CONNECT:
            if (tcp_connected()) {
                X->running = true; g_phase = P_RUN;
                ev("{\"e\":\"Init\",\"tcp\":true,\"thr\":" + std::to_string(X->thr) + ",\"t\":\"" + X->t + "\",\"buf\":0}");
                continue;
            }
            if (++g_tries > 50) poll(nullptr, 0, 2);
            if (g_tries > 2500) infra("connection not established");
            g_loop->runNext(step); return;
        case P_RUN: {
            if (X->cursor == X->ops.size()) { end_exec(); g_flush = 0; g_phase = P_FLUSH; continue; }
            const json &op = X->ops[X->cursor++];
            const std::string o = op["o"].get<std::string>();
            if (o == "pass") {
                X->pc = PassCtx(); X->pc.c = op.value("c", -1LL);
                if (op.contains("in") && !op["in"].empty()) { Hook h; h.in = op["in"]; h.times = 1; X->hooks[op.value("w", std::string("recv"))] = h; }
                g_loop->runNext(step); return;
            }
            if (o == "settle") { g_phase = P_SETTLE; g_idle = 0; g_waited = 0; g_lastev = -1; g_settling = true; X->pc = PassCtx(); continue; }
            exec_op(op, false);
            continue;
        }
        case P_SETTLE:
            if (settle_step()) { g_settling = false; ev("{\"e\":\"Settled\"}"); g_phase = P_RUN; continue; }
            g_loop->runNext(step); return;
        case P_FLUSH:       // let the deferred deletions of the finished execution run
            if (g_flush++ < 2) { g_loop->runNext(step); return; }
            vh::T().line("{\"e\":\"Reset\"}");
            X.reset(); ++g_xi; g_phase = P_IDLE;
            continue;
        }
    }
}

int main(int argc, char **argv) {
    if (argc != 5) { fprintf(stderr, "usage: driver <scripts.jsonl> <out.ndjson> <engine> <dir>\n"); return 3; }
    signal(SIGPIPE, SIG_IGN);
    vh::install_faults();
    g_rng = vh::Rng(vh::seed_env() + (uint64_t)getpid());
    std::ifstream in(argv[1]); std::string line;
    while (std::getline(in, line)) if (!line.empty()) g_execs.push_back(json::parse(line));
    vh::T().open(argv[2]);
    g_dir = argv[4];
    g_loop = event::Loop::New(argv[3]);
    if (!g_loop) infra("no such loop engine");
    g_loop->runNext(step);
    g_loop->runLoop(event::Loop::Mode::kForever);
    delete g_loop;
    vh::T().close();
    fprintf(stderr, "waited_ms=%ld\n", g_waited_total);
    return 0;
}
