// C10 conformance driver for tbox::util::AsyncPipe.
//   driver random <seed> <nexec> <size> <min> <max> <out.ndjson>
//   driver script <scripts.jsonl> <out.ndjson>     {"cfg":{"size":..,"min":..,"max":..,"interval":..},"producers":[[n,...],...],"gates":[...]}
// Producer threads append byte strings whose content is a function of (producer, position); the hook callback orders every
// critical section of the real code by a global sequence number and emits one event per section; the sink callback emits
// the block it received (as runs) at entry and an event at exit. TLC validates the sorted events against
// spec/AsyncPipe/Trace_AsyncPipe.tla. A cleanup() that does not return within the watchdog ends the trace with a Fault.
#include <vsched.h>
#include <fstream>
#include <pthread.h>
#include <sched.h>
#include <tbox/base/verif_hook.h>
#include <tbox/util/async_pipe.h>

using namespace vs;
using tbox::util::AsyncPipe;
static const int P = 251;
static thread_local int tl_prod = 0;          // producer number of this thread (0 = not a producer)
static thread_local const char *tl_role = "C";

static std::string runs_of(const uint8_t *p, size_t n) {
    std::string s = "[";
    size_t i = 0; bool first = true;
    while (i < n) {
        size_t j = i + 1;
        while (j < n && p[j] == (p[j - 1] + 1) % P && p[j - 1] < P) ++j;
        if (!first) s += ','; first = false;
        s += "{\"s\":" + std::to_string(p[i]) + ",\"n\":" + std::to_string(j - i) + "}";
        i = j;
    }
    return s + "]";
}

static void hook(const char *name, long a, long b) {
    if (name[0] != 'a' || name[1] != 'p') return;
    const char *n = name + 3;
    const char *role = n[0] == 'p' ? "P" : n[0] == 'b' ? "B" : "C";
    S().arrive(name, role, b);
    uint64_t seq = next_seq();
    std::string e;
    if (!strcmp(n, "p.enter")) e = J("enter") + kv("p", tl_prod) + kv("len", a);
    else if (!strcmp(n, "p.grow")) e = J("grow") + kv("num", a);
    else if (!strcmp(n, "p.take_free")) e = J("take_free") + kv("free", a);
    else if (!strcmp(n, "p.chunk")) e = J("chunk") + kv("w", a) + kv("cur", b);
    else if (!strcmp(n, "p.push_full")) e = J("push_full") + kv("n", a) + kv("full", b);
    else if (!strcmp(n, "p.exit")) e = J("exit") + kv("p", tl_prod) + kv("len", a);
    else if (!strcmp(n, "b.trylock")) e = J("trylock") + kv("cur", b);
    else if (!strcmp(n, "b.pop")) e = J("pop") + kv("n", a) + kv("rest", b);
    else if (!strcmp(n, "b.shrink")) e = J("shrink") + kv("num", a);
    else if (!strcmp(n, "b.recycle")) e = J("recycle") + kv("free", a);
    else if (!strcmp(n, "c.begin")) e = J("cleanup_begin");
    else if (!strcmp(n, "c.stop")) e = J("stop");
    else if (!strcmp(n, "c.joined")) e = J("joined");
    if (!e.empty()) emit_at(seq, e + "}");
    S().pass(name, role);
}

static int g_cb_delay_pct = 0;
static void sink(const void *p, size_t n) {
    S().arrive("drv.cb", "B", 0);                 // harness-level scheduling point: the sink callback is entered
    emit(J("cb_begin") + kv("n", (long long)n) + ",\"runs\":" + runs_of((const uint8_t *)p, n) + "}");
    if (g_cb_delay_pct) {
        static vh::Rng rng(12345);
        if ((int)rng.below(100) < g_cb_delay_pct) std::this_thread::sleep_for(std::chrono::microseconds(rng.below(10) == 0 ? rng.range(1000, 4000) : rng.range(1, 400)));
    }
    emit(J("cb_end") + "}");
    S().pass("drv.cb", "B");
}

static std::atomic<int> g_prod_left{0};
static void producer(AsyncPipe *pipe, int p, std::vector<long long> sizes, bool lockless, bool then_cleanup) {
    tl_prod = p; tl_role = "P";
    long long off = 0;
    size_t idx = 0;
    for (long long len : sizes) {
        if (then_cleanup && ++idx == sizes.size()) {
            // The whole process is pinned to one CPU for this execution (see run_execution); from here to its cleanup() this thread runs
            // with a real-time priority, so the back-end thread, although notified, does not get the CPU before cleanup() has raised the
            // stop signal and blocks in join(): the back end then sees "stop" and "full buffers queued" in one and the same wake-up.
            struct sched_param sp; sp.sched_priority = 10; pthread_setschedparam(pthread_self(), SCHED_FIFO, &sp);     // best effort
        }
        std::unique_ptr<uint8_t[]> data(new uint8_t[len ? len : 1]);       // exact-size block: over-reads are visible to ASan
        for (long long i = 0; i < len; ++i) data[i] = (uint8_t)((p * 37 + off + i) % P);
        off += len;
        S().arrive("drv.append", "P", 0);             // harness-level scheduling point before the call (outside the pipe's mutexes)
        S().pass("drv.append", "P");
        emit(J("ucall") + kv("p", p) + kv("len", len) + "}");        // what the user appends with this call: the unit of contiguity
        if (!lockless) pipe->append(data.get(), (size_t)len);
        else {      // the "lockless" API: two pieces under one appendLock()
            long long h = len / 2;
            pipe->appendLock();
            pipe->appendLockless(data.get(), (size_t)h);
            pipe->appendLockless(data.get() + h, (size_t)(len - h));
            pipe->appendUnlock();
        }
        emit(J("uret") + kv("p", p) + "}");
    }
    int left = g_prod_left.fetch_sub(1) - 1;
    if (then_cleanup) {     // cleanup() right behind the last append, from the same thread: the back end has not even woken up yet
        while (left > 0) { std::this_thread::yield(); left = g_prod_left.load(); }
        S().pass("drv.cleanup_call", "C");
        pipe->cleanup();
        emit(J("cleanup_ret") + "}");
        struct sched_param sp0; sp0.sched_priority = 0; pthread_setschedparam(pthread_self(), SCHED_OTHER, &sp0);
    }
}

static void run_execution(const json &x) {
    S().reset(x);
    S().gpoints = {"ap.p.chunk", "ap.p.exit", "ap.b.pop", "ap.b.trylock", "ap.c.begin", "ap.c.stop", "ap.c.notified", "ap.b.pred_false",
                   "ap.b.round_end", "ap.b.wake", "ap.p.wait_free", "ap.p.take_free"};
    g_cb_delay_pct = x.value("cb_delay_pct", 0);
    watchdog_ms() = x.value("watchdog_ms", 20000);
    AsyncPipe::Config cfg;
    cfg.buff_size = x["cfg"]["size"]; cfg.buff_min_num = x["cfg"]["min"]; cfg.buff_max_num = x["cfg"]["max"]; cfg.interval = x["cfg"].value("interval", 1);
    int rounds = x.value("rounds", 1);
    AsyncPipe *pipe = new AsyncPipe;
    cpu_set_t all_cpus; CPU_ZERO(&all_cpus); sched_getaffinity(0, sizeof all_cpus, &all_cpus);
    if (x.value("cleanup_by_producer", false)) {        // threads created from here on (back end, producers) inherit the single CPU
        cpu_set_t one; CPU_ZERO(&one); int c = sched_getcpu(); CPU_SET(c >= 0 ? c : 0, &one); sched_setaffinity(0, sizeof one, &one);
    }
    for (int r = 0; r < rounds; ++r) {
        if (!pipe->initialize(cfg)) { fprintf(stderr, "initialize failed\n"); _exit(3); }
        pipe->setCallback(sink);
        emit(J("begin") + kv("size", (long long)cfg.buff_size) + kv("min", (long long)cfg.buff_min_num) + kv("max", (long long)cfg.buff_max_num) + "}");
        std::vector<std::thread> th;
        int p = 0;
        const bool by_producer = x.value("cleanup_by_producer", false) && !x["producers"].empty();
        g_prod_left = (int)x["producers"].size();
        for (auto &sz : x["producers"]) { ++p; th.emplace_back(producer, pipe, p, sz.get<std::vector<long long>>(), x.value("lockless", false) && (p % 2 == 0),
                                                               by_producer && p == (int)x["producers"].size()); }
        {   CallGuard cg; for (auto &t : th) t.join(); }        // an append() (or the producer's cleanup()) that never returns is a hang
        if (!by_producer) {
            if (x.contains("sleep_before_cleanup_us")) std::this_thread::sleep_for(std::chrono::microseconds(x["sleep_before_cleanup_us"].get<int>()));
            S().pass("drv.cleanup_call", "C");
            {   CallGuard cg; pipe->cleanup(); }
            emit(J("cleanup_ret") + "}");
        }
    }
    delete pipe;
    sched_setaffinity(0, sizeof all_cpus, &all_cpus);
    emit(J("end") + kv("gate_timeouts", S().gate_timeouts.load()) + "}");
    flush_events(true);
}

static json random_execution(vh::Rng &rng, uint64_t seed, long long size, long long mn, long long mx) {
    json x; x["seed"] = seed; x["delay_pct"] = (int)rng.pick(std::vector<int>{0, 20, 50, 80}); x["cb_delay_pct"] = (int)rng.pick(std::vector<int>{0, 30, 70});
    x["cfg"] = {{"size", size}, {"min", mn}, {"max", mx}, {"interval", (int)rng.pick(std::vector<int>{1, 1, 2, 1000})}};
    x["lockless"] = rng.chance(40);
    x["rounds"] = rng.chance(25) ? 2 : 1;
    if (rng.chance(40)) x["sleep_before_cleanup_us"] = (int)rng.range(0, 3000);
    json prods = json::array();
    int np = (int)rng.range(1, 4);
    for (int p = 0; p < np; ++p) {
        json s = json::array();
        int na = (int)rng.range(0, 8);
        for (int i = 0; i < na; ++i) {
            long long len;
            switch (rng.below(7)) {
                case 0: len = 0; break;
                case 1: len = 1; break;
                case 2: len = size; break;
                case 3: len = size + 1; break;
                case 4: len = size > 1 ? rng.range(1, size - 1) : 1; break;
                case 5: len = size * rng.range(2, 6) + rng.range(0, 1); break;      // many times larger than a buffer
                default: len = rng.range(0, 3 * size); break;
            }
            if (len > 20000) len = 20000;
            s.push_back(len);
        }
        prods.push_back(s);
    }
    if (rng.chance(30)) {       // the last producer calls cleanup() itself, right behind an append that fills a buffer and leaves a remainder
        x["cleanup_by_producer"] = true;
        if (prods.empty()) prods.push_back(json::array());
        prods.back().push_back(std::min(20000LL, size * rng.range(1, 3) + rng.range(1, size > 1 ? size - 1 : 1)));
    }
    x["producers"] = prods;
    return x;
}

int main(int argc, char **argv) {
    if (argc < 4) return 3;
    vs::init();
    tbox::verif::Hooks().point = hook;
    start_watchdog();
    std::string mode = argv[1];
    if (mode == "random" && argc == 8) {
        uint64_t seed = strtoull(argv[2], nullptr, 10); int nexec = atoi(argv[3]);
        vh::T().open(argv[7]);
        vh::Rng rng(seed);
        std::ofstream scripts(std::string(argv[7]) + ".scripts");
        for (int i = 0; i < nexec; ++i) {
            json x = random_execution(rng, seed * 100000 + i, atoll(argv[4]), atoll(argv[5]), atoll(argv[6]));
            scripts << x.dump() << "\n"; scripts.flush();
            run_execution(x);
        }
    } else if (mode == "script") {
        vh::T().open(argv[3]);
        std::ifstream in(argv[2]); std::string line;
        while (std::getline(in, line)) { if (line.empty()) continue; run_execution(json::parse(line)); }
    } else return 3;
    vh::T().close();
    _exit(0);
}
