// C18 conformance driver for tbox::coroutine (Scheduler, Channel, Mutex, Semaphore, Broadcast, Condition).
//   driver run <programs.jsonl> <out.ndjson>
// One JSON program per input line:
//   {"seminit":[a,b], "clogic":[0|1,0|1], "scripts":[[{"op":..,"x":..,"y":..},...], ...], "main":[{"op":..,"x":..,"y":..},...]}
// Routine ops : Yield Wait Send(x=ch) Recv(x=ch) Lock(x=m) Unlock(x=m) Acq(x=s) Rel(x=s) BWait(x=b) BPost(x=b)
//               CAdd(x=c,y=v) CWait(x=c) CPost(x=c,y=v) Join(x=r) Create(x=r) Cancel(x=r)
// Main ops    : Create(x=r,y=run_now) Resume(x=r) Cancel(x=r) Cleanup Pass Idle
// Every script is interpreted by one REAL routine on a real Scheduler on a real Loop; the main script is interpreted by
// an in-loop task that runs last in every loop pass.  Every step is logged (call / return value / received value), and
// whenever the loop has nothing left to run an "idle" event with the observable state of the primitives is logged.
// The trace is validated by TLC against spec/Coroutine/Trace_Coroutine.tla; this program decides nothing.
#include <vh.h>
#include <fstream>
#include <memory>
#include <sys/time.h>
#include <nlohmann/json.hpp>
#include <tbox/event/loop.h>
#include <tbox/coroutine/scheduler.h>
#include <tbox/coroutine/channel.hpp>
#include <tbox/coroutine/mutex.hpp>
#include <tbox/coroutine/semaphore.hpp>
#include <tbox/coroutine/broadcast.hpp>
#include <tbox/coroutine/condition.hpp>

using json = nlohmann::json;
using namespace tbox::coroutine;
using tbox::event::Loop;

static const int NP = 2;              // primitives of each kind per execution
static const size_t STACK = 64 * 1024;

struct Op { std::string op; int x = 0, y = 0; };

struct Exec {
    Loop *loop = nullptr;
    Scheduler *sch = nullptr;
    std::unique_ptr<Channel<int>> ch[NP + 1];
    std::unique_ptr<Mutex> mx[NP + 1];
    std::unique_ptr<Semaphore> sem[NP + 1];
    std::unique_ptr<Broadcast> bc[NP + 1];
    std::unique_ptr<Condition<int>> cd[NP + 1];
    std::vector<std::vector<Op>> scripts;    // [0] unused
    std::vector<Op> mainv;
    std::vector<RoutineToken> tok;
    std::vector<char> created;
    int nr = 0;
    // in-loop driver state
    size_t mpc = 0;
    uint64_t activity = 0, seen = 0;
    int quiet = 0;
    bool idle_logged = false, cleaned = false, done = false;
    int final_phase = 0;
};
static Exec *E = nullptr;

static void L(const std::string &s) { vh::T().line(s); ++E->activity; }
static const char *B(bool b) { return b ? "true" : "false"; }
static std::string S(long long v) { return std::to_string(v); }
static bool prim_ok(int x) { return x >= 1 && x <= NP; }
static bool rt_ok(int x) { return x >= 1 && x <= E->nr; }

static void run_script(int r);

static bool do_create(int x, bool run_now) {
    if (!rt_ok(x) || E->created[x]) return false;
    E->created[x] = 1;
    E->tok[x] = E->sch->create([x](Scheduler &) { run_script(x); }, run_now, "r" + std::to_string(x), STACK);
    return true;
}

static void run_script(int r) {
    Scheduler &sch = *E->sch;
    L("{\"e\":\"start\",\"r\":" + S(r) + "}");
    const std::vector<Op> &sc = E->scripts[r];
    for (size_t i = 0; i < sc.size(); ++i) {
        const Op &o = sc[i];
        const std::string head = "\"r\":" + S(r) + ",\"op\":\"" + o.op + "\",\"x\":" + S(o.x);
        auto call = [&] { L("{\"e\":\"call\"," + head + "}"); };
        auto ret = [&](bool ok, long long v) { L("{\"e\":\"ret\"," + head + ",\"ok\":" + B(ok) + ",\"v\":" + S(v) + "}"); };
        auto inst = [&](bool ok, long long v) { L("{\"e\":\"op\"," + head + ",\"ok\":" + B(ok) + ",\"v\":" + S(v) + "}"); };
        if (o.op == "Yield") { call(); sch.yield(); ret(true, 0); }
        else if (o.op == "Wait") { call(); sch.wait(); ret(true, 0); }
        else if (o.op == "Send" && prim_ok(o.x)) { int v = r * 100 + (int)i + 1; *E->ch[o.x] << v; inst(true, v); }
        else if (o.op == "Recv" && prim_ok(o.x)) { call(); int v = -1; bool ok = (*E->ch[o.x] >> v); ret(ok, ok ? v : 0); }
        else if (o.op == "Lock" && prim_ok(o.x)) { call(); bool ok = E->mx[o.x]->lock(); ret(ok, 0); }
        else if (o.op == "Unlock" && prim_ok(o.x)) { E->mx[o.x]->unlock(); inst(true, 0); }
        else if (o.op == "Acq" && prim_ok(o.x)) { call(); bool ok = E->sem[o.x]->acquire(); ret(ok, 0); }
        else if (o.op == "Rel" && prim_ok(o.x)) { E->sem[o.x]->release(); inst(true, 0); }
        else if (o.op == "BWait" && prim_ok(o.x)) { call(); bool ok = E->bc[o.x]->wait(); ret(ok, 0); }
        else if (o.op == "BPost" && prim_ok(o.x)) { E->bc[o.x]->post(); inst(true, 0); }
        else if (o.op == "CAdd" && prim_ok(o.x)) { E->cd[o.x]->add(o.y); inst(true, o.y); }
        else if (o.op == "CWait" && prim_ok(o.x)) { call(); bool ok = E->cd[o.x]->wait(); ret(ok, 0); }
        else if (o.op == "CPost" && prim_ok(o.x)) { E->cd[o.x]->post(o.y); inst(true, o.y); }
        else if (o.op == "Join") { call(); bool ok = sch.join(rt_ok(o.x) ? E->tok[o.x] : RoutineToken()); ret(ok, 0); }
        else if (o.op == "Create") { bool ok = do_create(o.x, true); inst(ok, 0); }
        else if (o.op == "Cancel") { bool ok = sch.cancel(rt_ok(o.x) ? E->tok[o.x] : RoutineToken()); inst(ok, 0); }
        else { fprintf(stderr, "bad routine op %s %d\n", o.op.c_str(), o.x); _exit(3); }
    }
    L("{\"e\":\"end\",\"r\":" + S(r) + "}");
}

static void log_idle() {
    std::string che = "[", semp = "[";
    for (int i = 1; i <= NP; ++i) {
        if (i > 1) { che += ','; semp += ','; }
        che += B(E->ch[i]->empty());
        semp += B(E->sem[i]->count());
    }
    vh::T().line("{\"e\":\"idle\",\"che\":" + che + "],\"semp\":" + semp + "]}");   // not an activity
}

static void do_cleanup() {
    L("{\"e\":\"mcl\",\"ph\":0}");
    E->sch->cleanup();
    E->cleaned = true;
    L("{\"e\":\"mcl\",\"ph\":1}");
}

// Runs once per loop pass, as the LAST deferred task of the pass: it re-posts itself when it returns, i.e. after every
// schedule() call that the main operations of this tick or the routines of this pass have queued, so in the next pass
// all of them run before the main context acts again ("Pass" = let the loop run everything queued so far).
static bool tick_body() {
    if (E->activity == E->seen) ++E->quiet; else { E->quiet = 0; E->idle_logged = false; }
    E->seen = E->activity;
    // nothing ran and nothing was posted for two whole passes: the loop has nothing left to run
    bool idle = E->quiet >= 2;
    if (idle && !E->idle_logged) { log_idle(); E->idle_logged = true; }
    while (E->mpc < E->mainv.size()) {
        const Op &o = E->mainv[E->mpc];
        if (o.op == "Pass") { ++E->mpc; return true; }
        if (o.op == "Idle") { if (!idle) return true; ++E->mpc; continue; }
        idle = false;
        const std::string head = "{\"e\":\"mop\",\"op\":\"" + o.op + "\",\"x\":" + S(o.x) + ",\"y\":" + S(o.y);
        if (o.op == "Create") { bool ok = do_create(o.x, o.y != 0); L(head + ",\"ret\":" + B(ok) + "}"); }
        else if (o.op == "Resume") { bool ok = E->sch->resume(rt_ok(o.x) ? E->tok[o.x] : RoutineToken()); L(head + ",\"ret\":" + B(ok) + "}"); }
        else if (o.op == "Cancel") { bool ok = E->sch->cancel(rt_ok(o.x) ? E->tok[o.x] : RoutineToken()); L(head + ",\"ret\":" + B(ok) + "}"); }
        else if (o.op == "Cleanup") do_cleanup();
        else { fprintf(stderr, "bad main op %s\n", o.op.c_str()); _exit(3); }
        ++E->mpc;
    }
    // end of the main script: wait for idle, clean up (if the script did not), wait for idle again, stop
    if (!idle) return true;
    if (E->final_phase == 0) {
        E->final_phase = 1;
        if (!E->cleaned) { do_cleanup(); return true; }
    }
    E->done = true;
    E->loop->exitLoop();
    return false;
}
static void tick() {
    if (E->done) return;
    if (tick_body()) E->loop->runNext([] { tick(); }, "c18 driver");
}

static void on_vtalrm(int) { vh::fault("hang", "execution used more than 5 s of CPU time (scheduler never became idle / cleanup() does not return)"); }

static std::vector<Op> parse_ops(const json &a) {
    std::vector<Op> v;
    for (auto &e : a) { Op o; o.op = e["op"].get<std::string>(); o.x = e.value("x", 0); o.y = e.value("y", 0); v.push_back(o); }
    return v;
}

static void run_program(const json &p, const std::string &text) {
    Exec ex; E = &ex;
    std::vector<int> seminit = p.value("seminit", std::vector<int>{0, 0});
    std::vector<int> clogic = p.value("clogic", std::vector<int>{0, 1});
    seminit.resize(NP, 0); clogic.resize(NP, 0);
    ex.scripts.emplace_back();
    for (auto &s : p["scripts"]) ex.scripts.push_back(parse_ops(s));
    ex.nr = (int)ex.scripts.size() - 1;
    ex.mainv = parse_ops(p["main"]);
    ex.tok.assign(ex.nr + 1, RoutineToken());
    ex.created.assign(ex.nr + 1, 0);
    vh::T().line("{\"e\":\"Begin\",\"nr\":" + S(ex.nr) + ",\"seminit\":" + vh::jarr(std::vector<long long>(seminit.begin(), seminit.end())) +
                 ",\"clogic\":" + vh::jarr(std::vector<long long>(clogic.begin(), clogic.end())) + ",\"prog\":" + text + "}");
    struct itimerval it; memset(&it, 0, sizeof it); it.it_value.tv_sec = 5;
    setitimer(ITIMER_VIRTUAL, &it, nullptr);

    ex.loop = Loop::New();
    ex.sch = new Scheduler(ex.loop);
    for (int i = 1; i <= NP; ++i) {
        ex.ch[i].reset(new Channel<int>(*ex.sch));
        ex.mx[i].reset(new Mutex(*ex.sch));
        ex.sem[i].reset(new Semaphore(*ex.sch, seminit[i - 1]));
        ex.bc[i].reset(new Broadcast(*ex.sch));
        ex.cd[i].reset(new Condition<int>(*ex.sch, clogic[i - 1] ? Condition<int>::Logic::kAny : Condition<int>::Logic::kAll));
    }
    ex.loop->runNext([] { tick(); }, "c18 driver");
    ex.loop->runLoop(Loop::Mode::kForever);
    delete ex.sch; ex.sch = nullptr;          // nothing is pending in the loop any more (idle was observed)
    for (int i = 1; i <= NP; ++i) { ex.ch[i].reset(); ex.mx[i].reset(); ex.sem[i].reset(); ex.bc[i].reset(); ex.cd[i].reset(); }
    delete ex.loop;
    memset(&it, 0, sizeof it); setitimer(ITIMER_VIRTUAL, &it, nullptr);
    E = nullptr;
    vh::T().line("{\"e\":\"Reset\"}");
}

int main(int argc, char **argv) {
    if (argc != 4 || std::string(argv[1]) != "run") return 3;
    vh::install_faults();
    struct sigaction sa; memset(&sa, 0, sizeof sa); sa.sa_handler = on_vtalrm; sa.sa_flags = SA_ONSTACK;
    sigaction(SIGVTALRM, &sa, nullptr);
    vh::T().open(argv[3]);
    std::ifstream in(argv[2]); std::string line;
    while (std::getline(in, line)) {
        if (line.empty()) continue;
        run_program(json::parse(line), line);
    }
    vh::T().close();
    return 0;
}
