// C15 conformance driver for tbox::network::DnsRequest (public API only).
//   driver script <scripts.jsonl> <out.ndjson>
// One script per line: {"n":<servers 1..3>, "steps":[...], "end_ticks":<max ticks at the end>}
//   {"o":"req","name":"a.bc"[,"nested":[ops run inside this lookup's callback]]}
//   {"o":"reply","s":<server 1..3>,"k":<lookup ordinal>,"d":[bytes]}   bytes 0-1 are overwritten with the real id of lookup k
//   {"o":"cancel","k":<lookup ordinal>}
//   {"o":"tick"}                                                        virtual clock += 1000 ms
// Fake DNS servers are UDP sockets bound to 127.A.B.{1,2,3}:53 (A.B chosen per process); a real DnsRequest on a real
// event loop is pointed at them; the queries it really sends are read (id, source port) and the generated datagrams
// are sent back from the chosen server socket.  The loop runs in kForever mode and is driven pass by pass by a
// self-reposting runNext task; after a datagram was sent the task lets passes go by until the client's socket queue is
// empty.  Time is the virtual monotonic clock (verif hook).  Every step is recorded with the callbacks that fired
// during it (status, addresses, names, ttls) and isRunning() of every lookup; TLC validates the trace against
// spec/Dns/Trace_Dns.tla - this program decides nothing.
#include <vh.h>
#include <arpa/inet.h>
#include <fcntl.h>
#include <fstream>
#include <map>
#include <memory>
#include <new>
#include <netinet/in.h>
#include <set>
#include <sys/ioctl.h>
#include <sys/resource.h>
#include <sys/socket.h>
#include <sys/time.h>
#include <nlohmann/json.hpp>
#include <tbox/base/verif_hook.h>
#include <tbox/event/loop.h>
#include <tbox/network/dns_request.h>
#include <tbox/network/udp_socket.h>
#include <atomic>
#include <thread>

using json = nlohmann::json;
using namespace tbox;
using namespace tbox::network;

static std::atomic<uint64_t> g_now{1000000};
static bool vclock(uint64_t &ms) { ms = g_now; return true; }

static int g_srv[4];                 // server sockets 1..3
static std::string g_srv_ip[4];
static const int kMaxLogged = 40;    // cap of logged list lengths (the real counts are logged too)

// Non-termination watchdog: CPU time (not wall clock, so machine load cannot trip it) of ONE step; a step normally needs
// microseconds.  VERIF_STEP_CPU_S overrides the limit (the check raises it for the valgrind run, where the first steps
// include the translation of the code).  Memory growth of a spinning decoder is capped as well (see cap_memory()).
static int g_step_cpu_s = 3;
static void on_vtalarm(int) { vh::fault("hang", "a single step exceeded its CPU-time limit (does not terminate)"); }
static void arm_watchdog() {
    struct itimerval it; memset(&it, 0, sizeof it); it.it_value.tv_sec = g_step_cpu_s;
    setitimer(ITIMER_VIRTUAL, &it, nullptr);
}
static void on_new_failure() { vh::fault("memory", "allocation failed: memory grows without bound"); }
static void cap_memory() {
    std::set_new_handler(on_new_failure);
#if !defined(__SANITIZE_ADDRESS__)
    // plain build: 3 GiB of address space (not under valgrind, which needs its own; not under ASan, whose shadow is huge -
    // there ASAN_OPTIONS hard_rss_limit_mb / max_allocation_size_mb set by the check do the same job)
    if (!getenv("VERIF_NO_RLIMIT")) { struct rlimit rl; rl.rlim_cur = rl.rlim_max = 3ull << 30; setrlimit(RLIMIT_AS, &rl); }
#endif
}

static void bind_servers() {
    int pid = (int)getpid();
    for (int attempt = 0; attempt < 50; ++attempt) {
        int a = 1 + (pid + attempt * 7) % 250, b = 1 + ((pid / 250) + attempt * 13) % 250;
        bool ok = true;
        for (int s = 1; s <= 3 && ok; ++s) {
            g_srv[s] = socket(AF_INET, SOCK_DGRAM | SOCK_NONBLOCK, 0);
            struct sockaddr_in sa; memset(&sa, 0, sizeof sa); sa.sin_family = AF_INET; sa.sin_port = htons(53);
            char ip[32]; snprintf(ip, sizeof ip, "127.%d.%d.%d", a, b, s); g_srv_ip[s] = ip;
            inet_pton(AF_INET, ip, &sa.sin_addr);
            if (bind(g_srv[s], (struct sockaddr *)&sa, sizeof sa) != 0) ok = false;
        }
        if (ok) return;
        for (int s = 1; s <= 3; ++s) if (g_srv[s] > 0) { close(g_srv[s]); g_srv[s] = 0; }
    }
    fprintf(stderr, "cannot bind fake DNS servers\n"); _exit(3);
}

static std::set<int> dgram_fds() {
    std::set<int> r;
    for (int fd = 0; fd < 1024; ++fd) {
        int type = 0; socklen_t l = sizeof type;
        if (getsockopt(fd, SOL_SOCKET, SO_TYPE, &type, &l) == 0 && type == SOCK_DGRAM) r.insert(fd);
    }
    return r;
}

static json bytes_of(const std::string &s) { json a = json::array(); for (unsigned char c : s) a.push_back((int)c); return a; }
static json labels_of(const std::string &name) {
    json a = json::array(); std::string cur;
    for (char c : name) { if (c == '.') { a.push_back(bytes_of(cur)); cur.clear(); } else cur += c; }
    a.push_back(bytes_of(cur));
    return a;
}
static const char *status_name(DnsRequest::Result::Status s) {
    switch (s) {
        case DnsRequest::Result::Status::kSuccess: return "Success";
        case DnsRequest::Result::Status::kDomainError: return "DomainError";
        case DnsRequest::Result::Status::kAllDnsFail: return "AllDnsFail";
        case DnsRequest::Result::Status::kTimeout: return "Timeout";
        case DnsRequest::Result::Status::kFail: return "Fail";
    }
    return "Unknown";
}

struct Exec {
    event::Loop *loop = nullptr;
    std::unique_ptr<DnsRequest> dns;
    int n = 1;
    int client_fd = -1;
    bool have_client = false;
    struct sockaddr_in client;
    json steps;
    size_t pc = 0;
    int end_ticks = 0, ticks_done = 0;
    bool compact = false;            // crowd executions (hundreds of lookups at once): isRunning() lists and queries are not logged
    bool ending = false, ended = false;
    std::vector<int> ids;            // ordinal k (1-based) -> id returned by request()
    // current step
    bool busy = false;
    json ev, cbs, after;             // event under construction, callbacks fired, events of nested operations
    int passes = 0, min_passes = 0, sent = 0;
    bool wait_queue = false;

    json running() { json a = json::array(); for (int id : ids) if (dns->isRunning((DnsRequest::ReqId)id)) a.push_back(id); return a; }
    bool any_running() { for (int id : ids) if (dns->isRunning((DnsRequest::ReqId)id)) return true; return false; }
    int id_of(int k) { return (k >= 1 && k <= (int)ids.size()) ? ids[k - 1] : 0xEE00 + k; }
    bool queue_empty() {
        if (client_fd < 0) return true;
        char c; ssize_t r = recv(client_fd, &c, 1, MSG_PEEK | MSG_DONTWAIT);
        return r < 0;
    }

    void on_cb(int k, const DnsRequest::Result &res, json ops) {
        json c; c["k"] = k; c["id"] = id_of(k); c["st"] = status_name(res.status);
        c["na"] = res.a_vec.size(); c["nc"] = res.cname_vec.size();
        json a = json::array(), at = json::array(), cn = json::array(), ct = json::array();
        for (size_t i = 0; i < res.a_vec.size() && i < (size_t)kMaxLogged; ++i) {
            uint32_t v = res.a_vec[i].ip, t = res.a_vec[i].ttl;
            a.push_back({(int)(v & 255), (int)((v >> 8) & 255), (int)((v >> 16) & 255), (int)((v >> 24) & 255)});
            at.push_back({(int)((t >> 24) & 255), (int)((t >> 16) & 255), (int)((t >> 8) & 255), (int)(t & 255)});
        }
        for (size_t i = 0; i < res.cname_vec.size() && i < (size_t)kMaxLogged; ++i) {
            uint32_t t = res.cname_vec[i].ttl;
            cn.push_back(bytes_of(res.cname_vec[i].cname.toString()));
            ct.push_back({(int)((t >> 24) & 255), (int)((t >> 16) & 255), (int)((t >> 8) & 255), (int)(t & 255)});
        }
        c["a"] = a; c["at"] = at; c["cn"] = cn; c["ct"] = ct;
        cbs.push_back(c);
        if (!ops.is_null()) {                               // operations issued from inside the callback
            for (auto &op : ops) {
                if (op["o"] == "req") after.push_back(do_request(op, true));
                else if (op["o"] == "cancel") {
                    // cancelling a lookup from inside its own callback is outside the property's histories: pick a neighbour
                    json c = op; int t = c["k"];
                    if (t == k) c["k"] = k > 1 ? k - 1 : k + 1;
                    after.push_back(do_cancel(c, true));
                }
            }
        }
    }

    json do_request(const json &op, bool in_cb) {
        std::string name = op.value("name", std::string("a.bc"));
        int k = (int)ids.size() + 1;
        ids.push_back(0);
        json nest = op.contains("nested") ? op["nested"] : json();
        auto id = dns->request(DomainName(name), [this, k, nest](const DnsRequest::Result &r) { on_cb(k, r, nest); });
        ids[k - 1] = (int)id;
        json e; e["e"] = "Request"; e["k"] = k; e["id"] = (int)id; e["name"] = labels_of(name); e["incb"] = in_cb;
        // the queries really sent: one per configured server
        json q = json::array();
        for (int s = 1; s <= 3; ++s) {
            for (;;) {
                uint8_t buf[1024]; struct sockaddr_in from; socklen_t fl = sizeof from;
                ssize_t r = recvfrom(g_srv[s], buf, sizeof buf, 0, (struct sockaddr *)&from, &fl);
                if (r < 0) break;
                if (s <= n) { client = from; have_client = true; }
                q.push_back({{"s", s}, {"id", r >= 2 ? buf[0] * 256 + buf[1] : -1}, {"len", (int)r}});
            }
        }
        e["q"] = q;
        return e;
    }
    json do_cancel(const json &op, bool in_cb) {
        int k = op["k"], id = id_of(k);
        bool ret = dns->cancel((DnsRequest::ReqId)id);
        json e; e["e"] = "Cancel"; e["k"] = k; e["id"] = id; e["ret"] = ret; e["incb"] = in_cb;
        return e;
    }

    void finish_event() {
        bool chk = after.empty();
        ev["cbs"] = cbs; ev["chk"] = chk && !compact; ev["passes"] = passes;
        if (compact) { ev["run"] = json::array(); ev.erase("q"); } else ev["run"] = running();
        if (wait_queue && !queue_empty() && any_running()) ev["stuck"] = true;   // a lookup is pending but datagrams are never read
        vh::T().line(ev.dump());
        for (auto &a : after) { a["cbs"] = json::array(); a["run"] = running(); a["chk"] = false; vh::T().line(a.dump()); }
        busy = false;
    }

    void begin(const json &e, int minp, bool waitq) {
        ev = e; busy = true; passes = 0; min_passes = minp; wait_queue = waitq;
    }

    void start_step(const json &op) {
        cbs = json::array(); after = json::array();
        arm_watchdog();
        std::string o = op["o"];
        if (o == "req") {
            begin(do_request(op, false), 1, true);
        } else if (o == "cancel") {
            begin(do_cancel(op, false), 1, false);
        } else if (o == "tick") {
            g_now += 1000;
            json e; e["e"] = "Tick"; begin(e, 3, true);
        } else if (o == "reply") {
            int s = op["s"], k = op["k"], id = id_of(k);
            std::vector<uint8_t> d; for (auto &b : op["d"]) d.push_back((uint8_t)(int)b);
            if (d.size() >= 1) d[0] = (uint8_t)(id >> 8);
            if (d.size() >= 2) d[1] = (uint8_t)(id & 255);
            json e; e["e"] = "Reply"; e["s"] = s; e["k"] = k; e["d"] = json::array();
            for (uint8_t b : d) e["d"].push_back((int)b);
            if (op.contains("tag")) e["tag"] = op["tag"];
            // nothing outstanding: the client socket is not read, the datagram would sit in its queue and be delivered to
            // whatever lookup is issued next (harmless with sequential ids, a legitimate match with unpredictable ids): not sent
            if (!have_client || !any_running()) { e["e"] = "Skip"; begin(e, 0, false); return; }
            ssize_t r = sendto(g_srv[s], d.data(), d.size(), 0, (struct sockaddr *)&client, sizeof client);
            if (r != (ssize_t)d.size()) { fprintf(stderr, "sendto failed: %s\n", strerror(errno)); _exit(3); }
            ++sent;
            begin(e, 2, true);
        } else {
            fprintf(stderr, "unknown op %s\n", o.c_str()); _exit(3);
        }
    }

    void drive() {
        if (busy) {
            ++passes;
            bool more = passes < min_passes;
            // datagrams are read one per pass at most; wait until the client's queue is drained (only possible
            // while a lookup is pending: the socket is not read otherwise, and such datagrams are strangers for ever)
            if (wait_queue && !queue_empty() && any_running() && passes < 20 + sent) more = true;
            if (more) { repost(); return; }
            finish_event();
        }
        if (pc < steps.size()) { start_step(steps[pc++]); repost(); return; }
        if (!ending) { ending = true; }
        if (any_running() && ticks_done < end_ticks) {
            ++ticks_done; cbs = json::array(); after = json::array();
            arm_watchdog();
            g_now += 1000; json e; e["e"] = "Tick"; begin(e, 3, true); repost(); return;
        }
        json e; e["e"] = "End"; e["run"] = running(); e["ticks"] = ticks_done;
        vh::T().line(e.dump());
        loop->exitLoop();
    }
    void repost() { loop->runNext([this] { drive(); }, "verif-driver"); }
};

static void run_script(const json &sc) {
    vh::T().line("{\"e\":\"Reset\"}");
    for (int s = 1; s <= 3; ++s) { uint8_t buf[2048]; while (recv(g_srv[s], buf, sizeof buf, 0) >= 0) {} }
    Exec x;
    x.n = sc.value("n", 2);
    x.steps = sc["steps"];
    x.end_ticks = sc.value("end_ticks", 40);
    x.compact = sc.value("compact", false);
    x.loop = event::Loop::New();
    auto before = dgram_fds();
    DnsRequest::IPAddressVec ips;
    for (int s = 1; s <= x.n; ++s) ips.push_back(IPAddress::FromString(g_srv_ip[s]));
    x.dns.reset(new DnsRequest(x.loop, ips));
    for (int fd : dgram_fds()) if (!before.count(fd)) x.client_fd = fd;
    json e; e["e"] = "New"; e["n"] = x.n; e["fd"] = x.client_fd >= 0; if (!x.compact) e["script"] = sc; else e["crowd"] = sc;
    vh::T().line(e.dump());
    x.repost();
    x.loop->runLoop(event::Loop::Mode::kForever);
    arm_watchdog();
    x.dns.reset();
    delete x.loop;
}

// Bystander (VERIF_C15_BYSTANDER=1): an unrelated UdpSocket on its own event loop in its own thread, flooded with datagrams of
// 0xEE bytes for the whole run.  The statement quantifies over the datagrams the DNS client receives: whatever another socket of
// the process receives meanwhile must neither show up in nor disturb the client's results (state shared between UdpSocket objects
// would do that).  The recorded events are the DNS client's only, so the trace specification is unchanged.
static std::atomic<bool> g_by_stop{false};
static event::Loop *g_by_loop = nullptr;
static std::thread g_by_thread, g_by_flood;
static void start_bystander() {
    std::string ip = g_srv_ip[1].substr(0, g_srv_ip[1].rfind('.')) + ".9";
    g_by_loop = event::Loop::New();
    std::atomic<bool> ready{false};
    g_by_thread = std::thread([ip, &ready] {
        UdpSocket us(g_by_loop);
        if (!us.bind(SockAddr(IPAddress::FromString(ip), 5354))) { fprintf(stderr, "bystander: cannot bind\n"); _exit(3); }
        us.setRecvCallback([](const void *, size_t, const SockAddr &) {});
        us.enable();
        ready = true;
        g_by_loop->runLoop(event::Loop::Mode::kForever);
    });
    while (!ready) usleep(1000);
    g_by_flood = std::thread([ip] {
        int fd = socket(AF_INET, SOCK_DGRAM, 0);
        struct sockaddr_in sa; memset(&sa, 0, sizeof sa); sa.sin_family = AF_INET; sa.sin_port = htons(5354); inet_pton(AF_INET, ip.c_str(), &sa.sin_addr);
        uint8_t junk[1400]; memset(junk, 0xEE, sizeof junk);
        while (!g_by_stop) { ssize_t w = sendto(fd, junk, sizeof junk, 0, (struct sockaddr *)&sa, sizeof sa); (void)w; usleep(50); }
        close(fd);
    });
}
static void stop_bystander() {
    g_by_stop = true;
    g_by_flood.join();
    g_by_loop->runInLoop([] { g_by_loop->exitLoop(); }, "verif-bystander-exit");
    g_by_thread.join();
    delete g_by_loop;
}

int main(int argc, char **argv) {
    if (argc < 4 || std::string(argv[1]) != "script") { fprintf(stderr, "usage: driver script <scripts.jsonl> <out.ndjson>\n"); return 3; }
    vh::T().open(argv[3]);
    vh::install_faults();
    struct sigaction sa; memset(&sa, 0, sizeof sa); sa.sa_handler = on_vtalarm; sa.sa_flags = SA_ONSTACK; sigaction(SIGVTALRM, &sa, nullptr);
    if (const char *e = getenv("VERIF_STEP_CPU_S")) g_step_cpu_s = std::max(1, atoi(e));
    cap_memory();
    tbox::verif::Hooks().steady_ms = vclock;
    bind_servers();
    const bool bystander = getenv("VERIF_C15_BYSTANDER") != nullptr;
    if (bystander) start_bystander();
    std::ifstream in(argv[2]);
    std::string line;
    while (std::getline(in, line)) {
        if (line.empty()) continue;
        run_script(json::parse(line));
        vh::T().flush();
    }
    if (bystander) stop_bystander();
    vh::T().close();
    return 0;
}
