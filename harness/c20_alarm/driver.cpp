// C20 conformance driver: executes scripts on the REAL cpp-tbox alarms (WeeklyAlarm, OneshotAlarm, WorkdayAlarm +
// WorkdayCalendar, CronAlarm) under a virtual wall clock, a virtual system zone and a virtual monotonic clock, on a
// real event loop driven pass by pass from inside (one script step per loop iteration), and records one ndjson event
// per spec action (spec/Alarm/Trace_Alarm.tla).  The driver decides nothing: TLC does.
//
//   driver script <scripts.jsonl> <trace.ndjson>
//
// One script per line:
//   {"kind":"weekly|oneshot|workday|cron", "start":{"w":[day,sod,usec],"m":[days,ms],"sys":offset_seconds}, "ops":[...]}
// ops:
//   {"o":"init", ...configuration...}     weekly: sod, mask[weekdays]   oneshot: sod   workday: sod, wmask[], sp[[day,0|1]..], work
//                                         cron: expr (text given to the real parser), f (the same as 6 lists of [lo,hi,step])
//   {"o":"tz","min":M} {"o":"enable"} {"o":"disable"} {"o":"refresh"} {"o":"cleanup"}
//   {"o":"cal","wmask":[..]} | {"o":"cal","sp":[..]}   calendar update (updateWeekMask / updateSpecialDays)
//   {"o":"adv","dt":[days,ms],"skew":ms}  both clocks advance (monotonic by dt+skew)
//   {"o":"advt","ms":X,"skew":ms}         ... until the wall clock shows target+X ms (target read through remainSeconds())
//   {"o":"adj","ds":seconds}              the wall clock is stepped
//   {"o":"calc","t":[[day,sod],..]}       evaluate the protected calculateNextLocalTimeSec() through the probe subclass
// Group scripts: several WorkdayAlarm objects sharing ONE WorkdayCalendar
//   {"kind":"group","n":N,"start":{..},"cal0":{"wmask":[..],"sp":[..]},"ops":[...]}
//   ops carry the alarm index "a" (init: sod, work; tz, enable, disable, refresh, advt); "cal", "adv", "adj" are shared.
//   The recording is written as N executions, one per alarm: the alarm's own events plus every shared event (clock
//   movement, calendar update) with THAT alarm's projected state.  Each projection must be a behaviour of the one-alarm
//   specification: in particular after a calendar update every subscribed running alarm must be armed for the earliest
//   instant under the NEW calendar.  The Start line of each projection carries the whole group script (for --replay).
// Environment restriction of the spec (Alarm.tla, InEarlyWindow): while the wall clock has not reached the instant that
// already fired, calls into the alarm are skipped (not executed, not logged).
#include <cstdint>
#include <cstdio>
#include <cstring>
#include <fstream>
#include <functional>
#include <map>
#include <memory>
#include <string>
#include <vector>

#include <nlohmann/json.hpp>

#include <tbox/base/verif_hook.h>
#include <tbox/event/loop.h>
#include <tbox/alarm/weekly_alarm.h>
#include <tbox/alarm/oneshot_alarm.h>
#include <tbox/alarm/workday_alarm.h>
#include <tbox/alarm/workday_calendar.h>
#include <tbox/alarm/cron_alarm.h>

#include "vh.h"

using json = nlohmann::json;
using namespace tbox;

// ------------------------------------------------------------------ virtual clocks -----------------
static uint64_t g_wall_us = 0;   // UTC microseconds since the epoch
static uint64_t g_mono_ms = 0;   // monotonic milliseconds
static int g_sysoff = 0;         // system zone, seconds east
static bool hook_wall(uint32_t &sec, uint32_t &usec) { sec = (uint32_t)(g_wall_us / 1000000ull); usec = (uint32_t)(g_wall_us % 1000000ull); return true; }
static bool hook_mono(uint64_t &ms) { ms = g_mono_ms; return true; }
static bool hook_tz(int &s) { s = g_sysoff; return true; }

// ------------------------------------------------------------------ probes -------------------------
// calculateNextLocalTimeSec() is a protected virtual: a using-declaration in a subclass makes it callable.
struct ProbeWeekly : alarm::WeeklyAlarm { using alarm::WeeklyAlarm::WeeklyAlarm; using alarm::WeeklyAlarm::calculateNextLocalTimeSec; };
struct ProbeOneshot : alarm::OneshotAlarm { using alarm::OneshotAlarm::OneshotAlarm; using alarm::OneshotAlarm::calculateNextLocalTimeSec; };
struct ProbeWorkday : alarm::WorkdayAlarm { using alarm::WorkdayAlarm::WorkdayAlarm; using alarm::WorkdayAlarm::calculateNextLocalTimeSec; };
struct ProbeCron : alarm::CronAlarm { using alarm::CronAlarm::CronAlarm; using alarm::CronAlarm::calculateNextLocalTimeSec; };

struct Exec {
    std::string kind;
    event::Loop *loop = nullptr;
    alarm::Alarm *al = nullptr;
    ProbeWeekly *weekly = nullptr;
    ProbeOneshot *oneshot = nullptr;
    ProbeWorkday *workday = nullptr;
    ProbeCron *cron = nullptr;
    alarm::WorkdayCalendar *cal = nullptr;
    json ops;
    size_t pc = 0;
    json cur_wmask = json::array(), cur_sp = json::array();   // calendar contents as last set
    long fires = 0;
    int64_t cur_tg = -1;       // target observed after the last call while enabled
    int64_t last_fired = -1;   // instant the callback ran for last (forgotten when a backward step puts it into the future)
};

static std::string pair2(uint64_t a, uint64_t b) { return "[" + std::to_string(a) + "," + std::to_string(b) + "]"; }
static std::string inst(uint64_t sec) { return pair2(sec / 86400, sec % 86400); }

// projected state after every step: clocks, isEnabled(), target (current second + remainSeconds(), 32-bit like the API)
static std::string post_of(alarm::Alarm *al, int64_t &cur_tg) {
    uint64_t sec = g_wall_us / 1000000ull;
    bool en = al->isEnabled();
    uint32_t tg = (uint32_t)((uint32_t)sec + al->remainSeconds());
    if (en) cur_tg = tg;
    std::string s = "\"w\":[" + std::to_string(sec / 86400) + "," + std::to_string(sec % 86400) + "," + std::to_string(g_wall_us % 1000000ull) + "]";
    s += ",\"m\":" + pair2(g_mono_ms / 86400000ull, g_mono_ms % 86400000ull);
    s += std::string(",\"en\":") + (en ? "true" : "false");
    s += ",\"tg\":" + (en ? inst(tg) : std::string("[0,0]"));
    return s;
}
static std::string post(Exec &x) { return post_of(x.al, x.cur_tg); }
static const char *tf(bool b) { return b ? "true" : "false"; }

static std::string weekmask_str(const json &m) { std::string s = "0000000"; for (auto &d : m) s[d.get<int>() % 7] = '1'; return s; }
static uint8_t weekmask_byte(const json &m) { uint8_t b = 0; for (auto &d : m) b |= (uint8_t)(1u << (d.get<int>() % 7)); return b; }
// a calendar update changes the week mask or the special days (each refreshes the subscribed alarms)
static void set_calendar(Exec &x, const json &op) {
    if (op.contains("wmask")) { x.cur_wmask = op["wmask"]; x.cal->updateWeekMask(weekmask_byte(op["wmask"])); }
    if (op.contains("sp")) {
        std::map<int, bool> sp;
        for (auto &p : op["sp"]) sp[p[0].get<int>()] = p[1].get<int>() != 0;
        x.cur_sp = op["sp"];
        x.cal->updateSpecialDays(sp);
    }
}

static bool in_early_window(Exec &x) { return x.last_fired >= 0 && (int64_t)(g_wall_us / 1000000ull) < x.last_fired; }

static void advance(Exec &x, int64_t dt_ms, int64_t skew) {
    if (dt_ms < 0 || dt_ms + skew < 0) return;
    g_wall_us += (uint64_t)dt_ms * 1000ull;
    g_mono_ms += (uint64_t)(dt_ms + skew);
    vh::T().printf("{\"e\":\"Adv\",\"dt\":%s,\"skew\":%lld,%s}", pair2((uint64_t)dt_ms / 86400000ull, (uint64_t)dt_ms % 86400000ull).c_str(),
                   (long long)skew, post(x).c_str());
}

static void do_op(Exec &x, const json &op) {
    const std::string o = op["o"];
    auto &T = vh::T();
    if (o == "adv") { advance(x, op["dt"][0].get<int64_t>() * 86400000ll + op["dt"][1].get<int64_t>(), op["skew"].get<int64_t>()); return; }
    if (o == "advt") {
        if (!x.al->isEnabled()) return;
        uint64_t us = g_wall_us % 1000000ull;
        uint32_t remain = x.al->remainSeconds();                 // target - now in 32-bit arithmetic, as the API gives it
        if (remain > 0x7fffffffu) return;                        // target already behind the wall clock
        advance(x, (int64_t)remain * 1000 - (int64_t)(us / 1000) + op["ms"].get<int64_t>(), op["skew"].get<int64_t>());
        return;
    }
    if (o == "adj") {
        int64_t ds = op["ds"].get<int64_t>();
        g_wall_us = (uint64_t)((int64_t)g_wall_us + ds * 1000000ll);
        if (ds < 0 && x.last_fired >= 0 && (int64_t)(g_wall_us / 1000000ull) < x.last_fired) x.last_fired = -1;
        T.printf("{\"e\":\"Adj\",\"ds\":%lld,%s}", (long long)ds, post(x).c_str());
        return;
    }
    if (in_early_window(x)) return;                              // environment restriction (see header comment)
    if (o == "init") {
        // cleanup() drops the callback: like an application, install it (again) with every initialize()
        x.al->setCallback([&x] {
            // the alarm re-arms before this callback: cur_tg still holds the instant this call stands for
            x.last_fired = x.cur_tg;
            vh::T().printf("{\"e\":\"Fire\",%s}", post(x).c_str());
            // a timer that is re-armed as already due fires again within the same loop pass, without end
            if (++x.fires > 5000) vh::fault("runaway", "more than 5000 callbacks in one execution");
        });
        bool r = false;
        std::string c;
        if (x.kind == "weekly") {
            r = x.weekly->initialize(op["sod"].get<int>(), weekmask_str(op["mask"]));
            c = "\"k\":\"weekly\",\"sod\":" + op["sod"].dump() + ",\"mask\":" + op["mask"].dump();
        } else if (x.kind == "oneshot") {
            r = x.oneshot->initialize(op["sod"].get<int>());
            c = "\"k\":\"oneshot\",\"sod\":" + op["sod"].dump();
        } else if (x.kind == "workday") {
            r = x.workday->initialize(op["sod"].get<int>(), x.cal, op["work"].get<bool>());
            if (r) set_calendar(x, op);                          // the alarm is not running here: no refresh is triggered
            c = "\"k\":\"workday\",\"sod\":" + op["sod"].dump() + ",\"wmask\":" + op["wmask"].dump() + ",\"sp\":" + op["sp"].dump() +
                ",\"work\":" + op["work"].dump();
        } else {
            r = x.cron->initialize(op["expr"].get<std::string>());
            c = "\"k\":\"cron\",\"expr\":" + op["expr"].dump() + ",\"f\":" + op["f"].dump();
        }
        T.printf("{\"e\":\"Init\",%s,\"ret\":%s,%s}", c.c_str(), tf(r), post(x).c_str());
    } else if (o == "tz") {
        x.al->setTimezone(op["min"].get<int>());
        T.printf("{\"e\":\"Tz\",\"min\":%d,%s}", op["min"].get<int>(), post(x).c_str());
    } else if (o == "enable") {
        bool r = x.al->enable();
        T.printf("{\"e\":\"Enable\",\"ret\":%s,%s}", tf(r), post(x).c_str());
    } else if (o == "disable") {
        bool r = x.al->disable();
        T.printf("{\"e\":\"Disable\",\"ret\":%s,%s}", tf(r), post(x).c_str());
    } else if (o == "refresh") {
        x.al->refresh();
        T.printf("{\"e\":\"Refresh\",%s}", post(x).c_str());
    } else if (o == "cleanup") {
        x.al->cleanup();
        T.printf("{\"e\":\"Cleanup\",%s}", post(x).c_str());
    } else if (o == "cal") {
        if (op.contains("wmask") == op.contains("sp")) { fprintf(stderr, "cal: exactly one of wmask/sp\n"); _exit(3); }
        set_calendar(x, op);
        T.printf("{\"e\":\"Cal\",\"wmask\":%s,\"sp\":%s,%s}", x.cur_wmask.dump().c_str(), x.cur_sp.dump().c_str(), post(x).c_str());
    } else if (o == "calc") {
        for (auto &t : op["t"]) {
            uint32_t cur = (uint32_t)(t[0].get<uint64_t>() * 86400ull + t[1].get<uint64_t>());
            uint32_t next = 0;
            bool ok = false;
            if (x.weekly) ok = x.weekly->calculateNextLocalTimeSec(cur, next);
            else if (x.oneshot) ok = x.oneshot->calculateNextLocalTimeSec(cur, next);
            else if (x.workday) ok = x.workday->calculateNextLocalTimeSec(cur, next);
            else ok = x.cron->calculateNextLocalTimeSec(cur, next);
            T.printf("{\"e\":\"Calc\",\"t\":%s,\"ok\":%s,\"r\":%s}", inst(cur).c_str(), tf(ok), inst(next).c_str());
        }
    } else {
        fprintf(stderr, "unknown op %s\n", o.c_str());
        _exit(3);
    }
}

static void run_script(const json &sc) {
    Exec x;
    x.kind = sc["kind"];
    const json &st = sc["start"];
    g_wall_us = (st["w"][0].get<uint64_t>() * 86400ull + st["w"][1].get<uint64_t>()) * 1000000ull + st["w"][2].get<uint64_t>();
    g_mono_ms = st["m"][0].get<uint64_t>() * 86400000ull + st["m"][1].get<uint64_t>();
    g_sysoff = st["sys"].get<int>();
    x.ops = sc["ops"];
    x.loop = event::Loop::New();
    if (x.kind == "weekly") x.al = x.weekly = new ProbeWeekly(x.loop);
    else if (x.kind == "oneshot") x.al = x.oneshot = new ProbeOneshot(x.loop);
    else if (x.kind == "workday") { x.cal = new alarm::WorkdayCalendar; x.al = x.workday = new ProbeWorkday(x.loop); }
    else x.al = x.cron = new ProbeCron(x.loop);
    vh::T().printf("{\"e\":\"Start\",\"kind\":\"%s\",\"sys\":%d,%s}", x.kind.c_str(), g_sysoff, post(x).c_str());

    // in-loop driver: one script step per loop iteration (timers -> descriptors -> this task); two idle passes at the end
    std::function<void()> step = [&] {
        if (x.pc < x.ops.size()) do_op(x, x.ops[x.pc]);
        ++x.pc;
        if (x.pc >= x.ops.size() + 2) { x.loop->exitLoop(); return; }
        x.loop->runNext(step, "c20 step");
    };
    x.loop->runNext(step, "c20 step");
    x.loop->runLoop(event::Loop::Mode::kForever);

    x.al->setCallback(nullptr);
    delete x.al;
    delete x.cal;
    delete x.loop;
    vh::T().printf("{\"e\":\"Reset\"}");
}

// ------------------------------------------------------------------ groups: N workday alarms, one calendar ----------
struct Member {
    ProbeWorkday *al = nullptr;
    std::vector<std::string> buf;   // this alarm's projection of the execution
    bool inited = false;
    long fires = 0;
    int64_t cur_tg = -1, last_fired = -1;
    bool early() const { return last_fired >= 0 && (int64_t)(g_wall_us / 1000000ull) < last_fired; }
};
struct Group {
    event::Loop *loop = nullptr;
    alarm::WorkdayCalendar *cal = nullptr;
    std::vector<Member> m;
    json ops, cur_wmask = json::array(), cur_sp = json::array();
    size_t pc = 0;
};
static Group *g_group = nullptr;
// the projections are written one after the other (also from the fault paths, best effort)
static void flush_group() {
    Group *g = g_group;
    if (!g) return;
    g_group = nullptr;
    for (auto &mb : g->m) {
        for (auto &l : mb.buf) vh::T().line(l);
        vh::T().line("{\"e\":\"Reset\"}");
    }
    vh::T().flush();
}
static void shared_event(Group &g, const std::string &head) {      // clock movement / calendar update: seen by every alarm
    for (auto &mb : g.m) mb.buf.push_back(head + post_of(mb.al, mb.cur_tg) + "}");
}
static void group_advance(Group &g, int64_t dt_ms, int64_t skew) {
    if (dt_ms < 0 || dt_ms + skew < 0) return;
    g_wall_us += (uint64_t)dt_ms * 1000ull;
    g_mono_ms += (uint64_t)(dt_ms + skew);
    shared_event(g, "{\"e\":\"Adv\",\"dt\":" + pair2((uint64_t)dt_ms / 86400000ull, (uint64_t)dt_ms % 86400000ull) + ",\"skew\":" + std::to_string(skew) + ",");
}
static void group_op(Group &g, const json &op) {
    const std::string o = op["o"];
    if (o == "adv") { group_advance(g, op["dt"][0].get<int64_t>() * 86400000ll + op["dt"][1].get<int64_t>(), op["skew"].get<int64_t>()); return; }
    if (o == "adj") {
        int64_t ds = op["ds"].get<int64_t>();
        g_wall_us = (uint64_t)((int64_t)g_wall_us + ds * 1000000ll);
        for (auto &mb : g.m) if (ds < 0 && mb.early()) mb.last_fired = -1;
        shared_event(g, "{\"e\":\"Adj\",\"ds\":" + std::to_string(ds) + ",");
        return;
    }
    if (o == "cal") {
        if (op.contains("wmask") == op.contains("sp")) { fprintf(stderr, "cal: exactly one of wmask/sp\n"); _exit(3); }
        for (auto &mb : g.m) if (mb.early()) return;            // environment restriction: the update calls refresh() on them
        if (op.contains("wmask")) { g.cur_wmask = op["wmask"]; g.cal->updateWeekMask(weekmask_byte(op["wmask"])); }
        else {
            std::map<int, bool> sp;
            for (auto &p : op["sp"]) sp[p[0].get<int>()] = p[1].get<int>() != 0;
            g.cur_sp = op["sp"];
            g.cal->updateSpecialDays(sp);
        }
        std::string head = "{\"e\":\"Cal\",\"wmask\":" + g.cur_wmask.dump() + ",\"sp\":" + g.cur_sp.dump() + ",";
        for (auto &mb : g.m) if (mb.inited) mb.buf.push_back(head + post_of(mb.al, mb.cur_tg) + "}");   // others read the calendar at initialize()
        return;
    }
    Member &mb = g.m.at(op["a"].get<size_t>());
    if (o == "advt") {
        if (!mb.al->isEnabled()) return;
        uint32_t remain = mb.al->remainSeconds();
        if (remain > 0x7fffffffu) return;
        group_advance(g, (int64_t)remain * 1000 - (int64_t)((g_wall_us % 1000000ull) / 1000) + op["ms"].get<int64_t>(), op["skew"].get<int64_t>());
        return;
    }
    if (mb.early()) return;
    if (o == "init") {
        Member *pm = &mb;
        mb.al->setCallback([pm] {
            pm->last_fired = pm->cur_tg;
            pm->buf.push_back("{\"e\":\"Fire\"," + post_of(pm->al, pm->cur_tg) + "}");
            if (++pm->fires > 5000) { vh::fault("runaway", "more than 5000 callbacks in one execution"); }
        });
        bool r = mb.al->initialize(op["sod"].get<int>(), g.cal, op["work"].get<bool>());
        if (r) mb.inited = true;
        mb.buf.push_back("{\"e\":\"Init\",\"k\":\"workday\",\"sod\":" + op["sod"].dump() + ",\"wmask\":" + g.cur_wmask.dump() + ",\"sp\":" + g.cur_sp.dump() +
                         ",\"work\":" + op["work"].dump() + ",\"ret\":" + tf(r) + "," + post_of(mb.al, mb.cur_tg) + "}");
    } else if (o == "tz") {
        mb.al->setTimezone(op["min"].get<int>());
        mb.buf.push_back("{\"e\":\"Tz\",\"min\":" + std::to_string(op["min"].get<int>()) + "," + post_of(mb.al, mb.cur_tg) + "}");
    } else if (o == "enable") {
        bool r = mb.al->enable();
        mb.buf.push_back(std::string("{\"e\":\"Enable\",\"ret\":") + tf(r) + "," + post_of(mb.al, mb.cur_tg) + "}");
    } else if (o == "disable") {
        bool r = mb.al->disable();
        mb.buf.push_back(std::string("{\"e\":\"Disable\",\"ret\":") + tf(r) + "," + post_of(mb.al, mb.cur_tg) + "}");
    } else if (o == "refresh") {
        mb.al->refresh();
        mb.buf.push_back("{\"e\":\"Refresh\"," + post_of(mb.al, mb.cur_tg) + "}");
    } else {
        fprintf(stderr, "unknown group op %s\n", o.c_str());
        _exit(3);
    }
}
static void run_group(const json &sc, const std::string &text) {
    Group g;
    const json &st = sc["start"];
    g_wall_us = (st["w"][0].get<uint64_t>() * 86400ull + st["w"][1].get<uint64_t>()) * 1000000ull + st["w"][2].get<uint64_t>();
    g_mono_ms = st["m"][0].get<uint64_t>() * 86400000ull + st["m"][1].get<uint64_t>();
    g_sysoff = st["sys"].get<int>();
    g.ops = sc["ops"];
    g.loop = event::Loop::New();
    g.cal = new alarm::WorkdayCalendar;
    g.cur_wmask = sc["cal0"]["wmask"]; g.cur_sp = sc["cal0"]["sp"];
    {   // nobody is subscribed yet
        std::map<int, bool> sp;
        for (auto &p : g.cur_sp) sp[p[0].get<int>()] = p[1].get<int>() != 0;
        g.cal->updateWeekMask(weekmask_byte(g.cur_wmask));
        g.cal->updateSpecialDays(sp);
    }
    g.m.resize(sc["n"].get<size_t>());
    for (size_t i = 0; i < g.m.size(); ++i) {
        g.m[i].al = new ProbeWorkday(g.loop);
        g.m[i].buf.push_back("{\"e\":\"Start\",\"kind\":\"workday\",\"sys\":" + std::to_string(g_sysoff) + ",\"a\":" + std::to_string(i) +
                             ",\"script\":" + vh::jstr(text) + "," + post_of(g.m[i].al, g.m[i].cur_tg) + "}");
    }
    g_group = &g;
    std::function<void()> step = [&] {
        if (g.pc < g.ops.size()) group_op(g, g.ops[g.pc]);
        ++g.pc;
        if (g.pc >= g.ops.size() + 2) { g.loop->exitLoop(); return; }
        g.loop->runNext(step, "c20 step");
    };
    g.loop->runNext(step, "c20 step");
    g.loop->runLoop(event::Loop::Mode::kForever);
    for (auto &mb : g.m) { mb.al->setCallback(nullptr); delete mb.al; mb.al = nullptr; }
    delete g.cal;
    delete g.loop;
    flush_group();
}
static void group_pre_fault(bool) { flush_group(); }   // faults while a group runs: first write what the alarms have recorded

int main(int argc, char **argv) {
    if (argc < 4 || std::string(argv[1]) != "script") { fprintf(stderr, "usage: driver script <scripts.jsonl> <trace>\n"); return 3; }
    vh::T().open(argv[3]);
    vh::install_faults();
    vh::pre_fault() = group_pre_fault;
    verif::Hooks().steady_ms = hook_mono;
    verif::Hooks().wall_clock = hook_wall;
    verif::Hooks().tz_offset = hook_tz;
    std::ifstream in(argv[2]);
    std::string line;
    while (std::getline(in, line)) {
        if (line.empty()) continue;
        json sc = json::parse(line);
        if (sc["kind"] == "group") run_group(sc, line);
        else run_script(sc);
    }
    vh::T().close();
    return 0;
}
