// C19 conformance driver: calls the real cpp-tbox codec functions and records one ndjson line per call.
//   driver script <cases.jsonl> <out.ndjson> <exact|guard>      cases: one JSON call descriptor (or an array of them) per
//                                                                line; recorded trace lines are valid descriptors too (replay)
//   driver random <seed> <nexec> <out.ndjson> <exact|guard> [kind,kind,...]
// Buffers: every input lives in an exactly sized heap block (AddressSanitizer sees any read outside it).  Every output
// area has exactly the advertised capacity: in `exact` mode it is its own heap block (ASan sees any write beyond it), in
// `guard` mode it lies between two 64-byte guard regions whose integrity is logged ("g").
// The trace is validated by TLC against spec/Codecs/Trace_Codecs.tla; this program decides nothing.
#include <vh.h>
#include <algorithm>
#include <fstream>
#include <memory>
#include <set>
#include <nlohmann/json.hpp>
#include <tbox/util/base64.h>
#include <tbox/util/string.h>
#include <tbox/util/scalable_integer.h>
#include <tbox/util/serializer.h>
#include <tbox/util/crc.h>
#include <tbox/util/checksum.h>
#include <tbox/http/url.h>
#include <tbox/crypto/md5.h>
#include <tbox/crypto/aes.h>

using json = nlohmann::json;
using Bytes = std::vector<uint8_t>;
namespace b64 = tbox::util::base64;

static bool g_guard = false;                 // buffer mode
static std::string g_current;                // descriptor of the call in progress (for Fault reports)
// placement of the buffers of the current call: every input copy starts `g_ioff` bytes, every output area `g_ooff` bytes after a
// malloc()ed (16-byte aligned) address and still ends exactly at the end of its block - so the code sees every misalignment of
// its pointers, and a read or write beyond the end lands in ASan's redzone whatever the alignment
static size_t g_ioff = 0, g_ooff = 0;

// ---------------------------------------------------------------------------------------------- buffers
static const size_t G = 64;
struct OutBuf {                              // an output area of exactly `cap` bytes
    uint8_t *base = nullptr, *p = nullptr; size_t cap = 0;
    explicit OutBuf(size_t c) { reset(c); }
    OutBuf() {}
    OutBuf(const OutBuf &) = delete;
    uint8_t *gb = nullptr;                     // guard mode: start of the front guard
    void reset(size_t c) {
        free(base); cap = c;
        if (g_guard) {
            base = (uint8_t *)malloc(g_ooff + c + 2 * G); gb = base + g_ooff;
            for (size_t i = 0; i < G; ++i) { gb[i] = (uint8_t)(0xD0 + (i & 15)); gb[G + c + i] = (uint8_t)(0xB0 + (i & 15)); }
            p = gb + G;
        } else {
            base = (uint8_t *)malloc(g_ooff + c);          // malloc(0): a valid pointer to zero usable bytes
            p = base + g_ooff;
        }
        for (size_t i = 0; i < c; ++i) p[i] = fill(i);
    }
    static uint8_t fill(size_t i) { return (uint8_t)(0xA5 + 3 * i); }
    bool intact() const {
        if (!g_guard) return true;
        for (size_t i = 0; i < G; ++i) if (gb[i] != (uint8_t)(0xD0 + (i & 15)) || gb[G + cap + i] != (uint8_t)(0xB0 + (i & 15))) return false;
        return true;
    }
    ~OutBuf() { free(base); }
};
struct InBuf {                               // exactly sized heap copy of an input, g_ioff bytes into its block
    uint8_t *base, *p; size_t n;
    explicit InBuf(const Bytes &b, bool nul = false) : n(b.size()) {
        base = (uint8_t *)malloc(g_ioff + n + (nul ? 1 : 0)); p = base + g_ioff;
        if (n) memcpy(p, b.data(), n);
        if (nul) p[n] = 0;
    }
    InBuf(const InBuf &) = delete;
    ~InBuf() { free(base); }
};

static Bytes bytes_of(const json &j) { Bytes b; for (auto &x : j) b.push_back((uint8_t)x.get<int>()); return b; }
static json jbytes(const uint8_t *p, size_t n) { json a = json::array(); for (size_t i = 0; i < n; ++i) a.push_back((int)p[i]); return a; }
static json jbytes(const Bytes &b) { return jbytes(b.data(), b.size()); }
static json jbytes(const std::string &s) { return jbytes((const uint8_t *)s.data(), s.size()); }
static std::string str_of(const Bytes &b) { return std::string((const char *)b.data(), b.size()); }

// every line is flushed: when the process dies inside a call the file still ends with the "Call" line of that call
static void emit(const json &rec) { vh::T().line(rec.dump()); vh::T().flush(); }
static void announce(const std::string &descriptor) { vh::T().line("{\"e\":\"Call\",\"c\":" + descriptor + "}"); vh::T().flush(); }

template <class F> static std::string guarded(F f) {        // exception kind ("" = none)
    try { f(); return ""; }
    catch (const tbox::util::string::NotAZaz09Exception &) { return "NotAZaz09"; }
    catch (const tbox::util::string::MoreThan2CharException &) { return "MoreThan2Char"; }
    catch (const std::out_of_range &) { return "out_of_range"; }
    catch (const std::exception &e) { return std::string("std:") + typeid(e).name(); }
}

// ---------------------------------------------------------------------------------------------- 64-bit <-> base-128 digits
static uint64_t from_digits(const json &d) { uint64_t v = 0; for (auto &x : d) v = (v << 7) | (uint64_t)x.get<int>(); return v; }
static json to_digits(uint64_t v) { json a = json::array(); for (int i = 9; i >= 0; --i) a.push_back((int)((v >> (7 * i)) & 0x7f)); return a; }

// ---------------------------------------------------------------------------------------------- serializer state
static std::unique_ptr<OutBuf> ser_buf;
static std::unique_ptr<Bytes> ser_vec;
static std::unique_ptr<tbox::util::Serializer> ser;
static std::unique_ptr<InBuf> des_buf;
static std::unique_ptr<tbox::util::Deserializer> des;
static void ser_reset() { ser.reset(); ser_buf.reset(); ser_vec.reset(); des.reset(); des_buf.reset(); }
static std::unique_ptr<tbox::crypto::AES> aes_obj;      // the one AES object of an execution (histories: ctor, setKey, cipher, invcipher)
static json ser_mem() { return ser_vec ? jbytes(*ser_vec) : jbytes(ser_buf->p, ser_buf->cap); }
static tbox::util::Endian endian_of(bool big) { return big ? tbox::util::Endian::kBig : tbox::util::Endian::kLittle; }
static size_t need_of(long long n) { return n < 0 ? (size_t)-1 - (size_t)(-n - 1) : (size_t)n; }      // -1 -> SIZE_MAX, -2 -> SIZE_MAX-1 ...

// ---------------------------------------------------------------------------------------------- one call
static void exec(json d) {
    if (d.contains("e") && d["e"] == "Call") d = d["c"];
    const std::string e = d.value("e", "");
    g_current = d.dump();
    json r = {{"e", e}};
    if (e == "Reset") { ser_reset(); aes_obj.reset(); emit(r); return; }
    if (e == "Fault") return;
    announce(g_current);                       // (the orchestrator drops the Call lines of calls that returned)
    g_ioff = d.value("ioff", 0); g_ooff = d.value("ooff", 0);
    if (e == "B64Enc") {
        Bytes in = bytes_of(d["in"]); std::string v = d["v"]; size_t cap = d.value("cap", 0);
        InBuf ib(in);
        r["in"] = d["in"]; r["v"] = v; r["cap"] = cap; r["adv"] = b64::EncodeLength(in.size());
        if (v == "buf") {
            OutBuf ob(cap);
            size_t ret = b64::Encode(ib.p, ib.n, (char *)ob.p, cap);
            r["ret"] = ret; r["out"] = jbytes(ob.p, std::min(ret, cap)); r["g"] = ob.intact();
        } else if (v == "str") {
            std::string s = b64::Encode(ib.p, ib.n);
            r["ret"] = s.size(); r["out"] = jbytes(s); r["g"] = true;
        } else {
            std::string s = b64::Encode(in);
            r["ret"] = s.size(); r["out"] = jbytes(s); r["g"] = true;
        }
    } else if (e == "B64Dec") {
        Bytes in = bytes_of(d["in"]); std::string v = d["v"]; size_t cap = d.value("cap", 0);
        r["in"] = d["in"]; r["v"] = v; r["cap"] = cap;
        if (v == "buf") {
            InBuf ib(in); OutBuf ob(cap);
            r["adv"] = b64::DecodeLength((const char *)ib.p, ib.n);
            size_t ret = b64::Decode((const char *)ib.p, ib.n, ob.p, cap);
            r["ret"] = ret; r["out"] = jbytes(ob.p, std::min(ret, cap)); r["g"] = ob.intact();
        } else if (v == "cstr") {                                   // NUL-terminated variant (input must not contain 0)
            InBuf ib(in, true); OutBuf ob(cap);
            r["adv"] = b64::DecodeLength((const char *)ib.p);
            size_t ret = b64::Decode((const char *)ib.p, ob.p, cap);
            r["ret"] = ret; r["out"] = jbytes(ob.p, std::min(ret, cap)); r["g"] = ob.intact();
        } else {
            std::string s = str_of(in); Bytes out;
            r["adv"] = b64::DecodeLength(s);
            size_t ret = b64::Decode(s, out);
            r["ret"] = ret; r["out"] = jbytes(out); r["g"] = true;
        }
    } else if (e == "HexEnc") {
        Bytes in = bytes_of(d["in"]); InBuf ib(in);
        std::string s = tbox::util::string::RawDataToHexStr(ib.p, (uint16_t)ib.n, d["up"].get<bool>(), str_of(bytes_of(d["delim"])));
        r["in"] = d["in"]; r["up"] = d["up"]; r["delim"] = d["delim"]; r["out"] = jbytes(s);
    } else if (e == "HexDecBuf") {
        Bytes in = bytes_of(d["in"]); size_t cap = d.value("cap", 0);
        OutBuf ob(cap); size_t ret = 0;
        std::string exc = guarded([&] { ret = tbox::util::string::HexStrToRawData(str_of(in), ob.p, (uint16_t)cap); });
        r["in"] = d["in"]; r["cap"] = cap; r["ret"] = ret; r["out"] = jbytes(ob.p, std::min(ret, cap)); r["g"] = ob.intact(); r["exc"] = exc;
    } else if (e == "HexDecVec") {
        Bytes in = bytes_of(d["in"]); Bytes out; size_t ret = 0;
        std::string exc = guarded([&] { ret = tbox::util::string::HexStrToRawData(str_of(in), out, str_of(bytes_of(d["delim"]))); });
        r["in"] = d["in"]; r["delim"] = d["delim"]; r["ret"] = ret; r["out"] = jbytes(out); r["exc"] = exc;
    } else if (e == "ScalEnc") {
        uint64_t v = from_digits(d["d"]); size_t cap = d.value("cap", 0);
        OutBuf ob(cap);
        size_t ret = tbox::util::DumpScalableInteger(v, ob.p, cap);
        r["d"] = to_digits(v); r["cap"] = cap; r["ret"] = ret; r["out"] = jbytes(ob.p, std::min(ret, cap)); r["g"] = ob.intact();
    } else if (e == "ScalDec") {
        Bytes in = bytes_of(d["in"]); InBuf ib(in); uint64_t v = 0;
        size_t ret = tbox::util::ParseScalableInteger(ib.p, ib.n, v);
        r["in"] = d["in"]; r["ret"] = ret; r["d"] = to_digits(v);
    } else if (e == "UrlEnc") {
        Bytes in = bytes_of(d["in"]); bool path = d["path"];
        std::string s = tbox::http::UrlEncode(str_of(in), path), back;
        std::string bexc = guarded([&] { back = tbox::http::UrlDecode(s); });
        r["in"] = d["in"]; r["path"] = path; r["out"] = jbytes(s); r["back"] = jbytes(back); r["bexc"] = bexc;
    } else if (e == "UrlDec") {
        Bytes in = bytes_of(d["in"]); std::string out;
        std::string exc = guarded([&] { out = tbox::http::UrlDecode(str_of(in)); });
        r["in"] = d["in"]; r["out"] = jbytes(out); r["exc"] = exc;
    } else if (e == "Sum8" || e == "Sum16" || e == "Crc16" || e == "Crc32") {
        Bytes in = bytes_of(d["in"]); InBuf ib(in);
        r["in"] = d["in"];
        if (e == "Sum8") {                                            // ver: the function again on input ++ its own checksum
            uint8_t c = tbox::util::CalcCheckSum8(ib.p, ib.n); r["ret"] = (int)c;
            Bytes w = in; w.push_back(c); InBuf wb(w); r["ver"] = (int)tbox::util::CalcCheckSum8(wb.p, wb.n);
        } else if (e == "Sum16") {
            uint16_t c = tbox::util::CalcCheckSum16(ib.p, ib.n); r["ret"] = (int)c;
            Bytes w = in; if (w.size() & 1) w.push_back(0); w.push_back((uint8_t)(c >> 8)); w.push_back((uint8_t)c);
            InBuf wb(w); r["ver"] = (int)tbox::util::CalcCheckSum16(wb.p, wb.n);
        }
        else if (e == "Crc16") r["ret"] = (int)tbox::util::CalcCrc16(ib.p, ib.n);
        else { uint32_t c = tbox::util::CalcCrc32(ib.p, ib.n); r["ret"] = {(int)(c >> 16), (int)(c & 0xffff)}; }
    } else if (e == "Md5") {
        Bytes msg = bytes_of(d["msg"]); std::string mode = d.value("mode", "all2"); uint64_t seed = d.value("seed", 1);
        InBuf ib(msg);
        std::set<Bytes> digests; long long n = 0; bool intact = true;
        auto run = [&](const std::vector<size_t> &cuts) {          // cuts: ascending positions 0..L where a new update starts
            tbox::crypto::MD5 md5; size_t prev = 0;
            for (size_t c : cuts) { InBuf part(Bytes(msg.begin() + prev, msg.begin() + c)); md5.update(part.p, part.n); prev = c; }
            InBuf last(Bytes(msg.begin() + prev, msg.end())); md5.update(last.p, last.n);
            OutBuf ob(16); md5.finish(ob.p);
            digests.insert(Bytes(ob.p, ob.p + 16)); ++n;
            intact = intact && ob.intact();
        };
        size_t L = msg.size();
        run({});
        if (mode == "all2" || mode == "all3") for (size_t a = 0; a <= L; ++a) run({a});
        if (mode == "all3") for (size_t a = 0; a <= L; ++a) for (size_t b = a; b <= L; ++b) run({a, b});
        if (mode == "bytes" || mode == "all3") { std::vector<size_t> c; for (size_t i = 1; i < L; ++i) c.push_back(i); run(c); }
        if (mode == "rand") {
            vh::Rng rng(seed);
            for (int k = 0; k < 64; ++k) { std::vector<size_t> c; int parts = (int)rng.range(1, 6); for (int i = 0; i < parts; ++i) c.push_back((size_t)rng.below(L + 1)); std::sort(c.begin(), c.end()); run(c); }
        }
        json ds = json::array(); for (auto &x : digests) ds.push_back(jbytes(x));
        r["msg"] = d["msg"]; r["mode"] = mode; r["seed"] = seed; r["n"] = n; r["digests"] = ds; r["g"] = intact;
    } else if (e == "Md5Big") {
        // a message of 2^lg + delta bytes (>= 2^29 bytes = 2^32 bits: the bit count carries into its high word) hashed with ONE
        // update() call, and the same bytes hashed in several ways of splitting them; pat = 0: zero bytes, else byte i = i*131+pat
        int lg = d["lg"]; long long delta = d.value("delta", 0LL); int pat = d.value("pat", 0); int ways = d.value("ways", 3);
        size_t N = ((size_t)1 << lg) + (size_t)delta;
        uint8_t *buf = (uint8_t *)calloc(N, 1);
        if (!buf) { fprintf(stderr, "cannot allocate %zu bytes\n", N); _exit(3); }
        if (pat) for (size_t i = 0; i < N; ++i) buf[i] = (uint8_t)(i * 131 + (size_t)pat);
        bool intact = true;
        auto run = [&](const std::vector<size_t> &cuts) {              // cuts: ascending positions where a new update starts
            tbox::crypto::MD5 md5; size_t prev = 0;
            for (size_t c : cuts) { md5.update(buf + prev, c - prev); prev = c; }
            md5.update(buf + prev, N - prev);
            OutBuf ob(16); md5.finish(ob.p); intact = intact && ob.intact();
            return Bytes(ob.p, ob.p + 16);
        };
        Bytes one = run({});
        std::set<Bytes> splits; long long n = 0;
        { std::vector<size_t> c; const size_t piece = ((size_t)1 << 27) + 13; for (size_t x = piece; x < N; x += piece) c.push_back(x); splits.insert(run(c)); ++n; }   // every piece < 2^29
        if (ways >= 2) { splits.insert(run({71})); ++n; }                                           // a few bytes, then the big rest
        if (ways >= 3) { splits.insert(run({(size_t)1 << 28, N - 3})); ++n; }                       // three updates
        free(buf);
        json ds = json::array(); for (auto &x : splits) ds.push_back(jbytes(x));
        r["lg"] = lg; r["delta"] = delta; r["pat"] = pat; r["ways"] = ways; r["one"] = jbytes(one); r["splits"] = ds; r["n"] = n; r["g"] = intact;
    } else if (e == "Aes") {
        Bytes key = bytes_of(d["key"]), in = bytes_of(d["in"]);
        bool alias = d.value("alias", false);               // in-place: the input block is also the output block
        InBuf kb(key), ib(in); OutBuf o1(16), o2(16);
        tbox::crypto::AES aes(kb.p);
        if (alias) { memcpy(o1.p, in.data(), 16); memcpy(o2.p, in.data(), 16); aes.cipher(o1.p, o1.p); aes.invcipher(o2.p, o2.p); }
        else { aes.cipher(ib.p, o1.p); aes.invcipher(ib.p, o2.p); }
        if (alias) r["alias"] = true;
        r["key"] = d["key"]; r["in"] = d["in"]; r["enc"] = jbytes(o1.p, 16); r["dec"] = jbytes(o2.p, 16); r["g"] = o1.intact() && o2.intact();
    } else if (e == "AesNew" || e == "AesSetKey") {
        Bytes key = bytes_of(d["key"]);
        {   InBuf kb(key);                                   // the key buffer is freed right after the call: the object must not keep the pointer
            if (e == "AesNew") aes_obj.reset(new tbox::crypto::AES(key.empty() ? nullptr : kb.p));
            else { if (!aes_obj) return; aes_obj->setKey(kb.p); } }
        r["key"] = d["key"];
    } else if (e == "AesCipher" || e == "AesInv") {
        if (!aes_obj) return;
        Bytes in = bytes_of(d["in"]); bool alias = d.value("alias", false);
        InBuf ib(in); OutBuf ob(16);
        const uint8_t *src = ib.p;
        if (alias) { memcpy(ob.p, in.data(), 16); src = ob.p; }
        if (e == "AesCipher") aes_obj->cipher(src, ob.p); else aes_obj->invcipher(src, ob.p);
        r["in"] = d["in"]; r["alias"] = alias; r["out"] = jbytes(ob.p, 16); r["g"] = ob.intact();
    } else if (e == "HexBig") {
        // RawDataToHexStr of n pattern bytes (byte i = i % 251) - up to 65535 bytes, the text up to ~330 000 characters - reported
        // through its periodic structure: first period, length, and where it differs from itself one period earlier
        size_t n = d.value("n", 0); bool up = d.value("up", false); Bytes dl = bytes_of(d["delim"]); bool rt = d.value("rt", true);
        Bytes data(n); for (size_t i = 0; i < n; ++i) data[i] = (uint8_t)(i % 251);
        InBuf ib(data);
        std::string text = tbox::util::string::RawDataToHexStr(ib.p, (uint16_t)n, up, str_of(dl));
        const size_t P = 251 * (2 + dl.size());
        long long nper = 0; json where = json::array();
        for (size_t k = P; k < text.size(); ++k) if (text[k] != text[k - P]) { if (nper < 8) where.push_back(k); ++nper; }
        r["n"] = n; r["up"] = up; r["delim"] = d["delim"]; r["rt"] = rt; r["len"] = text.size();
        r["head"] = jbytes(text.substr(0, std::min(P, text.size()))); r["nper"] = nper; r["where"] = where;
        if (rt) {
            Bytes back; std::string exc = guarded([&] { tbox::util::string::HexStrToRawData(text, back, str_of(dl)); });
            long long bn = 0; for (size_t k = 251; k < back.size(); ++k) if (back[k] != back[k - 251]) ++bn;
            r["exc"] = exc; r["blen"] = back.size(); r["bnper"] = bn; r["bhead"] = jbytes(back.data(), std::min<size_t>(251, back.size()));
        }
    } else if (e == "SerNew") {
        std::string kind = d["kind"]; size_t size = d.value("size", 0); bool big = d["big"];
        ser_reset();
        if (kind == "raw") { ser_buf.reset(new OutBuf(size)); ser.reset(new tbox::util::Serializer(ser_buf->p, size, endian_of(big))); }
        else { ser_vec.reset(new Bytes()); ser.reset(new tbox::util::Serializer(*ser_vec, endian_of(big))); }
        r["kind"] = kind; r["size"] = size; r["big"] = big; r["mem"] = ser_mem();
    } else if (e == "SerEndian") {
        if (!ser) return;
        bool big = d["big"]; auto old = ser->setEndian(endian_of(big));
        r["big"] = big; r["old"] = old == tbox::util::Endian::kBig;
    } else if (e == "SerPut") {
        if (!ser) return;
        std::string form = d["form"]; long long n = d.value("n", 0LL); bool ret = false;
        Bytes v = n >= 0 ? bytes_of(d["v"]) : Bytes();
        if (n < 0) {                                                  // size close to SIZE_MAX: must fail, nothing may be read
            if (ser_vec) return;
            InBuf ib(Bytes(1, 0)); ret = form == "pod" ? ser->appendPOD(ib.p, need_of(n)) : ser->append(ib.p, need_of(n));
        } else if (form == "int") {                                   // v: most significant byte first
            uint64_t x = 0; for (uint8_t b : v) x = (x << 8) | b;
            if (v.size() == 1) ret = ser->append((uint8_t)x); else if (v.size() == 2) ret = ser->append((uint16_t)x);
            else if (v.size() == 4) ret = ser->append((uint32_t)x); else if (v.size() == 8) ret = ser->append((uint64_t)x);
            else return;
        } else { InBuf ib(v); ret = form == "pod" ? ser->appendPOD(ib.p, ib.n) : ser->append(ib.p, ib.n); }
        r["form"] = form; r["n"] = n < 0 ? n : (long long)v.size(); r["v"] = jbytes(v); r["ret"] = ret; r["pos"] = ser->pos(); r["mem"] = ser_mem();
        r["g"] = ser_buf ? ser_buf->intact() : true;
    } else if (e == "DesNew" || e == "Transfer") {
        bool big = d["big"]; Bytes data;
        if (e == "Transfer") { if (!ser) return; json m = ser_mem(); data = bytes_of(m); data.resize(ser->pos()); }
        else data = bytes_of(d["data"]);
        des.reset(); des_buf.reset(new InBuf(data)); des.reset(new tbox::util::Deserializer(des_buf->p, des_buf->n, endian_of(big)));
        r["data"] = jbytes(data); r["big"] = big;
    } else if (e == "DesEndian") {
        if (!des) return;
        bool big = d["big"]; auto old = des->setEndian(endian_of(big));
        r["big"] = big; r["old"] = old == tbox::util::Endian::kBig;
    } else if (e == "DesGet") {
        if (!des) return;
        std::string form = d["form"]; long long n = d.value("n", 0LL); bool ret = false, intact = true; Bytes v;
        if (n < 0) { OutBuf ob(1); ret = form == "pod" ? des->fetchPOD(ob.p, need_of(n)) : des->fetch(ob.p, need_of(n)); }
        else if (form == "int") {
            if (n == 1) { uint8_t x = 0; ret = des->fetch(x); v = {x}; }
            else if (n == 2) { uint16_t x = 0; ret = des->fetch(x); v = {(uint8_t)(x >> 8), (uint8_t)x}; }
            else if (n == 4) { uint32_t x = 0; ret = des->fetch(x); for (int i = 3; i >= 0; --i) v.push_back((uint8_t)(x >> (8 * i))); }
            else if (n == 8) { uint64_t x = 0; ret = des->fetch(x); for (int i = 7; i >= 0; --i) v.push_back((uint8_t)(x >> (8 * i))); }
            else return;
        } else { OutBuf ob((size_t)n); ret = form == "pod" ? des->fetchPOD(ob.p, (size_t)n) : des->fetch(ob.p, (size_t)n); v.assign(ob.p, ob.p + n); intact = ob.intact(); }
        r["form"] = form; r["n"] = n; r["ret"] = ret; r["v"] = jbytes(v); r["pos"] = des->pos(); r["g"] = intact;
    } else if (e == "DesNoCopy") {
        if (!des) return;
        long long n = d.value("n", 0LL); const void *p = des->fetchNoCopy(need_of(n));
        r["n"] = n; r["ret"] = p != nullptr; r["off"] = p ? (long long)((const uint8_t *)p - des->start()) : 0; r["pos"] = des->pos();
    } else if (e == "DesSkip") {
        if (!des) return;
        long long n = d.value("n", 0LL); bool ret = des->skip(need_of(n));
        r["n"] = n; r["ret"] = ret; r["pos"] = des->pos();
    } else if (e == "DesSetPos") {
        if (!des) return;
        size_t p = d.value("p", 0); bool ret = des->set_pos(p);
        r["p"] = p; r["ret"] = ret; r["pos"] = des->pos();
    } else { fprintf(stderr, "unknown call %s\n", g_current.c_str()); _exit(3); }
    if (g_ioff) r["ioff"] = g_ioff;
    if (g_ooff) r["ooff"] = g_ooff;
    g_ioff = g_ooff = 0;
    emit(r);
    g_current.clear();
}

// ---------------------------------------------------------------------------------------------- faults
static void install() { vh::install_faults(); }

// ---------------------------------------------------------------------------------------------- random generation
static const int kEdge[] = {0, 1, 0x3d, 0x7f, 0x80, 0xff, 0x25, 0x20};
struct Gen {
    vh::Rng rng;
    explicit Gen(uint64_t s) : rng(s) {}
    int byte() { return rng.chance(50) ? kEdge[rng.below(8)] : (int)rng.below(256); }
    size_t len() { return rng.chance(70) ? (size_t)rng.below(8) : rng.chance(80) ? (size_t)rng.below(20) : (size_t)rng.below(48); }
    json bytes(size_t n) { json a = json::array(); for (size_t i = 0; i < n; ++i) a.push_back(byte()); return a; }
    json bytes() { return bytes(len()); }
    size_t cap_near(size_t need) {                                   // exactly sufficient / one short / zero / larger / random
        switch (rng.below(6)) { case 0: case 1: return need; case 2: return need ? need - 1 : 0; case 3: return 0; case 4: return need + 1 + rng.below(4); default: return (size_t)rng.below(need + 3); }
    }
    json chars(const std::string &alphabet, size_t n) { json a = json::array(); for (size_t i = 0; i < n; ++i) a.push_back((int)(uint8_t)alphabet[rng.below(alphabet.size())]); return a; }
    void mutate(json &a, const std::string &junk) {                   // damage a well-formed string in one place
        size_t n = a.size();
        switch (rng.below(6)) {
            case 0: if (n) a[rng.below(n)] = (int)(uint8_t)junk[rng.below(junk.size())]; break;
            case 1: if (n) a.erase(a.begin() + rng.below(n)); break;                                   // drop one
            case 2: a.insert(a.begin() + rng.below(n + 1), (int)(uint8_t)junk[rng.below(junk.size())]); break;
            case 3: if (n) a.erase(a.begin() + (n - 1 - rng.below(std::min<size_t>(n, 3))), a.end()); break;   // truncate
            case 4: if (n) a[rng.below(n)] = 0x80 + (int)rng.below(128); break;
            default: a.push_back((int)(uint8_t)junk[rng.below(junk.size())]); break;
        }
    }
    json digits() {                                                   // a 64-bit value, boundary heavy
        json d = json::array();
        int mode = (int)rng.below(4);
        if (mode == 0) { int n = (int)rng.range(1, 10); for (int i = 0; i < 10; ++i) d.push_back(i < 10 - n ? 0 : (i == 9 ? (int)rng.below(3) : (i == 10 - n && n > 1 ? 1 : (rng.chance(70) ? (rng.chance(50) ? 1 : 0) : (int)rng.below(128))))); }
        else if (mode == 1) { for (int i = 0; i < 10; ++i) d.push_back(rng.chance(50) ? 127 : (int)rng.below(128)); }
        else { int n = (int)rng.range(1, 10); for (int i = 0; i < 10; ++i) d.push_back(i < 10 - n ? 0 : (int)rng.below(128)); }
        d[0] = d[0].get<int>() & 1;
        return d;
    }
    json call(const std::string &k) {
        json c = {{"e", k}};
        if (k == "B64Enc") {
            size_t n = 1 + len(); c["in"] = bytes(n); int v = (int)rng.below(4);
            c["v"] = v == 0 ? "str" : v == 1 ? "vec" : "buf"; size_t cap = cap_near(b64::EncodeLength(n)); c["cap"] = cap ? cap : 1;
        } else if (k == "B64Dec") {
            json in;
            if (rng.chance(70)) { Bytes raw = bytes_of(bytes(1 + len())); in = jbytes(b64::Encode(raw.data(), raw.size())); if (rng.chance(45)) mutate(in, "=!-_ A"); if (rng.chance(10)) mutate(in, "=="); }
            else in = chars("QUFBQQ==Az09+/=\x80\xff! ", 4 * rng.below(4) + (rng.chance(20) ? rng.below(4) : 0));
            int v = (int)rng.below(4); bool has0 = false; for (auto &x : in) has0 |= x.get<int>() == 0;
            c["v"] = v == 0 ? "vec" : (v == 1 && !has0) ? "cstr" : "buf"; c["in"] = in; c["cap"] = cap_near(in.size() / 4 * 3);
            if (rng.chance(50)) { size_t m = in.size(), pad = 0; if (m && in[m - 1] == 61) ++pad; if (m > 1 && in[m - 2] == 61) ++pad; size_t need = m / 4 * 3; need = need >= pad ? need - pad : 0; c["cap"] = cap_near(need); }
        } else if (k == "HexEnc") {
            static const char *delims[] = {"", " ", ":", ", ", " \t", "--"};
            c["in"] = bytes(); c["up"] = rng.chance(50); c["delim"] = jbytes(std::string(delims[rng.below(6)]));
        } else if (k == "HexDecBuf") {
            Bytes raw = bytes_of(bytes()); json in = jbytes(tbox::util::string::RawDataToHexStr(raw.data(), (uint16_t)raw.size(), rng.chance(50), ""));
            if (rng.chance(40)) mutate(in, "gGzZ xX-");
            c["in"] = in; c["cap"] = cap_near(in.size() / 2);
        } else if (k == "HexDecVec") {
            static const char *delims[] = {"", "", " ", ":", ", ", " \t"};
            std::string dl = delims[rng.below(6)]; Bytes raw = bytes_of(bytes());
            json in = jbytes(tbox::util::string::RawDataToHexStr(raw.data(), (uint16_t)raw.size(), rng.chance(50), dl));
            if (rng.chance(45)) mutate(in, "gGzZ xX:\t 1");
            c["in"] = in; c["delim"] = jbytes(dl);
        } else if (k == "ScalEnc") {
            json d = digits(); c["d"] = d; uint8_t tmp[16]; size_t need = tbox::util::DumpScalableInteger(from_digits(d), tmp, sizeof tmp);
            c["cap"] = cap_near(need);
        } else if (k == "ScalDec") {
            json in;
            if (rng.chance(60)) { uint8_t tmp[16]; size_t n = tbox::util::DumpScalableInteger(from_digits(digits()), tmp, sizeof tmp); in = jbytes(tmp, n); if (rng.chance(40)) mutate(in, "\x80\xff\x7f"); if (rng.chance(30)) in.push_back(byte()); }
            else { size_t n = (size_t)rng.below(14); in = json::array(); for (size_t i = 0; i < n; ++i) in.push_back(rng.chance(85) ? 0x80 + (int)rng.below(128) : (int)rng.below(128)); if (rng.chance(50)) in.push_back((int)rng.below(128)); }
            c["in"] = in;
        } else if (k == "UrlEnc") { c["in"] = bytes(); c["path"] = rng.chance(50); }
        else if (k == "UrlDec") {
            json in = jbytes(tbox::http::UrlEncode(str_of(bytes_of(bytes())), rng.chance(50)));
            if (rng.chance(50)) mutate(in, "%gG1aF%");
            if (rng.chance(15)) in = chars("%%%41gG0fF z", rng.below(8));
            c["in"] = in;
        } else if ((k == "Sum8" || k == "Sum16") && rng.chance(50)) {
            // carry-boundary family: random units (bytes / big-endian words), then a last unit chosen so that ONE fold of the
            // plain sum, (S div m) + (S mod m), lands on m-2 .. m+2 - where a second end-around carry is (or is just not) due
            const uint32_t m = k == "Sum8" ? 256 : 65536;
            size_t n = rng.chance(70) ? (size_t)rng.below(6) : (size_t)rng.below(60);
            std::vector<uint32_t> u; uint64_t S = 0;
            for (size_t i = 0; i < n; ++i) { uint32_t x = rng.chance(40) ? m - 1 - (uint32_t)rng.below(3) : rng.chance(30) ? (uint32_t)rng.below(3) : (uint32_t)rng.below(m); u.push_back(x); S += x; }
            uint32_t target = m - 2 + (uint32_t)rng.below(5), start = (uint32_t)rng.below(m), last = start;
            for (uint32_t i = 0; i < m; ++i) { uint32_t w = (start + i) % m; uint64_t T = S + w; if ((T / m) + (T % m) == target) { last = w; break; } }
            u.insert(u.begin() + rng.below(u.size() + 1), last);
            json in = json::array();
            for (uint32_t x : u) { if (m == 65536) in.push_back((int)(x >> 8)); in.push_back((int)(x & 0xff)); }
            if (m == 65536 && rng.chance(25)) in.push_back(rng.chance(50) ? 0 : byte());          // odd trailing byte
            c["in"] = in;
        } else if (k == "Sum8" || k == "Sum16" || k == "Crc16" || k == "Crc32") { c["in"] = rng.chance(10) ? bytes(rng.below(120)) : rng.chance(30) ? bytes(rng.below(4)) : bytes(); }
        else if (k == "Md5") {
            static const int lens[] = {0, 1, 2, 3, 7, 8, 55, 56, 57, 63, 64, 65, 119, 120, 121, 127, 128, 129};
            size_t n = rng.chance(70) ? (size_t)lens[rng.below(18)] : (size_t)rng.below(150);
            c["msg"] = bytes(n); c["mode"] = n <= 70 ? (rng.chance(50) ? "all3" : "all2") : (rng.chance(50) ? "all2" : "rand"); c["seed"] = rng.below(1000000);
        } else if (k == "Aes") { if (rng.chance(50)) c["alias"] = true; c["key"] = rng.chance(20) ? json(std::vector<int>(16, rng.chance(50) ? 0 : 255)) : bytes(16); c["in"] = rng.chance(20) ? json(std::vector<int>(16, rng.chance(50) ? 0 : 255)) : bytes(16); }
        return c;
    }
    // one history of one AES object
    void aesobj(std::vector<json> &out) {
        std::vector<json> keys = {bytes(16), bytes(16), json(std::vector<int>(16, 0))};
        out.push_back({{"e", "AesNew"}, {"key", rng.chance(25) ? json::array() : keys[rng.below(3)]}});
        bool keyed = !out.back()["key"].empty(); json lastout;
        int n = (int)rng.range(3, 9);
        for (int i = 0; i < n; ++i) {
            int f = (int)rng.below(10);
            if (!keyed || f < 3) { out.push_back({{"e", "AesSetKey"}, {"key", keys[rng.below(3)]}}); keyed = true; }
            else out.push_back({{"e", f < 6 ? "AesCipher" : "AesInv"}, {"in", bytes(16)}, {"alias", rng.chance(40)}});
        }
    }
    // one serializer / deserializer episode
    void serial(std::vector<json> &out) {
        bool raw = rng.chance(70); size_t size = raw ? (size_t)rng.below(20) : 0;
        out.push_back({{"e", "SerNew"}, {"kind", raw ? "raw" : "vec"}, {"size", size}, {"big", rng.chance(50)}});
        int nput = (int)rng.range(1, 7);
        static const int widths[] = {1, 2, 4, 8};
        for (int i = 0; i < nput; ++i) {
            if (rng.chance(15)) out.push_back({{"e", "SerEndian"}, {"big", rng.chance(50)}});
            int f = (int)rng.below(10);
            if (f < 5) out.push_back({{"e", "SerPut"}, {"form", "int"}, {"v", bytes((size_t)widths[rng.below(4)])}});
            else if (f < 7) out.push_back({{"e", "SerPut"}, {"form", "raw"}, {"v", bytes(rng.below(6))}});
            else if (f < 9) out.push_back({{"e", "SerPut"}, {"form", "pod"}, {"v", bytes(rng.chance(50) ? 4 : 8)}});
            else if (raw) out.push_back({{"e", "SerPut"}, {"form", rng.chance(50) ? "raw" : "pod"}, {"n", -(long long)rng.range(1, 24)}});
        }
        if (rng.chance(75)) out.push_back({{"e", "Transfer"}, {"big", rng.chance(50)}});
        else out.push_back({{"e", "DesNew"}, {"data", bytes(rng.below(14))}, {"big", rng.chance(50)}});
        int nget = (int)rng.range(1, 9);
        for (int i = 0; i < nget; ++i) {
            int f = (int)rng.below(20);
            if (f < 8) out.push_back({{"e", "DesGet"}, {"form", "int"}, {"n", widths[rng.below(4)]}});
            else if (f < 10) out.push_back({{"e", "DesGet"}, {"form", "raw"}, {"n", rng.below(6)}});
            else if (f < 12) out.push_back({{"e", "DesGet"}, {"form", "pod"}, {"n", rng.chance(50) ? 4 : 8}});
            else if (f < 14) out.push_back({{"e", "DesNoCopy"}, {"n", rng.below(6)}});
            else if (f < 16) out.push_back({{"e", "DesSkip"}, {"n", rng.below(6)}});
            else if (f < 17) out.push_back({{"e", "DesSetPos"}, {"p", rng.below(22)}});
            else if (f < 18) out.push_back({{"e", "DesEndian"}, {"big", rng.chance(50)}});
            else if (f < 19) out.push_back({{"e", rng.chance(50) ? "DesSkip" : "DesNoCopy"}, {"n", -(long long)rng.range(1, 24)}});
            else out.push_back({{"e", "DesGet"}, {"form", rng.chance(50) ? "raw" : "pod"}, {"n", -(long long)rng.range(1, 24)}});
        }
    }
};

int main(int argc, char **argv) {
    if (argc < 5) { fprintf(stderr, "usage: see the head of driver.cpp\n"); return 3; }
    std::string mode = argv[1];
    install();
    if (mode == "script" && argc == 5) {
        g_guard = std::string(argv[4]) == "guard";
        vh::T().open(argv[3]);
        std::ifstream in(argv[2]); std::string line; int since = 0;
        while (std::getline(in, line)) {
            if (line.empty() || (line[0] != '{' && line[0] != '[')) continue;
            json j = json::parse(line);
            if (j.is_array()) { for (auto &c : j) exec(c); exec({{"e", "Reset"}}); since = 0; }
            else { exec(j); if (j.value("e", "") == "Reset") since = 0; else if (++since >= 50 && !ser && !des) { exec({{"e", "Reset"}}); since = 0; } }
        }
        if (since) exec({{"e", "Reset"}});
    } else if (mode == "random" && argc >= 6) {
        uint64_t seed = strtoull(argv[2], nullptr, 10); int nexec = atoi(argv[3]);
        g_guard = std::string(argv[5]) == "guard";
        vh::T().open(argv[4]);
        std::vector<std::string> kinds;
        if (argc >= 7) { std::string s = argv[6]; size_t p = 0; while (p <= s.size()) { size_t q = s.find(',', p); if (q == std::string::npos) q = s.size(); kinds.push_back(s.substr(p, q - p)); p = q + 1; } }
        else kinds = {"B64Enc", "B64Dec", "HexEnc", "HexDecBuf", "HexDecVec", "ScalEnc", "ScalDec", "UrlEnc", "UrlDec", "Sum8", "Sum16", "Crc16", "Crc32", "Serial"};
        Gen g(seed);
        for (int x = 0; x < nexec; ++x) {
            for (auto &k : kinds) {
                int reps = (k == "Md5" || k == "Aes" || k == "AesObj") ? 1 : 3;
                for (int i = 0; i < reps; ++i) {
                    if (k == "AesObj") { std::vector<json> ops; g.aesobj(ops); for (auto &o : ops) { if (g.rng.chance(50)) o["ioff"] = g.rng.below(8); if (g.rng.chance(50)) o["ooff"] = g.rng.below(8); exec(o); } }
                    else if (k == "Serial") { std::vector<json> ops; g.serial(ops); for (auto &o : ops) { if (g.rng.chance(50)) o["ioff"] = g.rng.below(8); if (g.rng.chance(50)) o["ooff"] = g.rng.below(8); exec(o); } }
                    else { json c = g.call(k); if (g.rng.chance(60)) c["ioff"] = g.rng.below(8); if (g.rng.chance(40)) c["ooff"] = g.rng.below(8); exec(c); }
                }
            }
            exec({{"e", "Reset"}});
        }
    } else return 3;
    vh::T().flush();
    return 0;
}
