-------------------------------- MODULE Aes --------------------------------
(* AES-128 (FIPS-197) as reference operators over bytes (C19).                 *)
(* Nothing is tabulated: the S-box is computed from the multiplicative inverse *)
(* in GF(2^8) (modulus x^8+x^4+x^3+x+1) followed by the affine map of section  *)
(* 5.1.1; the round constants are powers of x.                                 *)
(* A block / key is a sequence of 16 bytes; the state is kept in the same       *)
(* column-major order as the input (byte r + 4c is row r, column c).            *)
EXTENDS CodecBase

XTime(a) == IF a >= 128 THEN BXor((a * 2) % 256, 27) ELSE a * 2          \* multiply by x
Bit(v, i) == (v \div Pow2(i)) % 2
\* a * b = sum over the bits i of b of a * x^i   (written without recursion so that TLC pre-computes the S-box constants)
GMul(a, b) == LET x1 == XTime(a)  x2 == XTime(x1)  x3 == XTime(x2)  x4 == XTime(x3)  x5 == XTime(x4)  x6 == XTime(x5)  x7 == XTime(x6)
                  t(i, v) == IF Bit(b, i) = 1 THEN v ELSE 0
              IN BXor(BXor(BXor(t(0, a), t(1, x1)), BXor(t(2, x2), t(3, x3))), BXor(BXor(t(4, x4), t(5, x5)), BXor(t(6, x6), t(7, x7))))
\* inverse: a^254 (0 maps to 0), by square-and-multiply
GSq(a) == GMul(a, a)
GInv(a) == LET a2 == GSq(a)  a4 == GSq(a2)  a8 == GSq(a4)  a16 == GSq(a8)  a32 == GSq(a16)  a64 == GSq(a32)  a128 == GSq(a64)
           IN GMul(a128, GMul(a64, GMul(a32, GMul(a16, GMul(a8, GMul(a4, a2))))))
\* affine transformation: b'_i = b_i + b_(i+4) + b_(i+5) + b_(i+6) + b_(i+7) + c_i, c = 0x63
Affine(b) == LET bit(i) == (Bit(b, i) + Bit(b, (i + 4) % 8) + Bit(b, (i + 5) % 8) + Bit(b, (i + 6) % 8) + Bit(b, (i + 7) % 8) + Bit(99, i)) % 2
             IN bit(0) + 2 * bit(1) + 4 * bit(2) + 8 * bit(3) + 16 * bit(4) + 32 * bit(5) + 64 * bit(6) + 128 * bit(7)
SBoxT == Force([i \in 1..256 |-> Affine(GInv(i - 1))])             \* SBoxT[a + 1] = S-box of a
\* inverse S-box (section 5.3.2): inverse affine map b_i = b'_(i+2) + b'_(i+5) + b'_(i+7) + d_i, d = 0x05, then the inverse
InvAffine(b) == LET bit(i) == (Bit(b, (i + 2) % 8) + Bit(b, (i + 5) % 8) + Bit(b, (i + 7) % 8) + Bit(5, i)) % 2
                IN bit(0) + 2 * bit(1) + 4 * bit(2) + 8 * bit(3) + 16 * bit(4) + 32 * bit(5) + 64 * bit(6) + 128 * bit(7)
InvSBoxT == Force([i \in 1..256 |-> GInv(InvAffine(i - 1))])
\* TLC does not pre-compute constants that depend on the Bitwise module, so a specification computes the two tables
\* once (in its initial state: AesTables) and hands them to the operators below as T.
AesTables == [sb |-> SBoxT, isb |-> InvSBoxT]
SBox(T, a) == T.sb[a + 1]
InvSBox(T, a) == T.isb[a + 1]

RECURSIVE RCon(_)
RCon(i) == IF i = 1 THEN 1 ELSE XTime(RCon(i - 1))                          \* x^(i-1)

\* key expansion: 44 words w[0..43], each a sequence of 4 bytes
XorW(a, b) == Force([i \in 1..4 |-> BXor(a[i], b[i])])
SubRot(T, w, rc) == <<BXor(SBox(T, w[2]), rc), SBox(T, w[3]), SBox(T, w[4]), SBox(T, w[1])>>      \* SubWord(RotWord(w)) xor Rcon
RECURSIVE KeyWords(_, _, _)
KeyWords(T, ws, i) ==                                   \* ws = words 0..i-1 as a sequence (index +1)
  IF i = 44 THEN ws
  ELSE LET prev == ws[i]
           t == IF i % 4 = 0 THEN SubRot(T, prev, RCon(i \div 4)) ELSE prev
       IN KeyWords(T, Append(ws, XorW(ws[i - 3], t)), i + 1)
KeySchedule(T, key) == KeyWords(T, Force([j \in 1..4 |-> SubSeq(key, 4 * j - 3, 4 * j)]), 4)
RoundKey(ks, r) == ks[4 * r + 1] \o ks[4 * r + 2] \o ks[4 * r + 3] \o ks[4 * r + 4]     \* r = 0..10, 16 bytes

AddRK(s, k) == Force([i \in 1..16 |-> BXor(s[i], k[i])])
SubBytes(T, s) == Force([i \in 1..16 |-> SBox(T, s[i])])
InvSubBytes(T, s) == Force([i \in 1..16 |-> InvSBox(T, s[i])])
\* byte index of (row r, column c), both 0..3
At(r, c) == r + 4 * c + 1
ShiftRows(s) == Force([i \in 1..16 |-> LET r == (i - 1) % 4  c == (i - 1) \div 4 IN s[At(r, (c + r) % 4)]])
InvShiftRows(s) == Force([i \in 1..16 |-> LET r == (i - 1) % 4  c == (i - 1) \div 4 IN s[At(r, (c - r + 4) % 4)]])
Mix(s, m0, m1, m2, m3) == Force([i \in 1..16 |-> LET r == (i - 1) % 4  c == (i - 1) \div 4 IN
   BXor(BXor(GMul(s[At(r, c)], m0), GMul(s[At((r + 1) % 4, c)], m1)),
        BXor(GMul(s[At((r + 2) % 4, c)], m2), GMul(s[At((r + 3) % 4, c)], m3)))])
MixColumns(s) == Mix(s, 2, 3, 1, 1)
InvMixColumns(s) == Mix(s, 14, 11, 13, 9)

RECURSIVE EncRounds(_, _, _, _)
EncRounds(T, s, ks, r) == IF r = 10 THEN AddRK(ShiftRows(SubBytes(T, s)), RoundKey(ks, 10))
                          ELSE EncRounds(T, AddRK(MixColumns(ShiftRows(SubBytes(T, s))), RoundKey(ks, r)), ks, r + 1)
Aes128Enc(T, key, block) == LET ks == KeySchedule(T, key) IN EncRounds(T, AddRK(block, RoundKey(ks, 0)), ks, 1)

RECURSIVE DecRounds(_, _, _, _)
DecRounds(T, s, ks, r) == IF r = 0 THEN AddRK(InvSubBytes(T, InvShiftRows(s)), RoundKey(ks, 0))
                          ELSE DecRounds(T, InvMixColumns(AddRK(InvSubBytes(T, InvShiftRows(s)), RoundKey(ks, r))), ks, r - 1)
Aes128Dec(T, key, block) == LET ks == KeySchedule(T, key) IN DecRounds(T, AddRK(block, RoundKey(ks, 10)), ks, 9)
=============================================================================
