---------------------------- MODULE Gen_Codecs ----------------------------
(* Behaviour generator for C19 (spec -> code): every test case of the bounded domains of module   *)
(* Laws, with every output capacity of interest (exactly sufficient, one short, zero, one more),    *)
(* is printed as a call descriptor; the C++ driver performs each call on the real functions and the  *)
(* recorded trace is validated against Trace_Codecs.  This makes the binding exhaustive over the     *)
(* small domains (all byte strings up to length MaxLen over Edge, all hostile decoder inputs ...).   *)
EXTENDS Laws, Json

VARIABLE hist
gvars == <<lvars, hist>>
Caps(need) == {need, need + 1, 0} \cup (IF need > 0 THEN {need - 1} ELSE {})
NoNul(s) == \A i \in 1..Len(s) : s[i] # 0

GInit == LInit /\ hist = <<>>
Emit1(d) == hist' = <<d>> /\ UNCHANGED lvars
GB64Enc == \E x \in ByteStrings \ {<<>>} :
             \/ \E k \in Caps(B64EncLen(Len(x))) \ {0} : Emit1([e |-> "B64Enc", in |-> x, v |-> "buf", cap |-> k])
             \/ \E v \in {"str", "vec"} : Emit1([e |-> "B64Enc", in |-> x, v |-> v, cap |-> 1])
GB64Dec == \E y \in B64Inputs :
             \/ \E k \in Caps(IF Len(y) % 4 = 0 /\ Len(y) > 0 THEN B64DecLen(y) ELSE 0), v \in {"buf", "cstr"} :
                  (v = "cstr" => NoNul(y)) /\ Emit1([e |-> "B64Dec", in |-> y, v |-> v, cap |-> k])
             \/ Emit1([e |-> "B64Dec", in |-> y, v |-> "vec", cap |-> 0])
GHexEnc == \E x \in ByteStrings, up \in BOOLEAN, dl \in {<<>>, <<32>>, <<58>>, <<44, 32>>} :
             Emit1([e |-> "HexEnc", in |-> x, up |-> up, delim |-> dl])
GHexDec == \E s \in HexInputs :
             \/ \E k \in Caps(Len(s) \div 2) : Emit1([e |-> "HexDecBuf", in |-> s, cap |-> k])
             \/ \E dl \in {<<>>, <<32>>, <<58, 32>>} : Emit1([e |-> "HexDecVec", in |-> s, delim |-> dl])
GScalEnc == \E d \in ScalValues : \E k \in Caps(ScalLen(d)) : Emit1([e |-> "ScalEnc", d |-> d, cap |-> k])
GScalDec == \E b \in ScalInputs : Emit1([e |-> "ScalDec", in |-> b])
GUrl == \/ \E s \in ByteStrings \cup SeqsUpTo({37, 47, 46, 65, 126}, 3), p \in BOOLEAN : Emit1([e |-> "UrlEnc", in |-> s, path |-> p])
        \/ \E s \in UrlInputs : Emit1([e |-> "UrlDec", in |-> s])
GSums == \E x \in ByteStrings \cup {Check9}, k \in {"Sum8", "Sum16", "Crc16", "Crc32"} : Emit1([e |-> k, in |-> x])
GSumBoundary == \/ \E x \in SumInputs16 : Emit1([e |-> "Sum16", in |-> x])
                \/ \E x \in SumInputs8 : Emit1([e |-> "Sum8", in |-> x])
GMd5 == \E i \in 1..Len(Md5Suite) : Emit1([e |-> "Md5", msg |-> Md5Suite[i][1], mode |-> IF Len(Md5Suite[i][1]) <= 30 THEN "all3" ELSE "all2", seed |-> 1])
GAes == \E i \in 1..Len(AesSuite) : Emit1([e |-> "Aes", key |-> AesSuite[i][1], in |-> AesSuite[i][2]])
                                     \/ Emit1([e |-> "Aes", key |-> AesSuite[i][1], in |-> AesSuite[i][3]])
GNext == hist = <<>> /\ (GB64Enc \/ GB64Dec \/ GHexEnc \/ GHexDec \/ GScalEnc \/ GScalDec \/ GUrl \/ GSums \/ GSumBoundary \/ GMd5 \/ GAes)
GSpec == GInit /\ [][GNext]_gvars
Emit == IF Len(hist) >= 1 THEN PrintT("BEH " \o ToJson(hist)) /\ FALSE ELSE TRUE
=============================================================================
