---------------------------- MODULE Gen_Codecs ----------------------------
(* Behaviour generator for C19 (spec -> code): every test case of the bounded domains of module   *)
(* Laws, with every output capacity of interest (exactly sufficient, one short, zero, one more),    *)
(* is printed as a call descriptor; the C++ driver performs each call on the real functions and the  *)
(* recorded trace is validated against Trace_Codecs.  This makes the binding exhaustive over the     *)
(* small domains (all byte strings up to length MaxLen over Edge, all hostile decoder inputs ...).   *)
EXTENDS Laws, Json

VARIABLE hist
gvars == <<lvars, hist>>
Caps(need) == {need, need + 1, 0} \cup (IF need > 0 THEN {need - 1} ELSE {})
NoNul(s) == \A i \in 1..Len(s) : s[i] # 0

GInit == LInit /\ hist = <<>>
Emit1(d) == hist' = <<d>> /\ UNCHANGED lvars
GB64Enc == \E x \in ByteStrings \ {<<>>} :
             \/ \E k \in Caps(B64EncLen(Len(x))) \ {0} : Emit1([e |-> "B64Enc", in |-> x, v |-> "buf", cap |-> k])
             \/ \E v \in {"str", "vec"} : Emit1([e |-> "B64Enc", in |-> x, v |-> v, cap |-> 1])
GB64Dec == \E y \in B64Inputs :
             \/ \E k \in Caps(IF Len(y) % 4 = 0 /\ Len(y) > 0 THEN B64DecLen(y) ELSE 0), v \in {"buf", "cstr"} :
                  (v = "cstr" => NoNul(y)) /\ Emit1([e |-> "B64Dec", in |-> y, v |-> v, cap |-> k])
             \/ Emit1([e |-> "B64Dec", in |-> y, v |-> "vec", cap |-> 0])
GHexEnc == \E x \in ByteStrings, up \in BOOLEAN, dl \in {<<>>, <<32>>, <<58>>, <<44, 32>>} :
             Emit1([e |-> "HexEnc", in |-> x, up |-> up, delim |-> dl])
GHexDec == \E s \in HexInputs :
             \/ \E k \in Caps(Len(s) \div 2) : Emit1([e |-> "HexDecBuf", in |-> s, cap |-> k])
             \/ \E dl \in {<<>>, <<32>>, <<58, 32>>} : Emit1([e |-> "HexDecVec", in |-> s, delim |-> dl])
GScalEnc == \E d \in ScalValues : \E k \in Caps(ScalLen(d)) : Emit1([e |-> "ScalEnc", d |-> d, cap |-> k])
GScalDec == \E b \in ScalInputs : Emit1([e |-> "ScalDec", in |-> b])
GUrl == \/ \E s \in ByteStrings \cup SeqsUpTo({37, 47, 46, 65, 126}, 3), p \in BOOLEAN : Emit1([e |-> "UrlEnc", in |-> s, path |-> p])
        \/ \E s \in UrlInputs : Emit1([e |-> "UrlDec", in |-> s])
GSums == \E x \in ByteStrings \cup {Check9}, k \in {"Sum8", "Sum16", "Crc16", "Crc32"} : Emit1([e |-> k, in |-> x])
GSumBoundary == \/ \E x \in SumInputs16 : Emit1([e |-> "Sum16", in |-> x])
                \/ \E x \in SumInputs8 : Emit1([e |-> "Sum8", in |-> x])
GMd5 == \E i \in 1..Len(Md5Suite) : Emit1([e |-> "Md5", msg |-> Md5Suite[i][1], mode |-> IF Len(Md5Suite[i][1]) <= 30 THEN "all3" ELSE "all2", seed |-> 1])
GAes == \E i \in 1..Len(AesSuite) : Emit1([e |-> "Aes", key |-> AesSuite[i][1], in |-> AesSuite[i][2]])
                                     \/ Emit1([e |-> "Aes", key |-> AesSuite[i][1], in |-> AesSuite[i][3]])
\* call shapes: every function that takes (pointer, length) is called with its input at every misalignment 0..7 of the
\* pointer (the block still ends where the input ends) for every short length 0..8, and with the output misaligned likewise;
\* AES also in place (input block = output block).  The expected result does not depend on the shape.
Short(n, a) == [i \in 1..n |-> (a + 37 * i) % 256]
ShortInputs == {Short(n, a) : n \in 0..8, a \in {0, 219}}
Offs == 0..7
GPlacement ==
  \/ \E x \in ShortInputs, o \in Offs, k \in {"Sum8", "Sum16", "Crc16", "Crc32"} : Emit1([e |-> k, in |-> x, ioff |-> o])
  \/ \E x \in ShortInputs \ {<<>>}, o \in Offs : Emit1([e |-> "B64Enc", in |-> x, v |-> "buf", cap |-> B64EncLen(Len(x)), ioff |-> o, ooff |-> 7 - o])
  \/ \E x \in ShortInputs \ {<<>>}, o \in Offs, v \in {"buf", "cstr"} :
        Emit1([e |-> "B64Dec", in |-> B64Enc(x), v |-> v, cap |-> Len(x), ioff |-> o, ooff |-> (o + 3) % 8])
  \/ \E x \in ShortInputs, o \in Offs : Emit1([e |-> "HexEnc", in |-> x, up |-> FALSE, delim |-> <<>>, ioff |-> o])
  \/ \E x \in ShortInputs, o \in Offs : Emit1([e |-> "HexDecBuf", in |-> HexEnc(x, TRUE, <<>>), cap |-> Len(x), ooff |-> o])
  \/ \E d \in Boundaries, o \in Offs :
        \/ Emit1([e |-> "ScalDec", in |-> ScalEnc(d), ioff |-> o])
        \/ Emit1([e |-> "ScalEnc", d |-> d, cap |-> ScalLen(d), ooff |-> o])
  \/ \E x \in {Short(n, 219) : n \in {0, 1, 2, 3, 63, 64, 65}}, o \in Offs : Emit1([e |-> "Md5", msg |-> x, mode |-> "all2", seed |-> 1, ioff |-> o, ooff |-> 7 - o])
  \/ \E i \in 1..Len(AesSuite), o \in Offs, al \in BOOLEAN, j \in 2..3 :
        Emit1([e |-> "Aes", key |-> AesSuite[i][1], in |-> AesSuite[i][j], alias |-> al, ioff |-> o, ooff |-> (o + 5) % 8])
GNext == hist = <<>> /\ (GPlacement \/ GB64Enc \/ GB64Dec \/ GHexEnc \/ GHexDec \/ GScalEnc \/ GScalDec \/ GUrl \/ GSums \/ GSumBoundary \/ GMd5 \/ GAes)
GSpec == GInit /\ [][GNext]_gvars
Emit == IF Len(hist) >= 1 THEN PrintT("BEH " \o ToJson(hist)) /\ FALSE ELSE TRUE
=============================================================================
