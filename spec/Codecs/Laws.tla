-------------------------------- MODULE Laws --------------------------------
(* C19 at model level: the laws of the statement, checked by TLC on the reference     *)
(* operators over every element of small but adversarial domains.                     *)
(* One behaviour = pick one test case (a named action per codec) ; the laws are        *)
(* invariants over the picked case.  The published check values (RFC 1321 test suite,  *)
(* FIPS-197 examples, CRC catalogue "123456789", RFC 1071 example) tie the operators   *)
(* to the standards; the inverse/size/failure laws tie encoder and decoder operators   *)
(* to each other.                                                                      *)
EXTENDS Base64, Hex, Scalable, Url, Sums, Md5, Aes, TLC

CONSTANTS MaxLen,        \* byte strings over Edge up to this length
          MaxBin,        \* byte strings over {0, 255} up to this length
          MaxWords       \* checksum inputs: up to this many words / bytes drawn from the carry-boundary alphabets

VARIABLES c, T
lvars == <<c, T>>

Edge == {0, 1, 61, 127, 128, 255}                      \* 0x00 0x01 '=' 0x7f 0x80 0xff
SeqsUpTo(S, n) == UNION {[1..k -> S] : k \in 0..n}
ByteStrings == SeqsUpTo(Edge, MaxLen) \cup SeqsUpTo({0, 255}, MaxBin)
\* decoder inputs: everything of length <= 4 over a small hostile alphabet, and all length-8 strings whose first quad is
\* "QUJD" or "QQ==" (a pad in the middle)
B64Hostile == {65, 81, 47, 61, 128, 33}                 \* 'A' 'Q' '/' '=' 0x80 '!'
B64Inputs == SeqsUpTo(B64Hostile, 4) \cup {q \o t : q \in {<<81, 85, 74, 68>>, <<81, 81, 61, 61>>}, t \in [1..4 -> {65, 81, 61}]}
HexHostile == {48, 57, 97, 102, 65, 70, 103, 71, 32, 58, 128}    \* '0' '9' 'a' 'f' 'A' 'F' 'g' 'G' ' ' ':' 0x80
HexInputs == SeqsUpTo(HexHostile, 3) \cup [1..4 -> {48, 70, 103, 32}]
UrlHostile == {37, 52, 49, 71, 102, 32, 128}                     \* '%' '4' '1' 'G' 'f' ' ' 0x80
UrlInputs == SeqsUpTo(UrlHostile, 4)
\* checksum inputs at the carry boundaries: every sequence of <= MaxWords 16-bit words over SumWords, optionally followed
\* by an odd byte, and every sequence of <= MaxWords bytes over SumBytes8 (FFFF FFFF 0001, C000 C000 7FFF, FF FF 01 ...)
SumWords == {0, 1, 32767, 32768, 49152, 65534, 65535}     \* 0000 0001 7fff 8000 c000 fffe ffff
SumTails == {<<>>, <<1>>, <<255>>}
SumInputs16 == {BytesOfWords(ws) \o t : ws \in SeqsUpTo(SumWords, MaxWords), t \in SumTails}
SumBytes8 == {0, 1, 127, 128, 254, 255}
SumInputs8 == SeqsUpTo(SumBytes8, MaxWords)
ScalBytes == {0, 1, 127, 128, 129, 255}
ScalInputs == SeqsUpTo(ScalBytes, 3)
              \cup {[i \in 1..n |-> IF i = n THEN last ELSE IF i = 1 THEN first ELSE mid] :
                      n \in 9..12, first \in {128, 129, 255}, mid \in {128, 255}, last \in {0, 127, 128, 255}}
ScalValues == Boundaries \cup {[i \in D10 |-> IF i = 1 THEN a ELSE b] : a \in 0..1, b \in {0, 1, 64, 127}}

Str(s) == s
\* RFC 1321 appendix A.5 test suite (message, digest)
Ascii(lo, hi) == [i \in 1..(hi - lo + 1) |-> lo + i - 1]
Digits80 == [i \in 1..80 |-> 48 + (i % 10)]                                                    \* "1234567890" x 8
Md5Suite == <<
  << <<>>,                               <<212, 29, 140, 217, 143, 0, 178, 4, 233, 128, 9, 152, 236, 248, 66, 126>> >>,       \* d41d8cd98f00b204e9800998ecf8427e
  << <<97>>,                             <<12, 193, 117, 185, 192, 241, 182, 168, 49, 195, 153, 226, 105, 119, 38, 97>> >>,   \* 0cc175b9c0f1b6a831c399e269772661
  << <<97, 98, 99>>,                     <<144, 1, 80, 152, 60, 210, 79, 176, 214, 150, 63, 125, 40, 225, 127, 114>> >>,      \* 900150983cd24fb0d6963f7d28e17f72
  << <<109, 101, 115, 115, 97, 103, 101, 32, 100, 105, 103, 101, 115, 116>>,                                                  \* "message digest"
                                         <<249, 107, 105, 125, 124, 183, 147, 141, 82, 90, 47, 49, 170, 241, 97, 208>> >>,    \* f96b697d7cb7938d525a2f31aaf161d0
  << Ascii(97, 122),                     <<195, 252, 211, 215, 97, 146, 228, 0, 125, 251, 73, 108, 202, 103, 225, 59>> >>,    \* c3fcd3d76192e4007dfb496cca67e13b
  << Ascii(65, 90) \o Ascii(97, 122) \o Ascii(48, 57),
                                         <<209, 116, 171, 152, 210, 119, 217, 245, 165, 97, 28, 44, 159, 65, 157, 159>> >>,   \* d174ab98d277d9f5a5611c2c9f419d9f
  << Digits80,                           <<87, 237, 244, 162, 43, 227, 201, 85, 172, 73, 218, 46, 33, 7, 182, 122>> >> >>     \* 57edf4a22be3c955ac49da2e2107b67a
\* FIPS-197 appendix B and appendix C.1 (key, plaintext, ciphertext)
AesSuite == <<
  << <<43, 126, 21, 22, 40, 174, 210, 166, 171, 247, 21, 136, 9, 207, 79, 60>>,            \* 2b7e151628aed2a6abf7158809cf4f3c
     <<50, 67, 246, 168, 136, 90, 48, 141, 49, 49, 152, 162, 224, 55, 7, 52>>,             \* 3243f6a8885a308d313198a2e0370734
     <<57, 37, 132, 29, 2, 220, 9, 251, 220, 17, 133, 151, 25, 106, 11, 50>> >>,           \* 3925841d02dc09fbdc118597196a0b32
  << [i \in 1..16 |-> i - 1],                                                                \* 000102..0f
     [i \in 1..16 |-> 17 * (i - 1)],                                                         \* 00112233..ff
     <<105, 196, 224, 216, 106, 123, 4, 48, 216, 205, 183, 128, 112, 180, 197, 90>> >> >>   \* 69c4e0d86a7b0430d8cdb78070b4c55a

LInit == c = [k |-> "none"] /\ T = AesTables
Idle == c.k = "none"
Set(k, x) == c' = [k |-> k, x |-> x] /\ UNCHANGED T
PickB64Bytes == Idle /\ \E x \in ByteStrings : Set("b64e", x)
PickB64Chars == Idle /\ \E y \in B64Inputs : Set("b64d", y)
PickHexBytes == Idle /\ \E x \in ByteStrings, up \in BOOLEAN, dl \in {<<>>, <<32>>, <<58>>, <<44, 32>>} : Set("hexe", [x |-> x, up |-> up, dl |-> dl])
PickHexChars == Idle /\ \E s \in HexInputs : Set("hexd", s)
PickScalValue == Idle /\ \E d \in ScalValues : Set("scale", d)
PickScalBytes == Idle /\ \E b \in ScalInputs : Set("scald", b)
PickUrlBytes == Idle /\ \E s \in ByteStrings \cup SeqsUpTo({37, 47, 46, 65, 126}, 3) : Set("urle", s)
PickUrlChars == Idle /\ \E s \in UrlInputs : Set("urld", s)
PickSum == Idle /\ \E x \in ByteStrings : Set("sum", x)
PickSumBoundary == Idle /\ \E x \in SumInputs16 \cup SumInputs8 : Set("sumb", x)
PickMd5 == Idle /\ \E i \in 1..Len(Md5Suite) : Set("md5", i)
PickAes == Idle /\ \E i \in 1..Len(AesSuite) : Set("aes", i)
PickSbox == Idle /\ Set("sbox", 0)
LNext == PickB64Bytes \/ PickB64Chars \/ PickHexBytes \/ PickHexChars \/ PickScalValue \/ PickScalBytes
         \/ PickUrlBytes \/ PickUrlChars \/ PickSum \/ PickSumBoundary \/ PickMd5 \/ PickAes \/ PickSbox
LSpec == LInit /\ [][LNext]_lvars

\* ---- the laws ------------------------------------------------------------------------------------
\* Base64: exact inverse, advertised sizes, image = exactly the strings the strict decoder accepts
LawB64Inverse == c.k = "b64e" => LET y == B64Enc(c.x) IN
   /\ (Len(c.x) > 0 => B64Dec(y) = Ok(c.x))
   /\ (Len(c.x) = 0 => y = <<>> /\ B64Class(y) = "empty")          \* nothing encodes to nothing; the decoder reports 0
   /\ Len(y) = B64EncLen(Len(c.x))
   /\ (Len(c.x) > 0 => B64DecLen(y) = Len(c.x) /\ B64Class(y) = "valid")
   /\ AllIn(y, B64Chars \cup {B64Pad})
LawB64Decoder == c.k = "b64d" => LET r == B64Dec(c.x)  cl == B64Class(c.x) IN
   /\ r.ok <=> cl = "valid"
   /\ r.ok => B64Enc(r.v) = c.x /\ Len(r.v) = B64DecLen(c.x)                       \* only encoder images decode
   /\ (Len(c.x) % 4 # 0 \/ \E i \in 1..Len(c.x) : c.x[i] \notin B64Chars \cup {B64Pad}) => cl \in {"invalid", "empty"}
   /\ (\E i \in 1..(Len(c.x) - 1) : c.x[i] = B64Pad /\ c.x[i + 1] # B64Pad) => cl = "invalid"     \* '=' before data
   /\ cl = "noncanon" => B64DecLoose(c.x).ok /\ B64Enc(B64DecLoose(c.x).v) # c.x
\* hex
LawHexInverse == c.k = "hexe" => LET s == HexEnc(c.x.x, c.x.up, c.x.dl) IN
   /\ Len(s) = 2 * Len(c.x.x) + Len(c.x.dl) * (IF Len(c.x.x) = 0 THEN 0 ELSE Len(c.x.x) - 1)
   /\ IF c.x.dl = <<>> THEN HexDec(s) = Ok(c.x.x) ELSE HexDecDelim(s, Range(c.x.dl)) = Ok(c.x.x)
LawHexDecoder == c.k = "hexd" => LET r == HexDec(c.x) IN
   /\ r.ok => HexEnc(r.v, FALSE, <<>>) = [i \in 1..Len(c.x) |-> IF c.x[i] \in 65..70 THEN c.x[i] + 32 ELSE c.x[i]]
   /\ (Len(c.x) % 2 = 1 \/ \E i \in 1..Len(c.x) : ~IsHexChar(c.x[i])) => ~r.ok
   /\ LET d == HexDecDelim(c.x, {32, 58}) IN d.ok => HexDecDelimLoose(c.x, {32, 58}) = d
\* scalable integers
LawScalInverse == c.k = "scale" => LET b == ScalEnc(c.x)  r == ScalDec(b) IN
   /\ IsValue(c.x)
   /\ Len(b) = ScalLen(c.x) /\ Len(b) \in 1..10
   /\ r.ok /\ r.n = Len(b) /\ r.d = c.x
   /\ \A i \in 1..Len(b) : (b[i] >= 128) <=> (i < Len(b))
   /\ \A k \in 1..(Len(b) - 1) : ~ScalDec(SubSeq(b, 1, k)).ok                      \* every truncation fails
   /\ ScalDec(b \o <<255>>) = r                                                     \* trailing bytes are not consumed
LawScalDecoder == c.k = "scald" => LET r == ScalDec(c.x) IN
   /\ r.ok => IsValue(r.d) /\ ScalEnc(r.d) = SubSeq(c.x, 1, r.n)                    \* only encoder images decode
   /\ (\A i \in 1..Min2(Len(c.x), 10) : c.x[i] >= 128) => ~r.ok                     \* truncated, or more than ten bytes
\* URL percent-encoding: inverse for every escaped set that contains '%'
LawUrlInverse == c.k = "urle" => \A Sp \in {FullSpecial, PathSpecial, {Percent}} :
   LET y == UrlEnc(c.x, Sp) IN UrlDec(y) = Ok(c.x) /\ (Sp # {Percent} => AllIn(y, 33..126))
LawUrlDecoder == c.k = "urld" => LET r == UrlDec(c.x) IN
   /\ r.ok <=> \A i \in 1..Len(c.x) : c.x[i] = Percent => i + 2 <= Len(c.x) /\ IsHexChar(c.x[i + 1]) /\ IsHexChar(c.x[i + 2])
   /\ r.ok => Len(r.v) <= Len(c.x)
\* checksums and CRCs
LawSums == c.k = "sum" =>
   /\ CheckSum8(c.x \o <<CheckSum8(c.x)>>) = 0                                     \* appended checksum verifies (0 = -0)
   /\ (Len(c.x) % 2 = 0 => LET s == CheckSum16(c.x) IN CheckSum16(c.x \o <<s \div 256, s % 256>>) = 0)
   /\ CheckSum16(c.x) = CheckSum16(c.x \o (IF Len(c.x) % 2 = 1 THEN <<0>> ELSE <<>>))    \* odd byte is padded with zero
   /\ LET r == Crc16(c.x) IN Crc16(c.x \o <<r \div 256, r % 256>>) = 0               \* CRC-16/CCITT-FALSE residue
   /\ LET r == Crc32(c.x) IN Crc32(c.x \o <<r[2] % 256, r[2] \div 256, r[1] % 256, r[1] \div 256>>) = <<8516, 57116>>   \* residue ~0xdebb20e3 = 0x2144df1c
\* one's-complement sum (end-around carry at every addition) = plain sum with the carries folded back until none is left;
\* the appended checksum verifies; an odd byte counts as the high byte of a zero-padded word
LawSumBoundary == c.k = "sumb" =>
   /\ CheckSum16(c.x) = CheckSum16Folded(c.x) /\ CheckSum8(c.x) = CheckSum8Folded(c.x)
   /\ CheckSum8(c.x \o <<CheckSum8(c.x)>>) = 0
   /\ LET e == c.x \o (IF Len(c.x) % 2 = 1 THEN <<0>> ELSE <<>>)  s == CheckSum16(c.x) IN
        CheckSum16(e) = s /\ CheckSum16(e \o <<s \div 256, s % 256>>) = 0
\* as-found shape of a seeded defect: carries folded back once only.  NOT a law - the configuration MC_Laws_singlefold.cfg
\* expects TLC to refute it on the boundary domain (which shows that the domain reaches the second carry)
SingleFoldSuffices == c.k = "sumb" =>
   /\ CheckSum16(c.x) = 65535 - (FoldOnce(WordSumFrom(c.x, 1), 65536) % 65536)
   /\ CheckSum8(c.x) = 255 - (FoldOnce(SumFrom(c.x, 1), 256) % 256)
CheckValues ==
   /\ Crc16(Check9) = 10673                                                          \* 0x29b1
   /\ Crc32(Check9) = <<52212, 14630>>                                               \* 0xcbf43926
   /\ Crc32(<<>>) = <<0, 0>> /\ Crc16(<<>>) = 65535
   /\ CheckSum16(<<0, 1, 242, 3, 244, 245, 246, 247>>) = 8717                        \* RFC 1071 section 3: sum ddf2, checksum 220d
   /\ CheckSum8(<<>>) = 255 /\ CheckSum16(<<>>) = 65535
   /\ CheckSum8(<<255, 1>>) = 254 /\ CheckSum8(<<128, 128>>) = 254                   \* end-around carry
   /\ CheckSum16(<<255, 255, 255, 255, 0, 1>>) = 65534                                \* ffff+ffff+0001: the fold carries twice
   /\ CheckSum16(<<192, 0, 192, 0, 127, 255>>) = 65534 /\ CheckSum8(<<255, 255, 1>>) = 254
   /\ AtFoldBoundary16(<<255, 255, 255, 255, 0, 1>>) /\ AtFoldBoundary8(<<255, 255, 1>>)
   /\ \E x \in SumInputs16 : FoldOnce(WordSumFrom(x, 1), 65536) >= 65536               \* the boundary domains reach the second carry
   /\ \E x \in SumInputs8 : FoldOnce(SumFrom(x, 1), 256) >= 256
LawCheckValues == c.k = "sum" /\ c.x = <<>> => CheckValues
LawMd5 == c.k = "md5" => Md5(Md5Suite[c.x][1]) = Md5Suite[c.x][2]
LawAes == c.k = "aes" => LET t == AesSuite[c.x] IN
   /\ Aes128Enc(T, t[1], t[2]) = t[3] /\ Aes128Dec(T, t[1], t[3]) = t[2]
   /\ Aes128Dec(T, t[2], Aes128Enc(T, t[2], t[1])) = t[1]                            \* inverse with the roles swapped
LawSbox == c.k = "sbox" =>
   /\ SBox(T, 0) = 99 /\ SBox(T, 83) = 237 /\ SBox(T, 255) = 22                      \* FIPS-197 figure 7: 63, ed, 16
   /\ \A a \in 0..255 : InvSBox(T, SBox(T, a)) = a
   /\ \A a \in 1..255 : GMul(a, GInv(a)) = 1
=============================================================================
