CONSTANTS
  Inputs <- MCInputs
  Slack <- MCSlack
  EagerStore = FALSE
  SignedIndex = FALSE
  LoosePad = TRUE
SPECIFICATION ISpec
INVARIANTS ResultConforms
CHECK_DEADLOCK FALSE
