----------------------------- MODULE CodecBase -----------------------------
(* Shared helpers for the C19 reference operators.                          *)
(*  - byte strings are TLA+ sequences of integers 0..255                    *)
(*  - a decoder result is a record [ok, v]: ok = FALSE is "Failure"         *)
(*  - all arithmetic stays far below 2^31 (TLC integers are 32-bit)         *)
EXTENDS Integers, Sequences, FiniteSets, Bitwise

Byte == 0..255
Ok(v) == [ok |-> TRUE, v |-> v]
Fail == [ok |-> FALSE, v |-> <<>>]

Min2(a, b) == IF a < b THEN a ELSE b
Max2(a, b) == IF a > b THEN a ELSE b
Pow2(n) == 2 ^ n

\* bitwise operations on small non-negative integers (Java overrides of the Bitwise community module)
BAnd(a, b) == a & b
BXor(a, b) == a ^^ b
BOr(a, b) == a | b
Not16(a) == 65535 - a
Not8(a) == 255 - a

\* sequence helpers (index based, no quadratic SubSeq chains)
\* TLC keeps [i \in 1..n |-> e] as an unevaluated lambda and re-evaluates e on every application; concatenation
\* turns it into an explicit tuple once (semantically the identity on sequences)
Force(s) == s \o <<>>
Range(s) == {s[i] : i \in 1..Len(s)}
Take(s, n) == SubSeq(s, 1, Min2(n, Len(s)))
Drop(s, n) == SubSeq(s, n + 1, Len(s))
RECURSIVE FlattenFrom(_, _)
FlattenFrom(ss, i) == IF i > Len(ss) THEN <<>> ELSE ss[i] \o FlattenFrom(ss, i + 1)
Flatten(ss) == FlattenFrom(ss, 1)
AllIn(s, S) == \A i \in 1..Len(s) : s[i] \in S
IsBytes(s) == AllIn(s, Byte)

\* ASCII
IsHexChar(c) == c \in 48..57 \/ c \in 65..70 \/ c \in 97..102
HexVal(c) == IF c \in 48..57 THEN c - 48 ELSE IF c \in 65..70 THEN c - 55 ELSE IF c \in 97..102 THEN c - 87 ELSE -1
HexChar(v, upper) == IF v < 10 THEN 48 + v ELSE (IF upper THEN 55 ELSE 87) + v
=============================================================================
