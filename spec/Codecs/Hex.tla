-------------------------------- MODULE Hex --------------------------------
(* Hex strings (C19): RawDataToHexStr / HexStrToRawData as reference operators *)
EXTENDS CodecBase

HexByte(b, upper) == <<HexChar(b \div 16, upper), HexChar(b % 16, upper)>>
RECURSIVE HexEncFrom(_, _, _, _)
HexEncFrom(x, i, upper, delim) ==
  IF i > Len(x) THEN <<>>
  ELSE HexByte(x[i], upper) \o (IF i < Len(x) THEN delim ELSE <<>>) \o HexEncFrom(x, i + 1, upper, delim)
\* bytes -> characters; delim (a character string) stands between the bytes
HexEnc(x, upper, delim) == HexEncFrom(x, 1, upper, delim)

\* ---- undelimited form -----------------------------------------------------------------------
HexPlainOK(s) == Len(s) % 2 = 0 /\ AllIn(s, {c \in 0..255 : IsHexChar(c)})
HexPairs(s, k) == [i \in 1..k |-> HexVal(s[2 * i - 1]) * 16 + HexVal(s[2 * i])]     \* first k pairs
HexPairsOK(s, k) == \A i \in 1..(2 * k) : IsHexChar(s[i])
\* strict decoder: Failure unless s = HexEnc(x, _, <<>>) for some x (either letter case, also mixed)
HexDec(s) == IF HexPlainOK(s) THEN Ok(HexPairs(s, Len(s) \div 2)) ELSE Fail

Blank == {32, 9}
RECURSIVE LStrip(_, _)
LStrip(s, S) == IF Len(s) > 0 /\ s[1] \in S THEN LStrip(Tail(s), S) ELSE s
RECURSIVE RStrip(_, _)
RStrip(s, S) == IF Len(s) > 0 /\ s[Len(s)] \in S THEN RStrip(SubSeq(s, 1, Len(s) - 1), S) ELSE s
Strip(s, S) == RStrip(LStrip(s, S), S)

\* ---- delimited form: tokens separated by any character of the set D ---------------------------
RECURSIVE TokensFrom(_, _, _, _)
TokensFrom(s, i, D, cur) ==
  IF i > Len(s) THEN (IF cur = <<>> THEN <<>> ELSE <<cur>>)
  ELSE IF s[i] \in D THEN (IF cur = <<>> THEN <<>> ELSE <<cur>>) \o TokensFrom(s, i + 1, D, <<>>)
  ELSE TokensFrom(s, i + 1, D, cur \o <<s[i]>>)
Tokens(s, D) == TokensFrom(s, 1, D, <<>>)
TokOK2(t) == Len(t) = 2 /\ IsHexChar(t[1]) /\ IsHexChar(t[2])
TokOK1(t) == Len(t) = 1 /\ IsHexChar(t[1])
TokVal(t) == IF Len(t) = 2 THEN HexVal(t[1]) * 16 + HexVal(t[2]) ELSE HexVal(t[1])
\* strict: every token is exactly two hex digits
HexDecDelim(s, D) == LET ts == Tokens(s, D) IN
  IF \A i \in 1..Len(ts) : TokOK2(ts[i]) THEN Ok([i \in 1..Len(ts) |-> TokVal(ts[i])]) ELSE Fail
\* tolerant reading pinned by the repository's tests ("1 2 3 4" -> 1,2,3,4): one-digit tokens count too
HexDecDelimLoose(s, D) == LET ts == Tokens(s, D) IN
  IF \A i \in 1..Len(ts) : TokOK2(ts[i]) \/ TokOK1(ts[i]) THEN Ok([i \in 1..Len(ts) |-> TokVal(ts[i])]) ELSE Fail
=============================================================================
