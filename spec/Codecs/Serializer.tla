----------------------------- MODULE Serializer -----------------------------
(* util/serializer.h as a state machine (C19).                                        *)
(* One Serializer (over a fixed buffer of `size` bytes, or over a growing vector) and  *)
(* one Deserializer (over a byte string).  Every append / fetch / fetchNoCopy / skip   *)
(* succeeds iff  need <= size - pos  and then moves pos by exactly need; otherwise it  *)
(* fails and changes nothing.  Integers are transported as byte strings, most          *)
(* significant byte first (a 64-bit value is 8 bytes - never a TLC integer).           *)
(* `need` may be any natural number; HUGE stands for the values near SIZE_MAX, for     *)
(* which  pos + need  does not fit a machine word.                                     *)
EXTENDS CodecBase

VARIABLES ser, des, res
svars == <<ser, des, res>>

HUGE == 2000000000                     \* stands for "close to SIZE_MAX": larger than any buffer
Unwritten == -1                        \* content of a raw buffer cell that the serializer has not written
Rev(s) == Force([i \in 1..Len(s) |-> s[Len(s) + 1 - i]])

NoSer == [alive |-> FALSE, kind |-> "raw", size |-> 0, big |-> TRUE, pos |-> 0, mem |-> <<>>]
NoDes == [alive |-> FALSE, data |-> <<>>, big |-> TRUE, pos |-> 0]
SInit == ser = NoSer /\ des = NoDes /\ res = [op |-> "init"]

\* ---- the bounds rule (the heart of the property) ------------------------------------------------
SerFits(need) == ser.kind = "vec" \/ need <= ser.size - ser.pos
DesFits(need) == need <= Len(des.data) - des.pos

\* byte image of a field: integers and PODs follow the endian switch, raw blocks do not
\*   form = "int": v is most-significant-first;  "pod": v is the object representation on a little-endian host;
\*          "raw": v is copied as is
Image(form, v, big) == IF form = "int" THEN (IF big THEN v ELSE Rev(v))
                       ELSE IF form = "pod" THEN (IF big THEN Rev(v) ELSE v)
                       ELSE v

\* ---- Serializer -------------------------------------------------------------------------------
\* init = the content of the fixed buffer before the serializer touches it (Fresh(size) in the bounded models)
Fresh(size) == [i \in 1..size |-> Unwritten]
SerNew(kind, size, big, init) ==
  /\ kind = "raw" => Len(init) = size
  /\ ser' = [alive |-> TRUE, kind |-> kind, size |-> size, big |-> big, pos |-> 0,
             mem |-> IF kind = "raw" THEN init ELSE <<>>]
  /\ res' = [op |-> "sernew"]
  /\ UNCHANGED des
SerEndian(big) == /\ ser.alive
                  /\ ser' = [ser EXCEPT !.big = big]
                  /\ res' = [op |-> "serendian", old |-> ser.big]
                  /\ UNCHANGED des
\* append of a field whose value bytes are v (form as above); need = Len(v)
SerPut(form, v) ==
  /\ ser.alive
  /\ LET need == Len(v)  img == Image(form, v, ser.big) IN
     IF SerFits(need)
     THEN /\ ser' = [ser EXCEPT !.pos = ser.pos + need,
                                !.mem = IF ser.kind = "raw"
                                        THEN Force([i \in 1..ser.size |-> IF i > ser.pos /\ i <= ser.pos + need THEN img[i - ser.pos] ELSE ser.mem[i]])
                                        ELSE SubSeq(ser.mem, 1, ser.pos) \o img]
          /\ res' = [op |-> "put", ok |-> TRUE, lo |-> ser.pos + 1, hi |-> ser.pos + need]
     ELSE /\ ser' = ser
          /\ res' = [op |-> "put", ok |-> FALSE, lo |-> 1, hi |-> 0]
  /\ UNCHANGED des
\* an append whose size is near SIZE_MAX (raw buffers only): must fail without moving
SerPutHuge == /\ ser.alive /\ ser.kind = "raw"
              /\ ser' = ser /\ res' = [op |-> "put", ok |-> FALSE, lo |-> 1, hi |-> 0] /\ UNCHANGED des

\* ---- Deserializer -----------------------------------------------------------------------------
DesNew(data, big) == /\ des' = [alive |-> TRUE, data |-> data, big |-> big, pos |-> 0]
                     /\ res' = [op |-> "desnew"]
                     /\ UNCHANGED ser
\* the round trip: deserialize exactly what the serializer has produced so far
Transfer(big) == /\ ser.alive /\ \A i \in 1..ser.pos : ser.mem[i] # Unwritten
                 /\ DesNew(SubSeq(ser.mem, 1, ser.pos), big)
DesEndian(big) == /\ des.alive
                  /\ des' = [des EXCEPT !.big = big]
                  /\ res' = [op |-> "desendian", old |-> des.big]
                  /\ UNCHANGED ser
\* fetch of a field of `need` bytes; the value is reported in the same form as SerPut takes it
DesGet(form, need) ==
  /\ des.alive
  /\ IF DesFits(need)
     THEN /\ des' = [des EXCEPT !.pos = des.pos + need]
          /\ res' = [op |-> "get", ok |-> TRUE, lo |-> des.pos + 1, hi |-> des.pos + need,
                     v |-> Image(form, SubSeq(des.data, des.pos + 1, des.pos + need), des.big)]
     ELSE /\ des' = des
          /\ res' = [op |-> "get", ok |-> FALSE, lo |-> 1, hi |-> 0, v |-> <<>>]
  /\ UNCHANGED ser
\* fetchNoCopy(need): a pointer `off` bytes after the start, or null;  skip(need)
DesNoCopy(need) ==
  /\ des.alive
  /\ IF DesFits(need)
     THEN des' = [des EXCEPT !.pos = des.pos + need] /\ res' = [op |-> "nocopy", ok |-> TRUE, off |-> des.pos, lo |-> des.pos + 1, hi |-> des.pos + need]
     ELSE des' = des /\ res' = [op |-> "nocopy", ok |-> FALSE, off |-> 0, lo |-> 1, hi |-> 0]
  /\ UNCHANGED ser
DesSkip(need) ==
  /\ des.alive
  /\ IF DesFits(need)
     THEN des' = [des EXCEPT !.pos = des.pos + need] /\ res' = [op |-> "skip", ok |-> TRUE]
     ELSE des' = des /\ res' = [op |-> "skip", ok |-> FALSE]
  /\ UNCHANGED ser
\* set_pos(p): inside the data it succeeds, beyond the end it fails; p = size (the position reached after reading
\* everything) is left open: the code refuses it, the statement does not speak about it
DesSetPos(p) ==
  /\ des.alive
  /\ \/ p <= Len(des.data) /\ des' = [des EXCEPT !.pos = p] /\ res' = [op |-> "setpos", ok |-> TRUE]
     \/ p >= Len(des.data) /\ des' = des /\ res' = [op |-> "setpos", ok |-> FALSE]
  /\ UNCHANGED ser

\* ---- properties of the design ---------------------------------------------------------------------
SerTypeOK == /\ ser.pos \in Nat /\ ser.kind \in {"raw", "vec"}
             /\ (ser.kind = "raw" => Len(ser.mem) = ser.size /\ ser.pos <= ser.size)
             /\ (ser.kind = "vec" => Len(ser.mem) = ser.pos)
DesTypeOK == des.pos \in Nat /\ des.pos <= Len(des.data)
\* every byte touched by the last operation lies inside the buffer / the input
NoAccessOutside == /\ res.op = "put" /\ res.ok /\ ser.kind = "raw" => res.lo >= 1 /\ res.hi <= ser.size
                   /\ res.op \in {"get", "nocopy"} /\ res.ok => res.lo >= 1 /\ res.hi <= Len(des.data)
\* bytes before pos are all written, bytes at and after pos are untouched (raw buffer)
WrittenPrefix == ser.kind = "raw" => \A i \in 1..ser.size : (ser.mem[i] # Unwritten) <=> (i <= ser.pos)
=============================================================================
