----------------------------- MODULE AesObject -----------------------------
(* crypto::AES as an object with state (C19): the key is set by the constructor (AES(nullptr)     *)
(* leaves the object unkeyed) or by setKey(); cipher / invcipher answer with the CURRENT key,       *)
(* whatever the object did before (a cached key schedule must follow every re-keying).              *)
EXTENDS Aes
VARIABLE akey                    \* <<>> = no key yet, else the 16 key bytes
Unkeyed == <<>>
AoInit == akey = Unkeyed
AoNew(k) == akey' = k            \* AES(key) / AES(nullptr) with k = <<>>
AoSetKey(k) == Len(k) = 16 /\ akey' = k
AoCipher(T, b) == Aes128Enc(T, akey, b)          \* defined once a key is set
AoInvCipher(T, b) == Aes128Dec(T, akey, b)
=============================================================================
