---------------------------- MODULE MC_B64Impl ----------------------------
EXTENDS B64Impl
\* every string of length 4 over {'Q','U','/','=',0x80}, every string "QUJD" + 4 more over {'Q','=','!'} ,
\* and some lengths that are not a multiple of four
Alpha4 == {81, 85, 47, 61, 128}
MCInputs == [1..4 -> Alpha4] \cup {<<81, 85, 74, 68>> \o t : t \in [1..4 -> {81, 61, 33}]}
            \cup {<<>>, <<81>>, <<81, 81>>, <<81, 81, 61>>, <<81, 85, 74, 68, 81>>}
MCSlack == {1}
=============================================================================
