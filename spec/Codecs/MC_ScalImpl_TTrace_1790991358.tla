---- MODULE MC_ScalImpl_TTrace_1790991358 ----
EXTENDS Sequences, TLCExt, Toolbox, MC_ScalImpl, Naturals, TLC

_expression ==
    LET MC_ScalImpl_TEExpression == INSTANCE MC_ScalImpl_TEExpression
    IN MC_ScalImpl_TEExpression!expression
----

_trace ==
    LET MC_ScalImpl_TETrace == INSTANCE MC_ScalImpl_TETrace
    IN MC_ScalImpl_TETrace!trace
----

_inv ==
    ~(
        TLCGet("level") = Len(_TETrace)
        /\
        val = (<<0, 0, 0, 0, 0, 0, 0, 0, 0, 127>>)
        /\
        ret = (11)
        /\
        acc = (<<0, 0, 0, 0, 0, 0, 0, 0, 0, 127>>)
        /\
        pc = ("done")
        /\
        in = (<<128, 128, 128, 128, 128, 128, 128, 128, 128, 128, 127>>)
        /\
        tblidx = ({11})
        /\
        lost = (0)
        /\
        nread = (11)
        /\
        reads = ({0, 1, 2, 3, 4, 5, 6, 7, 8, 9, 10})
        /\
        i = (10)
    )
----

_init ==
    /\ reads = _TETrace[1].reads
    /\ tblidx = _TETrace[1].tblidx
    /\ val = _TETrace[1].val
    /\ i = _TETrace[1].i
    /\ pc = _TETrace[1].pc
    /\ ret = _TETrace[1].ret
    /\ acc = _TETrace[1].acc
    /\ lost = _TETrace[1].lost
    /\ in = _TETrace[1].in
    /\ nread = _TETrace[1].nread
----

_next ==
    /\ \E i,j \in DOMAIN _TETrace:
        /\ \/ /\ j = i + 1
              /\ i = TLCGet("level")
        /\ reads  = _TETrace[i].reads
        /\ reads' = _TETrace[j].reads
        /\ tblidx  = _TETrace[i].tblidx
        /\ tblidx' = _TETrace[j].tblidx
        /\ val  = _TETrace[i].val
        /\ val' = _TETrace[j].val
        /\ i  = _TETrace[i].i
        /\ i' = _TETrace[j].i
        /\ pc  = _TETrace[i].pc
        /\ pc' = _TETrace[j].pc
        /\ ret  = _TETrace[i].ret
        /\ ret' = _TETrace[j].ret
        /\ acc  = _TETrace[i].acc
        /\ acc' = _TETrace[j].acc
        /\ lost  = _TETrace[i].lost
        /\ lost' = _TETrace[j].lost
        /\ in  = _TETrace[i].in
        /\ in' = _TETrace[j].in
        /\ nread  = _TETrace[i].nread
        /\ nread' = _TETrace[j].nread

\* Uncomment the ASSUME below to write the states of the error trace
\* to the given file in Json format. Note that you can pass any tuple
\* to `JsonSerialize`. For example, a sub-sequence of _TETrace.
    \* ASSUME
    \*     LET J == INSTANCE Json
    \*         IN J!JsonSerialize("MC_ScalImpl_TTrace_1790991358.json", _TETrace)

=============================================================================

 Note that you can extract this module `MC_ScalImpl_TEExpression`
  to a dedicated file to reuse `expression` (the module in the 
  dedicated `MC_ScalImpl_TEExpression.tla` file takes precedence 
  over the module `MC_ScalImpl_TEExpression` below).

---- MODULE MC_ScalImpl_TEExpression ----
EXTENDS Sequences, TLCExt, Toolbox, MC_ScalImpl, Naturals, TLC

expression == 
    [
        \* To hide variables of the `MC_ScalImpl` spec from the error trace,
        \* remove the variables below.  The trace will be written in the order
        \* of the fields of this record.
        reads |-> reads
        ,tblidx |-> tblidx
        ,val |-> val
        ,i |-> i
        ,pc |-> pc
        ,ret |-> ret
        ,acc |-> acc
        ,lost |-> lost
        ,in |-> in
        ,nread |-> nread
        
        \* Put additional constant-, state-, and action-level expressions here:
        \* ,_stateNumber |-> _TEPosition
        \* ,_readsUnchanged |-> reads = reads'
        
        \* Format the `reads` variable as Json value.
        \* ,_readsJson |->
        \*     LET J == INSTANCE Json
        \*     IN J!ToJson(reads)
        
        \* Lastly, you may build expressions over arbitrary sets of states by
        \* leveraging the _TETrace operator.  For example, this is how to
        \* count the number of times a spec variable changed up to the current
        \* state in the trace.
        \* ,_readsModCount |->
        \*     LET F[s \in DOMAIN _TETrace] ==
        \*         IF s = 1 THEN 0
        \*         ELSE IF _TETrace[s].reads # _TETrace[s-1].reads
        \*             THEN 1 + F[s-1] ELSE F[s-1]
        \*     IN F[_TEPosition - 1]
    ]

=============================================================================



Parsing and semantic processing can take forever if the trace below is long.
 In this case, it is advised to uncomment the module below to deserialize the
 trace from a generated binary file.

\*
\*---- MODULE MC_ScalImpl_TETrace ----
\*EXTENDS IOUtils, MC_ScalImpl, TLC
\*
\*trace == IODeserialize("MC_ScalImpl_TTrace_1790991358.bin", TRUE)
\*
\*=============================================================================
\*

---- MODULE MC_ScalImpl_TETrace ----
EXTENDS MC_ScalImpl, TLC

trace == 
    <<
    ([val |-> <<0, 0, 0, 0, 0, 0, 0, 0, 0, 0>>,ret |-> 0,acc |-> <<0, 0, 0, 0, 0, 0, 0, 0, 0, 0>>,pc |-> "idle",in |-> <<>>,tblidx |-> {},lost |-> 0,nread |-> 1,reads |-> {},i |-> 0]),
    ([val |-> <<0, 0, 0, 0, 0, 0, 0, 0, 0, 0>>,ret |-> 0,acc |-> <<0, 0, 0, 0, 0, 0, 0, 0, 0, 0>>,pc |-> "loop",in |-> <<128, 128, 128, 128, 128, 128, 128, 128, 128, 128, 127>>,tblidx |-> {},lost |-> 0,nread |-> 1,reads |-> {},i |-> 0]),
    ([val |-> <<0, 0, 0, 0, 0, 0, 0, 0, 0, 0>>,ret |-> 0,acc |-> <<0, 0, 0, 0, 0, 0, 0, 0, 0, 0>>,pc |-> "loop",in |-> <<128, 128, 128, 128, 128, 128, 128, 128, 128, 128, 127>>,tblidx |-> {},lost |-> 0,nread |-> 2,reads |-> {0},i |-> 1]),
    ([val |-> <<0, 0, 0, 0, 0, 0, 0, 0, 0, 0>>,ret |-> 0,acc |-> <<0, 0, 0, 0, 0, 0, 0, 0, 0, 0>>,pc |-> "loop",in |-> <<128, 128, 128, 128, 128, 128, 128, 128, 128, 128, 127>>,tblidx |-> {},lost |-> 0,nread |-> 3,reads |-> {0, 1},i |-> 2]),
    ([val |-> <<0, 0, 0, 0, 0, 0, 0, 0, 0, 0>>,ret |-> 0,acc |-> <<0, 0, 0, 0, 0, 0, 0, 0, 0, 0>>,pc |-> "loop",in |-> <<128, 128, 128, 128, 128, 128, 128, 128, 128, 128, 127>>,tblidx |-> {},lost |-> 0,nread |-> 4,reads |-> {0, 1, 2},i |-> 3]),
    ([val |-> <<0, 0, 0, 0, 0, 0, 0, 0, 0, 0>>,ret |-> 0,acc |-> <<0, 0, 0, 0, 0, 0, 0, 0, 0, 0>>,pc |-> "loop",in |-> <<128, 128, 128, 128, 128, 128, 128, 128, 128, 128, 127>>,tblidx |-> {},lost |-> 0,nread |-> 5,reads |-> {0, 1, 2, 3},i |-> 4]),
    ([val |-> <<0, 0, 0, 0, 0, 0, 0, 0, 0, 0>>,ret |-> 0,acc |-> <<0, 0, 0, 0, 0, 0, 0, 0, 0, 0>>,pc |-> "loop",in |-> <<128, 128, 128, 128, 128, 128, 128, 128, 128, 128, 127>>,tblidx |-> {},lost |-> 0,nread |-> 6,reads |-> {0, 1, 2, 3, 4},i |-> 5]),
    ([val |-> <<0, 0, 0, 0, 0, 0, 0, 0, 0, 0>>,ret |-> 0,acc |-> <<0, 0, 0, 0, 0, 0, 0, 0, 0, 0>>,pc |-> "loop",in |-> <<128, 128, 128, 128, 128, 128, 128, 128, 128, 128, 127>>,tblidx |-> {},lost |-> 0,nread |-> 7,reads |-> {0, 1, 2, 3, 4, 5},i |-> 6]),
    ([val |-> <<0, 0, 0, 0, 0, 0, 0, 0, 0, 0>>,ret |-> 0,acc |-> <<0, 0, 0, 0, 0, 0, 0, 0, 0, 0>>,pc |-> "loop",in |-> <<128, 128, 128, 128, 128, 128, 128, 128, 128, 128, 127>>,tblidx |-> {},lost |-> 0,nread |-> 8,reads |-> {0, 1, 2, 3, 4, 5, 6},i |-> 7]),
    ([val |-> <<0, 0, 0, 0, 0, 0, 0, 0, 0, 0>>,ret |-> 0,acc |-> <<0, 0, 0, 0, 0, 0, 0, 0, 0, 0>>,pc |-> "loop",in |-> <<128, 128, 128, 128, 128, 128, 128, 128, 128, 128, 127>>,tblidx |-> {},lost |-> 0,nread |-> 9,reads |-> {0, 1, 2, 3, 4, 5, 6, 7},i |-> 8]),
    ([val |-> <<0, 0, 0, 0, 0, 0, 0, 0, 0, 0>>,ret |-> 0,acc |-> <<0, 0, 0, 0, 0, 0, 0, 0, 0, 0>>,pc |-> "loop",in |-> <<128, 128, 128, 128, 128, 128, 128, 128, 128, 128, 127>>,tblidx |-> {},lost |-> 0,nread |-> 10,reads |-> {0, 1, 2, 3, 4, 5, 6, 7, 8},i |-> 9]),
    ([val |-> <<0, 0, 0, 0, 0, 0, 0, 0, 0, 0>>,ret |-> 0,acc |-> <<0, 0, 0, 0, 0, 0, 0, 0, 0, 0>>,pc |-> "loop",in |-> <<128, 128, 128, 128, 128, 128, 128, 128, 128, 128, 127>>,tblidx |-> {},lost |-> 0,nread |-> 11,reads |-> {0, 1, 2, 3, 4, 5, 6, 7, 8, 9},i |-> 10]),
    ([val |-> <<0, 0, 0, 0, 0, 0, 0, 0, 0, 0>>,ret |-> 0,acc |-> <<0, 0, 0, 0, 0, 0, 0, 0, 0, 127>>,pc |-> "table",in |-> <<128, 128, 128, 128, 128, 128, 128, 128, 128, 128, 127>>,tblidx |-> {},lost |-> 0,nread |-> 11,reads |-> {0, 1, 2, 3, 4, 5, 6, 7, 8, 9, 10},i |-> 10]),
    ([val |-> <<0, 0, 0, 0, 0, 0, 0, 0, 0, 127>>,ret |-> 11,acc |-> <<0, 0, 0, 0, 0, 0, 0, 0, 0, 127>>,pc |-> "done",in |-> <<128, 128, 128, 128, 128, 128, 128, 128, 128, 128, 127>>,tblidx |-> {11},lost |-> 0,nread |-> 11,reads |-> {0, 1, 2, 3, 4, 5, 6, 7, 8, 9, 10},i |-> 10])
    >>
----


=============================================================================

---- CONFIG MC_ScalImpl_TTrace_1790991358 ----
CONSTANTS
    Inputs <- MCInputs
    Loop11 = TRUE
    WrapOverflow = FALSE

INVARIANT
    _inv

CHECK_DEADLOCK
    \* CHECK_DEADLOCK off because of PROPERTY or INVARIANT above.
    FALSE

INIT
    _init

NEXT
    _next

CONSTANT
    _TETrace <- _trace

ALIAS
    _expression
=============================================================================
\* Generated on Sat Oct 03 01:36:04 UTC 2026