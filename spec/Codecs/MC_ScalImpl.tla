---------------------------- MODULE MC_ScalImpl ----------------------------
EXTENDS ScalImpl
\* all byte strings up to length 3 over {0,1,0x7f,0x80,0x81,0xff}; encodings of 9..12 bytes with hostile first/middle/last bytes;
\* the encodings of every value adjacent to a length boundary, whole and truncated by one byte
SeqsUpTo(S, n) == UNION {[1..k -> S] : k \in 0..n}
MCInputs == SeqsUpTo({0, 1, 127, 128, 129, 255}, 3)
            \cup {[k \in 1..n |-> IF k = n THEN last ELSE IF k = 1 THEN first ELSE mid] :
                     n \in 9..12, first \in {128, 129, 255}, mid \in {128, 255}, last \in {0, 127, 128, 255}}
            \cup {ScalEnc(d) : d \in Boundaries}
            \cup {SubSeq(ScalEnc(d), 1, Len(ScalEnc(d)) - 1) : d \in Boundaries}
=============================================================================
