CONSTANTS
  Inputs <- MCInputs
  Slack <- MCSlack
  EagerStore = TRUE
  SignedIndex = FALSE
  LoosePad = FALSE
SPECIFICATION ISpec
INVARIANTS NoWriteBeyondCap
CHECK_DEADLOCK FALSE
