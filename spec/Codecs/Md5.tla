-------------------------------- MODULE Md5 --------------------------------
(* MD5 (RFC 1321) as a reference operator over 16-bit limbs (C19).            *)
(* A 32-bit word is a pair <<hi, lo>> of 16-bit limbs; TLC never sees a       *)
(* number above 2^31.  Md5(msg) is the 16-byte digest of the byte string msg. *)
(* MD5 of a message does not depend on how the message is split into update   *)
(* calls: the binding checks the digest of every split against Md5(msg).      *)
EXTENDS CodecBase

W(hi, lo) == <<hi, lo>>
Add32(a, b) == LET lo == a[2] + b[2]  hi == a[1] + b[1] + (lo \div 65536) IN <<hi % 65536, lo % 65536>>
And32(a, b) == <<BAnd(a[1], b[1]), BAnd(a[2], b[2])>>
Or32(a, b) == <<BOr(a[1], b[1]), BOr(a[2], b[2])>>
Xor32(a, b) == <<BXor(a[1], b[1]), BXor(a[2], b[2])>>
Not32(a) == <<Not16(a[1]), Not16(a[2])>>
Rotl32(x, s) ==                                     \* rotate left by s \in 1..31
  LET y == IF s >= 16 THEN <<x[2], x[1]>> ELSE x
      k == s % 16
      p == Pow2(k)  q == Pow2(16 - k)
  IN IF k = 0 THEN y
     ELSE <<((y[1] * p) % 65536) + (y[2] \div q), ((y[2] * p) % 65536) + (y[1] \div q)>>

\* T[i] = floor(2^32 * abs(sin(i))), i = 1..64 (RFC 1321 section 3.4)
Md5T == <<<<55146, 42104>>, <<59591, 46934>>, <<9248, 28891>>, <<49597, 52974>>,
         <<62844, 4015>>, <<18311, 50730>>, <<43056, 17939>>, <<64838, 38145>>,
         <<27008, 39128>>, <<35652, 63407>>, <<65535, 23473>>, <<35164, 55230>>,
         <<27536, 4386>>, <<64920, 29075>>, <<42617, 17294>>, <<18868, 2081>>,
         <<63006, 9570>>, <<49216, 45888>>, <<9822, 23121>>, <<59830, 51114>>,
         <<54831, 4189>>, <<580, 5203>>, <<55457, 59009>>, <<59347, 64456>>,
         <<8673, 52710>>, <<49975, 2006>>, <<62677, 3463>>, <<17754, 5357>>,
         <<43491, 59653>>, <<64751, 41976>>, <<26479, 729>>, <<36138, 19594>>,
         <<65530, 14658>>, <<34673, 63105>>, <<28061, 24866>>, <<64997, 14348>>,
         <<42174, 59972>>, <<19422, 53161>>, <<63163, 19296>>, <<48831, 48240>>,
         <<10395, 32454>>, <<60065, 10234>>, <<54511, 12421>>, <<1160, 7429>>,
         <<55764, 53305>>, <<59099, 39397>>, <<8098, 31992>>, <<50348, 22117>>,
         <<62505, 8772>>, <<17194, 65431>>, <<43924, 9127>>, <<64659, 41017>>,
         <<25947, 22979>>, <<36620, 52370>>, <<65519, 62589>>, <<34180, 24017>>,
         <<28584, 32335>>, <<65068, 59104>>, <<41729, 17172>>, <<19976, 4513>>,
         <<63315, 32386>>, <<48442, 62005>>, <<10967, 53947>>, <<60294, 54161>>>>
Md5S == << 7, 12, 17, 22,  7, 12, 17, 22,  7, 12, 17, 22,  7, 12, 17, 22,
           5,  9, 14, 20,  5,  9, 14, 20,  5,  9, 14, 20,  5,  9, 14, 20,
           4, 11, 16, 23,  4, 11, 16, 23,  4, 11, 16, 23,  4, 11, 16, 23,
           6, 10, 15, 21,  6, 10, 15, 21,  6, 10, 15, 21,  6, 10, 15, 21 >>
Md5Init == << W(26437, 8961), W(61389, 43913), W(39098, 56574), W(4146, 21622) >>   \* 67452301 efcdab89 98badcfe 10325476

\* auxiliary functions of the four rounds, i = 0..63
Md5F(i, b, c, d) == IF i < 16 THEN Or32(And32(b, c), And32(Not32(b), d))
                    ELSE IF i < 32 THEN Or32(And32(b, d), And32(c, Not32(d)))
                    ELSE IF i < 48 THEN Xor32(Xor32(b, c), d)
                    ELSE Xor32(c, Or32(b, Not32(d)))
Md5G(i) == IF i < 16 THEN i ELSE IF i < 32 THEN (5 * i + 1) % 16 ELSE IF i < 48 THEN (3 * i + 5) % 16 ELSE (7 * i) % 16

\* padding: 0x80, zeros up to 56 mod 64, then the bit length as a 64-bit little-endian number
Md5Pad(msg) ==
  LET L == Len(msg)
      z == (55 - L) % 64                                 \* number of zero bytes
      bl == 8 * L
  IN msg \o <<128>> \o [i \in 1..z |-> 0] \o
     <<bl % 256, (bl \div 256) % 256, (bl \div 65536) % 256, (bl \div 16777216) % 256, 0, 0, 0, 0>>

\* the 16 little-endian words of the block starting at byte offset o (0-based)
Md5Words(p, o) == [j \in 0..15 |-> W(p[o + 4 * j + 3] + 256 * p[o + 4 * j + 4], p[o + 4 * j + 1] + 256 * p[o + 4 * j + 2])]

RECURSIVE Md5Steps(_, _, _)
Md5Steps(st, m, i) ==                                   \* st = <<a, b, c, d>>
  IF i = 64 THEN st
  ELSE LET a == st[1]  b == st[2]  c == st[3]  d == st[4]
           f == Add32(Add32(Add32(a, Md5F(i, b, c, d)), Md5T[i + 1]), m[Md5G(i)])
           nb == Add32(b, Rotl32(f, Md5S[i + 1]))
       IN IF nb[1] >= 0 THEN Md5Steps(<<d, nb, b, c>>, m, i + 1) ELSE <<>>     \* (the test only forces evaluation order in TLC)
Md5Block(st, m) == LET r == Md5Steps(st, m, 0) IN
  <<Add32(st[1], r[1]), Add32(st[2], r[2]), Add32(st[3], r[3]), Add32(st[4], r[4])>>
RECURSIVE Md5Blocks(_, _, _)
Md5Blocks(st, p, o) == IF o >= Len(p) THEN st
                       ELSE LET n == Md5Block(st, Md5Words(p, o)) IN IF n[1][1] >= 0 THEN Md5Blocks(n, p, o + 64) ELSE <<>>

WordLE(w) == <<w[2] % 256, w[2] \div 256, w[1] % 256, w[1] \div 256>>
Md5(msg) == LET st == Md5Blocks(Md5Init, Md5Pad(msg), 0) IN WordLE(st[1]) \o WordLE(st[2]) \o WordLE(st[3]) \o WordLE(st[4])
=============================================================================
