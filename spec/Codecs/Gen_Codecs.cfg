CONSTANTS
  MaxLen = 2
  MaxBin = 4
  MaxWords = 4
SPECIFICATION GSpec
CONSTRAINT Emit
CHECK_DEADLOCK FALSE
