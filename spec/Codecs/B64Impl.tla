------------------------------ MODULE B64Impl ------------------------------
(* Implementation-shaped model of base64::Decode(ptr, len, out, cap)  (util/base64.cpp):  *)
(* the length / capacity pre-checks, then one action per input character with the          *)
(* r_pos & 3 switch, the 128-entry table lookup and the byte stores.  Ghost variables       *)
(* record every output index written and every table index used, so that "no write          *)
(* beyond the capacity" and "no read outside the table" are invariants, and the final       *)
(* result is compared with the reference operators of module Base64.                        *)
(*                                                                                          *)
(* Three switches reproduce the code as found (each is a repaired defect; with a switch     *)
(* on, the named invariant is violated - the as-found configurations):                      *)
(*   EagerStore   stores the partial next byte at out[w_pos] as soon as a character is      *)
(*                read (one byte past an exactly sized buffer for padded input)             *)
(*   SignedIndex  indexes the table with a signed char (bytes >= 0x80 -> negative index)     *)
(*   LoosePad     stops at the first '=' without looking at what follows                     *)
EXTENDS Base64

CONSTANTS Inputs,        \* set of character strings offered to the decoder
          Slack,         \* capacities tried: DecLen-1 (if any), DecLen, DecLen + s for s \in Slack, and 0
          EagerStore, SignedIndex, LoosePad

VARIABLES pc, in, cap, rpos, wpos, tmp, out, ret, written, tblidx
ivars == <<pc, in, cap, rpos, wpos, tmp, out, ret, written, tblidx>>

Untouched == -1
\* DecodeLength() of the implementation: looks only at the last two characters
ImplDecLen(y) == IF Len(y) = 0 \/ Len(y) % 4 # 0 THEN 0
                 ELSE (Len(y) \div 4) * 3 - (IF y[Len(y)] = B64Pad THEN 1 ELSE 0) - (IF y[Len(y) - 1] = B64Pad THEN 1 ELSE 0)
CapsFor(y) == LET n == ImplDecLen(y) IN {0, n} \cup {n + s : s \in Slack} \cup (IF n > 0 THEN {n - 1} ELSE {})

IInit == /\ pc = "idle" /\ in = <<>> /\ cap = 0 /\ rpos = 0 /\ wpos = 0 /\ tmp = 0
         /\ out = <<>> /\ ret = 0 /\ written = {} /\ tblidx = {}

\* entry: if (len & 3) return 0;  if (DecodeLength > cap) return 0;
Call == /\ pc = "idle"
        /\ \E y \in Inputs : \E k \in CapsFor(y) :
             /\ in' = y /\ cap' = k
             /\ out' = [i \in 1..(k + 2) |-> Untouched]          \* two cells beyond the capacity make an overrun visible
             /\ IF Len(y) % 4 # 0 \/ ImplDecLen(y) > k THEN pc' = "done" ELSE pc' = "loop"
        /\ rpos' = 0 /\ wpos' = 0 /\ tmp' = 0 /\ ret' = 0 /\ written' = {} /\ tblidx' = {}

Store(o, i, v) == [o EXCEPT ![i + 1] = v]                          \* out[i] = v   (0-based index i)
OrInto(o, i, v) == [o EXCEPT ![i + 1] = BOr(IF o[i + 1] = Untouched THEN 0 ELSE o[i + 1], v)]
PadOK == rpos + 2 >= Len(in) /\ (rpos + 2 = Len(in) => in[rpos + 2] = B64Pad)      \* '=' only as the last one or two chars

\* one character
Step == /\ pc = "loop" /\ rpos < Len(in)
        /\ LET ch == in[rpos + 1]
               idx == IF SignedIndex /\ ch >= 128 THEN ch - 256 ELSE ch
           IN IF ch = B64Pad
              THEN /\ IF LoosePad \/ PadOK THEN ret' = wpos ELSE ret' = 0
                   /\ pc' = "done" /\ UNCHANGED <<rpos, wpos, tmp, out, written, tblidx>>
              ELSE IF ~SignedIndex /\ ch >= 128
              THEN ret' = 0 /\ pc' = "done" /\ UNCHANGED <<rpos, wpos, tmp, out, written, tblidx>>
              ELSE /\ tblidx' = tblidx \cup {idx}
                   /\ LET v == IF idx \in 0..127 THEN B64Val(idx) ELSE -1 IN          \* outside the table: whatever is there
                      IF v < 0
                      THEN ret' = 0 /\ pc' = "done" /\ UNCHANGED <<rpos, wpos, tmp, out, written>>
                      ELSE /\ rpos' = rpos + 1 /\ UNCHANGED <<ret, pc>>
                           /\ LET ph == rpos % 4 IN
                              IF EagerStore
                              THEN /\ tmp' = tmp
                                   /\ CASE ph = 0 -> out' = Store(out, wpos, (v * 4) % 256) /\ wpos' = wpos /\ written' = written \cup {wpos}
                                        [] ph = 1 -> out' = Store(OrInto(out, wpos, v \div 16), wpos + 1, (v * 16) % 256) /\ wpos' = wpos + 1 /\ written' = written \cup {wpos, wpos + 1}
                                        [] ph = 2 -> out' = Store(OrInto(out, wpos, v \div 4), wpos + 1, (v * 64) % 256) /\ wpos' = wpos + 1 /\ written' = written \cup {wpos, wpos + 1}
                                        [] ph = 3 -> out' = OrInto(out, wpos, v) /\ wpos' = wpos + 1 /\ written' = written \cup {wpos}
                              ELSE CASE ph = 0 -> tmp' = (v * 4) % 256 /\ UNCHANGED <<out, wpos, written>>
                                     [] ph = 1 -> out' = Store(out, wpos, BOr(tmp, v \div 16)) /\ tmp' = (v * 16) % 256 /\ wpos' = wpos + 1 /\ written' = written \cup {wpos}
                                     [] ph = 2 -> out' = Store(out, wpos, BOr(tmp, v \div 4)) /\ tmp' = (v * 64) % 256 /\ wpos' = wpos + 1 /\ written' = written \cup {wpos}
                                     [] ph = 3 -> out' = Store(out, wpos, BOr(tmp, v)) /\ tmp' = tmp /\ wpos' = wpos + 1 /\ written' = written \cup {wpos}
        /\ UNCHANGED <<in, cap>>
\* end of input
Finish == /\ pc = "loop" /\ rpos = Len(in)
          /\ ret' = wpos /\ pc' = "done"
          /\ UNCHANGED <<in, cap, rpos, wpos, tmp, out, written, tblidx>>
Return == /\ pc = "done" /\ pc' = "idle" /\ in' = <<>> /\ cap' = 0 /\ rpos' = 0 /\ wpos' = 0 /\ tmp' = 0
          /\ out' = <<>> /\ ret' = 0 /\ written' = {} /\ tblidx' = {}                 \* (one idle state: the calls are independent)

INext == Call \/ Step \/ Finish \/ Return
ISpec == IInit /\ [][INext]_ivars

\* ---- properties ----------------------------------------------------------------------------------
NoWriteBeyondCap == \A i \in written : i < cap
TableIndexInRange == \A i \in tblidx : i \in 0..127
\* the returned result against the reference operators (same three classes as the trace specification)
ResultConforms == pc = "done" =>
  LET cl == B64Class(in)
      dec == B64DecLoose(in).v
      good == ret = Len(dec) /\ SubSeq(out, 1, ret) = dec
  IN CASE cl = "valid" -> IF cap >= Len(dec) THEN good ELSE ret = 0
       [] cl = "noncanon" -> IF cap >= Len(dec) THEN good \/ ret = 0 ELSE ret = 0
       [] OTHER -> ret = 0
\* the size function agrees with the reference on every structurally valid string
SizeFunctionExact == pc = "done" /\ B64Structured(in) => ImplDecLen(in) = B64DecLen(in)
=============================================================================
