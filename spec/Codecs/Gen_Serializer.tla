-------------------------- MODULE Gen_Serializer --------------------------
(* Behaviour generator for the serializer / deserializer state machine (spec -> code): every call   *)
(* sequence of the bounded model up to Depth (BFS) or random deep ones (-simulate) is printed as a   *)
(* script of call descriptors; the C++ driver executes it on real Serializer / Deserializer objects  *)
(* and the recorded trace is validated against Trace_Codecs.  Sizes >= WordMax - 8 stand for sizes    *)
(* close to SIZE_MAX (descriptor n = -1 is SIZE_MAX, -2 is SIZE_MAX - 1, ...).                        *)
EXTENDS MC_Serializer, Json, TLC
CONSTANT Depth
VARIABLE hist
gvars == <<mvars, hist>>
H(d) == hist' = Append(hist, d)
N(need) == IF need \in Needs THEN need - WordMax - 1 ELSE need
\* two value patterns per width keep the random walk from drowning in payload choices
Pat(n) == {[i \in 1..n |-> IF i % 2 = 1 THEN 1 ELSE 254], [i \in 1..n |-> 255 - i]}
GField == [form : {"int", "pod"}, v : UNION {Pat(w) : w \in Widths}] \cup [form : {"raw"}, v : UNION {Pat(n) : n \in RawLens}]
NPuts == Cardinality({i \in 1..Len(hist) : hist[i].e = "SerPut"})
GInit == MInit /\ hist = <<>>
GNext ==
  \/ \E k \in {"raw", "vec"}, n \in Sizes, b \in BOOLEAN :
       /\ res.op = "init"
       /\ ser' = [alive |-> TRUE, kind |-> k, size |-> IF k = "raw" THEN n ELSE 0, big |-> b, pos |-> 0, mem |-> IF k = "raw" THEN Fresh(n) ELSE <<>>]
       /\ des' = NoDes /\ res' = [op |-> "sernew"] /\ UNCHANGED <<sent, pending, bad>>
       /\ H([e |-> "SerNew", kind |-> k, size |-> IF k = "raw" THEN n ELSE 0, big |-> b])
  \/ \E b \in BOOLEAN : ~des.alive /\ SerEndian(b) /\ UNCHANGED <<sent, pending, bad>> /\ H([e |-> "SerEndian", big |-> b])
  \/ \E f \in GField : ~des.alive /\ NPuts < MaxFields /\ SerPut(f.form, f.v) /\ UNCHANGED <<pending, bad>>
                      /\ sent' = (IF res'.ok THEN Append(sent, [form |-> f.form, v |-> f.v, big |-> ser.big]) ELSE sent)
                      /\ H([e |-> "SerPut", form |-> f.form, v |-> f.v, n |-> Len(f.v)])
  \/ \E need \in Needs : ~des.alive /\ NPuts < MaxFields /\ ser.kind = "raw" /\ SerPutHuge /\ UNCHANGED <<sent, pending, bad>>
                         /\ H([e |-> "SerPut", form |-> "raw", v |-> <<>>, n |-> N(need)])
  \/ \E b \in BOOLEAN : /\ ~des.alive /\ ser.alive
                        /\ des' = [alive |-> TRUE, data |-> SubSeq(ser.mem, 1, ser.pos), big |-> b, pos |-> 0]
                        /\ res' = [op |-> "desnew"] /\ pending' = sent /\ UNCHANGED <<ser, sent, bad>>
                        /\ H([e |-> "Transfer", big |-> b])
  \/ \E n \in Sizes, b \in BOOLEAN : \E d \in {[i \in 1..n |-> IF i % 2 = 1 THEN 1 ELSE 254], [i \in 1..n |-> 128 + i]} :
                        res.op = "init" /\ DesNew(d, b) /\ UNCHANGED <<sent, pending, bad>>
                        /\ H([e |-> "DesNew", data |-> d, big |-> b])
  \/ \E b \in BOOLEAN : DesEndian(b) /\ UNCHANGED <<sent, pending, bad>> /\ H([e |-> "DesEndian", big |-> b])
  \/ \E form \in {"int", "pod", "raw"}, need \in Widths \cup RawLens \cup Needs :
       /\ (form = "int" => need \in {1, 2, 4, 8}) /\ (need \in Needs => form # "int")
       /\ DesGet(form, IF need \in Needs THEN HUGE ELSE need) /\ UNCHANGED <<sent, pending, bad>>
       /\ H([e |-> "DesGet", form |-> form, n |-> N(need)])
  \/ \E need \in RawLens \cup Needs : DesNoCopy(IF need \in Needs THEN HUGE ELSE need) /\ UNCHANGED <<sent, pending, bad>> /\ H([e |-> "DesNoCopy", n |-> N(need)])
  \/ \E need \in RawLens \cup Needs : DesSkip(IF need \in Needs THEN HUGE ELSE need) /\ UNCHANGED <<sent, pending, bad>> /\ H([e |-> "DesSkip", n |-> N(need)])
  \/ \E p \in 0..4 : DesSetPos(p) /\ UNCHANGED <<sent, pending, bad>> /\ H([e |-> "DesSetPos", p |-> p])
GSpec == GInit /\ [][GNext]_gvars
Emit == IF Len(hist) >= Depth THEN PrintT("BEH " \o ToJson(hist)) /\ FALSE ELSE TRUE
=============================================================================
