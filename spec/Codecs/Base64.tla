------------------------------- MODULE Base64 -------------------------------
(* RFC 4648 section 4 Base64 as reference operators (C19).                   *)
(*   B64Enc(x)      bytes -> characters (with '=' padding)                   *)
(*   B64EncLen(n)   advertised encoded size of n bytes                       *)
(*   B64Dec(y)      characters -> [ok, v]; ok = FALSE for every string that  *)
(*                  is not the padded encoding of some byte string           *)
(*   B64DecLen(y)   advertised decoded size of a structurally valid string   *)
(*   B64Class(y)    "valid" | "noncanon" | "empty" | "invalid"               *)
EXTENDS CodecBase

B64Pad == 61
B64Alpha(i) == IF i < 26 THEN 65 + i ELSE IF i < 52 THEN 97 + (i - 26) ELSE IF i < 62 THEN 48 + (i - 52)
               ELSE IF i = 62 THEN 43 ELSE 47
B64Val(c) == IF c \in 65..90 THEN c - 65 ELSE IF c \in 97..122 THEN c - 97 + 26 ELSE IF c \in 48..57 THEN c - 48 + 52
             ELSE IF c = 43 THEN 62 ELSE IF c = 47 THEN 63 ELSE -1
B64Chars == {B64Alpha(i) : i \in 0..63}

B64EncLen(n) == ((n + 2) \div 3) * 4

\* one group of k \in 1..3 bytes (missing bytes are zero bits) -> 4 characters
B64Group(a, b, c, k) ==
  LET n == a * 65536 + b * 256 + c
      c1 == B64Alpha(n \div 262144)
      c2 == B64Alpha((n \div 4096) % 64)
      c3 == B64Alpha((n \div 64) % 64)
      c4 == B64Alpha(n % 64)
  IN IF k = 3 THEN <<c1, c2, c3, c4>> ELSE IF k = 2 THEN <<c1, c2, c3, B64Pad>> ELSE <<c1, c2, B64Pad, B64Pad>>

RECURSIVE B64EncFrom(_, _)
B64EncFrom(x, i) ==
  LET r == Len(x) - i + 1 IN
  IF r <= 0 THEN <<>>
  ELSE IF r >= 3 THEN B64Group(x[i], x[i + 1], x[i + 2], 3) \o B64EncFrom(x, i + 3)
  ELSE IF r = 2 THEN B64Group(x[i], x[i + 1], 0, 2)
  ELSE B64Group(x[i], 0, 0, 1)
B64Enc(x) == B64EncFrom(x, 1)

\* number of '=' in the last two positions (the only places where padding may stand)
B64NPad(y) == LET n == Len(y) IN
  IF n >= 1 /\ y[n] = B64Pad THEN (IF n >= 2 /\ y[n - 1] = B64Pad THEN 2 ELSE 1) ELSE 0

\* structure: non-empty, length multiple of 4, only alphabet characters before the final padding
B64Structured(y) == /\ Len(y) > 0 /\ Len(y) % 4 = 0
                    /\ \A i \in 1..(Len(y) - B64NPad(y)) : B64Val(y[i]) >= 0
B64DecLen(y) == (Len(y) \div 4) * 3 - B64NPad(y)

\* one quad -> 3, 2 (one pad) or 1 (two pads) bytes; unused low bits reported separately
B64Quad(y, i, np) ==
  LET v1 == B64Val(y[i])  v2 == B64Val(y[i + 1])
      v3 == IF np = 2 THEN 0 ELSE B64Val(y[i + 2])
      v4 == IF np >= 1 THEN 0 ELSE B64Val(y[i + 3])
      n == v1 * 262144 + v2 * 4096 + v3 * 64 + v4
      b1 == n \div 65536  b2 == (n \div 256) % 256  b3 == n % 256
  IN IF np = 0 THEN <<b1, b2, b3>> ELSE IF np = 1 THEN <<b1, b2>> ELSE <<b1>>
B64QuadSlack(y, i, np) ==                   \* the bits a canonical encoder leaves zero
  IF np = 2 THEN B64Val(y[i + 1]) % 16 ELSE IF np = 1 THEN B64Val(y[i + 2]) % 4 ELSE 0

RECURSIVE B64DecFrom(_, _)
B64DecFrom(y, i) ==
  IF i > Len(y) THEN <<>>
  ELSE B64Quad(y, i, IF i + 3 = Len(y) THEN B64NPad(y) ELSE 0) \o B64DecFrom(y, i + 4)

B64Canonical(y) == B64Structured(y) /\ B64QuadSlack(y, Len(y) - 3, B64NPad(y)) = 0
\* strict decoder: Failure unless y is exactly the encoding of some byte string
B64Dec(y) == IF B64Canonical(y) THEN Ok(B64DecFrom(y, 1)) ELSE Fail
\* what a decoder that ignores the unused bits (RFC 4648 3.5 allows it) produces
B64DecLoose(y) == IF B64Structured(y) THEN Ok(B64DecFrom(y, 1)) ELSE Fail

B64Class(y) == IF Len(y) = 0 THEN "empty"
               ELSE IF B64Canonical(y) THEN "valid"
               ELSE IF B64Structured(y) THEN "noncanon"
               ELSE "invalid"
=============================================================================
