CONSTANTS
  Sizes = {0, 1, 3, 9}
  Values = {1, 254}
  Widths = {1, 2, 4, 8}
  RawLens = {0, 1, 3}
  Needs = {15, 14}
  WordMax = 15
  WrapCheck = FALSE
  MaxFields = 3
  Depth = 10
SPECIFICATION GSpec
CONSTRAINT Emit
CHECK_DEADLOCK FALSE
