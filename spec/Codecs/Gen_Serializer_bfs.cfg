CONSTANTS
  Sizes = {0, 1, 3}
  Values = {1, 254}
  Widths = {1, 2}
  RawLens = {0, 1}
  Needs = {15}
  WordMax = 15
  WrapCheck = FALSE
  MaxFields = 3
  Depth = 3
SPECIFICATION GSpec
CONSTRAINT Emit
CHECK_DEADLOCK FALSE
