CONSTANTS
  MaxLen = 3
  MaxBin = 6
  MaxWords = 4
SPECIFICATION LSpec
INVARIANTS LawB64Inverse LawB64Decoder LawHexInverse LawHexDecoder LawScalInverse LawScalDecoder LawUrlInverse LawUrlDecoder
           LawSums LawSumBoundary LawCheckValues LawMd5 LawAes LawSbox
CHECK_DEADLOCK FALSE
