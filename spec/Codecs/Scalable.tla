------------------------------ MODULE Scalable ------------------------------
(* Scalable (variable length) integers, util/scalable_integer.h (C19).              *)
(* A 64-bit value is a vector of ten base-128 digits d[1] (most significant) ..       *)
(* d[10]; 2^64 = 2 * 128^9, so the 64-bit values are exactly the vectors with         *)
(* d[1] <= 1.  No 64-bit integer ever appears in TLC.                                 *)
(* Format (header comment): an n-byte encoding stores  value - KMin(n)  in n groups   *)
(* of 7 bits, most significant first; every byte but the last has bit 7 set;          *)
(* KMin(n) = 128 + 128^2 + ... + 128^(n-1), i.e. the digit vector 0..0 1..1 0 with    *)
(* n-1 ones.  Each value has exactly one encoding, of 1..10 bytes.                    *)
EXTENDS CodecBase

D10 == 1..10
Digit == 0..127
IsValue(d) == Len(d) = 10 /\ AllIn(d, Digit) /\ d[1] <= 1
Zero10 == [i \in D10 |-> 0]
KMin(n) == [i \in D10 |-> IF i >= 11 - n /\ i <= 9 THEN 1 ELSE 0]              \* n \in 1..10

\* lexicographic comparison of digit vectors of equal length
RECURSIVE LessFrom(_, _, _)
LessFrom(a, b, i) == IF i > Len(a) THEN FALSE ELSE IF a[i] # b[i] THEN a[i] < b[i] ELSE LessFrom(a, b, i + 1)
Less(a, b) == LessFrom(a, b, 1)
Leq(a, b) == a = b \/ Less(a, b)

\* a - b for a >= b, digit by digit with borrow (borrow into position i = bw[i])
RECURSIVE BorrowAt(_, _, _)
BorrowAt(a, b, i) == IF i > 10 THEN 0 ELSE IF a[i] - b[i] - BorrowAt(a, b, i + 1) < 0 THEN 1 ELSE 0
Sub10(a, b) == [i \in D10 |-> (a[i] - b[i] - BorrowAt(a, b, i + 1) + 128) % 128]
\* a + b with carry; CarryAt(a,b,1) = 1 means the sum needs an eleventh digit
RECURSIVE CarryAt(_, _, _)
CarryAt(a, b, i) == IF i > 10 THEN 0 ELSE IF a[i] + b[i] + CarryAt(a, b, i + 1) >= 128 THEN 1 ELSE 0
Add10(a, b) == [i \in D10 |-> (a[i] + b[i] + CarryAt(a, b, i + 1)) % 128]

\* encoded length: the smallest n with value < KMin(n+1) (ten bytes hold everything up to 2^64-1)
ScalLen(d) == IF \E n \in 1..9 : Less(d, KMin(n + 1)) THEN CHOOSE n \in 1..9 : Less(d, KMin(n + 1)) /\ \A m \in 1..(n - 1) : ~Less(d, KMin(m + 1))
              ELSE 10
ScalEnc(d) == LET n == ScalLen(d)  s == Sub10(d, KMin(n)) IN
              [i \in 1..n |-> s[10 - n + i] + (IF i < n THEN 128 ELSE 0)]

\* decoder over an arbitrary byte string: [ok, n (bytes consumed), d (value digits)]
ScalFail == [ok |-> FALSE, n |-> 0, d |-> Zero10, why |-> "x"]
ScalTerm(b) == IF \E t \in 1..Min2(Len(b), 10) : b[t] < 128
               THEN CHOOSE t \in 1..Min2(Len(b), 10) : b[t] < 128 /\ \A u \in 1..(t - 1) : b[u] >= 128
               ELSE 0
ScalDec(b) ==
  LET n == ScalTerm(b) IN
  IF n = 0 THEN [ScalFail EXCEPT !.why = IF Len(b) >= 10 THEN "toolong" ELSE "truncated"]
  ELSE LET s == [i \in D10 |-> IF i > 10 - n THEN b[i - (10 - n)] % 128 ELSE 0]
           v == Add10(s, KMin(n))
       IN IF CarryAt(s, KMin(n), 1) = 1 \/ v[1] > 1 THEN [ScalFail EXCEPT !.why = "overrange"]
          ELSE [ok |-> TRUE, n |-> n, d |-> v, why |-> ""]

\* the 64-bit values adjacent to an encoding-length boundary (and the extremes)
Max64 == [i \in D10 |-> IF i = 1 THEN 1 ELSE 127]
Pred10(d) == Sub10(d, [i \in D10 |-> IF i = 10 THEN 1 ELSE 0])
Succ10(d) == Add10(d, [i \in D10 |-> IF i = 10 THEN 1 ELSE 0])
Boundaries == {Zero10, Succ10(Zero10), Max64, Pred10(Max64)} \cup
              UNION {{Pred10(KMin(n)), KMin(n), Succ10(KMin(n))} : n \in 2..10}
=============================================================================
