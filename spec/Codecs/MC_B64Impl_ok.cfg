CONSTANTS
  Inputs <- MCInputs
  Slack <- MCSlack
  EagerStore = FALSE
  SignedIndex = FALSE
  LoosePad = FALSE
SPECIFICATION ISpec
INVARIANTS NoWriteBeyondCap TableIndexInRange ResultConforms SizeFunctionExact
CHECK_DEADLOCK FALSE
