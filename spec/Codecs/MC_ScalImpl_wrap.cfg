CONSTANTS
  Inputs <- MCInputs
  Loop11 = FALSE
  WrapOverflow = TRUE
SPECIFICATION ZSpec
INVARIANTS ResultConforms
CHECK_DEADLOCK FALSE
