CONSTANTS
  MaxLen = 3
  MaxBin = 6
  MaxWords = 4
SPECIFICATION GSpec
CONSTRAINT Emit
CHECK_DEADLOCK FALSE
