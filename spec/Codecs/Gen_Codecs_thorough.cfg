CONSTANTS
  MaxLen = 3
  MaxBin = 6
SPECIFICATION GSpec
CONSTRAINT Emit
CHECK_DEADLOCK FALSE
