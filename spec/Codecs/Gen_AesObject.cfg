CONSTANTS
  Depth = 4
SPECIFICATION GSpec
CONSTRAINT Emit
INVARIANT RoundTrip
CHECK_DEADLOCK FALSE
