-------------------------------- MODULE Url --------------------------------
(* URL percent-encoding (RFC 3986 section 2.1) as reference operators (C19).   *)
(* The statement fixes the inverse law and the behaviour of the decoder, not   *)
(* which characters an encoder chooses to escape: UrlEnc is parameterised by   *)
(* the escaped set; any set containing '%' gives an exact inverse pair.        *)
EXTENDS CodecBase

Percent == 37
IsPrint(c) == c \in 32..126
\* the two sets used by http/url.cpp ( +&=<>"#,%{}|\^[]`;?:@$  plus "/." in full mode)
PathSpecial == {32, 34, 35, 36, 37, 38, 43, 44, 58, 59, 60, 61, 62, 63, 64, 91, 92, 93, 94, 96, 123, 124, 125}
FullSpecial == PathSpecial \cup {46, 47}

Escape(c) == <<Percent, HexChar(c \div 16, TRUE), HexChar(c % 16, TRUE)>>
RECURSIVE UrlEncFrom(_, _, _)
UrlEncFrom(s, i, Special) ==
  IF i > Len(s) THEN <<>>
  ELSE (IF s[i] \in Special \/ ~IsPrint(s[i]) THEN Escape(s[i]) ELSE <<s[i]>>) \o UrlEncFrom(s, i + 1, Special)
UrlEnc(s, Special) == UrlEncFrom(s, 1, Special)

\* decoder: '%' must be followed by two hex digits (either case); anything else is Failure
RECURSIVE UrlDecFrom(_, _)
UrlDecFrom(s, i) ==
  IF i > Len(s) THEN Ok(<<>>)
  ELSE IF s[i] # Percent THEN LET r == UrlDecFrom(s, i + 1) IN IF r.ok THEN Ok(<<s[i]>> \o r.v) ELSE Fail
  ELSE IF i + 2 > Len(s) THEN Fail                                          \* truncated escape
  ELSE IF ~IsHexChar(s[i + 1]) \/ ~IsHexChar(s[i + 2]) THEN Fail             \* not a hex digit
  ELSE LET r == UrlDecFrom(s, i + 3) IN
       IF r.ok THEN Ok(<<HexVal(s[i + 1]) * 16 + HexVal(s[i + 2])>> \o r.v) ELSE Fail
UrlDec(s) == UrlDecFrom(s, 1)
=============================================================================
