---------------------------- MODULE Trace_Codecs ----------------------------
(* Trace validation for C19.  Every line of the recorded ndjson trace is one call of a real     *)
(* cpp-tbox codec function (input, output capacity, return value, produced bytes, guard state,   *)
(* exception kind).  A line is accepted iff it agrees with the reference operators; a line that   *)
(* no disjunct accepts (wrong result, wrong size, damaged guard, missing failure, or a Fault      *)
(* event written when the process died) ends the behaviour and the trace is rejected there.       *)
(*                                                                                                *)
(* Three classes of decoder input:                                                                *)
(*   exact      - an encoder image: result and size must be exact, no failure                     *)
(*   invalid    - must fail (return value 0 / false / null, or any C++ exception)                 *)
(*   tolerated  - forms that the repository's own tests pin as accepted (hex: odd trailing digit, *)
(*                capacity truncation, surrounding blanks, one-digit tokens) or that the standard  *)
(*                leaves to the decoder (Base64 non-zero unused bits): failure or the documented   *)
(*                tolerant result, nothing else                                                    *)
EXTENDS Base64, Hex, Scalable, Url, Sums, Md5, AesObject, Serializer, Json, IOUtils, TLC

Log == ndJsonDeserialize(IOEnv.TRACE)
VARIABLES l, T
\* (akey, the key of the one AES object of an execution, is declared in AesObject)
ASSUME TLCSet(42, 0)
tvars == <<svars, l, T, akey>>

Ev == Log[l]
IsEv(e) == l <= Len(Log) /\ Log[l].e = e /\ l' = l + 1
Pure == UNCHANGED <<svars, T, akey>>                      \* stateless codecs do not touch the serializer state
Threw(ev) == ev.exc # ""

\* ---- Base64 ---------------------------------------------------------------------------------------
CheckB64Enc(ev) ==
  LET exp == B64Enc(ev.in) IN
  /\ ev.g
  /\ ev.adv = B64EncLen(Len(ev.in)) /\ ev.adv = Len(exp)                    \* the size function is exact
  /\ IF ev.v = "buf" /\ ev.cap < Len(exp) THEN ev.ret = 0                   \* capacity too small: clean failure
     ELSE ev.ret = Len(exp) /\ ev.out = exp

CheckB64Dec(ev) ==
  LET c == B64Class(ev.in)
      dec == B64DecLoose(ev.in).v
      fits == ev.v = "vec" \/ ev.cap >= Len(dec)
      good == ev.ret = Len(dec) /\ ev.out = dec /\ ev.adv = Len(dec)
      failed == ev.ret = 0
  IN /\ ev.g
     /\ CASE c = "valid" -> IF fits THEN good ELSE failed
          [] c = "noncanon" -> IF fits THEN good \/ failed ELSE failed
          [] OTHER -> failed                                                  \* "empty", "invalid"

\* ---- hex ------------------------------------------------------------------------------------------
CheckHexEnc(ev) == ev.out = HexEnc(ev.in, ev.up, ev.delim)

CheckHexDecBuf(ev) ==
  LET s == ev.in
      k == Min2(ev.cap, Len(s) \div 2)
      good(r) == r <= k /\ HexPairsOK(s, r) /\ ev.out = HexPairs(s, r)        \* a correct prefix within the capacity
      exact == Len(s) % 2 = 0 /\ HexPairsOK(s, Len(s) \div 2) /\ ev.cap >= Len(s) \div 2
  IN /\ ev.g
     /\ IF exact THEN ~Threw(ev) /\ ev.ret = Len(s) \div 2 /\ good(ev.ret)
        ELSE Threw(ev) \/ good(ev.ret)

CheckHexDecVec(ev) ==
  LET s == ev.in
      D == Range(ev.delim)
      got(v) == ~Threw(ev) /\ ev.ret = Len(v) /\ ev.out = v
      failed == Threw(ev) \/ (ev.ret = 0 /\ ev.out = <<>>)
  IN IF ev.delim = <<>>
     THEN LET st == Strip(s, Blank) IN
          IF HexPlainOK(s) THEN got(HexDec(s).v)
          ELSE IF HexPlainOK(st) THEN failed \/ got(HexDec(st).v)
          ELSE failed
     ELSE LET strict == HexDecDelim(s, D)  loose == HexDecDelimLoose(s, D) IN
          IF strict.ok THEN got(strict.v)
          ELSE IF loose.ok THEN failed \/ got(loose.v)
          ELSE failed

\* ---- scalable integers ------------------------------------------------------------------------------
CheckScalEnc(ev) ==
  LET exp == ScalEnc(ev.d) IN
  /\ ev.g
  /\ IF ev.cap >= Len(exp) THEN ev.ret = Len(exp) /\ ev.out = exp ELSE ev.ret = 0
CheckScalDec(ev) ==
  LET r == ScalDec(ev.in) IN
  IF r.ok THEN ev.ret = r.n /\ ev.d = r.d ELSE ev.ret = 0

\* ---- URL percent-encoding ----------------------------------------------------------------------------
\* which characters the encoder escapes is its own business; its output must decode to the input
CheckUrlEnc(ev) == /\ UrlDec(ev.out) = Ok(ev.in)
                   /\ ev.bexc = "" /\ ev.back = ev.in                       \* real decoder on the real encoder's output
CheckUrlDec(ev) == LET r == UrlDec(ev.in) IN
                   IF r.ok THEN ~Threw(ev) /\ ev.out = r.v ELSE Threw(ev)

\* ---- checksums, CRC, MD5, AES ------------------------------------------------------------------------
\* ver = the real function applied to (input, zero-padded to whole words for the 16-bit sum) ++ (the checksum it returned)
Even(x) == x \o (IF Len(x) % 2 = 1 THEN <<0>> ELSE <<>>)
CheckSum(ev) == CASE ev.e = "Sum8" -> ev.ret = CheckSum8(ev.in) /\ ev.ver = CheckSum8(ev.in \o <<ev.ret>>)
                  [] ev.e = "Sum16" -> ev.ret = CheckSum16(ev.in) /\ ev.ver = CheckSum16(Even(ev.in) \o <<ev.ret \div 256, ev.ret % 256>>)
                  [] ev.e = "Crc16" -> ev.ret = Crc16(ev.in)
                  [] ev.e = "Crc32" -> ev.ret = Crc32(ev.in)
\* digests = the distinct digests observed over all the splits of msg into update calls that the driver tried
CheckMd5(ev) == ev.g /\ ev.n >= 1 /\ ev.digests = <<Md5(ev.msg)>>
\* a message of 2^lg + delta bytes (>= 2^29: the 64-bit bit count carries into its high word) is far beyond what TLC can
\* hash, so the law is split-independence over the recorded digests: the digest of ONE update() call equals the digest of the
\* same bytes under every split the driver tried (splits = the distinct digests seen, among them pieces that are all shorter
\* than 2^29 bytes) - plus the known digest of 2^29 zero bytes, aa559b4e3523a6c931f08f4df52d58f2
Md5Zeros2p29 == <<170, 85, 155, 78, 53, 35, 166, 201, 49, 240, 143, 77, 245, 45, 88, 242>>
CheckMd5Big(ev) == /\ ev.g /\ ev.n >= 1 /\ Len(ev.one) = 16
                   /\ ev.splits = <<ev.one>>
                   /\ (ev.lg = 29 /\ ev.delta = 0 /\ ev.pat = 0 => ev.one = Md5Zeros2p29)
CheckAes(ev) == ev.g /\ ev.enc = Aes128Enc(T, ev.key, ev.in) /\ ev.dec = Aes128Dec(T, ev.key, ev.in)

\* ---- serializer / deserializer ------------------------------------------------------------------------
Need(n) == IF n < 0 THEN HUGE ELSE n                                         \* n = -1 in the log: a size close to SIZE_MAX
SerPost(ev) == ser'.pos = ev.pos /\ ser'.mem = ev.mem /\ ev.g
DesPost(ev) == des'.pos = ev.pos

TInit == SInit /\ l = 1 /\ T = AesTables /\ AoInit
TReset == IsEv("Reset") /\ ser' = NoSer /\ des' = NoDes /\ res' = [op |-> "init"] /\ akey' = Unkeyed /\ UNCHANGED T
TB64Enc == IsEv("B64Enc") /\ CheckB64Enc(Ev) /\ Pure
TB64Dec == IsEv("B64Dec") /\ CheckB64Dec(Ev) /\ Pure
THexEnc == IsEv("HexEnc") /\ CheckHexEnc(Ev) /\ Pure
THexDecBuf == IsEv("HexDecBuf") /\ CheckHexDecBuf(Ev) /\ Pure
THexDecVec == IsEv("HexDecVec") /\ CheckHexDecVec(Ev) /\ Pure
TScalEnc == IsEv("ScalEnc") /\ CheckScalEnc(Ev) /\ Pure
TScalDec == IsEv("ScalDec") /\ CheckScalDec(Ev) /\ Pure
TUrlEnc == IsEv("UrlEnc") /\ CheckUrlEnc(Ev) /\ Pure
TUrlDec == IsEv("UrlDec") /\ CheckUrlDec(Ev) /\ Pure
TSums == l <= Len(Log) /\ Ev.e \in {"Sum8", "Sum16", "Crc16", "Crc32"} /\ l' = l + 1 /\ CheckSum(Ev) /\ Pure
TMd5 == IsEv("Md5") /\ CheckMd5(Ev) /\ Pure
TMd5Big == IsEv("Md5Big") /\ CheckMd5Big(Ev) /\ Pure
TAes == IsEv("Aes") /\ CheckAes(Ev) /\ Pure
\* one AES object per execution: constructor, re-keying, and block operations that must answer with the current key
TAesNew == IsEv("AesNew") /\ AoNew(Ev.key) /\ UNCHANGED <<svars, T>>
TAesSetKey == IsEv("AesSetKey") /\ AoSetKey(Ev.key) /\ UNCHANGED <<svars, T>>
TAesCipher == IsEv("AesCipher") /\ akey # Unkeyed /\ Ev.g /\ Ev.out = AoCipher(T, Ev.in) /\ Pure
TAesInv == IsEv("AesInv") /\ akey # Unkeyed /\ Ev.g /\ Ev.out = AoInvCipher(T, Ev.in) /\ Pure
\* RawDataToHexStr of n pattern bytes (byte i = i mod 251), n up to 65535: the text is far too long to spell out, but it is
\* periodic with period 251 * (2 + |delim|) characters.  The driver reports the first period (head), the length, and the
\* positions where the text differs from itself one period earlier (nper = how many, must be none); together with the length
\* this determines the whole text.  The decoded text is reported the same way (period 251 bytes).
HexBigPeriod(ev) == 251 * (2 + Len(ev.delim))
CheckHexBig(ev) ==
  LET D == Len(ev.delim)
      exp == HexEnc([i \in 1..Min2(ev.n, 252) |-> (i - 1) % 251], ev.up, ev.delim)
  IN /\ ev.len = 2 * ev.n + D * (ev.n - 1)
     /\ Len(ev.head) = Min2(ev.len, HexBigPeriod(ev)) /\ ev.head = SubSeq(exp, 1, Len(ev.head))
     /\ ev.nper = 0
     /\ ev.rt => /\ ev.exc = "" /\ ev.blen = ev.n /\ ev.bnper = 0
                 /\ ev.bhead = [i \in 1..Min2(ev.n, 251) |-> (i - 1) % 251]
THexBig == IsEv("HexBig") /\ CheckHexBig(Ev) /\ Pure
TSerNew == IsEv("SerNew") /\ SerNew(Ev.kind, Ev.size, Ev.big, Ev.mem) /\ UNCHANGED <<T, akey>>
TSerEndian == IsEv("SerEndian") /\ SerEndian(Ev.big) /\ Ev.old = res'.old /\ UNCHANGED <<T, akey>>
TSerPut == IsEv("SerPut") /\ (IF Ev.n < 0 THEN SerPutHuge ELSE SerPut(Ev.form, Ev.v)) /\ Ev.ret = res'.ok /\ SerPost(Ev) /\ UNCHANGED <<T, akey>>
TDesNew == IsEv("DesNew") /\ DesNew(Ev.data, Ev.big) /\ UNCHANGED <<T, akey>>
TTransfer == IsEv("Transfer") /\ Transfer(Ev.big) /\ Ev.data = des'.data /\ UNCHANGED <<T, akey>>
TDesEndian == IsEv("DesEndian") /\ DesEndian(Ev.big) /\ Ev.old = res'.old /\ UNCHANGED <<T, akey>>
TDesGet == IsEv("DesGet") /\ DesGet(Ev.form, Need(Ev.n)) /\ Ev.ret = res'.ok /\ (res'.ok => Ev.v = res'.v) /\ Ev.g /\ DesPost(Ev) /\ UNCHANGED <<T, akey>>
TDesNoCopy == IsEv("DesNoCopy") /\ DesNoCopy(Need(Ev.n)) /\ Ev.ret = res'.ok /\ (res'.ok => Ev.off = res'.off) /\ DesPost(Ev) /\ UNCHANGED <<T, akey>>
TDesSkip == IsEv("DesSkip") /\ DesSkip(Need(Ev.n)) /\ Ev.ret = res'.ok /\ DesPost(Ev) /\ UNCHANGED <<T, akey>>
TDesSetPos == IsEv("DesSetPos") /\ DesSetPos(Ev.p) /\ Ev.ret = res'.ok /\ DesPost(Ev) /\ UNCHANGED <<T, akey>>

TNext == \/ TReset \/ TB64Enc \/ TB64Dec \/ THexEnc \/ THexDecBuf \/ THexDecVec \/ TScalEnc \/ TScalDec
         \/ TUrlEnc \/ TUrlDec \/ TSums \/ TMd5 \/ TMd5Big \/ TAes \/ TAesNew \/ TAesSetKey \/ TAesCipher \/ TAesInv \/ THexBig
         \/ TSerNew \/ TSerEndian \/ TSerPut \/ TDesNew \/ TTransfer \/ TDesEndian \/ TDesGet \/ TDesNoCopy
         \/ TDesSkip \/ TDesSetPos
TSpec == TInit /\ [][TNext]_tvars

Progress == TLCSet(42, IF l > TLCGet(42) THEN l ELSE TLCGet(42))
Accepted == IF TLCGet(42) = Len(Log) + 1 THEN TRUE ELSE PrintT(<<"MAXPOS", TLCGet(42), Len(Log)>>) /\ FALSE
=============================================================================
