--------------------------- MODULE MC_Serializer ---------------------------
(* Bounded model of the serializer / deserializer state machine (C19).                       *)
(*  - every call sequence over small buffers, widths and values                                *)
(*  - ghost `sent` / `pending`: the fields appended successfully, and - after Transfer - the   *)
(*    fields still expected by a reader that fetches with the same forms, widths and endian:    *)
(*    RoundTrip says that such a reader gets back exactly the appended values                   *)
(*  - WordMax: the largest machine word.  With WrapCheck = TRUE the bounds rule is evaluated    *)
(*    the way the code did before the repair, (pos + need) mod (WordMax+1) <= size, which        *)
(*    violates NoAccessOutside / FailWithoutMoving for need close to WordMax (as-found cfg).      *)
EXTENDS Serializer

CONSTANTS Sizes, Values, Widths, RawLens, Needs, WordMax, WrapCheck, MaxFields
VARIABLES sent, pending, bad
mvars == <<svars, sent, pending, bad>>

Word(n) == n % (WordMax + 1)
\* the decision the implementation takes for a request of `need` bytes at (pos, size)
ImplFits(pos, size, need) == IF WrapCheck THEN Word(pos + need) <= size ELSE need <= size - pos

Vals(n) == [1..n -> Values]
Field == [form : {"int", "pod"}, v : UNION {Vals(w) : w \in Widths}] \cup [form : {"raw"}, v : UNION {Vals(n) : n \in RawLens}]

MInit == SInit /\ sent = <<>> /\ pending = <<>> /\ bad = FALSE
\* one behaviour = one episode as the driver runs them: a write phase, then a read phase (the two objects are
\* independent and episodes do not share state, so other interleavings add nothing)
MSerNew == res.op = "init" /\ \E k \in {"raw", "vec"}, n \in Sizes, b \in BOOLEAN :
             /\ ser' = [alive |-> TRUE, kind |-> k, size |-> IF k = "raw" THEN n ELSE 0, big |-> b, pos |-> 0,
                        mem |-> IF k = "raw" THEN Fresh(n) ELSE <<>>]
             /\ des' = NoDes /\ res' = [op |-> "sernew"]
             /\ sent' = <<>> /\ pending' = <<>> /\ UNCHANGED bad
MSerEndian == ~des.alive /\ \E b \in BOOLEAN : SerEndian(b) /\ UNCHANGED <<sent, pending, bad>>
MSerPut == ~des.alive /\ \E f \in Field :
             /\ SerPut(f.form, f.v)
             /\ sent' = IF res'.ok THEN Append(sent, [form |-> f.form, v |-> f.v, big |-> ser.big]) ELSE sent
             /\ UNCHANGED pending
             \* what the implementation's own test would have decided
             /\ bad' = (bad \/ (ser.kind = "raw" /\ ImplFits(ser.pos, ser.size, Len(f.v)) # SerFits(Len(f.v))))
\* Transfer / DesNew end the write phase; the serializer is dropped (it plays no part in the read phase)
MTransfer == /\ ~des.alive /\ ser.alive
             /\ \E b \in BOOLEAN : des' = [alive |-> TRUE, data |-> SubSeq(ser.mem, 1, ser.pos), big |-> b, pos |-> 0]
             /\ ser' = NoSer /\ res' = [op |-> "desnew"] /\ pending' = sent /\ sent' = <<>> /\ UNCHANGED bad
MDesNew == /\ ~des.alive
           /\ \E n \in Sizes, b \in BOOLEAN : \E d \in Vals(n) : des' = [alive |-> TRUE, data |-> d, big |-> b, pos |-> 0]
           /\ ser' = NoSer /\ res' = [op |-> "desnew"] /\ pending' = <<>> /\ sent' = <<>> /\ UNCHANGED bad
MDesEndian == \E b \in BOOLEAN : DesEndian(b) /\ UNCHANGED <<sent, pending, bad>>
\* a reader in step with the writer: same form, width and endian as the next pending field
InStep(form, need) == pending # <<>> /\ pending[1].form = form /\ Len(pending[1].v) = need /\ pending[1].big = des.big
MDesGet == \E form \in {"int", "pod", "raw"}, need \in Widths \cup RawLens \cup Needs :
             /\ DesGet(form, need)
             /\ pending' = IF res'.ok /\ InStep(form, need) THEN Tail(pending) ELSE <<>>
             /\ bad' = (bad \/ (ImplFits(des.pos, Len(des.data), need) # DesFits(need))
                            \/ (res'.ok /\ InStep(form, need) /\ res'.v # pending[1].v))
             /\ UNCHANGED sent
MDesNoCopy == \E need \in RawLens \cup Needs : DesNoCopy(need) /\ pending' = <<>>
                /\ bad' = (bad \/ (ImplFits(des.pos, Len(des.data), need) # DesFits(need))) /\ UNCHANGED sent
MDesSkip == \E need \in RawLens \cup Needs : DesSkip(need) /\ pending' = <<>>
                /\ bad' = (bad \/ (ImplFits(des.pos, Len(des.data), need) # DesFits(need))) /\ UNCHANGED sent
MDesSetPos == \E p \in 0..4 : DesSetPos(p) /\ pending' = <<>> /\ UNCHANGED <<sent, bad>>
MNext == MSerNew \/ MSerEndian \/ MSerPut \/ MTransfer \/ MDesNew \/ MDesEndian \/ MDesGet \/ MDesNoCopy \/ MDesSkip \/ MDesSetPos
MSpec == MInit /\ [][MNext]_mvars

\* the implementation's bounds test agrees with the rule, and an in-step reader gets the values back
BoundsRuleAndRoundTrip == ~bad
\* what has been appended is exactly the concatenation of the field images
ImageOf(f) == Image(f.form, f.v, f.big)
RECURSIVE Images(_, _)
Images(fs, k) == IF k > Len(fs) THEN <<>> ELSE ImageOf(fs[k]) \o Images(fs, k + 1)
ContentIsImages == ser.alive => SubSeq(ser.mem, 1, ser.pos) = Images(sent, 1)
Bound == Len(sent) <= MaxFields
=============================================================================
