CONSTANTS
  Sizes = {0, 2}
  Values = {1, 254}
  Widths = {1, 2}
  RawLens = {0, 1}
  Needs = {15}
  WordMax = 15
  WrapCheck = FALSE
  MaxFields = 2
SPECIFICATION MSpec
CONSTRAINT Bound
INVARIANTS SerTypeOK DesTypeOK NoAccessOutside WrittenPrefix BoundsRuleAndRoundTrip ContentIsImages
CHECK_DEADLOCK FALSE
