CONSTANTS
  MaxLen = 2
  MaxBin = 5
  MaxWords = 3
SPECIFICATION LSpec
INVARIANTS SingleFoldSuffices
CHECK_DEADLOCK FALSE
