CONSTANTS
  Inputs <- MCInputs
  Slack <- MCSlack
  EagerStore = FALSE
  SignedIndex = TRUE
  LoosePad = FALSE
SPECIFICATION ISpec
INVARIANTS TableIndexInRange
CHECK_DEADLOCK FALSE
