CONSTANTS
  Inputs <- MCInputs
  Loop11 = FALSE
  WrapOverflow = FALSE
SPECIFICATION ZSpec
INVARIANTS NoReadOutsideInput AtMostTenBytesRead TableIndexInRange ResultConforms
CHECK_DEADLOCK FALSE
