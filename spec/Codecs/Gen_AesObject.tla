--------------------------- MODULE Gen_AesObject ---------------------------
(* Bounded model of one AES object + behaviour generator (spec -> code): every history of Depth calls  *)
(* (constructor with key A, key B or nullptr; then setKey / cipher / invcipher in every order over two   *)
(* keys, one fixed block and the previous result; in-place calls are exercised by the other generators) is printed as a script and replayed on ONE real object.  Invariant at model       *)
(* level: decrypting what was just encrypted under the same key gives the block back.                     *)
EXTENDS AesObject, Json, TLC
CONSTANT Depth
VARIABLES T, hist, last
gvars == <<akey, T, hist, last>>
KeyA == [i \in 1..16 |-> i - 1]
KeyB == [i \in 1..16 |-> (255 - 7 * i) % 256]
Blocks == {[i \in 1..16 |-> 17 * (i - 1)]}
H(d) == hist' = Append(hist, d)
GInit == AoInit /\ T = AesTables /\ hist = <<>> /\ last = [op |-> "none"]
GNext ==
  \/ hist = <<>> /\ \E k \in {KeyA, KeyB, Unkeyed} : AoNew(k) /\ H([e |-> "AesNew", key |-> k]) /\ UNCHANGED <<T, last>>
  \/ hist # <<>> /\ \E k \in {KeyA, KeyB} : AoSetKey(k) /\ H([e |-> "AesSetKey", key |-> k]) /\ UNCHANGED T /\ last' = [op |-> "setkey"]
  \/ hist # <<>> /\ akey # Unkeyed /\ \E b \in Blocks \cup (IF last.op \in {"enc", "dec"} THEN {last.out} ELSE {}), al \in {FALSE} :
       \/ H([e |-> "AesCipher", in |-> b, alias |-> al]) /\ last' = [op |-> "enc", in |-> b, out |-> AoCipher(T, b)] /\ UNCHANGED <<akey, T>>
       \/ H([e |-> "AesInv", in |-> b, alias |-> al]) /\ last' = [op |-> "dec", in |-> b, out |-> AoInvCipher(T, b)] /\ UNCHANGED <<akey, T>>
GSpec == GInit /\ [][GNext]_gvars
Emit == IF Len(hist) >= Depth THEN PrintT("BEH " \o ToJson(hist)) /\ FALSE ELSE TRUE
\* encrypt-then-decrypt (or the reverse) of the same block without re-keying in between is the identity
RoundTrip == last.op \in {"enc", "dec"} =>
   (IF last.op = "enc" THEN AoInvCipher(T, last.out) ELSE AoCipher(T, last.out)) = last.in
=============================================================================
