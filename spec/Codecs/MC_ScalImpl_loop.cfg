CONSTANTS
  Inputs <- MCInputs
  Loop11 = TRUE
  WrapOverflow = FALSE
SPECIFICATION ZSpec
INVARIANTS TableIndexInRange
CHECK_DEADLOCK FALSE
