CONSTANTS
  Sizes = {0, 1, 3}
  Values = {1, 254}
  Widths = {1, 2}
  RawLens = {0, 1, 2}
  Needs = {15, 14}
  WordMax = 15
  WrapCheck = TRUE
  MaxFields = 3
SPECIFICATION MSpec
CONSTRAINT Bound
INVARIANTS SerTypeOK DesTypeOK NoAccessOutside WrittenPrefix BoundsRuleAndRoundTrip ContentIsImages
CHECK_DEADLOCK FALSE
