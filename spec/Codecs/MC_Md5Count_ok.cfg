CONSTANTS
  W = 6
  Lens = {0, 1, 3, 7, 8, 9, 15, 16, 17, 31, 32, 40, 64, 100}
  MaxTotal = 600
  Wide = FALSE
SPECIFICATION CSpec
INVARIANTS CountIsBitLength
CHECK_DEADLOCK FALSE
