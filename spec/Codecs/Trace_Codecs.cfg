SPECIFICATION TSpec
CONSTRAINT Progress
POSTCONDITION Accepted
INVARIANTS SerTypeOK DesTypeOK NoAccessOutside
CHECK_DEADLOCK FALSE
