------------------------------ MODULE Md5Count ------------------------------
(* The message-length bookkeeping of MD5::update (crypto/md5.cpp), implementation-shaped and   *)
(* scaled down: the 64-bit bit count is kept in two W-bit words  lo, hi  (W = 32 in the code),   *)
(* an update of n bytes does   lo += (n << 3) ; if (lo < (n << 3)) hi++ ; hi += n >> (W-3).      *)
(* RFC 1321 evaluates the carry test in W bits.  Invariant: hi:lo = 8 * (bytes so far) mod        *)
(* 2^(2W) - which is what the padding appends, so a wrong count is a wrong digest.                *)
(* Wide = TRUE is the code as found (repaired in 2669e94): the test compared the W-bit counter     *)
(* with the un-truncated product n << 3, so every update of >= 2^(W-3) bytes added a carry.         *)
EXTENDS Integers
CONSTANTS W, Lens, MaxTotal, Wide
VARIABLES lo, hi, total
cvars == <<lo, hi, total>>
M == 2 ^ W
CInit == lo = 0 /\ hi = 0 /\ total = 0
Update(n) == LET bits == n * 8
                 low == bits % M
                 nlo == (lo + low) % M
                 carry == IF nlo < (IF Wide THEN bits ELSE low) THEN 1 ELSE 0
             IN /\ total + n <= MaxTotal
                /\ lo' = nlo
                /\ hi' = (hi + carry + (n \div 2 ^ (W - 3))) % M
                /\ total' = total + n
CNext == \E n \in Lens : Update(n)
CSpec == CInit /\ [][CNext]_cvars
CountIsBitLength == hi * M + lo = (8 * total) % (M * M)
=============================================================================
