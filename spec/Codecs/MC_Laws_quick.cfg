CONSTANTS
  MaxLen = 2
  MaxBin = 5
  MaxWords = 3
SPECIFICATION LSpec
INVARIANTS LawB64Inverse LawB64Decoder LawHexInverse LawHexDecoder LawScalInverse LawScalDecoder LawUrlInverse LawUrlDecoder
           LawSums LawSumBoundary LawCheckValues LawMd5 LawAes LawSbox
CHECK_DEADLOCK FALSE
