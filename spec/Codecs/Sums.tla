-------------------------------- MODULE Sums --------------------------------
(* 8/16-bit one's-complement checksums and CRC-16/CRC-32 from their definitions (C19). *)
(*  CheckSum8   one's-complement sum of the bytes, complemented                          *)
(*  CheckSum16  RFC 1071 Internet checksum (big-endian 16-bit words, odd byte padded)    *)
(*  Crc16       CRC-16/CCITT-FALSE: poly 0x1021, init 0xFFFF, no reflection, xorout 0    *)
(*              (check value for "123456789": 0x29B1)                                    *)
(*  Crc32       CRC-32 (IEEE 802.3 / zlib): reflected poly 0xEDB88320, init and xorout   *)
(*              0xFFFFFFFF (check value 0xCBF43926); 32-bit register as two 16-bit limbs  *)
(* CRCs are bit-at-a-time polynomial division, not table lookups.                        *)
EXTENDS CodecBase

\* one's-complement addition of two numbers below m = 2^bits: add, and add the carry out of the top bit back in
\* (the "end-around carry" of RFC 1071 section 1)
OcAdd(a, b, m) == LET s == a + b IN IF s >= m THEN s - m + 1 ELSE s
RECURSIVE OcBytesFrom(_, _)
OcBytesFrom(x, i) == IF i > Len(x) THEN 0 ELSE OcAdd(x[i], OcBytesFrom(x, i + 1), 256)
CheckSum8(x) == 255 - OcBytesFrom(x, 1)
\* big-endian 16-bit words; a trailing odd byte is the high byte of a word whose low byte is zero
RECURSIVE OcWordsFrom(_, _)
OcWordsFrom(x, i) == IF i > Len(x) THEN 0
                     ELSE IF i = Len(x) THEN x[i] * 256
                     ELSE OcAdd(x[i] * 256 + x[i + 1], OcWordsFrom(x, i + 2), 65536)
CheckSum16(x) == 65535 - OcWordsFrom(x, 1)

\* the same sums computed the other customary way: plain integer sum first, carries folded back afterwards - as often as
\* it takes (one fold of S gives (S div m) + (S mod m), which can itself reach m: FFFF + FFFF + 0001 = 1FFFF -> 10000 -> 0001)
RECURSIVE SumFrom(_, _)
SumFrom(x, i) == IF i > Len(x) THEN 0 ELSE x[i] + SumFrom(x, i + 1)
RECURSIVE Fold1c(_, _)
Fold1c(s, m) == IF s >= m THEN Fold1c((s % m) + (s \div m), m) ELSE s        \* end-around carry, repeated
FoldOnce(s, m) == (s % m) + (s \div m)
RECURSIVE WordSumFrom(_, _)
WordSumFrom(x, i) == IF i > Len(x) THEN 0
                     ELSE IF i = Len(x) THEN x[i] * 256
                     ELSE x[i] * 256 + x[i + 1] + WordSumFrom(x, i + 2)
CheckSum8Folded(x) == 255 - Fold1c(SumFrom(x, 1), 256)
CheckSum16Folded(x) == 65535 - Fold1c(WordSumFrom(x, 1), 65536)
\* inputs at the carry boundary: one fold of the plain sum lands on m-1, m or just above
AtFoldBoundary8(x) == FoldOnce(SumFrom(x, 1), 256) \in 255..257
AtFoldBoundary16(x) == FoldOnce(WordSumFrom(x, 1), 65536) \in 65535..65537
BytesOfWords(ws) == Flatten([i \in 1..Len(ws) |-> <<ws[i] \div 256, ws[i] % 256>>])

\* ---- CRC-16/CCITT-FALSE ------------------------------------------------------------------------
RECURSIVE Crc16Bits(_, _)
Crc16Bits(c, k) == IF k = 0 THEN c
                   ELSE Crc16Bits(IF c >= 32768 THEN BXor((c * 2) % 65536, 4129) ELSE c * 2, k - 1)   \* 0x1021
RECURSIVE Crc16From(_, _, _)
Crc16From(x, i, c) == IF i > Len(x) THEN c ELSE Crc16From(x, i + 1, Crc16Bits(BXor(c, x[i] * 256), 8))
Crc16(x) == Crc16From(x, 1, 65535)

\* ---- CRC-32 (reflected) ------------------------------------------------------------------------
\* register <<hi, lo>>; one step: shift right by one, xor 0xEDB8 8320 if the bit shifted out was 1
RECURSIVE Crc32Bits(_, _)
Crc32Bits(r, k) ==
  IF k = 0 THEN r
  ELSE LET out == r[2] % 2
           lo == (r[2] \div 2) + (r[1] % 2) * 32768
           hi == r[1] \div 2
       IN Crc32Bits(IF out = 1 THEN <<BXor(hi, 60856), BXor(lo, 33568)>> ELSE <<hi, lo>>, k - 1)
RECURSIVE Crc32From(_, _, _)
Crc32From(x, i, r) == IF i > Len(x) THEN r ELSE Crc32From(x, i + 1, Crc32Bits(<<r[1], BXor(r[2], x[i])>>, 8))
Crc32(x) == LET r == Crc32From(x, 1, <<65535, 65535>>) IN <<Not16(r[1]), Not16(r[2])>>

Check9 == <<49, 50, 51, 52, 53, 54, 55, 56, 57>>                       \* "123456789"
=============================================================================
