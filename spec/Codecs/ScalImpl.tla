------------------------------ MODULE ScalImpl ------------------------------
(* Implementation-shaped model of ParseScalableInteger (util/scalable_integer.cpp):      *)
(* one action per byte read, then the table lookup  _min_value_tbl[read_bytes]  (an       *)
(* array of 11 entries, indices 0..10) and the result.  The accumulated value is a vector  *)
(* of ten base-128 digits plus the digits shifted out at the top (a 64-bit register loses  *)
(* them).  Ghost variables: every input index read, every table index used.                *)
(* Switches reproducing the code as found (repaired; each violates the named invariant):    *)
(*   Loop11       loop condition  i <= 10  instead of  i < 10  (an 11th byte is read and    *)
(*                the table is indexed at [11])                                             *)
(*   WrapOverflow no range check on ten-byte encodings (the value wraps modulo 2^64)        *)
EXTENDS Scalable

CONSTANTS Inputs, Loop11, WrapOverflow
VARIABLES pc, in, i, nread, acc, lost, ret, val, reads, tblidx
zvars == <<pc, in, i, nread, acc, lost, ret, val, reads, tblidx>>

ZInit == /\ pc = "idle" /\ in = <<>> /\ i = 0 /\ nread = 1 /\ acc = Zero10 /\ lost = 0
         /\ ret = 0 /\ val = Zero10 /\ reads = {} /\ tblidx = {}
Call == /\ pc = "idle" /\ \E b \in Inputs : in' = b
        /\ pc' = "loop" /\ i' = 0 /\ nread' = 1 /\ acc' = Zero10 /\ lost' = 0 /\ ret' = 0 /\ val' = Zero10
        /\ reads' = {} /\ tblidx' = {}
Limit == IF Loop11 THEN 11 ELSE 10
\* read_value <<= 7; read_value |= byte & 0x7f  -- on digit vectors: shift left by one digit
ShiftIn(a, d) == Force([k \in D10 |-> IF k < 10 THEN a[k + 1] ELSE d])
Step == /\ pc = "loop" /\ i < Len(in) /\ i < Limit
        /\ LET b == in[i + 1] IN
           /\ reads' = reads \cup {i}
           /\ acc' = ShiftIn(acc, b % 128)
           /\ lost' = IF acc[1] # 0 THEN 1 ELSE lost                \* a digit left the ten-digit window
           /\ IF b < 128 THEN pc' = "table" /\ UNCHANGED <<i, nread>>
              ELSE i' = i + 1 /\ nread' = nread + 1 /\ UNCHANGED pc
        /\ UNCHANGED <<in, ret, val, tblidx>>
Incomplete == /\ pc = "loop" /\ ~(i < Len(in) /\ i < Limit)
              /\ ret' = 0 /\ pc' = "done" /\ UNCHANGED <<in, i, nread, acc, lost, val, reads, tblidx>>
\* out_value = _min_value_tbl[read_bytes] + read_value
Table == /\ pc = "table"
         /\ tblidx' = tblidx \cup {nread}
         /\ LET base == IF nread \in 1..10 THEN KMin(nread) ELSE Zero10                \* outside the table: unknown
                over == lost = 1 \/ CarryAt(acc, base, 1) = 1 \/ Add10(acc, base)[1] > 1
            IN IF over /\ ~WrapOverflow THEN ret' = 0 /\ val' = Zero10
               ELSE ret' = nread /\ val' = Force([k \in D10 |-> IF k = 1 THEN Add10(acc, base)[1] % 2 ELSE Add10(acc, base)[k]])
         /\ pc' = "done" /\ UNCHANGED <<in, i, nread, acc, lost, reads>>
Return == /\ pc = "done" /\ pc' = "idle" /\ in' = <<>> /\ i' = 0 /\ nread' = 1 /\ acc' = Zero10 /\ lost' = 0
          /\ ret' = 0 /\ val' = Zero10 /\ reads' = {} /\ tblidx' = {}
ZNext == Call \/ Step \/ Incomplete \/ Table \/ Return
ZSpec == ZInit /\ [][ZNext]_zvars

NoReadOutsideInput == \A k \in reads : k < Len(in)
AtMostTenBytesRead == \A k \in reads : k < 10
TableIndexInRange == \A k \in tblidx : k \in 0..10
ResultConforms == pc = "done" => LET r == ScalDec(in) IN IF r.ok THEN ret = r.n /\ val = r.d ELSE ret = 0
=============================================================================
