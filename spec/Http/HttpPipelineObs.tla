-------------------------- MODULE HttpPipelineObs --------------------------
(* C12, pipelining half - what can be observed at one connection from outside (the client's socket and the    *)
(* request handlers) and what the property demands of it.  Requests are numbered 1, 2, ... in the order the   *)
(* client wrote them; flag 0 = keep the connection, 1 = "Connection: close", 2 = HTTP/1.0 (both ask for the  *)
(* connection to be closed after their response).                                                              *)
(*   DispatchedInOrder            requests are handed to the handler in arrival order, each once              *)
(*   ResponsesInRequestOrder      the k-th response on the wire answers request k (so none twice, none early) *)
(*   NoResponseBeforeCompletion   a response is written only after its handler completed                       *)
(*   NothingAfterClose            nothing is written after the response to the first close request             *)
(*   EachResponseOnce             once everything is quiet, every request that was handed to a handler, whose  *)
(*                                handler and all earlier handlers have completed, has its response on the     *)
(*                                wire (unless the client itself went away)                                    *)
(*   ClosedAfterLastResponse      the server closes the connection only after the response to the close       *)
(*                                request, and has closed it once that response is out and everything is quiet *)
(* In which loop pass anything happens is not prescribed.                                                      *)
EXTENDS Integers, Sequences, FiniteSets

VARIABLES
  sent,        \* flags of the requests written by the client so far
  ndisp,       \* requests handed to the handler so far
  dispBad,     \* a request was handed out of order / twice / that was never sent
  done,        \* requests whose handler has completed (context released)
  wire,        \* response numbers read from the client socket, in order
  eof,         \* the client has seen the server close the connection ...
  eofAt,       \* ... after this many responses
  peerClosed,  \* the client closed its socket itself
  quiet        \* nothing more will happen (all loop activity has died down)
ovars == <<sent, ndisp, dispBad, done, wire, eof, eofAt, peerClosed, quiet>>

Inf == 1000000
Range(s) == { s[i] : i \in DOMAIN s }
CloseIdx == IF \E n \in DOMAIN sent : sent[n] # 0 THEN CHOOSE n \in DOMAIN sent : sent[n] # 0 /\ \A k \in 1..(n - 1) : sent[k] = 0
            ELSE Inf

OInit == sent = <<>> /\ ndisp = 0 /\ dispBad = FALSE /\ done = {} /\ wire = <<>> /\ eof = FALSE /\ eofAt = 0
         /\ peerClosed = FALSE /\ quiet = FALSE
OSend(fs) == sent' = sent \o fs /\ UNCHANGED <<ndisp, dispBad, done, wire, eof, eofAt, peerClosed, quiet>>
ODispatch(n) == /\ ndisp' = ndisp + 1
                /\ dispBad' = (dispBad \/ n # ndisp + 1 \/ n > Len(sent))
                /\ UNCHANGED <<sent, done, wire, eof, eofAt, peerClosed, quiet>>
OComplete(n) == done' = done \cup {n} /\ UNCHANGED <<sent, ndisp, dispBad, wire, eof, eofAt, peerClosed, quiet>>
OWire(n) == wire' = Append(wire, n) /\ UNCHANGED <<sent, ndisp, dispBad, done, eof, eofAt, peerClosed, quiet>>
OEof == eof' = TRUE /\ eofAt' = Len(wire) /\ UNCHANGED <<sent, ndisp, dispBad, done, wire, peerClosed, quiet>>
OPeerClose == peerClosed' = TRUE /\ UNCHANGED <<sent, ndisp, dispBad, done, wire, eof, eofAt, quiet>>
OQuiet == quiet' = TRUE /\ UNCHANGED <<sent, ndisp, dispBad, done, wire, eof, eofAt, peerClosed>>

(* --------------------------------------------------------------------------------------------------------- *)
DispatchedInOrder == ~dispBad
ResponsesInRequestOrder == \A k \in DOMAIN wire : wire[k] = k
NoResponseBeforeCompletion == Range(wire) \subseteq done
NothingAfterClose == \A k \in DOMAIN wire : wire[k] <= CloseIdx
EachResponseOnce ==
  (quiet /\ ~peerClosed) => \A i \in 1..ndisp : (\A j \in 1..i : j \in done) => i \in Range(wire)
ClosedAfterLastResponse ==
  /\ eof => (CloseIdx # Inf /\ CloseIdx \in Range(SubSeq(wire, 1, eofAt)))
  /\ (quiet /\ ~peerClosed /\ CloseIdx \in Range(wire)) => eof
=============================================================================
