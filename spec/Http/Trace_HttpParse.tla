-------------------------- MODULE Trace_HttpParse --------------------------
(* Trace validation for the parsing half of C12.  The driver feeds a byte stream, cut into segments, either   *)
(* to the real RequestParser through the leftover-buffer loop of server_imp.cpp (mode "parse": one Parse      *)
(* event per parse() call) or to a real Server over a socket (mode "srv": the handler logs the requests it    *)
(* is handed).  Every line must be an action of the contract HttpParse and every invariant of the contract    *)
(* must hold after every line; whether the stream is well-formed and which requests it encodes is decided     *)
(* here by the reference (HttpRef), not by the driver.                                                         *)
EXTENDS HttpParse, Json, IOUtils, TLC
Log == ndJsonDeserialize(IOEnv.TRACE)
VARIABLE l
ASSUME TLCSet(42, 0)
tvars == <<pvars, l>>

Ev == Log[l]
IsEv(e) == l <= Len(Log) /\ Log[l].e = e /\ l' = l + 1
SetOfPairs(h) == { <<h[i][1], h[i][2]>> : i \in DOMAIN h }
ReqOf(ev) == [m |-> ev.m, t |-> ev.t, v |-> ev.v, h |-> SetOfPairs(ev.h), b |-> ev.b]

Idle == wf = FALSE /\ claimed = FALSE /\ expected = <<>> /\ total = 0 /\ fed = 0 /\ taken = 0 /\ ngot = 0 /\ mismatch = FALSE /\ broken = {}
        /\ closed = FALSE /\ ended = TRUE
TInit == Idle /\ l = 1

TStream == IsEv("Stream") /\ ended /\ total = 0 /\ PStart(Ev.bytes, Ev.mode = "srv", Ev.claim = "wf")
TSeg == IsEv("Seg") /\ PRecv(Ev.n)
TParse == IsEv("Parse") /\ PCall(Ev.given, Ev.consumed, Ev.st)
TReq == IsEv("Req") /\ PDeliver(ReqOf(Ev))
TClosed == IsEv("Closed") /\ PClosed
TWriteFailed == IsEv("ClientWriteFailed") /\ UNCHANGED pvars    \* the client could not write (server shut its read side): not a verdict
TEnd == IsEv("End") /\ ~ended /\ PEnd
TReset == IsEv("Reset") /\ wf' = FALSE /\ claimed' = FALSE /\ expected' = <<>> /\ total' = 0 /\ fed' = 0 /\ taken' = 0 /\ ngot' = 0 /\ mismatch' = FALSE
          /\ broken' = {} /\ closed' = FALSE /\ ended' = TRUE
TNext == TStream \/ TSeg \/ TParse \/ TReq \/ TClosed \/ TWriteFailed \/ TEnd \/ TReset
TSpec == TInit /\ [][TNext]_tvars

Progress == TLCSet(42, IF l > TLCGet(42) THEN l ELSE TLCGet(42))
Accepted == IF TLCGet(42) = Len(Log) + 1 THEN TRUE ELSE PrintT(<<"MAXPOS", TLCGet(42), Len(Log)>>) /\ FALSE
=============================================================================
