---------------------------- MODULE MC_HttpParse ----------------------------
(* Bounded models for HttpParseImpl: the streams of HttpStreams!MCStreams, each cut at EVERY byte position     *)
(* into any number of segments (states reached by different cuts merge, so the search covers all 2^(n-1)       *)
(* segmentations of every stream).                                                                             *)
EXTENDS HttpParseImpl, HttpStreams

(* Vacuity guards (TLC's -coverage is impractically slow on the byte-level operators): each of these "invariants"  *)
(* MUST be violated - the counterexample is a behaviour that receives, parses, delivers and finishes, resp. one     *)
(* that gives the connection up.                                                                                      *)
NeverDeliversAndEnds == ~(ended /\ ngot >= 1 /\ fed = total)
NeverGivesUp == ~(ended /\ closed)
(* for the wf-* scopes only: every stream of the scope is well-formed per HttpRef, so SegmentationIndependent is not vacuous *)
StreamsAreWellFormed == wf
=============================================================================
