CONSTANTS
  Scope = "gen-quick"
  ShortLen = 45
SPECIFICATION GSpec
CONSTRAINT Emit
CHECK_DEADLOCK FALSE
