CONSTANTS
  N = 2
  Flags = {0, 1}
  MaxCb = 2
  StopAfterClose = TRUE
  ShutRdEof = TRUE
SPECIFICATION Spec
INVARIANTS EachResponseOnce
CHECK_DEADLOCK FALSE
