CONSTANTS
  Scope = "wf-quick"
  Streams <- MCStreams
  MethodPrefixFails = FALSE
  ContentLengthThrows = FALSE
SPECIFICATION Spec
INVARIANTS Total ConsumedBounded ResumableExactly SegmentationIndependent BufferIsTheUnconsumedBytes
CHECK_DEADLOCK FALSE
