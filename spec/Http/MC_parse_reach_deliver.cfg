CONSTANTS
  Scope = "cov"
  Streams <- MCStreams
  MethodPrefixFails = FALSE
  ContentLengthThrows = FALSE
SPECIFICATION Spec
INVARIANTS NeverDeliversAndEnds
CHECK_DEADLOCK FALSE
