CONSTANTS
  Scope = "asfound-method"
  Streams <- MCStreams
  MethodPrefixFails = TRUE
  ContentLengthThrows = FALSE
SPECIFICATION Spec
INVARIANTS Total ConsumedBounded ResumableExactly SegmentationIndependent BufferIsTheUnconsumedBytes
CHECK_DEADLOCK FALSE
