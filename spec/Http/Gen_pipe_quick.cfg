CONSTANTS
  N = 3
  Flags = {0, 1}
  MaxCb = 2
  StopAfterClose = TRUE
  ShutRdEof = FALSE
  Depth = 12
  PeerMayClose = FALSE
SPECIFICATION GSpec
CONSTRAINT Emit
CHECK_DEADLOCK FALSE
