---------------------------- MODULE HttpPipeline ----------------------------
(* C12 - one connection of the HTTP server, shaped like modules/http/server/server_imp.cpp:                  *)
(*   onTcpReceived     ReadEvent (takes whatever the socket holds - segments coalesce) followed by one        *)
(*                     DispatchNext per request in the buffer: mark the close request, call the handler;      *)
(*                     the handler may release contexts inside the callback (cb) or keep its own              *)
(*   commitRespond     Commit: write the response if it is its turn and flush parked successors, else park it *)
(*   onTcpSendCompleted SendCompleted: drop the connection when the close request has been answered           *)
(* Request numbers are 1-based and equal req_index + 1.  Handlers complete in any order, inside the callback  *)
(* (cb) or any time later (HandlerCompletes).  The observable part of the state is HttpPipelineObs, whose     *)
(* invariants are the property.                                                                                *)
(* As-found switches (what the code did before the repairs; each must violate the named invariant):           *)
(*   StopAfterClose = FALSE   requests behind a close request in the same buffer are still dispatched         *)
(*                            (NothingAfterClose)                                                              *)
(*   ShutRdEof = TRUE         shutdown(SHUT_RD) on marking the close request makes the socket readable with   *)
(*                            EOF; the read-zero path tears the connection down before a late handler          *)
(*                            answers (EachResponseOnce / ClosedAfterLastResponse)                             *)
EXTENDS HttpPipelineObs
CONSTANTS N,               \* requests per connection
          Flags,           \* request kinds the client uses, subset of {0, 1, 2}
          MaxCb,           \* contexts released inside one handler callback, at most
          StopAfterClose, ShutRdEof

VARIABLES
  sock,        \* request numbers written by the client, not yet read by the server
  rbuf,        \* request numbers in the receive buffer while onTcpReceived runs
  pc,          \* "idle" | "reading"
  reqIndex,    \* number of the next request to hand out   (Connection::req_index + 1)
  resIndex,    \* number of the next response to write     (Connection::res_index + 1)
  closeIndex,  \* number of the close request, Inf if none  (Connection::close_index + 1)
  parked,      \* responses committed out of turn           (Connection::res_buff)
  held,        \* requests whose handler still keeps the context
  conn,        \* "open" | "dropped"
  sendPending, \* a write is outstanding: the send-complete callback will come
  readShut     \* the read side was shut down
ivars == <<sock, rbuf, pc, reqIndex, resIndex, closeIndex, parked, held, conn, sendPending, readShut>>
vars == <<ovars, ivars>>

Init == /\ OInit
        /\ sock = <<>> /\ rbuf = <<>> /\ pc = "idle" /\ reqIndex = 1 /\ resIndex = 1 /\ closeIndex = Inf /\ parked = {}
        /\ held = {} /\ conn = "open" /\ sendPending = FALSE /\ readShut = FALSE

(* commitRespond as a function on the part of the state it touches *)
RECURSIVE Flush(_, _)
Flush(c, ci) ==       \* while the next response is parked and the close request is not yet answered: write it
  IF c.res > ci \/ c.res \notin c.parked THEN c
  ELSE Flush([c EXCEPT !.wire = Append(@, c.res), !.parked = @ \ {c.res}, !.res = @ + 1], ci)
Commit(c, n, ci) ==
  IF ~c.open THEN c
  ELSE IF n = c.res THEN Flush([c EXCEPT !.wire = Append(@, n), !.res = @ + 1, !.sp = TRUE], ci)
  ELSE [c EXCEPT !.parked = @ \cup {n}]
RECURSIVE CommitAll(_, _, _)
CommitAll(c, ns, ci) == IF ns = <<>> THEN c ELSE CommitAll(Commit(c, Head(ns), ci), Tail(ns), ci)
Cur == [open |-> conn = "open", res |-> resIndex, parked |-> parked, wire |-> wire, sp |-> sendPending]
Apply(c) == resIndex' = c.res /\ parked' = c.parked /\ wire' = c.wire /\ sendPending' = c.sp

Seqs(S, k) == UNION { [1..m -> S] : m \in 0..k }
Distinct(s) == \A i, j \in DOMAIN s : i # j => s[i] # s[j]

Arrive(fs) ==                         \* the client writes Len(fs) requests in one segment
  /\ ~peerClosed /\ ~eof /\ ~quiet
  /\ OSend(fs)
  /\ sock' = sock \o [i \in 1..Len(fs) |-> Len(sent) + i]
  /\ UNCHANGED <<rbuf, pc, reqIndex, resIndex, closeIndex, parked, held, conn, sendPending, readShut>>

ReadEvent ==                          \* onTcpReceived entered with everything the socket holds
  /\ pc = "idle" /\ conn = "open" /\ sock # <<>>
  /\ sock' = <<>>
  /\ IF closeIndex # Inf THEN rbuf' = <<>> /\ pc' = "idle"        \* "should not recv any data": discarded
     ELSE rbuf' = sock /\ pc' = "reading"
  /\ UNCHANGED <<ovars, reqIndex, resIndex, closeIndex, parked, held, conn, sendPending, readShut>>

DispatchNext(cb) ==                   \* one request parsed and handed to the handler; cb: contexts released in the callback
  /\ pc = "reading" /\ rbuf # <<>>
  /\ LET n == Head(rbuf)
         isLast == sent[n] # 0
         ci == IF isLast THEN reqIndex ELSE closeIndex
         own == \E i \in DOMAIN cb : cb[i] = n
         c == CommitAll(Cur, cb, ci) IN
     /\ Distinct(cb) /\ Range(cb) \subseteq held \cup {n}
     /\ own => cb[Len(cb)] = n                     \* the server's own reference goes last, after the callback returned
     /\ closeIndex' = ci
     /\ readShut' = (readShut \/ isLast)
     /\ reqIndex' = reqIndex + 1
     /\ ndisp' = ndisp + 1 /\ dispBad' = (dispBad \/ n # ndisp + 1)
     /\ done' = done \cup Range(cb)
     /\ held' = (held \cup {n}) \ Range(cb)
     /\ Apply(c)
     /\ rbuf' = IF StopAfterClose /\ isLast THEN <<>> ELSE Tail(rbuf)
     /\ pc' = IF rbuf' = <<>> THEN "idle" ELSE "reading"
  /\ UNCHANGED <<sent, eof, eofAt, peerClosed, quiet, sock, conn>>

HandlerCompletes(n) ==                \* a kept context is released some time later
  /\ pc = "idle" /\ n \in held /\ ~quiet
  /\ held' = held \ {n}
  /\ done' = done \cup {n}
  /\ Apply(Commit(Cur, n, closeIndex))
  /\ UNCHANGED <<sent, ndisp, dispBad, eof, eofAt, peerClosed, quiet, sock, rbuf, pc, reqIndex, closeIndex, conn, readShut>>

Drop == conn' = "dropped" /\ (IF peerClosed THEN UNCHANGED <<eof, eofAt>> ELSE eof' = TRUE /\ eofAt' = Len(wire))

SendCompleted ==                      \* onTcpSendCompleted
  /\ pc = "idle" /\ conn = "open" /\ sendPending
  /\ sendPending' = FALSE
  /\ IF resIndex > closeIndex THEN Drop ELSE UNCHANGED <<conn, eof, eofAt>>
  /\ UNCHANGED <<sent, ndisp, dispBad, done, wire, peerClosed, quiet, sock, rbuf, pc, reqIndex, resIndex, closeIndex, parked, held, readShut>>

ReadZeroAfterShut ==                  \* as found: SHUT_RD makes the socket report EOF; the connection is torn down
  /\ ShutRdEof /\ readShut /\ pc = "idle" /\ conn = "open"
  /\ Drop
  /\ UNCHANGED <<sent, ndisp, dispBad, done, wire, peerClosed, quiet, sock, rbuf, pc, reqIndex, resIndex, closeIndex, parked, held, sendPending, readShut>>

PeerCloses ==                         \* the client closes its socket
  /\ ~peerClosed /\ ~eof /\ ~quiet
  /\ OPeerClose
  /\ UNCHANGED ivars

ServerSeesPeerClose ==                \* read of zero bytes: connection dropped, parked responses freed
  /\ peerClosed /\ pc = "idle" /\ conn = "open"
  /\ conn' = "dropped" /\ sock' = <<>>
  /\ UNCHANGED <<ovars, rbuf, pc, reqIndex, resIndex, closeIndex, parked, held, sendPending, readShut>>

InternalEnabled ==
  \/ pc = "reading"
  \/ conn = "open" /\ (sock # <<>> \/ sendPending \/ peerClosed \/ (ShutRdEof /\ readShut))

Quiesce ==                            \* nothing left to happen inside the server
  /\ ~quiet /\ ~InternalEnabled
  /\ OQuiet
  /\ UNCHANGED ivars

ArriveAny == \E k \in 1..(N - Len(sent)) : \E fs \in [1..k -> Flags] : Arrive(fs)
DispatchAny == \E cb \in Seqs(1..N, MaxCb) : DispatchNext(cb)
CompleteAny == \E n \in 1..N : HandlerCompletes(n)
Next ==
  \/ ArriveAny
  \/ ReadEvent
  \/ DispatchAny
  \/ CompleteAny
  \/ SendCompleted
  \/ ReadZeroAfterShut
  \/ PeerCloses
  \/ ServerSeesPeerClose
  \/ Quiesce
Spec == Init /\ [][Next]_vars

(* bookkeeping of the machine itself *)
IndexSanity == resIndex <= reqIndex /\ parked \subseteq (resIndex + 1)..(reqIndex - 1) /\ held \subseteq 1..(reqIndex - 1)
=============================================================================
