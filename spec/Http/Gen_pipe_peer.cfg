CONSTANTS
  N = 2
  Flags = {0, 1}
  MaxCb = 2
  StopAfterClose = TRUE
  ShutRdEof = FALSE
  Depth = 12
  PeerMayClose = TRUE
SPECIFICATION GSpec
CONSTRAINT Emit
CHECK_DEADLOCK FALSE
