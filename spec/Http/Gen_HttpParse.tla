---------------------------- MODULE Gen_HttpParse ----------------------------
(* Generator for the parsing half of C12: every stream of the bounded scope with every cut into one and two    *)
(* segments, every cut into three segments for streams up to ShortLen bytes, and the cut into single bytes.    *)
(* Each (stream, cuts) pair is printed as JSON and executed on the real RequestParser / Server by the driver.  *)
EXTENDS HttpStreams, Json, TLC
CONSTANT ShortLen
VARIABLES gs, gcuts
WellFormedish(s) == s \in ReqsMore          \* three-segment cuts only for single well-formed requests
Ones(n) == [i \in 1..n |-> 1]
CutsOf(s) ==
  LET L == Len(s) IN
  {<<L>>, Ones(L)} \cup { <<i, L - i>> : i \in 1..(L - 1) }
  \cup (IF L <= ShortLen /\ WellFormedish(s) THEN UNION { { <<i, j, L - i - j>> : j \in 1..(L - 1 - i) } : i \in 1..(L - 2) } ELSE {})
GInit == gs \in MCStreams /\ gcuts \in CutsOf(gs)
GNext == UNCHANGED <<gs, gcuts>>
GSpec == GInit /\ [][GNext]_<<gs, gcuts>>
WFSet == Pipelines(ReqsSmall) \cup ReqsMore \cup Pipelines(ReqsMid)      \* streams meant to be well-formed
Emit == PrintT("BEH " \o ToJson([bytes |-> gs, cuts |-> gcuts, claim |-> IF gs \in WFSet THEN "wf" ELSE "any"])) /\ FALSE
===============================================================================
