CONSTANTS
  Scope = "asfound-length"
  Streams <- MCStreams
  MethodPrefixFails = FALSE
  ContentLengthThrows = TRUE
SPECIFICATION Spec
INVARIANTS Total ConsumedBounded ResumableExactly SegmentationIndependent BufferIsTheUnconsumedBytes
CHECK_DEADLOCK FALSE
