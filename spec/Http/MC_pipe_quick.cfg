CONSTANTS
  N = 5
  Flags = {0, 1, 2}
  MaxCb = 2
  StopAfterClose = TRUE
  ShutRdEof = FALSE
SPECIFICATION Spec
INVARIANTS DispatchedInOrder ResponsesInRequestOrder NoResponseBeforeCompletion NothingAfterClose EachResponseOnce ClosedAfterLastResponse IndexSanity
CHECK_DEADLOCK FALSE
