--------------------------- MODULE HttpParseImpl ---------------------------
(* C12 - the incremental machine, shaped like modules/http/server/request_parser.cpp (three resumable stages, *)
(* returns the number of bytes consumed) driven by the leftover-buffer loop of server_imp.cpp                 *)
(* (onTcpReceived: parse everything unconsumed, drop what was consumed, take a finished request, go on while  *)
(* bytes are left; give up the connection when the parser fails).  Every stream of the constant set Streams   *)
(* is cut into segments in every possible way (Recv(n) for every n).                                          *)
(* The main configuration models the intended behaviour; the two as-found switches reproduce what the code    *)
(* did before the repairs and must violate the named invariant:                                               *)
(*   MethodPrefixFails    a first segment that ends inside the method name fails the parse  (SegmentationIndependent) *)
(*   ContentLengthThrows  a Content-Length that is not a decimal number escapes as an exception         (Total) *)
EXTENDS HttpParse
CONSTANTS Streams, MethodPrefixFails, ContentLengthThrows

VARIABLES
  stream,   \* the bytes the client sends
  buf,      \* the connection's receive buffer: received, not yet consumed
  pst,      \* RequestParser::state_
  cl,       \* RequestParser::content_length_ (-1 = none declared)
  cur,      \* RequestParser::sp_request_ under construction
  pc        \* "idle" (waiting for a segment) | "loop" (inside onTcpReceived) | "dead" (connection dropped)
ivars == <<stream, buf, pst, cl, cur, pc>>
vars == <<pvars, ivars>>

EmptyReq == [m |-> <<>>, t |-> <<>>, v |-> <<>>, h |-> {}, b |-> <<>>]
UrlOK(t) == t # <<>> /\ t[1] = SLASH               \* StringToUrlPath: must start with "/" (escapes are not modelled)
ProperMethodPrefix(s) == \E m \in Methods : Len(s) < Len(m) /\ IsPrefixOf(s, m)
Out(consumed, st, c, l) == [consumed |-> consumed, st |-> st, cur |-> c, cl |-> l]

(* stage 1: "GET /index.html HTTP/1.1\r\n" *)
StartStage(s, c) ==
  LET sp == FindByte(s, SP, 1)
      methodStr == IF sp = 0 THEN s ELSE SubSeq(s, 1, sp - 1) IN
  IF methodStr \notin Methods THEN
      IF ~MethodPrefixFails /\ sp = 0 /\ ProperMethodPrefix(s) THEN Out(0, "init", c, -1)   \* need more
      ELSE Out(0, "fail", c, -1)
  ELSE
  LET eol == IF sp = 0 THEN 0 ELSE FindCRLF(s, sp) IN
  IF eol = 0 THEN Out(0, "init", c, -1) ELSE
  LET ub == FindNotByte(s, SP, sp) IN
  IF ub = 0 \/ ub >= eol THEN Out(0, "fail", c, -1) ELSE
  LET ue == FindByte(s, SP, ub)
      url == SubSeq(s, ub, IF ue = 0 THEN Len(s) ELSE ue - 1) IN
  IF ~UrlOK(url) THEN Out(0, "fail", c, -1) ELSE
  LET vb == IF ue = 0 THEN 0 ELSE FindNotByte(s, SP, ue) IN
  IF vb = 0 \/ vb >= eol THEN Out(0, "fail", c, -1) ELSE
  LET ver == SubSeq(s, vb, eol - 1) IN
  IF ver \notin Versions THEN Out(0, "fail", c, -1)
  ELSE Out(eol + 1, "startline", [c EXCEPT !.m = methodStr, !.t = url, !.v = ver], -1)

(* stage 2: header lines up to the blank line; pos = bytes consumed so far in this call *)
RECURSIVE HeaderStage(_, _, _, _)
HeaderStage(s, pos, c, l) ==
  LET eol == FindCRLF(s, pos + 1) IN
  IF eol = pos + 1 THEN Out(pos + 2, "heads", c, l)
  ELSE IF eol = 0 THEN Out(pos, "startline", c, l)
  ELSE
  LET colon == FindByte(s, COLON, pos + 1) IN
  IF colon = 0 \/ colon >= eol THEN Out(pos, "fail", c, l) ELSE
  LET key == Strip(SubSeq(s, pos + 1, colon - 1))
      vs == FindNotByte(s, SP, colon + 1) IN
  IF vs = 0 \/ vs >= eol THEN Out(pos, "fail", c, l) ELSE
  LET val == Strip(SubSeq(s, vs, eol - 1))
      c2 == [c EXCEPT !.h = Put(c.h, key, val)] IN
  IF key = bContentLength THEN
      IF IsDigits(val) /\ Len(val) <= 9 THEN HeaderStage(s, eol + 1, c2, Dec(val))
      ELSE IF ContentLengthThrows THEN Out(pos, "exception", c2, l)
      ELSE Out(pos, "fail", c2, l)
  ELSE HeaderStage(s, eol + 1, c2, l)

(* stage 3: body *)
BodyStage(s, pos, c, l) ==
  IF l # -1 THEN
      IF Len(s) - pos >= l THEN Out(pos + l, "all", [c EXCEPT !.b = SubSeq(s, pos + 1, pos + l)], l)
      ELSE Out(pos, "heads", c, l)
  ELSE Out(Len(s), "all", [c EXCEPT !.b = SubSeq(s, pos + 1, Len(s))], l)

ParseFn(s, st, c, l) ==           \* RequestParser::parse(s) in state st
  LET a == IF st = "init" THEN StartStage(s, EmptyReq) ELSE Out(0, st, c, l)
      b == IF a.st = "startline" THEN HeaderStage(s, a.consumed, a.cur, a.cl) ELSE a
      d == IF b.st = "heads" THEN BodyStage(s, b.consumed, b.cur, b.cl) ELSE b IN
  d

(* --------------------------------------------------------------------------------------------------------- *)
Init ==
  /\ stream \in Streams
  /\ PInit(stream, FALSE)
  /\ buf = <<>> /\ pst = "init" /\ cl = -1 /\ cur = EmptyReq /\ pc = "idle"

Recv(n) ==                         \* a segment of n bytes arrives (BufferedFd appends it to the receive buffer)
  /\ pc = "idle"
  /\ PRecv(n)
  /\ buf' = buf \o SubSeq(stream, fed + 1, fed + n)
  /\ pc' = "loop"
  /\ UNCHANGED <<stream, pst, cl, cur>>

ParseCall ==                       \* one iteration of the while loop in onTcpReceived
  /\ pc = "loop" /\ buf # <<>> /\ pst # "deliver"
  /\ LET r == ParseFn(buf, pst, cur, cl) IN
     /\ PCall(Len(buf), r.consumed, r.st)
     /\ buf' = SubSeq(buf, r.consumed + 1, Len(buf))
     /\ cl' = r.cl
     /\ IF r.st = "all" THEN pst' = "deliver" /\ cur' = r.cur /\ pc' = "loop"
        ELSE IF r.st \in {"fail", "exception"} THEN pst' = r.st /\ cur' = r.cur /\ pc' = "closing"
        ELSE pst' = r.st /\ cur' = r.cur /\ pc' = "idle"
  /\ UNCHANGED stream

TakeRequest ==                     \* getRequest() + handing the request on
  /\ pc = "loop" /\ pst = "deliver"
  /\ PDeliver(cur)
  /\ pst' = "init" /\ cur' = EmptyReq
  /\ pc' = IF buf = <<>> THEN "idle" ELSE "loop"
  /\ UNCHANGED <<stream, buf, cl>>

GiveUp ==                          \* parse failure: the server disconnects
  /\ pc = "closing"
  /\ PClosed
  /\ pc' = "dead"
  /\ UNCHANGED <<stream, buf, pst, cl, cur>>

Finish ==
  /\ ~ended
  /\ \/ pc = "idle" /\ fed = total
     \/ pc = "dead"
  /\ PEnd
  /\ UNCHANGED ivars

RecvAny == \E n \in 1..(total - fed) : Recv(n)
Next ==
  \/ RecvAny
  \/ ParseCall
  \/ TakeRequest
  \/ GiveUp
  \/ Finish
Spec == Init /\ [][Next]_vars

(* the machine's own bookkeeping, in addition to the contract's invariants *)
BufferIsTheUnconsumedBytes == pc \in {"idle", "loop"} => buf = SubSeq(stream, taken + 1, fed)
=============================================================================
