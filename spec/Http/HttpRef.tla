------------------------------ MODULE HttpRef ------------------------------
(* C12, one-shot reference: the sequence of requests encoded by a stream of well-formed requests with        *)
(* declared body lengths.  WellFormed is deliberately conservative (a subset of what any HTTP/1.x parser     *)
(* accepts): for streams outside it the property only demands totality, for streams inside it the request    *)
(* sequence is fully determined and must not depend on how the stream is cut into segments.                   *)
(*   request  = method SP+ target SP+ version CRLF (header CRLF)* CRLF body                                   *)
(*   method   in Methods, version in Versions (directly followed by CRLF)                                     *)
(*   target   = "/" safe* [ "?" alnum+ "=" alnum+ ]        safe = alnum | - . _ ~ /                           *)
(*   header   = SP* key SP* ":" SP* value SP*   key = (alnum | -)+, value = visible bytes and inner spaces,   *)
(*              non-empty; a repeated key keeps the last value                                                *)
(*   body     = exactly Content-Length bytes; Content-Length (this spelling) is present, 1..7 digits, or a huge  *)
(*              length whose body cannot have arrived (IsHugeLength): the stream ends inside that request          *)
EXTENDS HttpBytes

IsSafe(b) == IsAlnum(b) \/ b \in {45, 46, 95, 126, 47}
IsKeyByte(b) == IsAlnum(b) \/ b = 45
IsValueByte(b) == b >= 32 /\ b <= 126

WFTarget(t) ==
  /\ Len(t) >= 1 /\ t[1] = SLASH
  /\ LET q == FindByte(t, QMARK, 1) IN
       IF q = 0 THEN AllBytes(t, IsSafe)
       ELSE LET e == FindByte(t, EQUALS, q) IN
              /\ AllBytes(SubSeq(t, 1, q - 1), IsSafe)
              /\ e > q + 1 /\ e < Len(t)
              /\ AllBytes(SubSeq(t, q + 1, e - 1), IsAlnum) /\ AllBytes(SubSeq(t, e + 1, Len(t)), IsAlnum)

Put(h, k, v) == {p \in h : p[1] # k} \cup {<<k, v>>}          \* headers: set of <<key, value>>, last value wins
Has(h, k) == \E p \in h : p[1] = k
Get(h, k) == (CHOOSE p \in h : p[1] = k)[2]
Bad == [ok |-> FALSE]

(* start line at s[p .. eol-1] *)
StartLine(s, p, eol) ==
  LET sp1 == FindByte(s, SP, p) IN
  IF sp1 = 0 \/ sp1 >= eol \/ SubSeq(s, p, sp1 - 1) \notin Methods THEN Bad ELSE
  LET tb == FindNotByte(s, SP, sp1) IN
  IF tb = 0 \/ tb >= eol THEN Bad ELSE
  LET sp2 == FindByte(s, SP, tb) IN
  IF sp2 = 0 \/ sp2 >= eol \/ ~WFTarget(SubSeq(s, tb, sp2 - 1)) THEN Bad ELSE
  LET vb == FindNotByte(s, SP, sp2) IN
  IF vb = 0 \/ vb >= eol \/ SubSeq(s, vb, eol - 1) \notin Versions THEN Bad ELSE
  [ok |-> TRUE, m |-> SubSeq(s, p, sp1 - 1), t |-> SubSeq(s, tb, sp2 - 1), v |-> SubSeq(s, vb, eol - 1)]

(* header lines from position p up to and including the blank line *)
RECURSIVE HeaderLines(_, _, _)
HeaderLines(s, p, h) ==
  LET eol == FindCRLF(s, p) IN
  IF eol = 0 THEN Bad
  ELSE IF eol = p THEN [ok |-> TRUE, h |-> h, next |-> p + 2]
  ELSE LET line == SubSeq(s, p, eol - 1)
           c == FindByte(line, COLON, 1)
           key == IF c = 0 THEN <<>> ELSE Strip(SubSeq(line, 1, c - 1))
           val == IF c = 0 THEN <<>> ELSE Strip(SubSeq(line, c + 1, Len(line))) IN
       IF c = 0 \/ key = <<>> \/ val = <<>> \/ ~AllBytes(key, IsKeyByte) \/ ~AllBytes(val, IsValueByte) THEN Bad
       ELSE HeaderLines(s, eol + 2, Put(h, key, val))

(* A declared body length that no stream examined here can satisfy: 8..19 digits without a leading zero (>= 10^7, < 2^64 - 1), or 20 *)
(* digits up to 18446744073709551614 = SIZE_MAX - 1 (SIZE_MAX itself is the code's "not declared").  TLC integers are 32-bit, so *)
(* the value is never computed: the request's body cannot have arrived, the stream is a well-formed stream cut off inside its last *)
(* request, and the requests it yields - however it is split - are the complete ones before it.                                   *)
HugePrefix == <<49, 56, 52, 52, 54, 55, 52, 52, 48, 55, 51, 55, 48, 57, 53, 53, 49>>
IsHugeLength(clv) ==
  /\ IsDigits(clv) /\ Len(clv) >= 8 /\ clv[1] # 48
  /\ \/ Len(clv) <= 19
     \/ Len(clv) = 20 /\ SubSeq(clv, 1, 17) = HugePrefix /\ Dec(SubSeq(clv, 18, 20)) <= 614

(* one request starting at p: [ok, req, next], or [ok, pending] for a request whose declared body cannot have arrived *)
OneRequest(s, p) ==
  LET eol == FindCRLF(s, p) IN
  IF eol = 0 THEN Bad ELSE
  LET sl == StartLine(s, p, eol) IN
  IF ~sl.ok THEN Bad ELSE
  LET hl == HeaderLines(s, eol + 2, {}) IN
  IF ~hl.ok \/ ~Has(hl.h, bContentLength) THEN Bad ELSE
  LET clv == Get(hl.h, bContentLength) IN
  IF IsHugeLength(clv) THEN [ok |-> TRUE, pending |-> TRUE] ELSE
  IF ~IsDigits(clv) \/ Len(clv) > 7 THEN Bad ELSE
  LET n == Dec(clv) IN
  IF hl.next + n - 1 > Len(s) THEN Bad ELSE
  [ok |-> TRUE, next |-> hl.next + n,
   req |-> [m |-> sl.m, t |-> sl.t, v |-> sl.v, h |-> hl.h, b |-> SubSeq(s, hl.next, hl.next + n - 1)]]

RECURSIVE RequestsFrom(_, _, _)
RequestsFrom(s, p, acc) ==
  IF p > Len(s) THEN [ok |-> TRUE, reqs |-> acc]
  ELSE LET r == OneRequest(s, p) IN
       IF ~r.ok THEN [ok |-> FALSE, reqs |-> acc]
       ELSE IF "pending" \in DOMAIN r THEN [ok |-> TRUE, reqs |-> acc]
       ELSE RequestsFrom(s, r.next, Append(acc, r.req))

Parsed(s) == RequestsFrom(s, 1, <<>>)
WellFormed(s) == Parsed(s).ok
Requests(s) == Parsed(s).reqs

(* "a request that asked for the connection to be closed" (HTTP/1.0 without keep-alive, or Connection: close) *)
IsLast(r) ==
  IF r.v = bHTTP10 THEN ~(Has(r.h, bConnection) /\ Contains(Get(r.h, bConnection), bkeepalive))
  ELSE Has(r.h, bConnection) /\ Contains(Get(r.h, bConnection), bclose)

RECURSIVE UpToLast(_, _)
UpToLast(rs, i) == IF i > Len(rs) THEN rs ELSE IF IsLast(rs[i]) THEN SubSeq(rs, 1, i) ELSE UpToLast(rs, i + 1)
=============================================================================
