----------------------------- MODULE HttpBytes -----------------------------
(* Byte-sequence helpers for the HTTP specifications (C12).  A byte is an integer 0..255, a string is a        *)
(* sequence of bytes, positions are 1-based, "not found" is 0.  Literal strings are written as byte tuples    *)
(* (the names say what they spell).                                                                            *)
EXTENDS Integers, Sequences, FiniteSets

CR == 13
LF == 10
SP == 32
COLON == 58
SLASH == 47
QMARK == 63
EQUALS == 61
CRLFs == <<13, 10>>

(* The searches go window by window (W bytes at a time): inside a window that contains a hit the search is a    *)
(* plain linear recursion, windows without a hit are skipped with one bounded quantifier - so the recursion     *)
(* depth stays small even on 64 KiB bodies.                                                                      *)
W == 48
Hi(from, last) == IF from + W - 1 < last THEN from + W - 1 ELSE last

RECURSIVE LinCRLF(_, _)
LinCRLF(s, i) == IF s[i] = CR /\ s[i + 1] = LF THEN i ELSE LinCRLF(s, i + 1)
RECURSIVE FindCRLF(_, _)
FindCRLF(s, from) ==      \* smallest i >= from with s[i] = CR and s[i+1] = LF
  IF from < 1 \/ from >= Len(s) THEN 0
  ELSE LET hi == Hi(from, Len(s) - 1) IN
       IF \E i \in from..hi : s[i] = CR /\ s[i + 1] = LF THEN LinCRLF(s, from) ELSE FindCRLF(s, hi + 1)

RECURSIVE LinByte(_, _, _)
LinByte(s, b, i) == IF s[i] = b THEN i ELSE LinByte(s, b, i + 1)
RECURSIVE FindByte(_, _, _)
FindByte(s, b, from) ==   \* smallest i >= from with s[i] = b
  IF from < 1 \/ from > Len(s) THEN 0
  ELSE LET hi == Hi(from, Len(s)) IN
       IF \E i \in from..hi : s[i] = b THEN LinByte(s, b, from) ELSE FindByte(s, b, hi + 1)

RECURSIVE LinNotByte(_, _, _)
LinNotByte(s, b, i) == IF s[i] # b THEN i ELSE LinNotByte(s, b, i + 1)
RECURSIVE FindNotByte(_, _, _)
FindNotByte(s, b, from) == \* smallest i >= from with s[i] # b
  IF from < 1 \/ from > Len(s) THEN 0
  ELSE LET hi == Hi(from, Len(s)) IN
       IF \E i \in from..hi : s[i] # b THEN LinNotByte(s, b, from) ELSE FindNotByte(s, b, hi + 1)

RECURSIVE LinLastNotByte(_, _, _)
LinLastNotByte(s, b, i) == IF s[i] # b THEN i ELSE LinLastNotByte(s, b, i - 1)
RECURSIVE FindLastNotByte(_, _, _)
FindLastNotByte(s, b, from) == \* largest i <= from with s[i] # b
  IF from < 1 THEN 0
  ELSE LET lo == IF from - W + 1 > 1 THEN from - W + 1 ELSE 1 IN
       IF \E i \in lo..from : s[i] # b THEN LinLastNotByte(s, b, from) ELSE FindLastNotByte(s, b, lo - 1)

Strip(s) ==               \* util::string::Strip: spaces only
  LET a == FindNotByte(s, SP, 1) IN IF a = 0 THEN <<>> ELSE SubSeq(s, a, FindLastNotByte(s, SP, Len(s)))

IsDigit(b) == b >= 48 /\ b <= 57
IsAlnum(b) == IsDigit(b) \/ (b >= 65 /\ b <= 90) \/ (b >= 97 /\ b <= 122)
AllBytes(s, P(_)) == \A i \in 1..Len(s) : P(s[i])
IsDigits(s) == s # <<>> /\ AllBytes(s, IsDigit)

RECURSIVE DecFrom(_, _, _)
DecFrom(s, i, acc) == IF i > Len(s) THEN acc ELSE DecFrom(s, i + 1, acc * 10 + (s[i] - 48))
Dec(s) == DecFrom(s, 1, 0)        \* callers guarantee IsDigits(s) and Len(s) <= 9 (32-bit TLC integers)

Contains(s, pat) == \E i \in 1..(Len(s) - Len(pat) + 1) : SubSeq(s, i, i + Len(pat) - 1) = pat

IsPrefixOf(p, s) == Len(p) <= Len(s) /\ SubSeq(s, 1, Len(p)) = p

RECURSIVE Flatten(_)
Flatten(ss) == IF ss = <<>> THEN <<>> ELSE Head(ss) \o Flatten(Tail(ss))

(* literals *)
bGET == <<71, 69, 84>>
bHEAD == <<72, 69, 65, 68>>
bPUT == <<80, 85, 84>>
bPOST == <<80, 79, 83, 84>>
bTRACE == <<84, 82, 65, 67, 69>>
bOPTIONS == <<79, 80, 84, 73, 79, 78, 83>>
bDELETE == <<68, 69, 76, 69, 84, 69>>
Methods == {bGET, bHEAD, bPUT, bPOST, bTRACE, bOPTIONS, bDELETE}
bHTTP10 == <<72, 84, 84, 80, 47, 49, 46, 48>>
bHTTP11 == <<72, 84, 84, 80, 47, 49, 46, 49>>
bHTTP20 == <<72, 84, 84, 80, 47, 50, 46, 48>>
Versions == {bHTTP10, bHTTP11, bHTTP20}
bContentLength == <<67, 111, 110, 116, 101, 110, 116, 45, 76, 101, 110, 103, 116, 104>>
bConnection == <<67, 111, 110, 110, 101, 99, 116, 105, 111, 110>>
bclose == <<99, 108, 111, 115, 101>>
bkeepalive == <<107, 101, 101, 112, 45, 97, 108, 105, 118, 101>>
=============================================================================
