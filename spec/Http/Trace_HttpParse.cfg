SPECIFICATION TSpec
CONSTRAINT Progress
POSTCONDITION Accepted
INVARIANTS GeneratorClaimHolds Total ConsumedBounded ResumableExactly SegmentationIndependent
CHECK_DEADLOCK FALSE
