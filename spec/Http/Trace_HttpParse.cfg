SPECIFICATION TSpec
CONSTRAINT Progress
POSTCONDITION Accepted
INVARIANTS Total ConsumedBounded ResumableExactly SegmentationIndependent
CHECK_DEADLOCK FALSE
