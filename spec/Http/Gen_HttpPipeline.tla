--------------------------- MODULE Gen_HttpPipeline ---------------------------
(* Behaviour generator for the pipelining half of C12: every behaviour of the bounded model that ends quiet   *)
(* is printed as the sequence of what the ENVIRONMENT did - segments written, contexts released inside which  *)
(* callback, contexts released later, loop passes going by (a "pass" stands for any internal step of the      *)
(* server), the client closing.  The driver replays the script against a real Server; the recorded trace is   *)
(* validated against Trace_HttpPipeline.                                                                       *)
EXTENDS HttpPipeline, Json, TLC
CONSTANTS Depth, PeerMayClose
VARIABLE hist
gvars == <<vars, hist>>
H(r) == hist' = Append(hist, r)
Pass == hist' = IF hist # <<>> /\ hist[Len(hist)].op = "pass" THEN hist ELSE Append(hist, [op |-> "pass"])
GInit == Init /\ hist = <<>>
GNext ==
  \/ \E k \in 1..(N - Len(sent)) : \E fs \in [1..k -> Flags] : Arrive(fs) /\ H([op |-> "seg", fs |-> fs])
  \/ ReadEvent /\ Pass
  \/ \E cb \in Seqs(1..N, MaxCb) : DispatchNext(cb) /\ H([op |-> "cb", n |-> Head(rbuf), cb |-> cb])
  \/ \E n \in 1..N : HandlerCompletes(n) /\ H([op |-> "complete", i |-> n])
  \/ SendCompleted /\ Pass
  \/ ReadZeroAfterShut /\ Pass
  \/ PeerMayClose /\ PeerCloses /\ H([op |-> "peerclose"])
  \/ ServerSeesPeerClose /\ Pass
  \/ Quiesce /\ UNCHANGED hist
GSpec == GInit /\ [][GNext]_gvars
Emit == IF quiet THEN PrintT("BEH " \o ToJson(hist)) /\ FALSE ELSE Len(hist) <= Depth
===============================================================================
