CONSTANTS
  Scope = "gen-thorough"
  ShortLen = 45
SPECIFICATION GSpec
CONSTRAINT Emit
CHECK_DEADLOCK FALSE
