CONSTANTS
  Scope = "gen-thorough"
  ShortLen = 60
SPECIFICATION GSpec
CONSTRAINT Emit
CHECK_DEADLOCK FALSE
