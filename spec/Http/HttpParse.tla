----------------------------- MODULE HttpParse -----------------------------
(* C12, parsing half - the contract between a byte stream arriving in segments and the HTTP request parser   *)
(* behind the server's receive loop, exactly as far as the property states it:                                *)
(*   Total                   every parse() call ends in one of the parser's states (an exception, a crash or  *)
(*                           a sanitizer report is a Fault event / the outcome "exception", accepted nowhere) *)
(*   ConsumedBounded         a call never claims more bytes than it was given                                 *)
(*   ResumableExactly        each call is offered exactly the bytes received and not yet consumed             *)
(*   SegmentationIndependent for a well-formed stream (HttpRef!WellFormed) the requests delivered are a       *)
(*                           prefix of Requests(stream) at any time and all of them once the stream has been  *)
(*                           fed completely - whatever the cuts were.                                         *)
(* How many bytes a call consumes, which state it reports while it needs more, and what happens to input      *)
(* that is not well-formed are NOT prescribed.  This module is the observer (it only counts and compares);   *)
(* HttpParseImpl is the implementation-shaped machine that refines it, Trace_HttpParse binds the real code.  *)
EXTENDS HttpRef

VARIABLES
  wf,         \* the stream is well-formed
  claimed,    \* whoever generated the stream says it is well-formed (self-check of the generators, see GeneratorClaimHolds)
  expected,   \* the requests it encodes (reference), cut after the first close request when a server is in the way
  total,      \* its length
  fed,        \* bytes handed to the server so far
  taken,      \* bytes the parser reported as consumed so far
  ngot,       \* requests delivered so far
  mismatch,   \* a delivered request differed from expected[ngot] (or was one too many)
  broken,     \* names of the per-call clauses that some parse() call has broken so far (sticky; see PCall)
  closed,     \* the server gave up on the connection (parse failure)
  ended       \* the whole stream has been fed and processed

pvars == <<wf, claimed, expected, total, fed, taken, ngot, mismatch, broken, closed, ended>>

ParserStates == {"init", "startline", "heads", "all", "fail"}

Expected(bytes, viaServer) ==
  LET p == Parsed(bytes) IN IF p.ok THEN (IF viaServer THEN UpToLast(p.reqs, 1) ELSE p.reqs) ELSE <<>>

PInit(bytes, viaServer) ==
  /\ wf = WellFormed(bytes) /\ claimed = FALSE
  /\ expected = Expected(bytes, viaServer)
  /\ total = Len(bytes)
  /\ fed = 0 /\ taken = 0 /\ ngot = 0 /\ mismatch = FALSE /\ broken = {} /\ closed = FALSE /\ ended = FALSE

PStart(bytes, viaServer, claim) ==   \* the same as a step (trace validation: one stream after the other)
  /\ wf' = WellFormed(bytes) /\ claimed' = claim
  /\ expected' = Expected(bytes, viaServer)
  /\ total' = Len(bytes)
  /\ fed' = 0 /\ taken' = 0 /\ ngot' = 0 /\ mismatch' = FALSE /\ broken' = {} /\ closed' = FALSE /\ ended' = FALSE

PRecv(n) ==
  /\ n >= 1 /\ fed + n <= total /\ ~ended
  /\ fed' = fed + n
  /\ UNCHANGED <<wf, claimed, expected, total, taken, ngot, mismatch, broken, closed, ended>>

PCall(given, consumed, st) ==
  /\ broken' = broken \cup (IF st \in ParserStates THEN {} ELSE {"Total"})
                       \cup (IF consumed >= 0 /\ consumed <= given THEN {} ELSE {"ConsumedBounded"})
                       \cup (IF given = fed - taken THEN {} ELSE {"ResumableExactly"})
  /\ taken' = IF consumed <= given THEN taken + consumed ELSE taken
  /\ UNCHANGED <<wf, claimed, expected, total, fed, ngot, mismatch, closed, ended>>

PDeliver(r) ==
  /\ ngot' = ngot + 1
  /\ mismatch' = (mismatch \/ (wf /\ (ngot + 1 > Len(expected) \/ r # expected[ngot + 1])))
  /\ UNCHANGED <<wf, claimed, expected, total, fed, taken, broken, closed, ended>>

PClosed ==
  /\ closed' = TRUE
  /\ UNCHANGED <<wf, claimed, expected, total, fed, taken, ngot, mismatch, broken, ended>>

PEnd ==
  /\ ended' = TRUE
  /\ UNCHANGED <<wf, claimed, expected, total, fed, taken, ngot, mismatch, broken, closed>>

(* --------------------------------------------------------------------------------------------------------- *)
Total == "Total" \notin broken
ConsumedBounded == "ConsumedBounded" \notin broken
ResumableExactly == "ResumableExactly" \notin broken
GeneratorClaimHolds == claimed => wf     \* not about the code: a generator that means to produce well-formed streams and does
                                         \* not (per HttpRef) would silently reduce the check to totality
SegmentationIndependent ==
  /\ ~mismatch
  /\ (wf /\ ended) => ngot = Len(expected)
=============================================================================
