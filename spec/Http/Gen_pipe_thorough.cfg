CONSTANTS
  N = 3
  Flags = {0, 1}
  MaxCb = 2
  StopAfterClose = TRUE
  ShutRdEof = FALSE
  Depth = 14
  PeerMayClose = TRUE
SPECIFICATION GSpec
CONSTRAINT Emit
CHECK_DEADLOCK FALSE
