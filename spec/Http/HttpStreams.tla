---------------------------- MODULE HttpStreams ----------------------------
(* Bounded sets of byte streams for the C12 models and generators: concatenations of tokens.                  *)
EXTENDS HttpBytes
CONSTANTS Scope

(* tokens *)
tSP == <<SP>>
tA == <<47, 97>>                \* "/a"
tAQ == <<47, 97, 63, 107, 61, 49>>  \* "/a?k=1"
tColon == <<COLON>>
t0 == <<48>>
t3 == <<51>>
tabc == <<97, 98, 99>>
tx == <<120>>
tCRLFbody == <<13, 10, 71>>     \* a body that looks like the start of a request: CR LF "G"

(* well-formed requests: method, spacing, version, where Content-Length stands among the other headers *)
Line(ts) == Flatten(ts) \o CRLFs
CL(n) == IF n = 0 THEN Line(<<bContentLength, tColon, tSP, t0>>) ELSE Line(<<bContentLength, tColon, t3>>)
HClose == Line(<<bConnection, tColon, tSP, bclose>>)
HOdd == Line(<<tSP, tx, tSP, tColon, tSP, tSP, tx, tColon, tx, tSP>>)      \* " x :  x:x "
Start(m, wide, t, v) == Line(IF wide THEN <<m, tSP, tSP, t, tSP, tSP, v>> ELSE <<m, tSP, t, tSP, v>>)
Body(n, b) == IF n = 0 THEN <<>> ELSE b

ReqsSmall ==
  { Start(m, FALSE, tA, bHTTP11) \o CL(n) \o CRLFs \o Body(n, tabc) : m \in {bGET, bPOST}, n \in {0, 3} }
  \cup { Start(bPUT, TRUE, tAQ, bHTTP10) \o HOdd \o CL(3) \o HClose \o CRLFs \o tCRLFbody,
         Start(bDELETE, FALSE, tA, bHTTP11) \o HClose \o CL(0) \o CL(3) \o CRLFs \o tabc }
ReqsMore ==
  ReqsSmall
  \cup { Start(m, w, tA, v) \o pre \o CL(n) \o post \o CRLFs \o Body(n, b) :
           m \in {bHEAD, bOPTIONS}, w \in BOOLEAN, v \in {bHTTP10, bHTTP20}, pre \in {<<>>, HOdd}, post \in {<<>>, HClose},
           n \in {0, 3}, b \in {tabc, tCRLFbody} }
ReqsMid ==
  ReqsSmall
  \cup { Start(m, TRUE, tA, v) \o pre \o CL(n) \o post \o CRLFs \o Body(n, tCRLFbody) :
           m \in {bHEAD}, v \in {bHTTP10, bHTTP20}, pre \in {<<>>, HOdd}, post \in {<<>>, HClose}, n \in {0, 3} }
Pipelines(R) == R \cup { a \o b : a \in R, b \in R }

(* hostile token strings *)
AlphabetFull == {bGET, bPOST, tSP, tA, bHTTP11, bHTTP10, CRLFs, bContentLength, bConnection, tColon, t0, t3, tabc, bclose, tx}
AlphabetSmall == {bGET, tSP, tA, bHTTP11, CRLFs, bContentLength, tColon, t0, t3, tx}
RECURSIVE TokStrings(_, _)
TokStrings(A, k) == IF k = 0 THEN {<<>>} ELSE LET S == TokStrings(A, k - 1) IN S \cup { Append(s, t) : s \in S, t \in A }
Hostile(A, k) == { Flatten(s) : s \in TokStrings(A, k) } \ {<<>>}
(* a well-formed head followed by every short token string (reaches the header and body stages) *)
Head1 == Start(bPOST, FALSE, tA, bHTTP11)
HostileAfterHead(A, k) == { Head1 \o Flatten(s) : s \in TokStrings(A, k) }

BadLengths == { Head1 \o Flatten(<<bContentLength, tColon, v>>) \o CRLFs \o CRLFs : v \in {t3, tx, tabc \o t3, t3 \o tx} }

MCStreams ==
  CASE Scope = "wf-quick" -> Pipelines(ReqsSmall)
    [] Scope = "wf-thorough" -> ReqsMore \cup Pipelines(ReqsMid)
    [] Scope = "hostile-quick" -> Hostile(AlphabetSmall, 3) \cup HostileAfterHead(AlphabetSmall, 3)
    [] Scope = "hostile-thorough" -> Hostile(AlphabetSmall, 4) \cup Hostile(AlphabetFull, 3) \cup HostileAfterHead(AlphabetFull, 3)
    [] Scope = "gen-quick" -> Pipelines(ReqsSmall) \cup Hostile(AlphabetFull, 2) \cup HostileAfterHead(AlphabetFull, 2) \cup BadLengths
    [] Scope = "gen-thorough" -> ReqsMore \cup Pipelines(ReqsMid) \cup Hostile(AlphabetFull, 3) \cup HostileAfterHead(AlphabetFull, 3) \cup BadLengths
    [] Scope = "asfound-method" -> ReqsSmall
    [] Scope = "cov" -> { Start(bGET, FALSE, tA, bHTTP11) \o CL(3) \o CRLFs \o tabc, Start(bGET, FALSE, tA, bHTTP11) \o tx \o CRLFs }
    [] Scope = "asfound-length" -> BadLengths
=============================================================================
