CONSTANTS
  N = 5
  Flags = {0, 1, 2}
  MaxCb = 2
  StopAfterClose = TRUE
  ShutRdEof = FALSE
  Depth = 40
  PeerMayClose = TRUE
SPECIFICATION GSpec
CONSTRAINT Emit
CHECK_DEADLOCK FALSE
