CONSTANTS
  Scope = "wf-thorough"
  Streams <- MCStreams
  MethodPrefixFails = FALSE
  ContentLengthThrows = FALSE
SPECIFICATION Spec
INVARIANTS StreamsAreWellFormed Total ConsumedBounded ResumableExactly SegmentationIndependent BufferIsTheUnconsumedBytes
CHECK_DEADLOCK FALSE
