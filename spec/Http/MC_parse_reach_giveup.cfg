CONSTANTS
  Scope = "cov"
  Streams <- MCStreams
  MethodPrefixFails = FALSE
  ContentLengthThrows = FALSE
SPECIFICATION Spec
INVARIANTS NeverGivesUp
CHECK_DEADLOCK FALSE
