CONSTANTS
  N = 3
  Flags = {0, 1}
  MaxCb = 2
  StopAfterClose = FALSE
  ShutRdEof = FALSE
SPECIFICATION Spec
INVARIANTS NothingAfterClose
CHECK_DEADLOCK FALSE
