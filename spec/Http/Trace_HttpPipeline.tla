------------------------- MODULE Trace_HttpPipeline -------------------------
(* Trace validation for the pipelining half of C12: what the driver did to a real http::server::Server        *)
(* (segments written, contexts released) and what it saw (requests handed to the handler, responses and EOF   *)
(* on the client socket) must be a behaviour of the observer HttpPipelineObs with all its invariants.         *)
(* Wire events that are not an intact response of this execution (WireGarbage, WireTruncated, intact=false)   *)
(* and Fault events match no action.                                                                            *)
EXTENDS HttpPipelineObs, Json, IOUtils, TLC
Log == ndJsonDeserialize(IOEnv.TRACE)
VARIABLE l
ASSUME TLCSet(42, 0)
tvars == <<ovars, l>>

Ev == Log[l]
IsEv(e) == l <= Len(Log) /\ Log[l].e = e /\ l' = l + 1
Fresh == sent' = <<>> /\ ndisp' = 0 /\ dispBad' = FALSE /\ done' = {} /\ wire' = <<>> /\ eof' = FALSE /\ eofAt' = 0
         /\ peerClosed' = FALSE /\ quiet' = FALSE

TInit == OInit /\ l = 1
TBegin == IsEv("Begin") /\ Fresh
TSend == IsEv("Send") /\ OSend(Ev.reqs)
TDispatch == IsEv("Dispatch") /\ ODispatch(Ev.n)
TComplete == IsEv("Complete") /\ OComplete(Ev.n)
TSkipped == IsEv("CompleteSkipped") /\ UNCHANGED ovars     \* the script wanted to release a context the handler never got
TWriteFailed == IsEv("ClientWriteFailed") /\ UNCHANGED ovars  \* the client could not write (server shut its read side): not a verdict
TWire == IsEv("Wire") /\ Ev.intact = TRUE /\ OWire(Ev.n)
TEof == IsEv("Eof") /\ OEof
TPeerClose == IsEv("PeerClose") /\ OPeerClose
TEnd == IsEv("End") /\ OQuiet
TReset == IsEv("Reset") /\ Fresh
TNext == TBegin \/ TSend \/ TDispatch \/ TComplete \/ TSkipped \/ TWriteFailed \/ TWire \/ TEof \/ TPeerClose \/ TEnd \/ TReset
TSpec == TInit /\ [][TNext]_tvars

Progress == TLCSet(42, IF l > TLCGet(42) THEN l ELSE TLCGet(42))
Accepted == IF TLCGet(42) = Len(Log) + 1 THEN TRUE ELSE PrintT(<<"MAXPOS", TLCGet(42), Len(Log)>>) /\ FALSE
=============================================================================
