SPECIFICATION TSpec
CONSTRAINT Progress
POSTCONDITION Accepted
INVARIANTS DispatchedInOrder ResponsesInRequestOrder NoResponseBeforeCompletion NothingAfterClose EachResponseOnce ClosedAfterLastResponse
CHECK_DEADLOCK FALSE
