CONSTANTS
  Threads = {t1, t2}
  Bugs = {"nowait"}
  Ghosts = TRUE
  MaxK = 1
  MaxCtl = 3
  Cap = 3
  Sizes = {2}
  NameSet = {"f"}
  ModSet = {"a"}
  Maxes = {5}
  ExSets = {{"a"}}
  TsSet = {100}
  CtlOps = {"enable", "disable"}
  Dir0 = 1
SPECIFICATION MSpec
SYMMETRY Sym
INVARIANTS TypeOK ExactlyOnceInOrder Flushed CommitDecided InflightCount AppendOnlyWhileUp TablesConsistent DecodeOK FilterExact RolloverOK
CHECK_DEADLOCK FALSE
