--------------------------- MODULE Trace_TraceSink ---------------------------
(* Trace validation for E11.  Recorded lines (harness/e11_tracesink/driver.cpp):                                   *)
(*   controller:  prefix | rm | enable .. eret | disable .. dret | set .. sret | tables, file, files (read back     *)
(*                after disable() returned)                                                                         *)
(*   committer t: commit (before commitRecord) | front (pipe hook: first append of the record, under the pipe     *)
(*                lock; h = bytes of the header) | cret (after the call, b = bytes appended)                        *)
(*   back end:    pop (pipe hook: a buffer of n bytes is handed to Sink::onBackendRecvData) | done (buffer given    *)
(*                back after the callback returned)                                                                 *)
(* Every line must be the corresponding action of TraceSink.tla; the unrecorded atomic steps (C1 C2 C3 C5, E2, D1  *)
(* D2 D3, S1, Proc, BatchEnd) are taken silently.  Their position is fixed wherever it cannot matter or is forced  *)
(* (canonical interleaving; it keeps the search linear):                                                           *)
(*  - a commit is accepted iff a `front` precedes its `cret`; its reads of is_enabled_ are taken as soon as the    *)
(*    flag has the value they must have seen, never before;                                                        *)
(*  - E2 (is_enabled_ = true) is taken after the reads of the commits of the enable() window that were dropped,    *)
(*    D1 (is_enabled_ = false) after the reads of the commits of the disable() window that were accepted - the     *)
(*    latest position a correct implementation allows, every other admissible position gives the same outcome;     *)
(*  - D2, D3 as soon as they are enabled (D3 after the last `done`);                                               *)
(*  - back-end steps at once unless a setter call starts before the batch is given back, S1 at once unless a      *)
(*    batch overlaps the setter call - only then both orders are explored.                                         *)
EXTENDS TraceSink, Json, IOUtils
TLog == ndJsonDeserialize(IOEnv.TRACE)
VARIABLE l
ASSUME TLCSet(42, 0)
tvars == <<vars, l>>

Ln == TLog[l]
More == l <= Len(TLog)
IsEv(e) == More /\ TLog[l].e = e /\ l' = l + 1
NextIs(S) == More /\ TLog[l].e \in S
Sil(A) == A /\ UNCHANGED l

View(f) == [j \in 1..Len(f) |-> <<f[j].ti, f[j].ni, f[j].mi, f[j].dt, f[j].dur, f[j].z>>]
ToSet(s) == {s[i] : i \in DOMAIN s}
PacketSize(r, h) == h + Len(r.nm[1]) + r.nm[2] + 1 + Len(r.mod) + 1

(* ---- look-ahead over the recorded lines ---- *)
RECURSIVE Fate(_, _, _), Ahead(_, _, _), CommitAhead(_, _, _, _)
Fate(i, t, stop) ==      \* which comes first from line i on: the front / cret line of thread t, or a line `stop` ("" for none)
  IF i > Len(TLog) THEN "end"
  ELSE IF TLog[i].e = stop THEN "stop"
  ELSE IF TLog[i].e \in {"front", "cret"} THEN (IF TLog[i].t = t THEN TLog[i].e ELSE Fate(i + 1, t, stop))
  ELSE Fate(i + 1, t, stop)
Ahead(i, what, stop) ==  \* a line `what` occurs from line i on before the next line `stop`
  IF i > Len(TLog) THEN FALSE ELSE IF TLog[i].e = stop THEN FALSE ELSE IF TLog[i].e = what THEN TRUE ELSE Ahead(i + 1, what, stop)
CommitAhead(i, how, stop, hz) ==   \* a commit starts from line i on before the next line `stop` and ends as `how` (front: accepted /
  IF i > Len(TLog) THEN FALSE ELSE IF TLog[i].e = stop THEN FALSE          \* cret: dropped) before the next line hz ("": whenever)
  ELSE IF TLog[i].e = "commit" THEN (IF Fate(i + 1, TLog[i].t, hz) = how THEN TRUE ELSE CommitAhead(i + 1, how, stop, hz))
  ELSE CommitAhead(i + 1, how, stop, hz)

Reading(t) == com[t].pc \in {"c1", "c2", "c3"}
(* an accepted commit reads is_enabled_ = TRUE in the enabled period of its front (disable() cannot return before it has appended),
   a dropped one reads FALSE at the first opportunity *)
ThreadGo(t) == \/ com[t].pc = "c5"
               \/ Reading(t) /\ (IF Fate(l, t, "") = "front" THEN ctl.en /\ Fate(l, t, "dret") = "front" ELSE ~ctl.en)
ComStep(t) == C1(t) \/ C2(t) \/ C3(t) \/ C5(t)
GoThreads == {t \in Threads : ThreadGo(t)}
FirstOf(S) == CHOOSE t \in S : \A u \in S : t <= u
EagerBack == be.st = "proc" /\ ctl.pc # "s1" /\ ~Ahead(l, "set", "done")
(* E2 must follow the reads of the commits that are dropped before enable() returns; a dropped commit that starts before and returns
   after `eret` may have read before E2 or after a later D1: both are tried *)
E2Free == ctl.pc = "e2" /\ ~(\E t \in Threads : Reading(t) /\ Fate(l, t, "eret") = "cret") /\ ~CommitAhead(l, "cret", "eret", "eret")
CtlStep ==
  \/ E2Free /\ ~CommitAhead(l, "cret", "eret", "") /\ E2
  \/ ctl.pc = "d1" /\ ~(\E t \in Threads : Reading(t) /\ Fate(l, t, "dret") = "front") /\ ~CommitAhead(l, "front", "dret", "dret") /\ D1
  \/ D2
  \/ be.st = "idle" /\ D3
  \/ ctl.pc = "s1" /\ be.st # "proc" /\ ~Ahead(l, "pop", "sret") /\ S1

TInit == Init /\ l = 1
TReset == /\ IsEv("Reset") /\ Idle /\ ~ctl.up /\ \A t \in Threads : com[t].pc = "idle"
          /\ ctl' = [dir |-> 0, en |-> FALSE, up |-> FALSE, infl |-> 0, pc |-> "idle", op |-> <<>>, ret |-> "none"]
          /\ com' = [t \in Threads |-> C0]
          /\ be' = [pipe |-> <<>>, off |-> 0, bq |-> <<>>, st |-> "idle", wc |-> <<>>, fd |-> FALSE, total |-> 0, lastts |-> 0,
                    files |-> <<>>, names |-> <<>>, mods |-> <<>>, thrs |-> <<>>, tf |-> [w \in Tables |-> FALSE]]
          /\ flt' = [s |-> "permit", x |-> {}, max |-> 1000000000]
          /\ gh' = [acc |-> [t \in Threads |-> <<>>], old |-> <<>>, rej |-> {}, verd |-> {}, closed |-> <<>>, lastmax |-> 0]
Lines ==
  \/ TReset
  \/ IsEv("prefix") /\ Prefix(Ln.ok) /\ Ln.ret = Ln.ok
  \/ IsEv("rm") /\ Rm(Ln.w)
  \/ IsEv("enable") /\ EnableBegin
  \/ IsEv("eret") /\ ERet /\ Ln.ret = ctl.ret
  \/ IsEv("disable") /\ DisableBegin
  \/ IsEv("dret") /\ DRet
  \/ IsEv("set") /\ SetBegin(Ln.w, IF Ln.w = "exempt" THEN ToSet(Ln.v) ELSE Ln.v)
  \/ IsEv("sret") /\ SRet
  \/ IsEv("commit") /\ CBegin(Ln.t, [t |-> Ln.t, k |-> Ln.k, nm |-> <<Ln.nb, Ln.np, Ln.l>>, mod |-> Ln.m, ts |-> Ln.ts, dur |-> Ln.d])
  \/ IsEv("front") /\ com[Ln.t].pc = "c4" /\ Front(Ln.t, PacketSize(com[Ln.t].r, Ln.h))
  \/ IsEv("cret") /\ CRet(Ln.t) /\ Ln.b = (IF com[Ln.t].pc = "ret1" THEN com[Ln.t].r.sz ELSE 0)
  \/ IsEv("pop") /\ Pop(Ln.n)
  \/ IsEv("done") /\ Done
  \* read back after disable() returned: table files and record files of the current directory
  \/ /\ IsEv("tables") /\ Idle /\ ~ctl.up
     /\ Ln.p = <<be.tf["names"], be.tf["mods"], be.tf["thrs"]>>
     /\ (be.tf["names"] => Ln.names = be.names) /\ (be.tf["mods"] => Ln.mods = be.mods) /\ (be.tf["thrs"] => Ln.thrs = be.thrs)
     /\ UNCHANGED vars
  \/ /\ IsEv("file") /\ Idle /\ ~ctl.up /\ Ln.i \in DOMAIN be.files
     /\ Ln.tail = 0 /\ Ln.recs = View(be.files[Ln.i]) /\ UNCHANGED vars
  \/ IsEv("files") /\ Idle /\ ~ctl.up /\ Ln.n = Len(be.files) /\ UNCHANGED vars
TNext == IF EagerBack THEN Sil(Proc) \/ Sil(BatchEnd)
         ELSE IF GoThreads # {} THEN Sil(ComStep(FirstOf(GoThreads)))
         ELSE IF ENABLED CtlStep THEN Sil(CtlStep)
         ELSE IF be.st = "proc" /\ ctl.pc = "s1" THEN Sil(S1) \/ Sil(Proc) \/ Sil(BatchEnd)   \* the setter takes effect somewhere in the batch
         ELSE IF be.st = "proc" THEN Lines            \* a setter call starts before the batch ends: go on to its first line
         ELSE Lines \/ Sil(S1) \/ Sil(E2Free /\ E2)
TSpec == TInit /\ [][TNext]_tvars

Progress == TLCSet(42, IF l > TLCGet(42) THEN l ELSE TLCGet(42))
Accepted == IF TLCGet(42) = Len(TLog) + 1 THEN TRUE ELSE PrintT(<<"MAXPOS", TLCGet(42), Len(TLog)>>) /\ FALSE
=============================================================================
