CONSTANTS
  Threads = {1, 2}
  Bugs = {}
  Ghosts = FALSE
  Depth = 4
  GThreads = {1, 2}
  GEx = {{}, {"a"}}
  GMax = {1, 1000000000}
  GOps = {"prefix", "rm", "strat"}
  GPairs = 3
SPECIFICATION GSpec
CONSTRAINT EmitBeh
CHECK_DEADLOCK FALSE
