CONSTANTS
  Threads = {1, 2, 3}
  Bugs = {}
  Ghosts = FALSE
SPECIFICATION TSpec
CONSTRAINT Progress
POSTCONDITION Accepted
INVARIANTS TypeOK ExactlyOnceInOrder Flushed InflightCount AppendOnlyWhileUp
CHECK_DEADLOCK FALSE
