CONSTANTS
  Threads = {t1}
  Bugs = {}
  Ghosts = TRUE
  MaxK = 2
  MaxCtl = 4
  Cap = 3
  Sizes = {2}
  NameSet = {"f"}
  ModSet = {"a", "b"}
  Maxes = {5}
  ExSets = {{"a"}}
  TsSet = {100}
  CtlOps = {"enable", "disable", "strat", "exempt"}
  Dir0 = 1
SPECIFICATION MSpec
INVARIANTS TypeOK ExactlyOnceInOrder Flushed CommitDecided InflightCount AppendOnlyWhileUp TablesConsistent DecodeOK FilterExact RolloverOK
CHECK_DEADLOCK FALSE
