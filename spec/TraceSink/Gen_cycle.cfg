CONSTANTS
  Threads = {1, 2}
  Bugs = {}
  Ghosts = FALSE
  Depth = 6
  GThreads = {1}
  GEx = {}
  GMax = {150}
  GOps = {}
  GPairs = 1
SPECIFICATION GSpec
CONSTRAINT EmitBeh
CHECK_DEADLOCK FALSE
