CONSTANTS
  Threads = {1, 2}
  Bugs = {}
  Ghosts = FALSE
  Depth = 6
  GThreads = {1}
  GEx = {}
  GMax = {150, 1000000000}
  GOps = {"rm"}
SPECIFICATION GSpec
CONSTRAINT EmitBeh
CHECK_DEADLOCK FALSE
