CONSTANTS
  Threads = {t1, t2}
  Bugs = {}
  Ghosts = TRUE
  MaxK = 2
  MaxCtl = 4
  Cap = 3
  Sizes = {2, 3}
  NameSet = {"f"}
  ModSet = {"a"}
  Maxes = {5}
  ExSets = {{"a"}}
  TsSet = {100}
  CtlOps = {"enable", "disable", "max"}
  Dir0 = 1
SPECIFICATION MSpec
SYMMETRY Sym
INVARIANTS TypeOK ExactlyOnceInOrder Flushed CommitDecided InflightCount AppendOnlyWhileUp TablesConsistent DecodeOK FilterExact RolloverOK
CHECK_DEADLOCK FALSE
