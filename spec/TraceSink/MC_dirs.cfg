CONSTANTS
  Threads = {t1}
  Bugs = {}
  Ghosts = TRUE
  MaxK = 2
  MaxCtl = 5
  Cap = 3
  Sizes = {2}
  NameSet = {"f", "g"}
  ModSet = {"a"}
  Maxes = {5}
  ExSets = {{"a"}}
  TsSet = {100}
  CtlOps = {"prefix", "rm", "enable", "disable"}
  Dir0 = 0
SPECIFICATION MSpec
INVARIANTS TypeOK ExactlyOnceInOrder Flushed CommitDecided InflightCount AppendOnlyWhileUp TablesConsistent DecodeOK FilterExact RolloverOK
CHECK_DEADLOCK FALSE
