--------------------------- MODULE MC_TraceSink ---------------------------
(* Bounded models of TraceSink: every committer makes at most MaxK commits (records named by a small alphabet),   *)
(* the controller at most MaxCtl calls out of CtlOps, batches of at most Cap bytes.  The return markers (ERet,     *)
(* DRet, SRet, CRet, Done) are trace-validation events only and are left out here (the next call starts without).  *)
EXTENDS TraceSink
CONSTANTS MaxK, MaxCtl, Cap, Sizes, NameSet, ModSet, Maxes, ExSets, TsSet, CtlOps, Dir0
VARIABLES nk, nctl
mvars == <<vars, nk, nctl>>

MInit == /\ Init /\ nk = [t \in Threads |-> 0] /\ nctl = 0
MInit1 == /\ ctl = [dir |-> Dir0, en |-> FALSE, up |-> FALSE, infl |-> 0, pc |-> "idle", op |-> <<>>, ret |-> "none"]
          /\ com = [t \in Threads |-> C0]
          /\ be = [pipe |-> <<>>, off |-> 0, bq |-> <<>>, st |-> "idle", wc |-> <<>>, fd |-> FALSE, total |-> 0, lastts |-> 0,
                   files |-> <<>>, names |-> <<>>, mods |-> <<>>, thrs |-> <<>>, tf |-> [w \in Tables |-> FALSE]]
          /\ flt = [s |-> "permit", x |-> {}, max |-> 1000000000]
          /\ gh = [acc |-> [t \in Threads |-> <<>>], old |-> <<>>, rej |-> {}, verd |-> {}, closed |-> <<>>, lastmax |-> 0]
          /\ nk = [t \in Threads |-> 0] /\ nctl = 0
CtlOk(o) == o \in CtlOps /\ nctl < MaxCtl
Cnt == nctl' = nctl + 1 /\ UNCHANGED nk
Same == UNCHANGED <<nk, nctl>>

MPrefix == \E ok \in BOOLEAN : /\ CtlOk("prefix") /\ Prefix(ok) /\ Cnt
MRm == \E w \in Tables : /\ CtlOk("rm") /\ Rm(w) /\ Cnt
MEnable == /\ CtlOk("enable") /\ EnableBegin /\ Cnt
MDisable == /\ CtlOk("disable") /\ DisableBegin /\ Cnt
MSetStrat == \E s \in {"permit", "reject"} : /\ s # flt.s /\ CtlOk("strat") /\ SetBegin("strat", s) /\ Cnt
MSetExempt == \E x \in ExSets : /\ x # flt.x /\ CtlOk("exempt") /\ SetBegin("exempt", x) /\ Cnt
MSetMax == \E m \in Maxes : /\ m # flt.max /\ CtlOk("max") /\ SetBegin("max", m) /\ Cnt
ME2 == /\ E2 /\ Same
MD1 == /\ D1 /\ Same
MD2 == /\ D2 /\ Same
MD3 == /\ D3 /\ Same
MS1 == /\ S1 /\ Same
MCommit == \E t \in Threads, nm \in NameSet, m \in ModSet, ts \in TsSet :
             /\ nk[t] < MaxK /\ nk' = [nk EXCEPT ![t] = @ + 1] /\ UNCHANGED nctl
             /\ CBegin(t, [t |-> t, k |-> nk[t] + 1, nm |-> nm, mod |-> m, ts |-> ts, dur |-> nk[t] + 1])
MC1 == \E t \in Threads : /\ C1(t) /\ Same
MC2 == \E t \in Threads : /\ C2(t) /\ Same
MC3 == \E t \in Threads : /\ C3(t) /\ Same
MC5 == \E t \in Threads : /\ C5(t) /\ Same
MFront == \E t \in Threads, sz \in Sizes : /\ Front(t, sz) /\ Same
MPop == \E n \in 1..Cap : /\ Pop(n) /\ Same
MProc == /\ Proc /\ Same
MBatchEnd == /\ BatchEnd /\ Same
MNext == MPrefix \/ MRm \/ MEnable \/ MDisable \/ MSetStrat \/ MSetExempt \/ MSetMax \/ ME2 \/ MD1 \/ MD2 \/ MD3 \/ MS1
         \/ MCommit \/ MC1 \/ MC2 \/ MC3 \/ MC5 \/ MFront \/ MPop \/ MProc \/ MBatchEnd
MSpec == MInit1 /\ [][MNext]_mvars
Sym == Permutations(Threads)
=============================================================================
