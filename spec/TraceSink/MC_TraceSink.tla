--------------------------- MODULE MC_TraceSink ---------------------------
(* Bounded models of TraceSink: every committer makes at most MaxK commits (records named by a small alphabet),   *)
(* the controller at most MaxCtl calls out of CtlOps, batches of at most Cap bytes.  The return markers (ERet,     *)
(* DRet, SRet, CRet, Done) are trace-validation events only and are left out here (the next call starts without).  *)
EXTENDS TraceSink
CONSTANTS MaxK, MaxCtl, Cap, Sizes, NameSet, ModSet, Maxes, ExSets, TsSet, CtlOps, Dir0
VARIABLES nk, nctl
mvars == <<vars, nk, nctl>>

MInit == /\ Init /\ nk = [t \in Threads |-> 0] /\ nctl = 0
MInit1 == /\ ctl = [dir |-> Dir0, en |-> FALSE, up |-> FALSE, infl |-> 0, pc |-> "idle", op |-> <<>>, ret |-> "none"]
          /\ com = [t \in Threads |-> C0]
          /\ be = [pipe |-> <<>>, off |-> 0, bq |-> <<>>, st |-> "idle", wc |-> <<>>, fd |-> FALSE, total |-> 0, lastts |-> 0,
                   files |-> <<>>, names |-> <<>>, mods |-> <<>>, thrs |-> <<>>, tf |-> [w \in Tables |-> FALSE]]
          /\ flt = [s |-> "permit", x |-> {}, max |-> 1000000000]
          /\ gh = [acc |-> [t \in Threads |-> <<>>], old |-> <<>>, rej |-> {}, verd |-> {}, closed |-> <<>>, lastmax |-> 0]
          /\ nk = [t \in Threads |-> 0] /\ nctl = 0
Ctl(o, A) == o \in CtlOps /\ nctl < MaxCtl /\ A /\ nctl' = nctl + 1 /\ UNCHANGED nk
Sil(A) == A /\ UNCHANGED <<nk, nctl>>

MPrefix == \E ok \in BOOLEAN : Ctl("prefix", Prefix(ok))
MRm == \E w \in Tables : Ctl("rm", Rm(w))
MEnable == Ctl("enable", EnableBegin)
MDisable == Ctl("disable", DisableBegin)
MSet == \/ \E s \in {"permit", "reject"} : s # flt.s /\ Ctl("strat", SetBegin("strat", s))
        \/ \E x \in ExSets : x # flt.x /\ Ctl("exempt", SetBegin("exempt", x))
        \/ \E m \in Maxes : m # flt.max /\ Ctl("max", SetBegin("max", m))
ME2 == Sil(E2)
MD1 == Sil(D1)
MD2 == Sil(D2)
MD3 == Sil(D3)
MS1 == Sil(S1)
MCommit == \E t \in Threads, nm \in NameSet, m \in ModSet, ts \in TsSet :
             /\ nk[t] < MaxK /\ nk' = [nk EXCEPT ![t] = @ + 1] /\ UNCHANGED nctl
             /\ CBegin(t, [t |-> t, k |-> nk[t] + 1, nm |-> nm, mod |-> m, ts |-> ts, dur |-> nk[t] + 1])
MC1 == \E t \in Threads : Sil(C1(t))
MC2 == \E t \in Threads : Sil(C2(t))
MC3 == \E t \in Threads : Sil(C3(t))
MC5 == \E t \in Threads : Sil(C5(t))
MFront == \E t \in Threads, sz \in Sizes : Sil(Front(t, sz))
MPop == \E n \in 1..Cap : Sil(Pop(n))
MProc == Sil(Proc)
MBatchEnd == Sil(BatchEnd)
MNext == MPrefix \/ MRm \/ MEnable \/ MDisable \/ MSet \/ ME2 \/ MD1 \/ MD2 \/ MD3 \/ MS1 \/ MCommit \/ MC1 \/ MC2 \/ MC3 \/ MC5
         \/ MFront \/ MPop \/ MProc \/ MBatchEnd
MSpec == MInit1 /\ [][MNext]_mvars
Sym == Permutations(Threads)
=============================================================================
