CONSTANTS
  Threads = {t1}
  Bugs = {}
  Ghosts = TRUE
  MaxK = 3
  MaxCtl = 3
  Cap = 2
  Sizes = {2, 3}
  NameSet = {"f"}
  ModSet = {"a"}
  Maxes = {6}
  ExSets = {{"a"}}
  TsSet = {100, 5}
  CtlOps = {"enable", "disable", "max"}
  Dir0 = 1
SPECIFICATION MSpec
INVARIANTS TypeOK ExactlyOnceInOrder Flushed CommitDecided InflightCount AppendOnlyWhileUp TablesConsistent DecodeOK FilterExact RolloverOK
CHECK_DEADLOCK FALSE
