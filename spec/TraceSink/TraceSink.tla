------------------------------ MODULE TraceSink ------------------------------
(* E11 - tbox::trace::Sink (modules/trace/sink.cpp), implementation-shaped.                                      *)
(*                                                                                                                *)
(* Threads: one controller (setPathPrefix / enable / disable / setFilterStrategy / setFilterExemptSet /          *)
(* setRecordFileMaxSize, removal of a table file while disabled), committer threads (commitRecord), the back-end *)
(* thread of the AsyncPipe (onBackendRecvData).  The pipe itself is given (property C10): everything appended    *)
(* under its lock forms ONE byte stream in lock order; the back end receives it in batches of arbitrary sizes    *)
(* (Pop(n)); cleanup() hands over everything appended before it and joins the back end.                           *)
(*                                                                                                                *)
(* One action per atomic step of the code:                                                                        *)
(*   commitRecord:  C1 read is_enabled_ | C2 ++committing_ | C3 re-read is_enabled_ | C4 append (header, name,   *)
(*                  module under the pipe lock: "front") | C5 --committing_                                       *)
(*   enable():      initialise the pipe | is_enabled_ = true                                                      *)
(*   disable():     D1 is_enabled_ = false | D2 wait until committing_ = 0 | D3 pipe cleanup (drain + join),     *)
(*                  close the record file                                                                         *)
(*   back end:      Pop(n) (check/create record file, rewrite missing table files, append the bytes to buffer_,  *)
(*                  frame the complete records) | Proc (one record: filter under lock_, index allocation, encode  *)
(*                  into the write cache) | BatchEnd (one write(), total_write_size_ >= max -> close the file)    *)
(* A record is [t, k, nm, mod, ts, dur, sz]: committer, its sequence number, name key <<base, pad, line>>,       *)
(* module, end time, duration, bytes in the pipe.  A file record is what the file holds: <<thread index, name    *)
(* index, module index, time difference to the previous record of the file, duration>> with its encoded length   *)
(* z (scalable integers, VLen) and a ghost copy g of its origin.                                                  *)
(*                                                                                                                *)
(* Bugs (as-found / non-vacuity switches):                                                                        *)
(*   "nowait"   disable() does not wait for commits that already passed the is_enabled_ test (the code as found) *)
(*   "noreasm"  a record split over two batches is dropped instead of reassembled                                 *)
(*   "keepts"   last_timepoint_us_ is not reset when a new record file starts                                     *)
EXTENDS Integers, Sequences, FiniteSets, TLC

CONSTANTS Threads, Bugs,
          Ghosts     \* TRUE: carry the filter-stability ghosts (model checking); FALSE: leave them out (trace validation)

VARIABLES ctl,   \* [dir, en, up, infl, pc, op, ret]  controller-side flags: number of directories so far, is_enabled_, pipe
                 \*                                    initialised, committing_, controller pc, its pending setter, last result
          com,   \* com[t] = [pc, r, sure, never]     committer t
          be,    \* back end: [pipe, off, bq, st, wc, fd, total, lastts, files, names, mods, thrs, tf]
          flt,   \* [s, x, max]  filter strategy, exempt set, record_file_max_size_
          gh     \* ghosts: [acc, old, rej, verd, closed, lastmax]
vars == <<ctl, com, be, flt, gh>>

Tables == {"names", "mods", "thrs"}

(* ---------------------------------------------------------------- helpers ---------------------------------- *)
VLen(v) == IF v < 0 THEN 10 ELSE IF v <= 127 THEN 1 ELSE IF v <= 16511 THEN 2 ELSE IF v <= 2113663 THEN 3
           ELSE IF v <= 270549119 THEN 4 ELSE 5
Range(s) == {s[i] : i \in DOMAIN s}
NoDup(s) == \A i, j \in DOMAIN s : i # j => s[i] # s[j]
IndexOf(s, v) == CHOOSE i \in DOMAIN s : s[i] = v               \* 1-based position (v must occur)
Pass(s, x, m) == IF s = "permit" THEN m \notin x ELSE m \in x  \* Sink::isFilterPassed
RECURSIVE SumSz(_), SumZ(_), Flat(_)
SumSz(p) == IF p = <<>> THEN 0 ELSE Head(p).sz + SumSz(Tail(p))
SumZ(f) == IF f = <<>> THEN 0 ELSE Head(f).z + SumZ(Tail(f))
Flat(fs) == IF fs = <<>> THEN <<>> ELSE Head(fs) \o Flat(Tail(fs))
BytesIn == SumSz(be.pipe) - be.off
(* hand n bytes of the stream to the back end: the complete records, what stays, the consumed part of the new head *)
RECURSIVE Take(_, _, _)
Take(p, o, n) ==
  IF p = <<>> \/ n = 0 THEN [c |-> <<>>, p |-> p, o |-> o]
  ELSE LET need == Head(p).sz - o IN
       IF n >= need THEN LET r == Take(Tail(p), 0, n - need) IN [r EXCEPT !.c = <<Head(p)>> \o @]
       ELSE [c |-> <<>>, p |-> p, o |-> o + n]
IsPrefix(a, b) == Len(a) <= Len(b) /\ \A i \in 1..Len(a) : a[i] = b[i]

C0 == [pc |-> "idle", r |-> <<>>, sure |-> FALSE, never |-> FALSE]
Init ==
  /\ ctl = [dir |-> 0, en |-> FALSE, up |-> FALSE, infl |-> 0, pc |-> "idle", op |-> <<>>, ret |-> "none"]
  /\ com = [t \in Threads |-> C0]
  /\ be = [pipe |-> <<>>, off |-> 0, bq |-> <<>>, st |-> "idle", wc |-> <<>>, fd |-> FALSE, total |-> 0, lastts |-> 0,
           files |-> <<>>, names |-> <<>>, mods |-> <<>>, thrs |-> <<>>, tf |-> [w \in Tables |-> FALSE]]
  /\ flt = [s |-> "permit", x |-> {}, max |-> 1000000000]
  /\ gh = [acc |-> [t \in Threads |-> <<>>], old |-> <<>>, rej |-> {}, verd |-> {}, closed |-> <<>>, lastmax |-> 0]

Idle == ctl.pc \in {"idle", "eret", "dret", "sret"}     \* the previous control call has returned (its return event may be pending)
CloseMeta(why) == IF be.fd THEN Append(gh.closed, [sz |-> be.total, by |-> why, mx |-> flt.max]) ELSE gh.closed

(* ---------------------------------------------------------------- controller ------------------------------- *)
(* setPathPrefix(p): a fresh directory (the driver never reuses a prefix); an empty prefix or one ending in '/' is refused *)
Prefix(ok) ==
  /\ Idle /\ ~ctl.en /\ ~ctl.up
  /\ ctl' = [ctl EXCEPT !.dir = IF ok THEN @ + 1 ELSE @, !.ret = ok]
  /\ IF ok THEN /\ be' = [be EXCEPT !.fd = FALSE, !.files = <<>>, !.tf = [w \in Tables |-> FALSE]]
                /\ gh' = [gh EXCEPT !.old = @ \o Flat(be.files), !.closed = CloseMeta("prefix")]
           ELSE UNCHANGED <<be, gh>>
  /\ UNCHANGED <<com, flt>>
(* a table file removed by someone else while the sink is disabled: the next batch rewrites it completely *)
Rm(w) ==
  /\ Idle /\ ~ctl.en /\ ~ctl.up /\ be.tf[w]
  /\ be' = [be EXCEPT !.tf[w] = FALSE] /\ UNCHANGED <<ctl, com, flt, gh>>

EnableBegin ==       \* enable(): already enabled -> true; no path -> false; else initialise the pipe
  /\ Idle
  /\ IF ctl.en THEN ctl' = [ctl EXCEPT !.pc = "eret", !.ret = TRUE]
     ELSE IF ctl.dir = 0 THEN ctl' = [ctl EXCEPT !.pc = "eret", !.ret = FALSE]
     ELSE ctl' = [ctl EXCEPT !.pc = "e2", !.up = TRUE]
  /\ com' = [t \in Threads |-> [com[t] EXCEPT !.never = FALSE]]
  /\ UNCHANGED <<be, flt, gh>>
E2 == /\ ctl.pc = "e2" /\ ctl' = [ctl EXCEPT !.en = TRUE, !.pc = "eret", !.ret = TRUE] /\ UNCHANGED <<com, be, flt, gh>>
(* the return events (ERet, DRet, SRet, CRet) only mark the end of a call for trace validation; the next call may start without them *)
ERet == /\ ctl.pc = "eret" /\ ctl' = [ctl EXCEPT !.pc = "idle"] /\ UNCHANGED <<com, be, flt, gh>>

DisableBegin ==
  /\ Idle
  /\ ctl' = [ctl EXCEPT !.pc = IF ctl.en THEN "d1" ELSE "dret"]
  /\ com' = [t \in Threads |-> [com[t] EXCEPT !.sure = FALSE]]
  /\ UNCHANGED <<be, flt, gh>>
D1 == /\ ctl.pc = "d1" /\ ctl' = [ctl EXCEPT !.en = FALSE, !.pc = "d2"] /\ UNCHANGED <<com, be, flt, gh>>
D2 == /\ ctl.pc = "d2" /\ IF "nowait" \in Bugs THEN TRUE ELSE ctl.infl = 0
      /\ ctl' = [ctl EXCEPT !.pc = "d3"] /\ UNCHANGED <<com, be, flt, gh>>
D3 == \* AsyncPipe::cleanup(): everything appended so far has been handed over, the back end is joined; the file is closed
  /\ ctl.pc = "d3" /\ be.pipe = <<>> /\ be.st # "proc"
  /\ ctl' = [ctl EXCEPT !.up = FALSE, !.pc = "dret"]
  /\ be' = [be EXCEPT !.fd = FALSE, !.off = 0, !.bq = <<>>, !.st = "idle"]
  /\ gh' = [gh EXCEPT !.closed = CloseMeta("disable")]
  /\ UNCHANGED <<com, flt>>
DRet == /\ ctl.pc = "dret" /\ ctl' = [ctl EXCEPT !.pc = "idle"] /\ UNCHANGED <<com, be, flt, gh>>

SetBegin(w, v) == /\ Idle /\ ctl' = [ctl EXCEPT !.pc = "s1", !.op = <<w, v>>] /\ UNCHANGED <<com, be, flt, gh>>
Unstable(q) == [i \in DOMAIN q |-> [q[i] EXCEPT !.stab = FALSE]]
S1 == /\ ctl.pc = "s1"
      /\ LET w == ctl.op[1] v == ctl.op[2] IN
         /\ flt' = IF w = "strat" THEN [flt EXCEPT !.s = v] ELSE IF w = "exempt" THEN [flt EXCEPT !.x = v] ELSE [flt EXCEPT !.max = v]
         /\ be' = IF w = "max" THEN be ELSE [be EXCEPT !.pipe = Unstable(@), !.bq = Unstable(@)]
      /\ ctl' = [ctl EXCEPT !.pc = "sret"] /\ UNCHANGED <<com, gh>>
SRet == /\ ctl.pc = "sret" /\ ctl' = [ctl EXCEPT !.pc = "idle"] /\ UNCHANGED <<com, be, flt, gh>>

(* ---------------------------------------------------------------- committers ------------------------------- *)
Quiet == Idle          \* no control call under way
CBegin(t, r) ==        \* r = [t, k, nm, mod, ts, dur]
  /\ com[t].pc \in {"idle", "ret0", "ret1"}
  /\ com' = [com EXCEPT ![t] = [pc |-> "c1", r |-> r, sure |-> ctl.en /\ Quiet, never |-> ~ctl.en /\ Quiet]]
  /\ UNCHANGED <<ctl, be, flt, gh>>
C1(t) == /\ com[t].pc = "c1"
         /\ com' = [com EXCEPT ![t].pc = IF ~ctl.en THEN "ret0" ELSE IF "nowait" \in Bugs THEN "c4" ELSE "c2"]
         /\ UNCHANGED <<ctl, be, flt, gh>>
C2(t) == /\ com[t].pc = "c2" /\ com' = [com EXCEPT ![t].pc = "c3"] /\ ctl' = [ctl EXCEPT !.infl = @ + 1] /\ UNCHANGED <<be, flt, gh>>
C3(t) == /\ com[t].pc = "c3" /\ com' = [com EXCEPT ![t].pc = IF ctl.en THEN "c4" ELSE "c5"] /\ UNCHANGED <<ctl, be, flt, gh>>
Front(t, sz) ==        \* the three appends under the pipe lock: the record joins the stream
  /\ com[t].pc = "c4"
  /\ LET r == com[t].r @@ [sz |-> sz, stab |-> Ghosts, fs |-> IF Ghosts THEN flt.s ELSE "", fx |-> IF Ghosts THEN flt.x ELSE {}] IN
     /\ be' = [be EXCEPT !.pipe = Append(@, r)]
     /\ gh' = [gh EXCEPT !.acc[t] = Append(@, r.k)]
  /\ com' = [com EXCEPT ![t].pc = IF "nowait" \in Bugs THEN "ret1" ELSE "c5", ![t].r = @ @@ [sz |-> sz]]
  /\ UNCHANGED <<ctl, flt>>
C5(t) == /\ com[t].pc = "c5" /\ ctl' = [ctl EXCEPT !.infl = @ - 1]
         /\ com' = [com EXCEPT ![t].pc = IF com[t].r.k \in Range(gh.acc[t]) THEN "ret1" ELSE "ret0"] /\ UNCHANGED <<be, flt, gh>>
CRet(t) == /\ com[t].pc \in {"ret0", "ret1"} /\ com' = [com EXCEPT ![t] = C0] /\ UNCHANGED <<ctl, be, flt, gh>>

(* ---------------------------------------------------------------- back end --------------------------------- *)
Pop(n) ==     \* onBackendRecvData(data, n): file / table checks, buffer_.append, framing
  /\ ctl.up /\ be.st # "proc" /\ n \in 1..BytesIn
  /\ LET s == Take(be.pipe, be.off, n)
         drop == "noreasm" \in Bugs /\ s.o > 0          \* as-found switch: the incomplete tail is forgotten
     IN be' = [be EXCEPT !.pipe = IF drop THEN Tail(s.p) ELSE s.p, !.off = IF drop THEN 0 ELSE s.o, !.bq = s.c, !.st = "proc", !.wc = <<>>,
                         !.fd = TRUE, !.total = IF be.fd THEN @ ELSE 0,
                         !.lastts = IF be.fd \/ "keepts" \in Bugs THEN @ ELSE 0,
                         !.files = IF be.fd THEN @ ELSE Append(@, <<>>),
                         !.tf = [w \in Tables |-> TRUE]]
  /\ UNCHANGED <<ctl, com, flt, gh>>
Proc ==       \* onBackendRecvRecord for the next framed record
  /\ be.st = "proc" /\ be.bq # <<>>
  /\ LET r == Head(be.bq)
         ok == Pass(flt.s, flt.x, r.mod)
         thrs2 == IF r.t \in Range(be.thrs) THEN be.thrs ELSE Append(be.thrs, r.t)
         names2 == IF r.nm \in Range(be.names) THEN be.names ELSE Append(be.names, r.nm)
         mods2 == IF r.mod \in Range(be.mods) THEN be.mods ELSE Append(be.mods, r.mod)
         ti == IndexOf(thrs2, r.t) - 1   ni == IndexOf(names2, r.nm) - 1   mi == IndexOf(mods2, r.mod) - 1
         dt == r.ts - be.lastts
         z == VLen(dt) + VLen(r.dur) + VLen(ti) + VLen(ni) + VLen(mi)
         fr == [ti |-> ti, ni |-> ni, mi |-> mi, dt |-> dt, dur |-> r.dur, z |-> z,
                g |-> [t |-> r.t, k |-> r.k, nm |-> r.nm, mod |-> r.mod, ts |-> r.ts]]
     IN /\ be' = IF ok THEN [be EXCEPT !.bq = Tail(@), !.wc = Append(@, fr), !.lastts = r.ts, !.thrs = thrs2, !.names = names2, !.mods = mods2]
                 ELSE [be EXCEPT !.bq = Tail(@)]
        /\ gh' = [gh EXCEPT !.rej = IF ok THEN @ ELSE @ \cup {<<r.t, r.k>>},
                            !.verd = IF Ghosts THEN @ \cup {[stab |-> r.stab, fs |-> r.fs, fx |-> r.fx, mod |-> r.mod, pass |-> ok]} ELSE @]
  /\ UNCHANGED <<ctl, com, flt>>
BatchEnd ==   \* one write() of the cache; the size test follows the write, so a file ends on a batch boundary
  /\ be.st = "proc" /\ be.bq = <<>>
  /\ LET tot == be.total + SumZ(be.wc)
         roll == be.wc # <<>> /\ tot >= flt.max
     IN /\ be' = [be EXCEPT !.st = "wr", !.wc = <<>>, !.total = tot, !.fd = ~roll,
                            !.files = IF be.wc = <<>> THEN @ ELSE [@ EXCEPT ![Len(@)] = @ \o be.wc]]
        /\ gh' = [gh EXCEPT !.closed = IF roll THEN Append(@, [sz |-> tot, by |-> "roll", mx |-> flt.max]) ELSE @,
                            !.lastmax = IF be.wc # <<>> THEN flt.max ELSE @]
  /\ UNCHANGED <<ctl, com, flt>>
Done == /\ be.st = "wr" /\ be' = [be EXCEPT !.st = "idle"] /\ UNCHANGED <<ctl, com, flt, gh>>

(* ---------------------------------------------------------------- invariants ------------------------------- *)
AllRecs == gh.old \o Flat(be.files)
Kseq(s, t) == LET f == SelectSeq(s, LAMBDA fr : fr.g.t = t) IN [i \in 1..Len(f) |-> f[i].g.k]
Delivered(t) == Kseq(AllRecs, t)
NotRej(t) == SelectSeq(gh.acc[t], LAMBDA k : <<t, k>> \notin gh.rej)

TypeOK ==
  /\ ctl.dir \in Nat /\ ctl.en \in BOOLEAN /\ ctl.up \in BOOLEAN /\ ctl.infl \in Nat
  /\ ctl.pc \in {"idle", "e2", "eret", "d1", "d2", "d3", "dret", "s1", "sret"}
  /\ \A t \in Threads : com[t].pc \in {"idle", "c1", "c2", "c3", "c4", "c5", "ret0", "ret1"}
  /\ be.st \in {"idle", "proc", "wr"} /\ be.off \in Nat /\ be.total \in Nat
  /\ (be.pipe = <<>> => be.off = 0) /\ (be.pipe # <<>> => be.off < Head(be.pipe).sz)
(* every accepted record is written at most once, records of one thread in the order of its commits *)
ExactlyOnceInOrder == \A t \in Threads : IsPrefix(Delivered(t), NotRej(t))
(* once the pipe is down (disable() returned / never enabled) nothing accepted is missing, nothing is left anywhere *)
Flushed == ~ctl.up => /\ \A t \in Threads : Delivered(t) = NotRej(t)
                      /\ be.pipe = <<>> /\ be.bq = <<>> /\ be.wc = <<>> /\ be.st # "proc" /\ ~be.fd
(* a commit made while the sink is enabled and no control call is under way is accepted; while disabled it is dropped *)
CommitDecided == \A t \in Threads : /\ com[t].pc = "ret0" => ~com[t].sure
                                    /\ com[t].pc \in {"c2", "c3", "c4", "c5", "ret1"} => ~com[t].never
InflightCount == "nowait" \notin Bugs => ctl.infl = Cardinality({t \in Threads : com[t].pc \in {"c3", "c4", "c5"}})
(* nothing is appended to a pipe that is being / has been cleaned up *)
AppendOnlyWhileUp == \A t \in Threads : com[t].pc = "c4" => ctl.up /\ ctl.pc \notin {"d3", "dret"}
(* index tables: one index per distinct entry; every index in a record resolves to the committed thread / name / module *)
TablesConsistent ==
  /\ NoDup(be.names) /\ NoDup(be.mods) /\ NoDup(be.thrs)
  /\ \A i \in DOMAIN AllRecs : LET fr == AllRecs[i] IN
       /\ fr.ti < Len(be.thrs) /\ be.thrs[fr.ti + 1] = fr.g.t
       /\ fr.ni < Len(be.names) /\ be.names[fr.ni + 1] = fr.g.nm
       /\ fr.mi < Len(be.mods) /\ be.mods[fr.mi + 1] = fr.g.mod
(* time differences decode, file by file from 0, to the committed end times *)
RECURSIVE DecOK(_, _)
DecOK(f, last) == IF f = <<>> THEN TRUE ELSE last + Head(f).dt = Head(f).g.ts /\ DecOK(Tail(f), Head(f).g.ts)
DecodeOK == \A i \in DOMAIN be.files : DecOK(be.files[i], 0)
(* a record committed and dispatched under an unchanged filter is let through iff its module passes that filter *)
FilterExact == \A v \in gh.verd : v.stab => v.pass = Pass(v.fs, v.fx, v.mod)
(* rollover: a file is only closed by the size rule when it reached the limit, an open file is below the limit it was last compared
   with, total_write_size_ is the size of the open file *)
RolloverOK ==
  /\ \A i \in DOMAIN gh.closed : gh.closed[i].by = "roll" => gh.closed[i].sz >= gh.closed[i].mx
  /\ (be.fd /\ be.st # "proc" /\ be.files[Len(be.files)] # <<>>) => be.total < gh.lastmax
  /\ (be.fd /\ be.st # "proc") => be.total = SumZ(be.files[Len(be.files)])
  /\ Len(gh.closed) + (IF be.fd THEN 1 ELSE 0) >= Len(be.files)
=============================================================================
