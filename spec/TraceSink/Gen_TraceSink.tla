--------------------------- MODULE Gen_TraceSink ---------------------------
(* Behaviour generator for E11: every sequence of exactly Depth API calls of the model (setPathPrefix, enable,     *)
(* disable, commitRecord by thread t, the three setters, removal of names.txt while disabled) is printed as a     *)
(* script for the driver; a call starts when the previous one has returned.  The directory is already set at the   *)
(* start (the check prepends the setPathPrefix call).  The back end is scheduled canonically here (everything is   *)
(* handed over during disable()): batch boundaries are the real pipe's business, they are not part of a script.    *)
EXTENDS TraceSink, Json
CONSTANTS Depth, GThreads, GEx, GMax, GOps, GPairs
AllPairs == <<<<"f", "a", 1>>, <<"f", "b", 2>>, <<"g", "b", 1>>>>       \* (name, module, line) of a commit
Pairs == {AllPairs[i] : i \in 1..GPairs}
VARIABLES hist, nk
gvars == <<vars, hist, nk>>
H(e) == hist' = Append(hist, e)
E(o, t, nb, m, w, v) == [o |-> o, t |-> t, nb |-> nb, m |-> m, w |-> w, v |-> v]
Returned == Idle /\ \A t \in Threads : com[t].pc \in {"idle", "ret0", "ret1"}
GInit == /\ ctl = [dir |-> 1, en |-> FALSE, up |-> FALSE, infl |-> 0, pc |-> "idle", op |-> <<>>, ret |-> "none"]
         /\ com = [t \in Threads |-> C0]
         /\ be = [pipe |-> <<>>, off |-> 0, bq |-> <<>>, st |-> "idle", wc |-> <<>>, fd |-> FALSE, total |-> 0, lastts |-> 0,
                  files |-> <<>>, names |-> <<>>, mods |-> <<>>, thrs |-> <<>>, tf |-> [w \in Tables |-> FALSE]]
         /\ flt = [s |-> "permit", x |-> {}, max |-> 1000000000]
         /\ gh = [acc |-> [t \in Threads |-> <<>>], old |-> <<>>, rej |-> {}, verd |-> {}, closed |-> <<>>, lastmax |-> 0]
         /\ hist = <<>> /\ nk = [t \in Threads |-> 0]
Call ==
  /\ Returned /\ Len(hist) < Depth
  /\ \/ "prefix" \in GOps /\ ~ctl.en /\ Prefix(TRUE) /\ H(E("prefix", 0, "", "", "", 0)) /\ UNCHANGED nk
     \/ "rm" \in GOps /\ Rm("names") /\ H(E("rm", 0, "", "", "names", 0)) /\ UNCHANGED nk
     \/ EnableBegin /\ H(E("enable", 0, "", "", "", 0)) /\ UNCHANGED nk
     \/ DisableBegin /\ H(E("disable", 0, "", "", "", 0)) /\ UNCHANGED nk
     \/ \E s \in {"permit", "reject"} : "strat" \in GOps /\ s # flt.s /\ SetBegin("strat", s) /\ H(E("set", 0, "", "", "strat", s)) /\ UNCHANGED nk
     \/ \E x \in GEx : x # flt.x /\ SetBegin("exempt", x) /\ H(E("set", 0, "", "", "exempt", x)) /\ UNCHANGED nk
     \/ \E m \in GMax : m # flt.max /\ SetBegin("max", m) /\ H(E("set", 0, "", "", "max", m)) /\ UNCHANGED nk
     \/ \E t \in GThreads, p \in Pairs :
          /\ CBegin(t, [t |-> t, k |-> nk[t] + 1, nm |-> <<p[1], 0, p[3]>>, mod |-> p[2], ts |-> 10 * (Len(hist) + 1), dur |-> nk[t] + 1])
          /\ nk' = [nk EXCEPT ![t] = @ + 1] /\ H(E("commit", t, p[1], p[2], "", p[3]))
Step == /\ UNCHANGED <<hist, nk>>
        /\ \/ E2 \/ D1 \/ D2 \/ D3 \/ S1
           \/ \E t \in Threads : C1(t) \/ C2(t) \/ C3(t) \/ C5(t) \/ Front(t, 50)
           \/ ctl.pc = "d3" /\ BytesIn > 0 /\ Pop(BytesIn)
           \/ Proc \/ BatchEnd
GNext == Call \/ Step
GSpec == GInit /\ [][GNext]_gvars
EmitBeh == IF Len(hist) >= Depth THEN PrintT("BEH " \o ToJson(hist)) /\ FALSE ELSE TRUE
=============================================================================
