-------------------------- MODULE Trace_LineEditor --------------------------
(* Trace validation for C13 (editor part).  One line per input segment typed into a REAL Terminal     *)
(* session (fake Connection, or the real Telnetd / TcpRpc service on loopback):                       *)
(*   Begin  a session was opened; `prompts` = prompts seen in the greeting                            *)
(*   Seg    keys (each key's byte encoding unsplit) were delivered; what came back while they were    *)
(*          processed: calls = argument lists the probe command received, errs = number of "Error"    *)
(*          reports, prompts = number of prompts, list = the history listing if the output was one.   *)
(* Compared with the reference editor (module LineEditor): the probe calls exactly (the executed      *)
(* lines), one prompt per Enter (none in quiet mode, which TcpRpc selects), error reported iff the    *)
(* reference reports one, and the `history` listing exactly when a lone Enter produced it.            *)
(* Echo bytes are never compared.  Nothing accepts a Fault line.                                      *)
EXTENDS LineEditor, Json, IOUtils
Log == ndJsonDeserialize(IOEnv.TRACE)
VARIABLES st, quiet, l
ASSUME TLCSet(42, 0)
tvars == <<st, quiet, l>>
ProbeP == <<112>>

Ev == Log[l]
IsEv(e) == l <= Len(Log) /\ Log[l].e = e /\ l' = l + 1
Dead == [State0 EXCEPT !.alive = FALSE]
TInit == st = Dead /\ quiet = FALSE /\ l = 1
TReset == IsEv("Reset") /\ st' = Dead /\ quiet' = FALSE
TBegin == IsEv("Begin") /\ st' = State0 /\ quiet' = Ev.quiet /\ Ev.prompts = (IF Ev.quiet THEN 0 ELSE 1)
\* Ev.keys = the keys of every input segment of the event, in order; the (deferred) teardown after an exit
\* command runs when the loop turns between two segments
RECURSIVE RunSegs(_, _, _, _)
RunSegs(s, segs, i, out) ==
  IF i > Len(segs) THEN [st |-> s, out |-> out]
  ELSE LET r == Segment(s, segs[i]) IN RunSegs(r.st, segs, i + 1, OutCat(out, r.out))
ListCompared(segs, out) == Len(segs) = 1 /\ Len(segs[1]) = 1 /\ IsEnter(segs[1][1]) /\ out.lists # <<>> /\ out.errs = 0 /\ out.reruns = 0
TSeg == /\ IsEv("Seg")
        /\ LET r == RunSegs(st, Ev.keys, 1, Out0) IN
           /\ Ev.calls = r.out.calls
           /\ (Ev.errs > 0) = (r.out.errs > 0)
           /\ Ev.prompts = (IF quiet THEN 0 ELSE r.out.prompts)
           /\ ListCompared(Ev.keys, r.out) => (Ev.listok /\ Ev.list = r.out.lists[1])
           /\ ~r.st.fault
           /\ st' = r.st
        /\ UNCHANGED quiet
THostile == IsEv("Hostile") /\ UNCHANGED <<st, quiet>>     \* arbitrary bytes: only "no Fault" is demanded
TNext == TReset \/ TBegin \/ TSeg \/ THostile
TSpec == TInit /\ [][TNext]_tvars

Progress == TLCSet(42, IF l > TLCGet(42) THEN l ELSE TLCGet(42))
Accepted == IF TLCGet(42) = Len(Log) + 1 THEN TRUE ELSE PrintT(<<"MAXPOS", TLCGet(42), Len(Log)>>) /\ FALSE
=============================================================================
