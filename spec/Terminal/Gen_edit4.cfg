CONSTANTS
  HistMax = 20
  Probe <- ProbeP
  AsFound = {}
  GChars = {120, 32}
  GKeys = {1, 2, 3, 4, 5, 6, 7, 8, 10}
  GCmds <- NoCmds
  Prefixes <- EditPrefixes
  Depth = 4
SPECIFICATION GSpec
CONSTRAINT Emit
CHECK_DEADLOCK FALSE
