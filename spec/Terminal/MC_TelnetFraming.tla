-------------------------- MODULE MC_TelnetFraming --------------------------
(* Every stream made of at most MaxTok tokens (whole commands, truncated commands, text) is delivered in *)
(* every segmentation with at most MaxSegs segments, and byte by byte.                                   *)
EXTENDS TelnetFraming
CONSTANTS MaxTok, MaxSegs
VARIABLES stream, pos, buf, o, nseg, bytewise
vars == <<stream, pos, buf, o, nseg, bytewise>>
Toks == { <<97>>, <<97, 13, 10>>, <<IAC, 241>>, <<IAC, DO, 1>>, <<IAC, WILL, 31>>, <<IAC, DONT, 3>>,
          <<IAC, SB, 31, 0, 80, 0, 24, IAC, SE>>, <<IAC, SB, 24, 120, IAC, SE>>, <<IAC, SB, 31, 7, IAC, SE>>,
          <<IAC, SB, 31, 1, 2, IAC, SE>>,
          <<IAC>>, <<IAC, SB>>, <<IAC, SB, 31, 0>>, <<IAC, DO>>, <<IAC, IAC>>, <<SE>>, <<IAC, SB, 31, IAC, SE>> }
RECURSIVE Flat(_)
Flat(ts) == IF ts = <<>> THEN <<>> ELSE ts[1] \o Flat(Tail(ts))
TokSeqs == UNION { [1..n -> Toks] : n \in 1..MaxTok }
Streams == { Flat(ts) : ts \in TokSeqs }
Init == /\ stream \in Streams /\ pos = 0 /\ buf = <<>> /\ o = O0 /\ nseg = 0 /\ bytewise \in BOOLEAN
Recv == /\ pos < Len(stream)
        /\ \E n \in 1..(Len(stream) - pos) :
             /\ bytewise => n = 1
             /\ ~bytewise => (nseg + 1 < MaxSegs \/ n = Len(stream) - pos)
             /\ LET r == Drain(buf \o SubSeq(stream, pos + 1, pos + n), o) IN buf' = r.buf /\ o' = r.o
             /\ pos' = pos + n
        /\ nseg' = nseg + 1 /\ UNCHANGED <<stream, bytewise>>
Next == Recv
Spec == Init /\ [][Next]_vars
SegmentationIndependent ==
  pos = Len(stream) => (LET d == Decode(stream) IN buf = d.buf /\ o = d.o)
WaitsForCompleteCommand ==
  /\ buf = <<>> \/ Unfinished(buf)
  /\ LET d == Decode(SubSeq(stream, 1, pos)) IN buf = d.buf /\ o = d.o       \* nothing of an unfinished command was acted on
NoReadBeyondData == ~o.overread
=============================================================================
