CONSTANTS
  AsFoundTelnet = {}
  MaxTok = 3
  MaxSegs = 3
SPECIFICATION Spec
INVARIANTS SegmentationIndependent WaitsForCompleteCommand NoReadBeyondData
CHECK_DEADLOCK FALSE
