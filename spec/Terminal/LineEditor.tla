---------------------------- MODULE LineEditor ----------------------------
(* C13 - the REFERENCE line editor, history and command execution of the     *)
(* terminal shell (modules/terminal/impl/terminal_key_events.cpp,            *)
(* terminal_commands.cpp), written as a function from (state, key) to        *)
(* (state, observable output).  One session.                                 *)
(*                                                                           *)
(* Characters are integer codes (32..126), a line is a sequence of codes.    *)
(* Keys are integers too: a printable code inserts that character, the small *)
(* numbers below are the editing keys (several codes per key = the byte      *)
(* encodings the driver uses; the reference does not care which).            *)
(*                                                                           *)
(* What Enter does (Exec): the line is split at ';'; each piece is split at  *)
(* blanks; the first word selects                                            *)
(*   history      -> lists the stored lines, stops the line, line not stored *)
(*   !!  !n  !-n  -> re-runs exactly the addressed stored line (n counts     *)
(*                   from 0 as `history` prints it, -n from the end) or      *)
(*                   reports an error and stops the line, not stored         *)
(*   exit | quit  -> the session ends after the current input segment        *)
(*   Probe        -> the probe command: records its argument words           *)
(*   anything else-> "not found" error                                       *)
(* An empty piece stops the line (not stored).  A line that ran to its end   *)
(* is stored (after a re-run: the re-run text), the history keeps the last   *)
(* HistMax stored lines.  Exactly one prompt follows.                        *)
(* Quoting (' and ") and the other built-ins (ls cd pwd tree help) are not   *)
(* part of the reference: the generators never produce them here.            *)
EXTENDS Integers, Sequences, FiniteSets, TLC

CONSTANTS HistMax,     \* 20 in the statement
          Probe,       \* name of the probe command (a line), e.g. <<112>> = "p"
          AsFound      \* subset of {"bangbang_empty","huge_index","double_exit"}: behaviours of the code as found

SP == 32  SEMI == 59  BANG == 33  MINUS == 45
S_history == <<104, 105, 115, 116, 111, 114, 121>>
S_exit == <<101, 120, 105, 116>>
S_quit == <<113, 117, 105, 116>>

\* ---- keys -------------------------------------------------------------------------------------
IsChar(k) == k >= 32 /\ k <= 126
IsBs(k) == k \in {1, 14}            \* 0x7f, 0x08
IsDel(k) == k = 2
IsLeft(k) == k = 3
IsRight(k) == k = 4
IsHome(k) == k = 5
IsEnd(k) == k = 6
IsUp(k) == k = 7
IsDown(k) == k = 8
IsEnter(k) == k \in {10, 11, 12, 13}   \* CR LF, CR NUL, LF, lone CR at the end of a segment
EditKeys == {1, 14, 2, 3, 4, 5, 6, 7, 8}
EnterKeys == {10, 11, 12, 13}

\* ---- small sequence helpers -------------------------------------------------------------------
FirstIdx(s, c) == IF \E i \in 1..Len(s) : s[i] = c
                  THEN CHOOSE i \in 1..Len(s) : s[i] = c /\ \A j \in 1..(i - 1) : s[j] # c
                  ELSE 0
RECURSIVE SplitOn(_, _)
SplitOn(s, c) ==      \* util::string::Split with a one-character separator: always >= 1 piece
  LET i == FirstIdx(s, c) IN
  IF i = 0 THEN <<s>> ELSE <<SubSeq(s, 1, i - 1)>> \o SplitOn(SubSeq(s, i + 1, Len(s)), c)
Words(s) == SelectSeq(SplitOn(s, SP), LAMBDA w : w # <<>>)    \* util::SplitCmdline without quotes/tabs
LastN(s, n) == IF Len(s) <= n THEN s ELSE SubSeq(s, Len(s) - n + 1, Len(s))
IsDigits(s) == s # <<>> /\ \A i \in 1..Len(s) : s[i] >= 48 /\ s[i] <= 57
RECURSIVE SatVal(_, _)
SatVal(s, acc) ==     \* decimal value, saturating at 1000 (TLC integers are 32 bit; any integer argument is allowed)
  IF s = <<>> THEN acc ELSE SatVal(Tail(s), IF acc * 10 + (s[1] - 48) > 1000 THEN 1000 ELSE acc * 10 + (s[1] - 48))
RECURSIVE StripZeros(_)
StripZeros(s) == IF s # <<>> /\ s[1] = 48 THEN StripZeros(Tail(s)) ELSE s
Huge(s) == Len(StripZeros(s)) > 10     \* certainly does not fit a C++ int (2147483647 has 10 digits)

\* ---- result of executing a line ---------------------------------------------------------------
R0(final) == [ok |-> TRUE, calls |-> <<>>, errs |-> 0, lists |-> <<>>, reruns |-> 0, exits |-> 0, fault |-> FALSE,
              final |-> final]
Cat(a, b) == [ok |-> b.ok, calls |-> a.calls \o b.calls, errs |-> a.errs + b.errs, lists |-> a.lists \o b.lists,
              reruns |-> a.reruns + b.reruns, exits |-> a.exits + b.exits, fault |-> a.fault \/ b.fault,
              final |-> b.final]

\* index (1-based) of the stored line addressed by the text after '!', 0 = does not exist / not a number
BangTarget(sub, hist) ==
  IF sub = <<BANG>> THEN Len(hist)
  ELSE IF IsDigits(sub) THEN (LET v == SatVal(sub, 0) IN IF v < Len(hist) THEN v + 1 ELSE 0)
  ELSE IF Len(sub) >= 2 /\ sub[1] = MINUS /\ IsDigits(Tail(sub))
       THEN (LET n == SatVal(Tail(sub), 0) IN
             IF n = 0 THEN (IF Len(hist) > 0 THEN 1 ELSE 0)        \* "-0" is the integer 0
             ELSE IF n <= Len(hist) THEN Len(hist) - n + 1 ELSE 0)
  ELSE 0
\* the code as found: undefined behaviour / uncaught exception instead of an error
BangFault(sub, hist) ==
  \/ "bangbang_empty" \in AsFound /\ sub = <<BANG>> /\ hist = <<>>
  \/ "huge_index" \in AsFound /\ \/ IsDigits(sub) /\ Huge(sub)
                                 \/ Len(sub) >= 2 /\ sub[1] = MINUS /\ IsDigits(Tail(sub)) /\ Huge(Tail(sub))

RECURSIVE ExecLine(_, _, _)
RECURSIVE RunCmd(_, _, _, _)
ExecLine(line, hist, fuel) ==
  LET segs == SplitOn(line, SEMI)
      RECURSIVE Run(_, _)
      Run(i, acc) == IF i > Len(segs) THEN acc
                     ELSE LET r == Cat(acc, RunCmd(segs[i], acc.final, hist, fuel)) IN
                          IF r.ok THEN Run(i + 1, r) ELSE r
  IN Run(1, R0(line))
RunCmd(seg, cur, hist, fuel) ==
  IF seg = <<>> THEN [R0(cur) EXCEPT !.ok = FALSE]
  ELSE LET args == Words(seg) IN
    IF args = <<>> THEN [R0(cur) EXCEPT !.errs = 1]
    ELSE LET cmd == args[1] IN
      IF cmd = S_history THEN [R0(cur) EXCEPT !.ok = FALSE, !.lists = <<hist>>]
      ELSE IF cmd \in {S_exit, S_quit} THEN [R0(cur) EXCEPT !.exits = 1]
      ELSE IF cmd[1] = BANG THEN
        (LET sub == Tail(cmd)
             t == BangTarget(sub, hist) IN
         IF BangFault(sub, hist) THEN [R0(cur) EXCEPT !.ok = FALSE, !.fault = TRUE]
         ELSE IF t = 0 \/ fuel = 0 THEN [R0(cur) EXCEPT !.ok = FALSE, !.errs = 1]
         ELSE [ExecLine(hist[t], hist, fuel - 1) EXCEPT !.reruns = @ + 1])
      ELSE IF cmd = Probe THEN [R0(cur) EXCEPT !.calls = <<args>>]
      ELSE [R0(cur) EXCEPT !.errs = 1]

\* ---- editor state and one key -----------------------------------------------------------------
\* line, cur: edit line and cursor column; hist: stored lines, oldest first; hidx: 0 = not browsing the history;
\* alive: the session exists; pend: number of exit commands whose (deferred) teardown has not run yet
State0 == [line |-> <<>>, cur |-> 0, hist |-> <<>>, hidx |-> 0, alive |-> TRUE, pend |-> 0, fault |-> FALSE]
Out0 == [calls |-> <<>>, errs |-> 0, prompts |-> 0, lists |-> <<>>, reruns |-> 0, enters |-> 0]
OutCat(a, b) == [calls |-> a.calls \o b.calls, errs |-> a.errs + b.errs, prompts |-> a.prompts + b.prompts,
                 lists |-> a.lists \o b.lists, reruns |-> a.reruns + b.reruns, enters |-> a.enters + b.enters]

FInsert(st, c) == [st EXCEPT !.line = SubSeq(st.line, 1, st.cur) \o <<c>> \o SubSeq(st.line, st.cur + 1, Len(st.line)),
                            !.cur = st.cur + 1]
FBackspace(st) == IF st.cur = 0 THEN st
                 ELSE [st EXCEPT !.line = SubSeq(st.line, 1, st.cur - 1) \o SubSeq(st.line, st.cur + 1, Len(st.line)),
                                 !.cur = st.cur - 1]
FDelete(st) == IF st.cur >= Len(st.line) THEN st
              ELSE [st EXCEPT !.line = SubSeq(st.line, 1, st.cur) \o SubSeq(st.line, st.cur + 2, Len(st.line))]
FLeft(st) == IF st.cur = 0 THEN st ELSE [st EXCEPT !.cur = st.cur - 1]
FRight(st) == IF st.cur >= Len(st.line) THEN st ELSE [st EXCEPT !.cur = st.cur + 1]
FHome(st) == [st EXCEPT !.cur = 0]
FEnd(st) == [st EXCEPT !.cur = Len(st.line)]
FUp(st) == IF st.hidx = Len(st.hist) THEN st
          ELSE LET h == st.hidx + 1
                   ln == st.hist[Len(st.hist) - h + 1] IN
               [st EXCEPT !.hidx = h, !.line = ln, !.cur = Len(ln)]
FDown(st) == IF st.hidx = 0 THEN st
            ELSE LET h == st.hidx - 1 IN
                 IF h > 0 THEN (LET ln == st.hist[Len(st.hist) - h + 1] IN [st EXCEPT !.hidx = h, !.line = ln, !.cur = Len(ln)])
                 ELSE [st EXCEPT !.hidx = 0, !.line = <<>>, !.cur = 0]
EnterRes(st) == ExecLine(st.line, st.hist, 2)
FEnter(st) == LET r == EnterRes(st) IN
             [st EXCEPT !.line = <<>>, !.cur = 0, !.hidx = 0,
                        !.hist = IF r.ok THEN LastN(Append(st.hist, r.final), HistMax) ELSE st.hist,
                        !.pend = st.pend + r.exits,
                        !.fault = st.fault \/ r.fault]
EnterOut(st) == LET r == EnterRes(st) IN
                [calls |-> r.calls, errs |-> r.errs, prompts |-> 1, lists |-> r.lists, reruns |-> r.reruns, enters |-> 1]

Step(st, k) ==
  IF IsChar(k) THEN FInsert(st, k)
  ELSE IF IsBs(k) THEN FBackspace(st)
  ELSE IF IsDel(k) THEN FDelete(st)
  ELSE IF IsLeft(k) THEN FLeft(st)
  ELSE IF IsRight(k) THEN FRight(st)
  ELSE IF IsHome(k) THEN FHome(st)
  ELSE IF IsEnd(k) THEN FEnd(st)
  ELSE IF IsUp(k) THEN FUp(st)
  ELSE IF IsDown(k) THEN FDown(st)
  ELSE IF IsEnter(k) THEN FEnter(st)
  ELSE st
StepOut(st, k) == IF IsEnter(k) THEN EnterOut(st) ELSE Out0

\* all keys of one input segment, then the deferred teardown of the session if an exit command ran.
\* As found, the second deferred teardown of one segment works on the freed session (fault).
RECURSIVE RunKeys(_, _, _, _)
RunKeys(st, keys, i, out) ==
  IF i > Len(keys) THEN [st |-> st, out |-> out]
  ELSE RunKeys(Step(st, keys[i]), keys, i + 1, OutCat(out, StepOut(st, keys[i])))
AfterSegment(st) ==
  IF st.pend = 0 THEN st
  ELSE [st EXCEPT !.alive = FALSE, !.pend = 0, !.fault = st.fault \/ ("double_exit" \in AsFound /\ st.pend >= 2)]
Segment(st, keys) ==
  IF ~st.alive THEN [st |-> st, out |-> Out0]     \* no session: input is dropped, nothing is answered
  ELSE LET r == RunKeys(st, keys, 1, Out0) IN [st |-> AfterSegment(r.st), out |-> r.out]
=============================================================================
