CONSTANTS
  Conns = {1, 2}
  MaxExits = 3
  CaptureToken = FALSE
SPECIFICATION Spec
INVARIANTS TypeOK NoUseOfFreed

CHECK_DEADLOCK FALSE
