CONSTANTS
  HistMax = 20
  Probe <- ProbeP
  AsFound = {}
SPECIFICATION TSpec
CONSTRAINT Progress
POSTCONDITION Accepted
CHECK_DEADLOCK FALSE
