---- MODULE Session_TTrace_1790993649 ----
EXTENDS Sequences, TLCExt, Toolbox, Naturals, TLC, Session

_expression ==
    LET Session_TEExpression == INSTANCE Session_TEExpression
    IN Session_TEExpression!expression
----

_trace ==
    LET Session_TETrace == INSTANCE Session_TETrace
    IN Session_TETrace!trace
----

_inv ==
    ~(
        TLCGet("level") = Len(_TETrace)
        /\
        exits = (1)
        /\
        ctx = (<<"none", "freed">>)
        /\
        state = (<<"none", "closed">>)
        /\
        used = (TRUE)
        /\
        queue = (<<>>)
    )
----

_init ==
    /\ state = _TETrace[1].state
    /\ used = _TETrace[1].used
    /\ ctx = _TETrace[1].ctx
    /\ exits = _TETrace[1].exits
    /\ queue = _TETrace[1].queue
----

_next ==
    /\ \E i,j \in DOMAIN _TETrace:
        /\ \/ /\ j = i + 1
              /\ i = TLCGet("level")
        /\ state  = _TETrace[i].state
        /\ state' = _TETrace[j].state
        /\ used  = _TETrace[i].used
        /\ used' = _TETrace[j].used
        /\ ctx  = _TETrace[i].ctx
        /\ ctx' = _TETrace[j].ctx
        /\ exits  = _TETrace[i].exits
        /\ exits' = _TETrace[j].exits
        /\ queue  = _TETrace[i].queue
        /\ queue' = _TETrace[j].queue

\* Uncomment the ASSUME below to write the states of the error trace
\* to the given file in Json format. Note that you can pass any tuple
\* to `JsonSerialize`. For example, a sub-sequence of _TETrace.
    \* ASSUME
    \*     LET J == INSTANCE Json
    \*         IN J!JsonSerialize("Session_TTrace_1790993649.json", _TETrace)

=============================================================================

 Note that you can extract this module `Session_TEExpression`
  to a dedicated file to reuse `expression` (the module in the 
  dedicated `Session_TEExpression.tla` file takes precedence 
  over the module `Session_TEExpression` below).

---- MODULE Session_TEExpression ----
EXTENDS Sequences, TLCExt, Toolbox, Naturals, TLC, Session

expression == 
    [
        \* To hide variables of the `Session` spec from the error trace,
        \* remove the variables below.  The trace will be written in the order
        \* of the fields of this record.
        state |-> state
        ,used |-> used
        ,ctx |-> ctx
        ,exits |-> exits
        ,queue |-> queue
        
        \* Put additional constant-, state-, and action-level expressions here:
        \* ,_stateNumber |-> _TEPosition
        \* ,_stateUnchanged |-> state = state'
        
        \* Format the `state` variable as Json value.
        \* ,_stateJson |->
        \*     LET J == INSTANCE Json
        \*     IN J!ToJson(state)
        
        \* Lastly, you may build expressions over arbitrary sets of states by
        \* leveraging the _TETrace operator.  For example, this is how to
        \* count the number of times a spec variable changed up to the current
        \* state in the trace.
        \* ,_stateModCount |->
        \*     LET F[s \in DOMAIN _TETrace] ==
        \*         IF s = 1 THEN 0
        \*         ELSE IF _TETrace[s].state # _TETrace[s-1].state
        \*             THEN 1 + F[s-1] ELSE F[s-1]
        \*     IN F[_TEPosition - 1]
    ]

=============================================================================



Parsing and semantic processing can take forever if the trace below is long.
 In this case, it is advised to uncomment the module below to deserialize the
 trace from a generated binary file.

\*
\*---- MODULE Session_TETrace ----
\*EXTENDS IOUtils, TLC, Session
\*
\*trace == IODeserialize("Session_TTrace_1790993649.bin", TRUE)
\*
\*=============================================================================
\*

---- MODULE Session_TETrace ----
EXTENDS TLC, Session

trace == 
    <<
    ([exits |-> 0,ctx |-> <<"none", "none">>,state |-> <<"none", "none">>,used |-> FALSE,queue |-> <<>>]),
    ([exits |-> 0,ctx |-> <<"none", "live">>,state |-> <<"none", "open">>,used |-> FALSE,queue |-> <<>>]),
    ([exits |-> 1,ctx |-> <<"none", "live">>,state |-> <<"none", "open">>,used |-> FALSE,queue |-> <<[c |-> 2, kind |-> "exit"]>>]),
    ([exits |-> 1,ctx |-> <<"none", "freed">>,state |-> <<"none", "closed">>,used |-> FALSE,queue |-> <<[c |-> 2, kind |-> "exit"]>>]),
    ([exits |-> 1,ctx |-> <<"none", "freed">>,state |-> <<"none", "closed">>,used |-> TRUE,queue |-> <<>>])
    >>
----


=============================================================================

---- CONFIG Session_TTrace_1790993649 ----
CONSTANTS
    Conns = { 1 , 2 }
    MaxExits = 3
    CaptureToken = FALSE

INVARIANT
    _inv

CHECK_DEADLOCK
    \* CHECK_DEADLOCK off because of PROPERTY or INVARIANT above.
    FALSE

INIT
    _init

NEXT
    _next

CONSTANT
    _TETrace <- _trace

ALIAS
    _expression
=============================================================================
\* Generated on Sat Oct 03 02:14:10 UTC 2026