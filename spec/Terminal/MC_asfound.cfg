CONSTANTS
  HistMax = 2
  Probe <- ProbeP
  AsFound = {"bangbang_empty", "huge_index", "double_exit"}
  Chars = {}
  Cmds <- CmdSet
  Edit = FALSE
  MaxLen = 20
  MaxEnters = 2
SPECIFICATION Spec
CONSTRAINT Bound
INVARIANTS NoFault
CHECK_DEADLOCK FALSE
