--------------------------- MODULE MC_LineEditor ---------------------------
(* Bounded model of the reference editor with INDEPENDENT ghost formulations of what the statement    *)
(* demands: a two-stack ("zipper") editor for the line, the full list of stored lines for the history,*)
(* counters for Enter/prompt, and the addressed entry of a history reference computed from the        *)
(* listing that `history` would print.                                                                *)
EXTENDS LineEditor
CONSTANTS Chars,      \* characters that can be typed freely
          Cmds,       \* whole lines typed atomically on an empty line and entered
          Edit,       \* editing keys other than Up/Down enabled
          MaxLen, MaxEnters
VARIABLES st,         \* the reference editor (module LineEditor)
          zl, zr,     \* ghost zipper: text left / right of the cursor
          stored,     \* ghost: every line ever stored, in order
          enters, prompts,
          last        \* ghost: what the last Enter was given and what it did
vars == <<st, zl, zr, stored, enters, prompts, last>>

Init == /\ st = State0 /\ zl = <<>> /\ zr = <<>> /\ stored = <<>> /\ enters = 0 /\ prompts = 1
        /\ last = [kind |-> "none"]

ProbeP == <<112>>      \* "p"
Front(s) == IF s = <<>> THEN s ELSE SubSeq(s, 1, Len(s) - 1)
Key(k, l2, r2) == /\ st' = Step(st, k) /\ zl' = l2 /\ zr' = r2
                  /\ UNCHANGED <<stored, enters, prompts, last>>
Char == \E c \in Chars : st.alive /\ Len(st.line) < MaxLen /\ Key(c, Append(zl, c), zr)
Backspace == \E k \in {1, 14} : Edit /\ st.alive /\ Key(k, Front(zl), zr)
Delete == Edit /\ st.alive /\ Key(2, zl, IF zr = <<>> THEN zr ELSE Tail(zr))
Left == Edit /\ st.alive /\ Key(3, Front(zl), IF zl = <<>> THEN zr ELSE <<zl[Len(zl)]>> \o zr)
Right == Edit /\ st.alive /\ Key(4, IF zr = <<>> THEN zl ELSE Append(zl, zr[1]), IF zr = <<>> THEN zr ELSE Tail(zr))
Home == Edit /\ st.alive /\ Key(5, <<>>, zl \o zr)
End == Edit /\ st.alive /\ Key(6, zl \o zr, <<>>)
Kept == IF Len(stored) < HistMax THEN Len(stored) ELSE HistMax      \* entries that are still remembered
Up == st.alive /\ IF st.hidx = Kept THEN Key(7, zl, zr) ELSE Key(7, stored[Len(stored) - st.hidx], <<>>)
Down == st.alive /\ IF st.hidx = 0 THEN Key(8, zl, zr)
        ELSE IF st.hidx = 1 THEN Key(8, <<>>, <<>>) ELSE Key(8, stored[Len(stored) - st.hidx + 2], <<>>)
DoEnter(s0, zline) ==
  LET r == EnterRes(s0) IN
  /\ st' = AfterSegment(Step(s0, 10)) /\ zl' = <<>> /\ zr' = <<>>
  /\ stored' = IF r.ok THEN Append(stored, r.final) ELSE stored
  /\ enters' = enters + 1 /\ prompts' = prompts + EnterOut(s0).prompts
  /\ last' = [kind |-> "enter", line |-> s0.line, zline |-> zline, hist |-> s0.hist, r |-> r]
Enter == st.alive /\ enters < MaxEnters /\ DoEnter(st, zl \o zr)
CmdLine == \E c \in Cmds : st.alive /\ enters < MaxEnters /\ st.line = <<>> /\ DoEnter(RunKeys(st, c, 1, Out0).st, c)
Next == Char \/ Backspace \/ Delete \/ Left \/ Right \/ Home \/ End \/ Up \/ Down \/ Enter \/ CmdLine
Spec == Init /\ [][Next]_vars

\* ---- the statement ---------------------------------------------------------------------------------
CursorWithinLine == st.cur >= 0 /\ st.cur <= Len(st.line)
ExecutedLineIsEditorsLine ==      \* the implementation-shaped index editing equals the zipper, at every key and at Enter
  /\ st.line = zl \o zr /\ st.cur = Len(zl)
  /\ last.kind = "enter" => last.line = last.zline
OnePromptPerEnter == prompts = enters + 1
HistoryLast20InOrder == st.hist = LastN(stored, HistMax)
\* a line that is exactly one history reference
IsBangLine(ln) == LET w == Words(ln) IN FirstIdx(ln, SEMI) = 0 /\ Len(w) = 1 /\ Len(w[1]) >= 2 /\ w[1][1] = BANG
Number(ln, n) ==   \* 0-based listing number addressed, -1 = none ("!!": last, "!k": k, "!-k": n-k)
  LET sub == Tail(Words(ln)[1]) IN
  IF sub = <<BANG>> THEN n - 1
  ELSE IF IsDigits(sub) THEN (IF SatVal(sub, 0) < n THEN SatVal(sub, 0) ELSE 0 - 1)
  ELSE IF sub[1] = MINUS /\ IsDigits(Tail(sub)) /\ SatVal(Tail(sub), 0) >= 1 /\ SatVal(Tail(sub), 0) <= n
       THEN n - SatVal(Tail(sub), 0) ELSE 0 - 1
BangAddressesExactEntry ==
  (last.kind = "enter" /\ IsBangLine(last.line) /\ Number(last.line, Len(last.hist)) >= 0) =>
     LET e == last.hist[Number(last.line, Len(last.hist)) + 1]
         d == ExecLine(e, last.hist, 0) IN        \* running that entry directly
     /\ last.r.calls = d.calls /\ last.r.errs = d.errs /\ last.r.ok = d.ok /\ last.r.final = e
BangOutOfRangeIsError ==
  (last.kind = "enter" /\ IsBangLine(last.line) /\ Number(last.line, Len(last.hist)) < 0) =>
     /\ last.r.errs >= 1 /\ last.r.calls = <<>> /\ ~last.r.ok /\ ~last.r.fault
NoFault == ~st.fault
StoredLinesHaveNoReference ==     \* why re-running never recurses: a stored line never contains a history reference command
  \A i \in 1..Len(st.hist) : \A sg \in {SplitOn(st.hist[i], SEMI)[j] : j \in 1..Len(SplitOn(st.hist[i], SEMI))} :
     Words(sg) = <<>> \/ Words(sg)[1][1] # BANG
Bound == Len(st.line) <= MaxLen
=============================================================================
