--------------------------- MODULE TelnetFraming ---------------------------
(* C13 - the telnet layer (modules/terminal/impl/service/telnetd.cpp, onTcpReceived): a byte-level     *)
(* machine that separates text from IAC commands.  Bytes arrive in arbitrary segments; what is not yet  *)
(* a complete command stays in the receive buffer.                                                      *)
(*   text run (no IAC)                 -> handed to the terminal                                        *)
(*   IAC WILL|WONT|DO|DONT opt         -> negotiation (DO ECHO switches the echo option on)             *)
(*   IAC SB opt data.. IAC x           -> sub-negotiation, data = at least one byte, ends at the first  *)
(*                                        IAC at or after the 2nd data position; opt 31 (window size)   *)
(*                                        with >= 4 data bytes reports (w, h)                           *)
(*   IAC c (any other c)               -> two-byte command                                              *)
(* Decode(bytes) applies the machine to the whole stream at once: this is the one-shot reference.       *)
(* SegmentationIndependent: for every way of cutting the stream into segments the machine hands over    *)
(* the same text, window sizes and options, and keeps the same unfinished tail.                         *)
(* WaitsForCompleteCommand: what stays in the buffer is an unfinished command and nothing of it has     *)
(* been acted on.  NoReadBeyondData: the handlers only look at bytes of the command they were given.    *)
EXTENDS Integers, Sequences, FiniteSets, TLC
CONSTANT AsFoundTelnet     \* subset of {"naws_short_read"}: the window-size handler reads 4 bytes whatever the length

IAC == 255  DONT == 254  DO == 253  WONT == 252  WILL == 251  SB == 250  SE == 240
OPT_ECHO == 1  OPT_NAWS == 31

O0 == [text |-> <<>>, wins |-> <<>>, echo |-> FALSE, cmds |-> 0, mal |-> FALSE, nawsbad |-> FALSE, overread |-> FALSE]

IdxFrom(b, from, c) ==    \* first position >= from holding c, 0 if none
  IF \E i \in from..Len(b) : b[i] = c THEN CHOOSE i \in from..Len(b) : b[i] = c /\ \A j \in from..(i - 1) : b[j] # c ELSE 0
Drop(b, n) == SubSeq(b, n + 1, Len(b))

Nego(o, c, opt) == [o EXCEPT !.echo = @ \/ (c = DO /\ opt = OPT_ECHO), !.cmds = @ + 1, !.mal = @ \/ opt = IAC]
Sub(o, opt, data, term) ==
  [o EXCEPT !.cmds = @ + 1,
            !.mal = @ \/ term # SE \/ opt = IAC,                      \* not "IAC SB opt data IAC SE": outside the well-formed language
            !.nawsbad = @ \/ (opt = OPT_NAWS /\ Len(data) # 4),
            !.wins = IF opt = OPT_NAWS /\ Len(data) >= 4 THEN Append(@, <<data[1] * 256 + data[2], data[3] * 256 + data[4]>>) ELSE @,
            !.overread = @ \/ ("naws_short_read" \in AsFoundTelnet /\ opt = OPT_NAWS /\ Len(data) < 3)]
            \* as found: p[0..3] is read whatever the length; with 3 data bytes p[3] is still the IAC of this command,
            \* with fewer it reaches the byte after the command (or past the received data)
Cmd2(o, c) == [o EXCEPT !.cmds = @ + 1, !.mal = @ \/ c = IAC \/ c < SE \/ c = SE]

RECURSIVE Drain(_, _)
Drain(b, o) ==     \* the loop of onTcpReceived: result = [buf: what stays buffered, o: everything handed over so far]
  IF b = <<>> THEN [buf |-> b, o |-> o]
  ELSE IF b[1] # IAC THEN
    LET i == IdxFrom(b, 1, IAC)
        n == IF i = 0 THEN Len(b) ELSE i - 1 IN
    Drain(Drop(b, n), [o EXCEPT !.text = @ \o SubSeq(b, 1, n)])
  ELSE IF Len(b) < 2 THEN [buf |-> b, o |-> o]
  ELSE LET c == b[2] IN
    IF c \in {WILL, WONT, DO, DONT} THEN
      IF Len(b) < 3 THEN [buf |-> b, o |-> o] ELSE Drain(Drop(b, 3), Nego(o, c, b[3]))
    ELSE IF c = SB THEN
      IF Len(b) < 6 THEN [buf |-> b, o |-> o]
      ELSE LET e == IdxFrom(b, 5, IAC) IN
        IF e = 0 \/ e = Len(b) THEN [buf |-> b, o |-> o]
        ELSE Drain(Drop(b, e + 1), Sub([o EXCEPT !.mal = @ \/ b[4] = IAC], b[3], SubSeq(b, 4, e - 1), b[e + 1]))
    ELSE Drain(Drop(b, 2), Cmd2(o, c))
Decode(bytes) == Drain(bytes, O0)

\* an unfinished command: starts with IAC and Drain cannot act on it
Unfinished(b) == b # <<>> /\ b[1] = IAC /\ Drain(b, O0) = [buf |-> b, o |-> O0]
=============================================================================
