---- MODULE MC_TelnetFraming_TTrace_1790993644 ----
EXTENDS Sequences, TLCExt, Toolbox, MC_TelnetFraming, Naturals, TLC

_expression ==
    LET MC_TelnetFraming_TEExpression == INSTANCE MC_TelnetFraming_TEExpression
    IN MC_TelnetFraming_TEExpression!expression
----

_trace ==
    LET MC_TelnetFraming_TETrace == INSTANCE MC_TelnetFraming_TETrace
    IN MC_TelnetFraming_TETrace!trace
----

_inv ==
    ~(
        TLCGet("level") = Len(_TETrace)
        /\
        bytewise = (FALSE)
        /\
        buf = (<<>>)
        /\
        nseg = (1)
        /\
        pos = (6)
        /\
        stream = (<<255, 250, 31, 0, 255, 241>>)
        /\
        o = ([overread |-> TRUE, text |-> <<>>, wins |-> <<>>, echo |-> FALSE, cmds |-> 1, mal |-> TRUE, nawsbad |-> TRUE])
    )
----

_init ==
    /\ bytewise = _TETrace[1].bytewise
    /\ nseg = _TETrace[1].nseg
    /\ o = _TETrace[1].o
    /\ pos = _TETrace[1].pos
    /\ buf = _TETrace[1].buf
    /\ stream = _TETrace[1].stream
----

_next ==
    /\ \E i,j \in DOMAIN _TETrace:
        /\ \/ /\ j = i + 1
              /\ i = TLCGet("level")
        /\ bytewise  = _TETrace[i].bytewise
        /\ bytewise' = _TETrace[j].bytewise
        /\ nseg  = _TETrace[i].nseg
        /\ nseg' = _TETrace[j].nseg
        /\ o  = _TETrace[i].o
        /\ o' = _TETrace[j].o
        /\ pos  = _TETrace[i].pos
        /\ pos' = _TETrace[j].pos
        /\ buf  = _TETrace[i].buf
        /\ buf' = _TETrace[j].buf
        /\ stream  = _TETrace[i].stream
        /\ stream' = _TETrace[j].stream

\* Uncomment the ASSUME below to write the states of the error trace
\* to the given file in Json format. Note that you can pass any tuple
\* to `JsonSerialize`. For example, a sub-sequence of _TETrace.
    \* ASSUME
    \*     LET J == INSTANCE Json
    \*         IN J!JsonSerialize("MC_TelnetFraming_TTrace_1790993644.json", _TETrace)

=============================================================================

 Note that you can extract this module `MC_TelnetFraming_TEExpression`
  to a dedicated file to reuse `expression` (the module in the 
  dedicated `MC_TelnetFraming_TEExpression.tla` file takes precedence 
  over the module `MC_TelnetFraming_TEExpression` below).

---- MODULE MC_TelnetFraming_TEExpression ----
EXTENDS Sequences, TLCExt, Toolbox, MC_TelnetFraming, Naturals, TLC

expression == 
    [
        \* To hide variables of the `MC_TelnetFraming` spec from the error trace,
        \* remove the variables below.  The trace will be written in the order
        \* of the fields of this record.
        bytewise |-> bytewise
        ,nseg |-> nseg
        ,o |-> o
        ,pos |-> pos
        ,buf |-> buf
        ,stream |-> stream
        
        \* Put additional constant-, state-, and action-level expressions here:
        \* ,_stateNumber |-> _TEPosition
        \* ,_bytewiseUnchanged |-> bytewise = bytewise'
        
        \* Format the `bytewise` variable as Json value.
        \* ,_bytewiseJson |->
        \*     LET J == INSTANCE Json
        \*     IN J!ToJson(bytewise)
        
        \* Lastly, you may build expressions over arbitrary sets of states by
        \* leveraging the _TETrace operator.  For example, this is how to
        \* count the number of times a spec variable changed up to the current
        \* state in the trace.
        \* ,_bytewiseModCount |->
        \*     LET F[s \in DOMAIN _TETrace] ==
        \*         IF s = 1 THEN 0
        \*         ELSE IF _TETrace[s].bytewise # _TETrace[s-1].bytewise
        \*             THEN 1 + F[s-1] ELSE F[s-1]
        \*     IN F[_TEPosition - 1]
    ]

=============================================================================



Parsing and semantic processing can take forever if the trace below is long.
 In this case, it is advised to uncomment the module below to deserialize the
 trace from a generated binary file.

\*
\*---- MODULE MC_TelnetFraming_TETrace ----
\*EXTENDS IOUtils, MC_TelnetFraming, TLC
\*
\*trace == IODeserialize("MC_TelnetFraming_TTrace_1790993644.bin", TRUE)
\*
\*=============================================================================
\*

---- MODULE MC_TelnetFraming_TETrace ----
EXTENDS MC_TelnetFraming, TLC

trace == 
    <<
    ([bytewise |-> FALSE,buf |-> <<>>,nseg |-> 0,pos |-> 0,stream |-> <<255, 250, 31, 0, 255, 241>>,o |-> [overread |-> FALSE, text |-> <<>>, wins |-> <<>>, echo |-> FALSE, cmds |-> 0, mal |-> FALSE, nawsbad |-> FALSE]]),
    ([bytewise |-> FALSE,buf |-> <<>>,nseg |-> 1,pos |-> 6,stream |-> <<255, 250, 31, 0, 255, 241>>,o |-> [overread |-> TRUE, text |-> <<>>, wins |-> <<>>, echo |-> FALSE, cmds |-> 1, mal |-> TRUE, nawsbad |-> TRUE]])
    >>
----


=============================================================================

---- CONFIG MC_TelnetFraming_TTrace_1790993644 ----
CONSTANTS
    AsFoundTelnet = { "naws_short_read" }
    MaxTok = 2
    MaxSegs = 3

INVARIANT
    _inv

CHECK_DEADLOCK
    \* CHECK_DEADLOCK off because of PROPERTY or INVARIANT above.
    FALSE

INIT
    _init

NEXT
    _next

CONSTANT
    _TETrace <- _trace

ALIAS
    _expression
=============================================================================
\* Generated on Sat Oct 03 02:14:07 UTC 2026