\* editing keys over {p, x, blank} with short lines; two Enters; history of 1
CONSTANTS
  HistMax = 1
  Probe <- ProbeP
  AsFound = {}
  Chars = {112, 120, 32}
  Cmds = {}
  Edit = TRUE
  MaxLen = 2
  MaxEnters = 2
SPECIFICATION Spec
CONSTRAINT Bound
INVARIANTS CursorWithinLine ExecutedLineIsEditorsLine OnePromptPerEnter HistoryLast20InOrder NoFault StoredLinesHaveNoReference
CHECK_DEADLOCK FALSE
