---- MODULE MC_LineEditor_cmds_TTrace_1790993665 ----
EXTENDS Sequences, TLCExt, Toolbox, MC_LineEditor_cmds, Naturals, TLC

_expression ==
    LET MC_LineEditor_cmds_TEExpression == INSTANCE MC_LineEditor_cmds_TEExpression
    IN MC_LineEditor_cmds_TEExpression!expression
----

_trace ==
    LET MC_LineEditor_cmds_TETrace == INSTANCE MC_LineEditor_cmds_TETrace
    IN MC_LineEditor_cmds_TETrace!trace
----

_inv ==
    ~(
        TLCGet("level") = Len(_TETrace)
        /\
        st = ([alive |-> TRUE, line |-> <<>>, hidx |-> 0, hist |-> <<>>, cur |-> 0, fault |-> TRUE, pend |-> 0])
        /\
        zl = (<<>>)
        /\
        last = ([kind |-> "enter", line |-> <<33, 33>>, zline |-> <<33, 33>>, r |-> [ok |-> FALSE, final |-> <<33, 33>>, calls |-> <<>>, errs |-> 0, fault |-> TRUE, lists |-> <<>>, reruns |-> 0, exits |-> 0], hist |-> <<>>])
        /\
        enters = (2)
        /\
        stored = (<<>>)
        /\
        zr = (<<>>)
        /\
        prompts = (3)
    )
----

_init ==
    /\ zl = _TETrace[1].zl
    /\ zr = _TETrace[1].zr
    /\ stored = _TETrace[1].stored
    /\ prompts = _TETrace[1].prompts
    /\ last = _TETrace[1].last
    /\ st = _TETrace[1].st
    /\ enters = _TETrace[1].enters
----

_next ==
    /\ \E i,j \in DOMAIN _TETrace:
        /\ \/ /\ j = i + 1
              /\ i = TLCGet("level")
        /\ zl  = _TETrace[i].zl
        /\ zl' = _TETrace[j].zl
        /\ zr  = _TETrace[i].zr
        /\ zr' = _TETrace[j].zr
        /\ stored  = _TETrace[i].stored
        /\ stored' = _TETrace[j].stored
        /\ prompts  = _TETrace[i].prompts
        /\ prompts' = _TETrace[j].prompts
        /\ last  = _TETrace[i].last
        /\ last' = _TETrace[j].last
        /\ st  = _TETrace[i].st
        /\ st' = _TETrace[j].st
        /\ enters  = _TETrace[i].enters
        /\ enters' = _TETrace[j].enters

\* Uncomment the ASSUME below to write the states of the error trace
\* to the given file in Json format. Note that you can pass any tuple
\* to `JsonSerialize`. For example, a sub-sequence of _TETrace.
    \* ASSUME
    \*     LET J == INSTANCE Json
    \*         IN J!JsonSerialize("MC_LineEditor_cmds_TTrace_1790993665.json", _TETrace)

=============================================================================

 Note that you can extract this module `MC_LineEditor_cmds_TEExpression`
  to a dedicated file to reuse `expression` (the module in the 
  dedicated `MC_LineEditor_cmds_TEExpression.tla` file takes precedence 
  over the module `MC_LineEditor_cmds_TEExpression` below).

---- MODULE MC_LineEditor_cmds_TEExpression ----
EXTENDS Sequences, TLCExt, Toolbox, MC_LineEditor_cmds, Naturals, TLC

expression == 
    [
        \* To hide variables of the `MC_LineEditor_cmds` spec from the error trace,
        \* remove the variables below.  The trace will be written in the order
        \* of the fields of this record.
        zl |-> zl
        ,zr |-> zr
        ,stored |-> stored
        ,prompts |-> prompts
        ,last |-> last
        ,st |-> st
        ,enters |-> enters
        
        \* Put additional constant-, state-, and action-level expressions here:
        \* ,_stateNumber |-> _TEPosition
        \* ,_zlUnchanged |-> zl = zl'
        
        \* Format the `zl` variable as Json value.
        \* ,_zlJson |->
        \*     LET J == INSTANCE Json
        \*     IN J!ToJson(zl)
        
        \* Lastly, you may build expressions over arbitrary sets of states by
        \* leveraging the _TETrace operator.  For example, this is how to
        \* count the number of times a spec variable changed up to the current
        \* state in the trace.
        \* ,_zlModCount |->
        \*     LET F[s \in DOMAIN _TETrace] ==
        \*         IF s = 1 THEN 0
        \*         ELSE IF _TETrace[s].zl # _TETrace[s-1].zl
        \*             THEN 1 + F[s-1] ELSE F[s-1]
        \*     IN F[_TEPosition - 1]
    ]

=============================================================================



Parsing and semantic processing can take forever if the trace below is long.
 In this case, it is advised to uncomment the module below to deserialize the
 trace from a generated binary file.

\*
\*---- MODULE MC_LineEditor_cmds_TETrace ----
\*EXTENDS IOUtils, MC_LineEditor_cmds, TLC
\*
\*trace == IODeserialize("MC_LineEditor_cmds_TTrace_1790993665.bin", TRUE)
\*
\*=============================================================================
\*

---- MODULE MC_LineEditor_cmds_TETrace ----
EXTENDS MC_LineEditor_cmds, TLC

trace == 
    <<
    ([st |-> [alive |-> TRUE, line |-> <<>>, hidx |-> 0, hist |-> <<>>, cur |-> 0, fault |-> FALSE, pend |-> 0],zl |-> <<>>,last |-> [kind |-> "none"],enters |-> 0,stored |-> <<>>,zr |-> <<>>,prompts |-> 1]),
    ([st |-> [alive |-> TRUE, line |-> <<>>, hidx |-> 0, hist |-> <<>>, cur |-> 0, fault |-> FALSE, pend |-> 0],zl |-> <<>>,last |-> [kind |-> "enter", line |-> <<>>, zline |-> <<>>, r |-> [ok |-> FALSE, final |-> <<>>, calls |-> <<>>, errs |-> 0, fault |-> FALSE, lists |-> <<>>, reruns |-> 0, exits |-> 0], hist |-> <<>>],enters |-> 1,stored |-> <<>>,zr |-> <<>>,prompts |-> 2]),
    ([st |-> [alive |-> TRUE, line |-> <<>>, hidx |-> 0, hist |-> <<>>, cur |-> 0, fault |-> TRUE, pend |-> 0],zl |-> <<>>,last |-> [kind |-> "enter", line |-> <<33, 33>>, zline |-> <<33, 33>>, r |-> [ok |-> FALSE, final |-> <<33, 33>>, calls |-> <<>>, errs |-> 0, fault |-> TRUE, lists |-> <<>>, reruns |-> 0, exits |-> 0], hist |-> <<>>],enters |-> 2,stored |-> <<>>,zr |-> <<>>,prompts |-> 3])
    >>
----


=============================================================================

---- CONFIG MC_LineEditor_cmds_TTrace_1790993665 ----
CONSTANTS
    HistMax = 2
    Probe <- ProbeP
    AsFound = { "bangbang_empty" , "huge_index" , "double_exit" }
    Chars = { }
    Cmds <- CmdSet
    Edit = FALSE
    MaxLen = 20
    MaxEnters = 2

INVARIANT
    _inv

CHECK_DEADLOCK
    \* CHECK_DEADLOCK off because of PROPERTY or INVARIANT above.
    FALSE

INIT
    _init

NEXT
    _next

CONSTANT
    _TETrace <- _trace

ALIAS
    _expression
=============================================================================
\* Generated on Sat Oct 03 02:14:27 UTC 2026