CONSTANTS
  HistMax = 20
  Probe <- ProbeP
  AsFound = {}
  GChars = {120, 121, 32, 59, 112}
  GKeys = {1, 14, 2, 3, 4, 5, 6, 7, 8, 10, 11, 12}
  GCmds <- NoCmds
  Prefixes <- EditPrefixes
  Depth = 14
SPECIFICATION GSpec
CONSTRAINT Emit
CHECK_DEADLOCK FALSE
