\* tiny scope; NotAllSeen is EXPECTED to be violated: some behaviour takes every action (vacuity guard)
CONSTANTS
  HistMax = 1
  Probe <- ProbeP
  AsFound = {}
  Chars = {112}
  Cmds <- CovCmdSet
  Edit = TRUE
  MaxLen = 2
  MaxEnters = 2
SPECIFICATION CSpec
CONSTRAINT Bound
INVARIANTS NotAllSeen
CHECK_DEADLOCK FALSE
