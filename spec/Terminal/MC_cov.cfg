\* tiny scope with per-action coverage (vacuity guard): every action of the model is taken
CONSTANTS
  HistMax = 1
  Probe <- ProbeP
  AsFound = {}
  Chars = {112, 32}
  Cmds <- SmallCmdSet
  Edit = TRUE
  MaxLen = 2
  MaxEnters = 2
SPECIFICATION Spec
CONSTRAINT Bound
INVARIANTS CursorWithinLine ExecutedLineIsEditorsLine OnePromptPerEnter HistoryLast20InOrder BangAddressesExactEntry BangOutOfRangeIsError NoFault StoredLinesHaveNoReference
CHECK_DEADLOCK FALSE
