------------------------ MODULE MC_LineEditor_cmds ------------------------
(* command scripts: whole lines entered atomically, history browsing, history of 2 *)
EXTENDS MC_LineEditor
S(s) == s
C_px == <<112, 32, 120>>                      \* p x
C_py == <<112, 32, 121>>                      \* p y
C_q == <<113>>                                \* q       (unknown command)
C_b0 == <<33, 48>>                            \* !0
C_b1 == <<33, 49>>                            \* !1
C_bm1 == <<33, 45, 49>>                       \* !-1
C_bm2 == <<33, 45, 50>>                       \* !-2
C_bb == <<33, 33>>                            \* !!
C_b9 == <<33, 57>>                            \* !9
C_bm9 == <<33, 45, 57>>                       \* !-9
C_bhuge == <<33, 57, 57, 57, 57, 57, 57, 57, 57, 57, 57, 57, 57>>          \* !999999999999
C_bmhuge == <<33, 45, 57, 57, 57, 57, 57, 57, 57, 57, 57, 57, 57, 57>>     \* !-999999999999
C_pxpy == <<112, 32, 120, 59, 112, 32, 121>>  \* p x;p y
C_b0py == <<33, 48, 59, 112, 32, 121>>        \* !0;p y
C_pxsemi == <<112, 32, 120, 59>>              \* p x;
C_pxhist == <<112, 32, 120, 59>> \o S_history \* p x;history
C_exit2 == S_exit \o <<59>> \o S_exit         \* exit;exit
CmdSet == {C_px, C_py, C_q, S_history, C_b0, C_b1, C_bm1, C_bm2, C_bb, C_b9, C_bm9, C_bhuge, C_bmhuge, C_pxpy, C_b0py,
           C_pxsemi, C_pxhist, S_exit, C_exit2}
CovCmdSet == {C_px, C_bb}

=============================================================================
