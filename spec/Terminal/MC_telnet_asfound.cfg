CONSTANTS
  AsFoundTelnet = {"naws_short_read"}
  MaxTok = 2
  MaxSegs = 3
SPECIFICATION Spec
INVARIANTS NoReadBeyondData
CHECK_DEADLOCK FALSE
