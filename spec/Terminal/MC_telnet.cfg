CONSTANTS
  AsFoundTelnet = {}
  MaxTok = 2
  MaxSegs = 3
SPECIFICATION Spec
INVARIANTS SegmentationIndependent WaitsForCompleteCommand NoReadBeyondData
CHECK_DEADLOCK FALSE
