------------------------------ MODULE Session ------------------------------
(* C13 - lifetime of terminal sessions.  A session context lives in an object pool and is addressed by a  *)
(* token (cabinet).  `exit` does not tear the session down at once: it queues a closure on the loop that   *)
(* runs in a later pass (terminal_commands.cpp, executeExitCmd); the front end does the same for the       *)
(* connection (telnetd.cpp endSession).  Meanwhile more input of the same segment is processed, a second   *)
(* exit may queue a second closure, and the peer may close the connection, which deletes the session       *)
(* immediately (onTcpDisconnected).                                                                        *)
(* CaptureToken = TRUE : the closure remembers the token and looks the session up again when it runs       *)
(*                       (intended, and the code after the fix);                                           *)
(* CaptureToken = FALSE: the closure remembers the pooled SessionContext pointer (the code as found).      *)
(* NoUseOfFreed: no closure ever dereferences a context that has been returned to the pool.                *)
EXTENDS Integers, Sequences, FiniteSets, TLC
CONSTANTS Conns, MaxExits, CaptureToken
VARIABLES state,     \* state[c] \in {"none", "open", "closed"}: connection / session of client c
          ctx,       \* ctx[c]   \in {"none", "live", "freed"}: the pooled context of c's session
          queue,     \* deferred closures of the loop, FIFO: [kind, c]
          exits,     \* number of exit commands executed so far (bound)
          used       \* ghost: a closure dereferenced a freed context
vars == <<state, ctx, queue, exits, used>>
Init == /\ state = [c \in Conns |-> "none"] /\ ctx = [c \in Conns |-> "none"] /\ queue = <<>> /\ exits = 0 /\ used = FALSE
Connect(c) == /\ state[c] = "none" /\ state' = [state EXCEPT ![c] = "open"] /\ ctx' = [ctx EXCEPT ![c] = "live"]
              /\ UNCHANGED <<queue, exits, used>>
\* input containing `exit` is executed: only possible while the terminal still knows the session
ExitCmd(c) == /\ state[c] = "open" /\ ctx[c] = "live" /\ exits < MaxExits
              /\ queue' = Append(queue, [kind |-> "exit", c |-> c]) /\ exits' = exits + 1
              /\ UNCHANGED <<state, ctx, used>>
\* the peer closes: the front end deletes the session at once
PeerClose(c) == /\ state[c] = "open" /\ state' = [state EXCEPT ![c] = "closed"]
                /\ ctx' = [ctx EXCEPT ![c] = IF @ = "live" THEN "freed" ELSE @]
                /\ UNCHANGED <<queue, exits, used>>
\* the loop runs the oldest deferred closure
RunClosure == /\ queue # <<>>
              /\ LET t == Head(queue) IN
                 IF t.kind = "exit" THEN
                    IF ctx[t.c] = "live" THEN     \* endSession on the connection (queues the disconnect), then deleteSession
                       /\ ctx' = [ctx EXCEPT ![t.c] = "freed"]
                       /\ queue' = Append(Tail(queue), [kind |-> "disconnect", c |-> t.c])
                       /\ UNCHANGED <<state, used>>
                    ELSE                          \* the session is gone already
                       /\ used' = (used \/ ~CaptureToken)       \* as found: s->wp_conn of a freed context
                       /\ queue' = Tail(queue) /\ UNCHANGED <<state, ctx>>
                 ELSE /\ state' = [state EXCEPT ![t.c] = IF @ = "open" THEN "closed" ELSE @]
                      /\ queue' = Tail(queue) /\ UNCHANGED <<ctx, used>>
              /\ UNCHANGED exits
Next == (\E c \in Conns : Connect(c) \/ ExitCmd(c) \/ PeerClose(c)) \/ RunClosure
Spec == Init /\ [][Next]_vars /\ WF_vars(RunClosure)
NoUseOfFreed == ~used
TypeOK == /\ state \in [Conns -> {"none", "open", "closed"}] /\ ctx \in [Conns -> {"none", "live", "freed"}]
EveryExitEndsTheSession == \A c \in Conns : [](ctx[c] = "live" /\ (\E i \in 1..Len(queue) : queue[i] = [kind |-> "exit", c |-> c]) => <>(ctx[c] = "freed"))
=============================================================================
