CONSTANTS
  HistMax = 20
  Probe <- ProbeP
  AsFound = {}
  GChars = {}
  GKeys = {7, 8, 10}
  GCmds <- AllCmds
  Prefixes <- CmdPrefixes
  Depth = 3
SPECIFICATION GSpec
CONSTRAINT Emit
CHECK_DEADLOCK FALSE
