---------------------------- MODULE Trace_Telnet ----------------------------
(* Trace validation for C13 (telnet framing).  One line per connection to the REAL Telnetd service, which *)
(* is bound to a recording TerminalInteract: `bytes` = everything the client sent (in the segmentation    *)
(* `lens`, each segment consumed by the server before the next was sent), `text` = concatenation of what   *)
(* the service handed to onRecvString, `wins` = window sizes reported, `echo` = echo option set.           *)
(* For streams of the well-formed language (whole or truncated commands, no IAC IAC, sub-negotiations with *)
(* at least one data byte and terminated by IAC SE) these must equal the one-shot decoding of the stream,  *)
(* whatever the segmentation; window sizes are compared when every window-size sub-negotiation carries     *)
(* exactly four bytes.  For anything else only "no Fault" is demanded.                                     *)
EXTENDS TelnetFraming, Json, IOUtils
Log == ndJsonDeserialize(IOEnv.TRACE)
VARIABLE l
ASSUME TLCSet(42, 0)
Ev == Log[l]
IsEv(e) == l <= Len(Log) /\ Log[l].e = e /\ l' = l + 1
TInit == l = 1
TReset == IsEv("Reset")
TTel == /\ IsEv("Tel")
        /\ LET d == Decode(Ev.bytes) IN
           ~d.o.mal => /\ Ev.text = d.o.text
                       /\ Ev.echo = d.o.echo
                       /\ ~d.o.nawsbad => Ev.wins = d.o.wins
TNext == TReset \/ TTel
TSpec == TInit /\ [][TNext]_l
Progress == TLCSet(42, IF l > TLCGet(42) THEN l ELSE TLCGet(42))
Accepted == IF TLCGet(42) = Len(Log) + 1 THEN TRUE ELSE PrintT(<<"MAXPOS", TLCGet(42), Len(Log)>>) /\ FALSE
=============================================================================
