------------------------- MODULE MC_LineEditor_cov -------------------------
(* Vacuity guard for the editor model without TLC's -coverage (which costs ~20 s of start-up on this      *)
(* module): `seen` collects the names of the actions taken; the configuration EXPECTS the invariant        *)
(* NotAllSeen to be violated, i.e. there is a behaviour of the bounded model that takes every action.      *)
EXTENDS MC_LineEditor_cmds
VARIABLE seen
cvars == <<vars, seen>>
Mark(a) == seen' = seen \cup {a}
CInit == Init /\ seen = {}
CNext ==
  \/ (Char /\ Mark("Char"))
  \/ (Backspace /\ Mark("Backspace"))
  \/ (Delete /\ Mark("Delete"))
  \/ (Left /\ Mark("Left"))
  \/ (Right /\ Mark("Right"))
  \/ (Home /\ Mark("Home"))
  \/ (End /\ Mark("End"))
  \/ (Up /\ Mark("Up"))
  \/ (Down /\ Mark("Down"))
  \/ (Enter /\ Mark("Enter"))
  \/ (CmdLine /\ Mark("CmdLine"))
CSpec == CInit /\ [][CNext]_cvars
AllActions == {"Char", "Backspace", "Delete", "Left", "Right", "Home", "End", "Up", "Down", "Enter", "CmdLine"}
NotAllSeen == seen # AllActions
=============================================================================
