CONSTANTS
  Conns = {1, 2}
  MaxExits = 3
  CaptureToken = TRUE
SPECIFICATION Spec
INVARIANTS TypeOK NoUseOfFreed
PROPERTY EveryExitEndsTheSession
CHECK_DEADLOCK FALSE
