CONSTANTS
  HistMax = 2
  Probe <- ProbeP
  AsFound = {}
  Chars = {}
  Cmds <- CmdSet
  Edit = FALSE
  MaxLen = 20
  MaxEnters = 4
SPECIFICATION Spec
CONSTRAINT Bound
INVARIANTS CursorWithinLine ExecutedLineIsEditorsLine OnePromptPerEnter HistoryLast20InOrder BangAddressesExactEntry BangOutOfRangeIsError NoFault StoredLinesHaveNoReference
CHECK_DEADLOCK FALSE
