--------------------------- MODULE Gen_LineEditor ---------------------------
(* Key-script generator for C13: every key sequence of the bounded reference editor up to Depth (BFS) *)
(* or random deep ones (-simulate) is printed as JSON; the driver types each script into a real       *)
(* Terminal session and the recorded trace is validated by Trace_LineEditor.                          *)
(* A script starts with one of the Prefixes (typed text / stored history) so that small depths already*)
(* edit in the middle of a line and browse a non-empty history.  Whole command lines (GCmds: history, *)
(* history references with any integer, exit, ...) are typed atomically on an empty line.             *)
EXTENDS LineEditor, Json
CONSTANTS GChars, GKeys, GCmds, Prefixes, Depth
VARIABLES st, keys, n
gvars == <<st, keys, n>>
ProbeP == <<112>>
C_px == <<112, 32, 120>>                      \* p x
C_py == <<112, 32, 121>>                      \* p y
C_pz == <<112, 32, 122>>                      \* p z
C_q == <<113>>                                \* q       (unknown command)
C_b0 == <<33, 48>>                            \* !0
C_b1 == <<33, 49>>                            \* !1
C_b2 == <<33, 50>>                            \* !2
C_bm1 == <<33, 45, 49>>                       \* !-1
C_bm2 == <<33, 45, 50>>                       \* !-2
C_bm3 == <<33, 45, 51>>                       \* !-3
C_bb == <<33, 33>>                            \* !!
C_b9 == <<33, 57>>                            \* !9
C_bm9 == <<33, 45, 57>>                       \* !-9
C_bhuge == <<33, 57, 57, 57, 57, 57, 57, 57, 57, 57, 57, 57, 57>>          \* !999999999999
C_bmhuge == <<33, 45, 57, 57, 57, 57, 57, 57, 57, 57, 57, 57, 57, 57>>     \* !-999999999999
C_bintmin == <<33, 45, 50, 49, 52, 55, 52, 56, 51, 54, 52, 56>>            \* !-2147483648
C_pxpy == <<112, 32, 120, 59, 112, 32, 121>>  \* p x;p y
C_b0py == <<33, 48, 59, 112, 32, 121>>        \* !0;p y
C_pxsemi == <<112, 32, 120, 59>>              \* p x;
C_pxhist == <<112, 32, 120, 59>> \o S_history \* p x;history
C_exit2 == S_exit \o <<59>> \o S_exit         \* exit;exit
AllCmds == {C_px, C_py, C_q, S_history, C_b0, C_b1, C_bm1, C_bm2, C_bb, C_b9, C_bm9, C_bhuge, C_bmhuge, C_bintmin, C_pxpy,
            C_b0py, C_pxsemi, C_pxhist, S_exit, S_quit, C_exit2}
NoCmds == {}
P_empty == <<>>
P_text == <<112, 32, 120, 121>>                               \* "p xy" typed, cursor at the end
P_hist == C_px \o <<10>> \o C_py \o <<12>>                     \* two stored lines
P_hist_text == C_px \o <<11>> \o <<112, 121>>                  \* one stored line and "py" typed
EditPrefixes == {P_empty, P_text, P_hist, P_hist_text}
CmdPrefixes == {P_empty, C_px \o <<10>>, C_px \o <<10>> \o C_py \o <<10>> \o C_pz \o <<10>>}

GInit == \E p \in Prefixes : st = RunKeys(State0, p, 1, Out0).st /\ keys = p /\ n = 0
GNext ==
  \/ \E k \in GKeys \cup GChars : st' = Step(st, k) /\ keys' = Append(keys, k) /\ n' = n + 1
  \/ \E c \in GCmds : st.line = <<>> /\ st' = Step(RunKeys(st, c, 1, Out0).st, 10) /\ keys' = keys \o c \o <<10>> /\ n' = n + 1
GSpec == GInit /\ [][GNext]_gvars
Emit == IF n >= Depth THEN PrintT("BEH " \o ToJson(keys)) /\ FALSE ELSE TRUE
=============================================================================
