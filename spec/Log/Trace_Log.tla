------------------------------ MODULE Trace_Log ------------------------------
EXTENDS LogData, Json, IOUtils
Log == ndJsonDeserialize(IOEnv.TRACE)
VARIABLES l
ASSUME TLCSet(42, 0)
tvars == <<dvars, l>>
Ev == Log[l]
IsEv(e) == l <= Len(Log) /\ Log[l].e = e /\ l' = l + 1
Skip(e) == IsEv(e) /\ UNCHANGED dvars
TInit == DInit /\ l = 1
TNext ==
  \/ IsEv("Reset") /\ cfg' = [s \in Sinks |-> [en |-> FALSE, def |-> 0, mods |-> <<>>]] /\ maxLen' = 0
                   /\ closing' = [s \in Sinks |-> FALSE] /\ inflight' = [t \in Threads |-> FALSE]
                   /\ calls' = [t \in Threads |-> <<>>] /\ nextIx' = [s \in Sinks |-> [t \in Threads |-> 1]] /\ lastFile' = [s \in Sinks |-> 0]
  \/ IsEv("config") /\ DConfig(Ev.max, Ev.sinks)
  \/ IsEv("enabled") /\ DEnable(Ev.s)
  \/ IsEv("call") /\ DCall(Ev.th, Ev.seq, Ev.lvl, Ev.mod, Ev.func, Ev.file, Ev.line, Ev.len, Ev.t0)
  \/ IsEv("ret") /\ DRet(Ev.th, Ev.t1)
  \/ IsEv("front") /\ Ev.th \in Threads /\ DFront(Ev.s, Ev.th)
  \/ IsEv("disable_begin") /\ DDisableBegin(Ev.s)
  \/ IsEv("got") /\ Ev.th \in Threads /\ Ev.s \in Sinks /\ DGot(Ev.s, Ev.th, Ev.lvl, Ev.lvlc, Ev.mod, Ev.func, Ev.file, Ev.line, Ev.len, Ev.trunc, Ev.head, Ev.pad, Ev.ts_ok, Ev.fi, Ev.ts)
  \/ IsEv("disabled") /\ DDisabled(Ev.s)
  \/ Skip("end")
TSpec == TInit /\ [][TNext]_tvars
Progress == TLCSet(42, IF l > TLCGet(42) THEN l ELSE TLCGet(42))
Accepted == IF TLCGet(42) = Len(Log) + 1 THEN TRUE ELSE PrintT(<<"MAXPOS", TLCGet(42), Len(Log)>>) /\ FALSE
=============================================================================
