------------------------------ MODULE LogData ------------------------------
(* C09 - what a log sink must contain, given the log calls that were made: the specification used to     *)
(* validate recorded executions (Trace_Log.tla).  Every call is remembered per thread together with the  *)
(* set of sinks it passes (enabled at call time, level within the per-module or default threshold);      *)
(* every record that appears in a sink must be the next not-yet-delivered passing call of its thread,    *)
(* with every field intact and the text cut to exactly the configured maximum.                            *)
EXTENDS Integers, Sequences, FiniteSets, TLC
CONSTANTS Sinks, Threads

VARIABLES cfg,      \* cfg[s] = [en |-> BOOLEAN, def |-> level, mods |-> sequence of [m, l]]
          maxLen,   \* LogSetMaxLength
          calls,    \* calls[th]: sequence of call records (ghost)
          nextIx,   \* nextIx[s][th]: index of the first call of th not yet considered for sink s
          lastFile  \* lastFile[s]: file index of the last record read back (file sink)
dvars == <<cfg, maxLen, calls, nextIx, lastFile>>

DInit == /\ cfg = [s \in Sinks |-> [en |-> FALSE, def |-> 0, mods |-> <<>>]] /\ maxLen = 0
         /\ calls = [t \in Threads |-> <<>>] /\ nextIx = [s \in Sinks |-> [t \in Threads |-> 1]] /\ lastFile = [s \in Sinks |-> 0]

Min(a, b) == IF a < b THEN a ELSE b
\* per-module threshold if there is one, else the default threshold
Threshold(c, m) == LET hit == SelectSeq(c.mods, LAMBDA x : x.m = m) IN IF hit # <<>> THEN hit[1].l ELSE c.def
Passes(s, lvl, m) == cfg[s].en /\ lvl <= Threshold(cfg[s], m)
ClampLevel(l) == IF l < 0 THEN 0 ELSE IF l > 7 THEN 7 ELSE l

\* the text of call (th, seq) with requested length n: "T" th(2 digits) "#" seq(4 digits) ":" then 'x' padding
Digit(v, p) == 48 + ((v \div p) % 10)
Tag(th, seq) == <<84, Digit(th, 10), Digit(th, 1), 35, Digit(seq, 1000), Digit(seq, 100), Digit(seq, 10), Digit(seq, 1), 58>>
ExpectedHead(th, seq, n) == [i \in 1..Min(n, 12) |-> IF i <= 9 THEN Tag(th, seq)[i] ELSE 120]

DConfig(mx, sinks) ==      \* quiescent point: thresholds and the maximum length change only here
  /\ maxLen' = mx /\ cfg' = [s \in Sinks |-> [en |-> cfg[s].en, def |-> sinks[s].def, mods |-> sinks[s].mods]]
  /\ UNCHANGED <<calls, nextIx, lastFile>>
DEnable(s) == /\ ~cfg[s].en /\ cfg' = [cfg EXCEPT ![s].en = TRUE]
              /\ nextIx' = [nextIx EXCEPT ![s] = [t \in Threads |-> Len(calls[t]) + 1]] /\ UNCHANGED <<maxLen, calls, lastFile>>
DCall(th, seq, lvl, m, fn, file, line, len) ==
  /\ seq = Len(calls[th]) + 1
  /\ calls' = [calls EXCEPT ![th] = Append(@, [lvl |-> ClampLevel(lvl), m |-> m, fn |-> fn, file |-> file, line |-> line, len |-> len,
                                                  max |-> maxLen, pass |-> {s \in Sinks : Passes(s, ClampLevel(lvl), m)}])]
  /\ UNCHANGED <<cfg, maxLen, nextIx, lastFile>>
\* index of the next call of th that passes sink s (0 if none)
NextPassing(s, th) == LET I == {i \in nextIx[s][th]..Len(calls[th]) : s \in calls[th][i].pass} IN
                      IF I = {} THEN 0 ELSE CHOOSE i \in I : \A j \in I : i <= j
LevelCode(l) == <<70, 69, 87, 78, 73, 73, 68, 84>>[l + 1]     \* F E W N I I D T
DGot(s, th, lvl, lvlc, m, fn, file, line, len, trunc, head, padOk, tsOk, fi) ==
  LET i == NextPassing(s, th) IN
  /\ i # 0
  /\ LET c == calls[th][i] IN
       /\ lvlc = LevelCode(c.lvl) /\ (lvl = -1 \/ lvl = c.lvl) /\ m = c.m /\ fn = c.fn /\ file = c.file /\ line = c.line          \* every field intact
       /\ len = Min(c.len, c.max) /\ trunc = (c.len > c.max)                              \* cut to exactly the maximum, marked
       /\ head = ExpectedHead(th, i, len) /\ padOk /\ tsOk
  /\ fi >= lastFile[s] /\ lastFile' = [lastFile EXCEPT ![s] = fi]
  /\ nextIx' = [nextIx EXCEPT ![s][th] = i + 1]
  /\ UNCHANGED <<cfg, maxLen, calls>>
DDisabled(s) ==            \* disable() has returned: every passing call made so far is in the sink
  /\ cfg[s].en /\ \A th \in Threads : NextPassing(s, th) = 0
  /\ cfg' = [cfg EXCEPT ![s].en = FALSE] /\ UNCHANGED <<maxLen, calls, nextIx, lastFile>>
=============================================================================
