------------------------------ MODULE LogData ------------------------------
(* C09 - what a log sink must contain, given the log calls that were made: the specification used to     *)
(* validate recorded executions (Trace_Log.tla).  Every call is remembered per thread together with the  *)
(* set of sinks it passes (enabled at call time, level within the per-module or default threshold);      *)
(* every record that appears in a sink must be the next not-yet-delivered passing call of its thread,    *)
(* with every field intact and the text cut to exactly the configured maximum.                            *)
(* A sink may be disabled while log calls are in flight: the linearization point of a call with respect  *)
(* to a sink is its dispatch to that sink under the library's global lock ("front" event, recorded by a  *)
(* subclass hook of every sink).  A call that began and returned while the sink was enabled must be      *)
(* dispatched to it; a call that overlaps disable() may or may not be; every dispatched call must be in  *)
(* the sink when disable() returns, and nothing that was not dispatched ever is.                          *)
EXTENDS Integers, Sequences, FiniteSets, TLC
CONSTANTS Sinks, Threads

VARIABLES cfg,      \* cfg[s] = [en |-> BOOLEAN, def |-> level, mods |-> sequence of [m, l]]
          closing,  \* closing[s]: disable() of s has been called and has not returned yet
          inflight, \* inflight[th]: the last call of th has not returned yet
          maxLen,   \* LogSetMaxLength
          calls,    \* calls[th]: sequence of call records (ghost)
          nextIx,   \* nextIx[s][th]: index of the first call of th not yet considered for sink s
          lastFile  \* lastFile[s]: file index of the last record read back (file sink)
dvars == <<cfg, closing, inflight, maxLen, calls, nextIx, lastFile>>

DInit == /\ cfg = [s \in Sinks |-> [en |-> FALSE, def |-> 0, mods |-> <<>>]] /\ maxLen = 0
         /\ closing = [s \in Sinks |-> FALSE] /\ inflight = [t \in Threads |-> FALSE]
         /\ calls = [t \in Threads |-> <<>>] /\ nextIx = [s \in Sinks |-> [t \in Threads |-> 1]] /\ lastFile = [s \in Sinks |-> 0]

Min(a, b) == IF a < b THEN a ELSE b
\* per-module threshold if there is one, else the default threshold
Threshold(c, m) == LET hit == SelectSeq(c.mods, LAMBDA x : x.m = m) IN IF hit # <<>> THEN hit[1].l ELSE c.def
Passes(s, lvl, m) == cfg[s].en /\ lvl <= Threshold(cfg[s], m)
ClampLevel(l) == IF l < 0 THEN 0 ELSE IF l > 7 THEN 7 ELSE l

\* the text of call (th, seq) with requested length n: "T" th(2 digits) "#" seq(4 digits) ":" then 'x' padding
Digit(v, p) == 48 + ((v \div p) % 10)
Tag(th, seq) == <<84, Digit(th, 10), Digit(th, 1), 35, Digit(seq, 1000), Digit(seq, 100), Digit(seq, 10), Digit(seq, 1), 58>>
ExpectedHead(th, seq, n) == [i \in 1..Min(n, 12) |-> IF i <= 9 THEN Tag(th, seq)[i] ELSE 120]

DConfig(mx, sinks) ==      \* quiescent point: thresholds and the maximum length change only here
  /\ maxLen' = mx /\ cfg' = [s \in Sinks |-> [en |-> cfg[s].en, def |-> sinks[s].def, mods |-> sinks[s].mods]]
  /\ \A t \in Threads : ~inflight[t]
  /\ UNCHANGED <<closing, inflight, calls, nextIx, lastFile>>
DEnable(s) == /\ ~cfg[s].en /\ cfg' = [cfg EXCEPT ![s].en = TRUE] /\ \A t \in Threads : ~inflight[t]
              /\ nextIx' = [nextIx EXCEPT ![s] = [t \in Threads |-> Len(calls[t]) + 1]] /\ UNCHANGED <<closing, inflight, maxLen, calls, lastFile>>
\* must: sinks the call has to reach; may: sinks it may reach (their disable() overlaps the call); front: sinks it was dispatched to
DCall(th, seq, lvl, m, fn, file, line, len, t0) ==    \* t0: clock (microseconds of this execution) read just before the call
  /\ seq = Len(calls[th]) + 1 /\ ~inflight[th] /\ inflight' = [inflight EXCEPT ![th] = TRUE]
  /\ LET P == {s \in Sinks : Passes(s, ClampLevel(lvl), m)} IN
     calls' = [calls EXCEPT ![th] = Append(@, [lvl |-> ClampLevel(lvl), m |-> m, fn |-> fn, file |-> file, line |-> line, len |-> len, max |-> maxLen,
                                                must |-> {s \in P : ~closing[s]}, may |-> {s \in P : closing[s]}, front |-> {},
                                                t0 |-> t0, t1 |-> -1, seen |-> {}])]
  /\ UNCHANGED <<cfg, closing, maxLen, nextIx, lastFile>>
\* the call is handed to sink s (Sink::handleLog passed the filter; under the global lock of the log front end)
DFront(s, th) ==
  /\ inflight[th]
  /\ LET i == Len(calls[th]) IN
       /\ s \in calls[th][i].must \cup calls[th][i].may /\ s \notin calls[th][i].front           \* only calls that pass, once
       /\ calls' = [calls EXCEPT ![th][i].front = @ \cup {s}]
  /\ UNCHANGED <<cfg, closing, inflight, maxLen, nextIx, lastFile>>
DRet(th, t1) ==           \* t1: clock read just after the call returned
  /\ inflight[th] /\ inflight' = [inflight EXCEPT ![th] = FALSE]
  /\ LET c == calls[th][Len(calls[th])] IN
       /\ c.must \subseteq c.front                                \* reached every sink it had to reach
       /\ \A x \in c.seen : x <= t1                              \* "time intact": the time a record shows lies within its call
  /\ calls' = [calls EXCEPT ![th][Len(calls[th])].t1 = t1]
  /\ UNCHANGED <<cfg, closing, maxLen, nextIx, lastFile>>
\* index of the next call of th that was dispatched to sink s and is not yet seen in it (0 if none)
NextPassing(s, th) == LET I == {i \in nextIx[s][th]..Len(calls[th]) : s \in calls[th][i].front} IN
                      IF I = {} THEN 0 ELSE CHOOSE i \in I : \A j \in I : i <= j
LevelCode(l) == <<70, 69, 87, 78, 73, 73, 68, 84>>[l + 1]     \* F E W N I I D T
DGot(s, th, lvl, lvlc, m, fn, file, line, len, trunc, head, padOk, tsOk, fi, ts) ==   \* ts: the time the record shows
  LET i == NextPassing(s, th) IN
  /\ i # 0
  /\ LET c == calls[th][i] IN
       /\ lvlc = LevelCode(c.lvl) /\ (lvl = -1 \/ lvl = c.lvl) /\ m = c.m /\ fn = c.fn /\ file = c.file /\ line = c.line          \* every field intact
       /\ len = Min(c.len, c.max) /\ trunc = (c.len > c.max)                              \* cut to exactly the maximum, marked
       /\ head = ExpectedHead(th, i, len) /\ padOk /\ tsOk
       /\ ts >= c.t0 /\ (c.t1 = -1 \/ ts <= c.t1)                 \* the time was sampled during the call
  /\ fi >= lastFile[s] /\ lastFile' = [lastFile EXCEPT ![s] = fi]
  /\ nextIx' = [nextIx EXCEPT ![s][th] = NextPassing(s, th) + 1]
  /\ calls' = [calls EXCEPT ![th][NextPassing(s, th)].seen = @ \cup {ts}]
  /\ UNCHANGED <<cfg, closing, inflight, maxLen>>
\* disable() is called: calls in flight that have not been dispatched to s yet may or may not reach it
DDisableBegin(s) ==
  /\ cfg[s].en /\ ~closing[s] /\ closing' = [closing EXCEPT ![s] = TRUE]
  /\ calls' = [t \in Threads |-> IF inflight[t] /\ s \in calls[t][Len(calls[t])].must \ calls[t][Len(calls[t])].front
                                  THEN [calls[t] EXCEPT ![Len(calls[t])].must = @ \ {s}, ![Len(calls[t])].may = @ \cup {s}]
                                  ELSE calls[t]]
  /\ UNCHANGED <<cfg, inflight, maxLen, nextIx, lastFile>>
DDisabled(s) ==            \* disable() has returned: every call dispatched to the sink is in it
  /\ cfg[s].en /\ closing[s] /\ \A th \in Threads : NextPassing(s, th) = 0
  /\ cfg' = [cfg EXCEPT ![s].en = FALSE] /\ closing' = [closing EXCEPT ![s] = FALSE]
  /\ UNCHANGED <<inflight, maxLen, calls, nextIx, lastFile>>
=============================================================================
