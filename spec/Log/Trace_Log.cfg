CONSTANTS
  Sinks = {1, 2, 3}
  Threads = {1, 2, 3, 4, 5}
SPECIFICATION TSpec
CONSTRAINT Progress
POSTCONDITION Accepted
CHECK_DEADLOCK FALSE
