-------------------------------- MODULE Log --------------------------------
(* C09 - design model of the logging path: threads format a record, take the global dispatch lock       *)
(* (log_impl.cpp Dispatch), hand it to every enabled sink whose filter passes; a synchronous sink stores   *)
(* it at once; an asynchronous sink appends header and text to its pipe as two separate appends           *)
(* (async_sink.cpp onLogFrontEnd), its back end re-frames the byte stream into records; the file sink       *)
(* writes each batch of whole records with one write and rolls over to a new file after a batch once the   *)
(* size limit is reached.  Switch NoDispatchLock models the mutant/defect "dispatch without the lock".     *)
EXTENDS Naturals, Sequences, FiniteSets, TLC
CONSTANTS Threads, Script,       \* Script[t]: sequence of [lvl, len] records thread t logs
          SyncLevel, AsyncLevel, FileLevel,   \* thresholds of the three sinks
          MaxLen,                \* LogSetMaxLength
          Stack,                 \* size of the formatter's first (stack) buffer, 2048 in the code
          FileMax,               \* file size limit (in text units: a record of length n counts n + 1)
          NoDispatchLock
VARIABLES pc, todo, cur, lock, pipeA, pipeF, gotS, gotA, gotF, files, fsize, quiesced
vars == <<pc, todo, cur, lock, pipeA, pipeF, gotS, gotA, gotF, files, fsize, quiesced>>

Min(a, b) == IF a < b THEN a ELSE b
(* ---- the truncation rule the statement asks for, and the two-pass formatter of LogPrintfFunc ---- *)
Trunc(len) == [len |-> Min(len, MaxLen), trunc |-> len > MaxLen]
\* vsnprintf into a buffer of `size` bytes returns the full length; the text fits iff len < size
RECURSIVE Fmt(_, _, _)
Fmt(len, size, truncated) ==
  LET l == IF truncated THEN MaxLen ELSE len IN
  IF l < size THEN [len |-> l, trunc |-> truncated]
  ELSE IF l <= MaxLen THEN Fmt(len, l + 1, truncated) ELSE Fmt(len, MaxLen + 1, TRUE)
ImplFormat(len) == Fmt(len, Min(Stack, MaxLen) + 1, FALSE)
FormatterExact == \A len \in 0..(MaxLen + Stack + 2) : ImplFormat(len) = Trunc(len)

Init == /\ pc = [t \in Threads |-> "idle"] /\ todo = Script /\ cur = [t \in Threads |-> [t |-> t, k |-> 0, lvl |-> 0, len |-> 0, trunc |-> FALSE]]
        /\ lock = 0 /\ pipeA = <<>> /\ pipeF = <<>> /\ gotS = <<>> /\ gotA = <<>> /\ gotF = <<>> /\ files = << <<>> >> /\ fsize = 0
        /\ quiesced = FALSE
Id(r) == <<r.t, r.k>>
Done(t) == Len(Script[t]) - Len(todo[t])
(* ---------------------------------------------- front end ---------------------------------------------- *)
Format(t) ==      \* LogPrintfFunc: build the record (formatting needs no lock)
  /\ pc[t] = "idle" /\ todo[t] # <<>>
  /\ LET c == Head(todo[t])  f == ImplFormat(c.len) IN
       cur' = [cur EXCEPT ![t] = [t |-> t, k |-> Done(t) + 1, lvl |-> c.lvl, len |-> f.len, trunc |-> f.trunc]]
  /\ todo' = [todo EXCEPT ![t] = Tail(@)] /\ pc' = [pc EXCEPT ![t] = "formatted"]
  /\ UNCHANGED <<lock, pipeA, pipeF, gotS, gotA, gotF, files, fsize, quiesced>>
Acquire(t) ==     \* Dispatch(): std::lock_guard on the global lock
  /\ pc[t] = "formatted" /\ (NoDispatchLock \/ lock = 0) /\ lock' = (IF NoDispatchLock THEN lock ELSE t)
  /\ pc' = [pc EXCEPT ![t] = "sync"] /\ UNCHANGED <<todo, cur, pipeA, pipeF, gotS, gotA, gotF, files, fsize, quiesced>>
ToSync(t) ==      \* sink 1: filter, store
  /\ pc[t] = "sync" /\ gotS' = (IF cur[t].lvl <= SyncLevel THEN Append(gotS, cur[t]) ELSE gotS)
  /\ pc' = [pc EXCEPT ![t] = "asyncH"] /\ UNCHANGED <<todo, cur, lock, pipeA, pipeF, gotA, gotF, files, fsize, quiesced>>
\* sink 2 (async): header append, then text append (only if the text is non-empty) - two separate pipe appends
ToAsyncH(t) ==
  /\ pc[t] = "asyncH"
  /\ IF cur[t].lvl <= AsyncLevel THEN pipeA' = Append(pipeA, [p |-> "H", r |-> cur[t]]) /\ pc' = [pc EXCEPT ![t] = IF cur[t].len > 0 THEN "asyncT" ELSE "fileH"]
     ELSE UNCHANGED pipeA /\ pc' = [pc EXCEPT ![t] = "fileH"]
  /\ UNCHANGED <<todo, cur, lock, pipeF, gotS, gotA, gotF, files, fsize, quiesced>>
ToAsyncT(t) ==
  /\ pc[t] = "asyncT" /\ pipeA' = Append(pipeA, [p |-> "T", r |-> cur[t]]) /\ pc' = [pc EXCEPT ![t] = "fileH"]
  /\ UNCHANGED <<todo, cur, lock, pipeF, gotS, gotA, gotF, files, fsize, quiesced>>
ToFileH(t) ==
  /\ pc[t] = "fileH"
  /\ IF cur[t].lvl <= FileLevel THEN pipeF' = Append(pipeF, [p |-> "H", r |-> cur[t]]) /\ pc' = [pc EXCEPT ![t] = IF cur[t].len > 0 THEN "fileT" ELSE "release"]
     ELSE UNCHANGED pipeF /\ pc' = [pc EXCEPT ![t] = "release"]
  /\ UNCHANGED <<todo, cur, lock, pipeA, gotS, gotA, gotF, files, fsize, quiesced>>
ToFileT(t) ==
  /\ pc[t] = "fileT" /\ pipeF' = Append(pipeF, [p |-> "T", r |-> cur[t]]) /\ pc' = [pc EXCEPT ![t] = "release"]
  /\ UNCHANGED <<todo, cur, lock, pipeA, gotS, gotA, gotF, files, fsize, quiesced>>
Release(t) ==
  /\ pc[t] = "release" /\ lock' = (IF lock = t THEN 0 ELSE lock) /\ pc' = [pc EXCEPT ![t] = "idle"]
  /\ UNCHANGED <<todo, cur, pipeA, pipeF, gotS, gotA, gotF, files, fsize, quiesced>>
(* ---------------------------------------------- back ends ---------------------------------------------- *)
\* re-framing (onLogBackEndReadPipe): a frame is a header followed by the text its header announces
FrameLen(p) == IF p = <<>> THEN 0 ELSE IF p[1].r.len = 0 THEN 1 ELSE IF Len(p) >= 2 THEN 2 ELSE 0
BackA ==          \* consume one complete frame
  /\ FrameLen(pipeA) > 0 /\ gotA' = Append(gotA, [hdr |-> pipeA[1], txt |-> IF FrameLen(pipeA) = 2 THEN pipeA[2] ELSE pipeA[1]])
  /\ pipeA' = SubSeq(pipeA, FrameLen(pipeA) + 1, Len(pipeA))
  /\ UNCHANGED <<pc, todo, cur, lock, pipeF, gotS, gotF, files, fsize, quiesced>>
\* the file sink processes every complete frame of a pipe block, then writes the batch with one write and
\* rolls over afterwards if the limit is reached
RECURSIVE Frames(_)
Frames(p) == IF FrameLen(p) = 0 THEN <<>> ELSE << [hdr |-> p[1], txt |-> IF FrameLen(p) = 2 THEN p[2] ELSE p[1]] >> \o Frames(SubSeq(p, FrameLen(p) + 1, Len(p)))
RECURSIVE Rest(_)
Rest(p) == IF FrameLen(p) = 0 THEN p ELSE Rest(SubSeq(p, FrameLen(p) + 1, Len(p)))
RECURSIVE Bytes(_)
Bytes(b) == IF b = <<>> THEN 0 ELSE b[1].hdr.r.len + 1 + Bytes(Tail(b))
BackF ==
  /\ FrameLen(pipeF) > 0
  /\ LET batch == Frames(pipeF) IN
       /\ gotF' = gotF \o batch /\ pipeF' = Rest(pipeF)
       /\ LET nf == [files EXCEPT ![Len(files)] = @ \o batch] IN
            IF fsize + Bytes(batch) >= FileMax THEN files' = Append(nf, <<>>) /\ fsize' = 0
            ELSE files' = nf /\ fsize' = fsize + Bytes(batch)
  /\ UNCHANGED <<pc, todo, cur, lock, pipeA, gotS, gotA, quiesced>>
Quiesce == /\ ~quiesced /\ \A t \in Threads : pc[t] = "idle" /\ todo[t] = <<>>
           /\ pipeA = <<>> /\ pipeF = <<>> /\ quiesced' = TRUE
           /\ UNCHANGED <<pc, todo, cur, lock, pipeA, pipeF, gotS, gotA, gotF, files, fsize>>

TStep(t) == Format(t) \/ Acquire(t) \/ ToSync(t) \/ ToAsyncH(t) \/ ToAsyncT(t) \/ ToFileH(t) \/ ToFileT(t) \/ Release(t)
Next == (\E t \in Threads : TStep(t)) \/ BackA \/ BackF \/ Quiesce
Spec == Init /\ [][Next]_vars
FairSpec == Spec /\ WF_vars(BackA) /\ WF_vars(BackF) /\ WF_vars(Quiesce) /\ \A t \in Threads : SF_vars(TStep(t))

(* ---------------------------------------------- properties ---------------------------------------------- *)
\* every delivered frame is a header with ITS OWN text (records are never interleaved or corrupted)
WholeFrames(g) == \A i \in 1..Len(g) : g[i].hdr.p = "H" /\ Id(g[i].txt.r) = Id(g[i].hdr.r) /\ (g[i].hdr.r.len > 0 => g[i].txt.p = "T")
FramesWhole == WholeFrames(gotA) /\ WholeFrames(gotF)
PerThreadOrder(ids) == \A i, j \in 1..Len(ids) : (i < j /\ ids[i][1] = ids[j][1]) => ids[i][2] < ids[j][2]
IdsS == [i \in 1..Len(gotS) |-> Id(gotS[i])]
IdsA == [i \in 1..Len(gotA) |-> Id(gotA[i].hdr.r)]
IdsF == [i \in 1..Len(gotF) |-> Id(gotF[i].hdr.r)]
OrderKept == PerThreadOrder(IdsS) /\ PerThreadOrder(IdsA) /\ PerThreadOrder(IdsF)
\* at quiescence every sink holds exactly the records whose level passes, each once, truncated exactly
Expected(level) == {<<t, k>> : t \in Threads, k \in 1..4} \cap {<<t, k>> \in Threads \X (1..4) : k <= Len(Script[t]) /\ Script[t][k].lvl <= level}
Range(s) == {s[i] : i \in 1..Len(s)}
ExactlyOnce == quiesced =>
   /\ Range(IdsS) = Expected(SyncLevel) /\ Len(gotS) = Cardinality(Expected(SyncLevel))
   /\ Range(IdsA) = Expected(AsyncLevel) /\ Len(gotA) = Cardinality(Expected(AsyncLevel))
   /\ Range(IdsF) = Expected(FileLevel) /\ Len(gotF) = Cardinality(Expected(FileLevel))
TruncExact == \A i \in 1..Len(gotS) : LET r == gotS[i] IN [len |-> r.len, trunc |-> r.trunc] = Trunc(Script[r.t][r.k].len)
\* rollover never splits or loses a record: the files in creation order concatenate to what was delivered
RECURSIVE Concat(_)
Concat(fs) == IF fs = <<>> THEN <<>> ELSE fs[1] \o Concat(Tail(fs))
RolloverKeepsRecordsWhole == Concat(files) = gotF
EventuallyQuiet == <>quiesced
=============================================================================
