CONSTANTS
  Threads = {1, 2, 3}
  Script <- S2
  SyncLevel = 2
  AsyncLevel = 3
  FileLevel = 1
  MaxLen = 6
  Stack = 4
  FileMax = 5
  NoDispatchLock = FALSE
SPECIFICATION Spec
INVARIANTS FramesWhole OrderKept ExactlyOnce TruncExact RolloverKeepsRecordsWhole FormatterExact
CHECK_DEADLOCK FALSE
