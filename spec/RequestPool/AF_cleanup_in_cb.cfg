\* as found: cleanup() inside the timeout action while the tick has more tokens to report -> the emptied callback is invoked
CONSTANTS
  Intervals = {1}
  Times = {1}
  MaxReq = 2
  MaxCtx = 2
  MaxNow = 2
  MaxAdv = 1
  CleanupInCbCrash = TRUE
SPECIFICATION Spec
INVARIANTS TypeOK LiveFate ExactlyOnce NoCallAfterCleanup
CHECK_DEADLOCK FALSE
