------------------------- MODULE Trace_RequestPool -------------------------
(* Trace validation for E02: every line of the recorded ndjson trace must be the corresponding action of          *)
(* RequestPool.tla with the logged answer, at the logged virtual time, and must lead to a state in which exactly    *)
(* the logged contexts are alive (held by the pool, or being shown to the running timeout action).  The monitor's  *)
(* ticks and the tokens it skips are not visible to a driver: Tick and Skip are silent steps between two lines.     *)
EXTENDS RequestPool, Json, IOUtils
TLog == ndJsonDeserialize(IOEnv.TRACE)
VARIABLE l
ASSUME TLCSet(42, 0)
tvars == <<vars, l>>

Ev == TLog[l]
IsEv(e) == l <= Len(TLog) /\ TLog[l].e = e /\ l' = l + 1
Alive(lv, c) == ({lv[r] : r \in DOMAIN lv} \ {0}) \cup (IF c # 0 THEN {c} ELSE {})
Post == /\ Ev.now = now'
        /\ (Ev.cb > 0) = (incb' # 0)
        /\ Range(Ev.alive) = Alive(live', incb')

TInit == Init /\ l = 1
TReset == /\ IsEv("Reset")
          /\ now' = 0 /\ inited' = FALSE /\ ival' = 1 /\ ntimes' = 1 /\ cbk' = "none" /\ ring' = <<>> /\ cur' = 1 /\ vnum' = 0
          /\ armed' = FALSE /\ deadline' = 0 /\ live' = NoMap /\ nreq' = 0 /\ nctx' = 0 /\ inpass' = FALSE /\ batch' = <<>>
          /\ incb' = 0 /\ crashed' = FALSE /\ req' = <<>> /\ lastend' = 0
TInitialize == IsEv("init") /\ Initialize(Ev.i, Ev.n) /\ Ev.ret = (Ev.n >= 1) /\ Post
TSetAction == IsEv("setaction") /\ SetAction(Ev.k) /\ Post
TNew == IsEv("new") /\ NewRequest(Ev.c # 0) /\ Ev.r = nreq' /\ Ev.c = (IF Ev.c # 0 THEN nctx' ELSE 0) /\ Ev.null = FALSE /\ Post
TUpdate == IsEv("update") /\ UpdateRequest(Ev.r) /\ Ev.ret = UpdateRet(Ev.r) /\ Ev.c = nctx' /\ Post
TRemove == IsEv("remove") /\ RemoveRequest(Ev.r) /\ Ev.ret = RemoveRet(Ev.r) /\ Post
TAdvance == IsEv("adv") /\ Advance(Ev.d) /\ Post
TPassBegin == IsEv("pass") /\ PassBegin /\ Post
TTimeout == IsEv("timeout") /\ (\E r \in DOMAIN live : live[r] = Ev.c /\ Timeout(r)) /\ Post
TCbEnd == IsEv("cbend") /\ CbEnd /\ Ev.now = now' /\ Ev.cb = 1 /\ Range(Ev.alive) = Alive(live', incb)    \* logged before the pool deletes the context
TPassEnd == IsEv("passend") /\ PassEnd /\ Post
TBegin == (IsEv("cleanup_begin") \/ IsEv("destroy_begin")) /\ UNCHANGED vars
TCleanup == (IsEv("cleanup") \/ IsEv("destroy")) /\ Cleanup /\ Post
TSilent == (Tick \/ Skip) /\ UNCHANGED l
TNext == \/ TReset \/ TInitialize \/ TSetAction \/ TNew \/ TUpdate \/ TRemove \/ TAdvance \/ TPassBegin \/ TTimeout \/ TCbEnd
         \/ TPassEnd \/ TBegin \/ TCleanup \/ TSilent
TSpec == TInit /\ [][TNext]_tvars

Progress == TLCSet(42, IF l > TLCGet(42) THEN l ELSE TLCGet(42))
Accepted == IF TLCGet(42) = Len(TLog) + 1 THEN TRUE ELSE PrintT(<<"MAXPOS", TLCGet(42), Len(TLog)>>) /\ FALSE
=============================================================================
