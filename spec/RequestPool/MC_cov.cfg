\* small model with per-action coverage (vacuity guard)
CONSTANTS
  Intervals = {1}
  Times = {0, 1}
  MaxReq = 2
  MaxCtx = 2
  MaxNow = 2
  MaxAdv = 1
  CleanupInCbCrash = FALSE
SPECIFICATION Spec
INVARIANTS TypeOK LiveFate ExactlyOnce NoLoss NoDup MonitorConsistent NotEarly NotLate NothingAfterCleanup NoCallAfterCleanup
CHECK_DEADLOCK FALSE
