\* interval 1 ms, ring of 3, 2 requests, 2 contexts, clock up to 5
CONSTANTS
  Intervals = {1}
  Times = {3}
  MaxReq = 2
  MaxCtx = 2
  MaxNow = 5
  MaxAdv = 2
  CleanupInCbCrash = FALSE
SPECIFICATION Spec
INVARIANTS TypeOK LiveFate ExactlyOnce NoLoss NoDup MonitorConsistent NotEarly NotLate NothingAfterCleanup NoCallAfterCleanup
CHECK_DEADLOCK FALSE
