----------------------------- MODULE RequestPool -----------------------------
(* E02 - tbox::eventx::RequestPool<T> together with the TimeoutMonitor it is built on, on an event loop      *)
(* with a (virtual) monotonic clock.                                                                          *)
(*                                                                                                            *)
(* Implementation-shaped: one action per public call (initialize, setTimeoutAction, newRequest,              *)
(* updateRequest, removeRequest, cleanup), per loop pass boundary (PassBegin / PassEnd), per tick of the      *)
(* monitor's persistent timer (Tick: the ring of check_times slots advances by one and the slot it reaches    *)
(* is taken) and per token the tick reports (Skip: the request is gone or has nothing to tell; Timeout: the   *)
(* user's action runs; CbEnd: it returns and the pool deletes the context).  The user may call newRequest /    *)
(* updateRequest / removeRequest / cleanup from inside the timeout action.                                    *)
(*                                                                                                            *)
(* The properties are ghost-state invariants at the end of the module: a request that is not removed gets     *)
(* its timeout action exactly once, a removed one never, none after cleanup; the action is not early (more    *)
(* than (check_times-1) intervals after newRequest) and not late (a completed pass at a time >= newRequest +  *)
(* check_times intervals has reported it); the monitor's timer is armed exactly while it holds tokens.         *)
EXTENDS Naturals, Sequences, FiniteSets, TLC

CONSTANTS Intervals,          \* check_interval values (ms, >= 1) offered to initialize()
          Times,              \* check_times values offered to initialize() (values < 1 are refused)
          MaxReq, MaxCtx,     \* bounds of the model: requests / contexts ever created
          MaxNow, MaxAdv,     \* bounds of the virtual clock
          CleanupInCbCrash    \* as-found switch: cleanup() inside the action leaves the rest of the tick's tokens to be
                              \* reported through the callback it has just emptied

VARIABLES now,                \* virtual monotonic clock
          inited, ival, ntimes,   \* monitor initialised; its interval and ring size
          cbk,                \* "none": no callback; "cb": setTimeoutAction(empty function); "action": a user action
          ring, cur,          \* the ring: ntimes sequences of request numbers; index of the current slot
          vnum,               \* tokens the monitor believes it holds
          armed, deadline,    \* the monitor's persistent loop timer
          live,               \* partial function request -> context number (0 = null context): the cabinet
          nreq, nctx,         \* requests / contexts created so far
          inpass, batch,      \* a loop pass is running; tokens of the current tick still to be reported
          incb,               \* context number whose timeout action is running (0 = none)
          crashed,            \* an emptied callback was invoked
          req,                \* ghost, per request: born, late (a tick was already overdue at birth), iv, nt, fate, fired, firedAt
          lastend             \* ghost: time of the last completed pass (0 initially)
vars == <<now, inited, ival, ntimes, cbk, ring, cur, vnum, armed, deadline, live, nreq, nctx, inpass, batch, incb, crashed, req, lastend>>

Range(s) == {s[i] : i \in 1..Len(s)}
InRing == UNION {Range(ring[i]) : i \in 1..Len(ring)}
RECURSIVE SumLen(_, _)
SumLen(rg, i) == IF i = 0 THEN 0 ELSE Len(rg[i]) + SumLen(rg, i - 1)
Without(f, r) == [x \in (DOMAIN f) \ {r} |-> f[x]]
With(f, r, v) == [x \in (DOMAIN f) \cup {r} |-> IF x = r THEN v ELSE f[x]]
NoMap == [x \in {} |-> 0]
UserCtx == ~inpass \/ incb # 0         \* where user code runs: between passes, or inside the timeout action
Fate(r, f) == [req EXCEPT ![r].fate = f]

Init == /\ now = 0 /\ inited = FALSE /\ ival = 1 /\ ntimes = 1 /\ cbk = "none" /\ ring = <<>> /\ cur = 1 /\ vnum = 0
        /\ armed = FALSE /\ deadline = 0 /\ live = NoMap /\ nreq = 0 /\ nctx = 0 /\ inpass = FALSE /\ batch = <<>>
        /\ incb = 0 /\ crashed = FALSE /\ req = <<>> /\ lastend = 0

(* ---------------------------------------------------------------------------------------------------- *)
(* public calls                                                                                           *)
\* initialize(interval, times): refused when times < 1; (re-)initialising an initialised pool is outside the contract
Initialize(i, n) ==
  /\ ~inpass
  /\ IF n >= 1 THEN ~inited ELSE TRUE
  /\ IF n < 1 THEN UNCHANGED <<inited, ival, ntimes, ring, cur>>
     ELSE inited' = TRUE /\ ival' = i /\ ntimes' = n /\ ring' = [k \in 1..n |-> <<>>] /\ cur' = 1
  /\ UNCHANGED <<now, cbk, vnum, armed, deadline, live, nreq, nctx, inpass, batch, incb, crashed, req, lastend>>

SetAction(k) ==
  /\ ~inpass /\ k \in {"cb", "action"}
  /\ cbk' = k
  /\ UNCHANGED <<now, inited, ival, ntimes, ring, cur, vnum, armed, deadline, live, nreq, nctx, inpass, batch, incb, crashed, req, lastend>>

\* newRequest(ctx) / newRequest(): the token goes into the current slot; the first token arms the timer
NewRequest(withctx) ==
  /\ UserCtx /\ inited
  /\ nreq' = nreq + 1
  /\ nctx' = IF withctx THEN nctx + 1 ELSE nctx
  /\ live' = With(live, nreq + 1, IF withctx THEN nctx + 1 ELSE 0)
  /\ ring' = [ring EXCEPT ![cur] = Append(@, nreq + 1)]
  /\ vnum' = vnum + 1
  /\ IF vnum = 0 THEN armed' = TRUE /\ deadline' = now + ival ELSE UNCHANGED <<armed, deadline>>
  /\ req' = Append(req, [born |-> now, late |-> (armed /\ deadline <= now), iv |-> ival, nt |-> ntimes,
                         fate |-> "live", fired |-> 0, firedAt |-> 0, orphan |-> FALSE])
  /\ UNCHANGED <<now, inited, ival, ntimes, cbk, cur, inpass, batch, incb, crashed, lastend>>

\* updateRequest(token, new context): true iff the request is still in the pool; the old context is the caller's business
UpdateRequest(r) ==
  /\ UserCtx
  /\ nctx' = nctx + 1
  /\ live' = IF r \in DOMAIN live THEN With(live, r, nctx + 1) ELSE live
  /\ UNCHANGED <<now, inited, ival, ntimes, cbk, ring, cur, vnum, armed, deadline, nreq, inpass, batch, incb, crashed, req, lastend>>
UpdateRet(r) == r \in DOMAIN live

\* removeRequest(token): hands the context back (null when the request is gone - or had a null context) and forgets the request;
\* the monitor is not told: the token stays in the ring and is skipped when its tick comes
RemoveRequest(r) ==
  /\ UserCtx
  /\ live' = IF r \in DOMAIN live THEN Without(live, r) ELSE live
  /\ req' = IF r \in DOMAIN live THEN Fate(r, "removed") ELSE req
  /\ UNCHANGED <<now, inited, ival, ntimes, cbk, ring, cur, vnum, armed, deadline, nreq, nctx, inpass, batch, incb, crashed, lastend>>
RemoveRet(r) == IF r \in DOMAIN live THEN live[r] ELSE 0

\* cleanup() (also the destructor): timer off, ring and callback gone, every context still held is deleted
Cleanup ==
  /\ UserCtx
  /\ IF inited THEN inited' = FALSE /\ ring' = <<>> /\ cur' = 1 /\ vnum' = 0 /\ armed' = FALSE /\ cbk' = "none"
     ELSE UNCHANGED <<inited, ring, cur, vnum, armed, cbk>>
  /\ live' = NoMap
  /\ req' = [r \in 1..Len(req) |-> IF r \in DOMAIN live THEN [req[r] EXCEPT !.fate = "cleaned"] ELSE req[r]]
  /\ batch' = IF incb # 0 /\ ~CleanupInCbCrash THEN <<>> ELSE batch       \* nothing more is reported in this tick
  /\ UNCHANGED <<now, ival, ntimes, deadline, nreq, nctx, inpass, incb, crashed, lastend>>

(* ---------------------------------------------------------------------------------------------------- *)
(* the clock and the loop                                                                                 *)
Advance(d) ==
  /\ ~inpass /\ d >= 1
  /\ now' = now + d
  /\ UNCHANGED <<inited, ival, ntimes, cbk, ring, cur, vnum, armed, deadline, live, nreq, nctx, inpass, batch, incb, crashed, req, lastend>>

PassBegin ==
  /\ ~inpass
  /\ inpass' = TRUE
  /\ UNCHANGED <<now, inited, ival, ntimes, cbk, ring, cur, vnum, armed, deadline, live, nreq, nctx, batch, incb, crashed, req, lastend>>

TickDue == armed /\ deadline <= now
\* one expiry of the monitor's timer: re-armed one interval later (catching up one tick at a time when the loop is late),
\* the ring advances and the slot reached is taken; the timer is switched off when the monitor holds nothing any more
Tick ==
  /\ inpass /\ incb = 0 /\ batch = <<>> /\ TickDue
  /\ LET nx == (cur % ntimes) + 1
         taken == ring[nx] IN
     /\ cur' = nx
     /\ ring' = [ring EXCEPT ![nx] = <<>>]
     /\ vnum' = vnum - Len(taken)
     /\ armed' = (vnum - Len(taken) # 0)
     /\ deadline' = deadline + ival
     /\ batch' = IF cbk = "none" THEN <<>> ELSE taken                  \* no callback: the tokens are dropped unseen
     /\ req' = [r \in 1..Len(req) |-> IF cbk = "none" /\ r \in Range(taken) /\ r \in DOMAIN live
                                      THEN [req[r] EXCEPT !.orphan = TRUE] ELSE req[r]]
  /\ UNCHANGED <<now, inited, ival, ntimes, cbk, live, nreq, nctx, inpass, incb, crashed, lastend>>

\* the next token of the tick is reported, but there is nothing to tell the user: the request was removed, or it has a null
\* context, or no action was given (the pool forgets the request and deletes its context)
Skip ==
  /\ inpass /\ incb = 0 /\ batch # <<>> /\ cbk # "none"
  /\ LET r == Head(batch) IN
     /\ ~(r \in DOMAIN live /\ live[r] # 0 /\ cbk = "action")
     /\ batch' = Tail(batch)
     /\ live' = IF r \in DOMAIN live THEN Without(live, r) ELSE live
     /\ req' = IF r \in DOMAIN live THEN Fate(r, "silent") ELSE req
  /\ UNCHANGED <<now, inited, ival, ntimes, cbk, ring, cur, vnum, armed, deadline, nreq, nctx, inpass, incb, crashed, lastend>>

\* the timeout action of request r starts
Timeout(r) ==
  /\ inpass /\ incb = 0 /\ batch # <<>> /\ cbk = "action"
  /\ r = Head(batch) /\ r \in DOMAIN live /\ live[r] # 0
  /\ batch' = Tail(batch)
  /\ incb' = live[r]
  /\ live' = Without(live, r)
  /\ req' = [req EXCEPT ![r].fate = "timeout", ![r].fired = @ + 1, ![r].firedAt = now]
  /\ UNCHANGED <<now, inited, ival, ntimes, cbk, ring, cur, vnum, armed, deadline, nreq, nctx, inpass, crashed, lastend>>

\* ... and returns: the pool deletes the context
CbEnd ==
  /\ incb # 0
  /\ incb' = 0
  /\ UNCHANGED <<now, inited, ival, ntimes, cbk, ring, cur, vnum, armed, deadline, live, nreq, nctx, inpass, batch, crashed, req, lastend>>

\* as found only: the tick goes on reporting through the callback that cleanup() emptied
CallEmptied ==
  /\ inpass /\ incb = 0 /\ batch # <<>> /\ cbk = "none"
  /\ crashed' = TRUE /\ batch' = <<>>
  /\ UNCHANGED <<now, inited, ival, ntimes, cbk, ring, cur, vnum, armed, deadline, live, nreq, nctx, inpass, incb, req, lastend>>

PassEnd ==
  /\ inpass /\ incb = 0 /\ batch = <<>> /\ ~TickDue
  /\ inpass' = FALSE /\ lastend' = now
  /\ UNCHANGED <<now, inited, ival, ntimes, cbk, ring, cur, vnum, armed, deadline, live, nreq, nctx, batch, incb, crashed, req>>

NInitialize == \E i \in Intervals, n \in Times : Initialize(i, n)
NSetAction == \E k \in {"cb", "action"} : SetAction(k)
NNewRequest == \E w \in BOOLEAN : nreq < MaxReq /\ (w => nctx < MaxCtx) /\ NewRequest(w)
NUpdateRequest == \E r \in 1..(nreq + 1) : nctx < MaxCtx /\ UpdateRequest(r)
NRemoveRequest == \E r \in 1..(nreq + 1) : RemoveRequest(r)
NAdvance == \E d \in 1..MaxAdv : now + d <= MaxNow /\ Advance(d)
NTimeout == \E r \in 1..nreq : Timeout(r)
Next == \/ NInitialize \/ NSetAction \/ NNewRequest \/ NUpdateRequest \/ NRemoveRequest \/ Cleanup \/ NAdvance
        \/ PassBegin \/ Tick \/ Skip \/ NTimeout \/ CbEnd \/ CallEmptied \/ PassEnd
Spec == Init /\ [][Next]_vars

(* ---------------------------------------------------------------------------------------------------- *)
(* Invariants                                                                                             *)
TypeOK == /\ now \in Nat /\ inited \in BOOLEAN /\ cbk \in {"none", "cb", "action"} /\ vnum \in Nat /\ armed \in BOOLEAN
          /\ inpass \in BOOLEAN /\ incb \in Nat /\ crashed \in BOOLEAN /\ Len(req) = nreq
          /\ DOMAIN live \subseteq 1..nreq /\ (inited => Len(ring) = ntimes /\ cur \in 1..ntimes)
\* the cabinet and the ghost agree: a request is in the pool exactly while nothing has happened to it
LiveFate == \A r \in 1..nreq : (r \in DOMAIN live) = (req[r].fate = "live")
\* the timeout action runs at most once per request, and only for a request that was still in the pool (not removed, not
\* cleaned up, not already timed out)
ExactlyOnce == \A r \in 1..nreq : req[r].fired <= 1 /\ ((req[r].fired = 1) = (req[r].fate = "timeout"))
\* every request still in the pool is still watched: its token is in the ring or in the tick being reported - unless its tick
\* passed while the pool had no callback at all (then it stays until removed or cleaned up)
NoLoss == \A r \in DOMAIN live : r \in InRing \/ r \in Range(batch) \/ req[r].orphan
\* no token twice
NoDup == /\ \A i, j \in 1..Len(ring) : i # j => Range(ring[i]) \cap Range(ring[j]) = {}
         /\ \A i \in 1..Len(ring) : Cardinality(Range(ring[i])) = Len(ring[i]) /\ Range(ring[i]) \cap Range(batch) = {}
\* the monitor counts its tokens, and its timer is armed exactly while it holds some
MonitorConsistent == /\ vnum = SumLen(ring, Len(ring))
                     /\ armed = (vnum > 0)
                     /\ ~inited => ring = <<>> /\ live = NoMap
\* not early: more than (check_times - 1) intervals lie between newRequest and the timeout action
\* (unless a tick was already overdue when the request was made: the loop had been kept from running)
NotEarly == \A r \in 1..nreq : (req[r].fired > 0 /\ ~req[r].late) => req[r].firedAt - req[r].born > (req[r].nt - 1) * req[r].iv
\* not late: when a pass completes at a time >= newRequest + check_times intervals, the request's token has been reported
NotLate == ~inpass => \A r \in InRing : lastend < req[r].born + req[r].nt * req[r].iv
\* nothing after cleanup: no action runs and nothing is reported while the pool is cleaned up (and not initialised again)
NothingAfterCleanup == ~inited => batch = <<>> /\ ~armed /\ vnum = 0
NoCallAfterCleanup == ~crashed
=============================================================================
