\* interval 2 ms, ring of 2, 2 requests, 2 contexts, clock up to 6 in steps of up to 3 (late passes: up to 3 ticks to catch up)
CONSTANTS
  Intervals = {2}
  Times = {2}
  MaxReq = 2
  MaxCtx = 2
  MaxNow = 6
  MaxAdv = 3
  CleanupInCbCrash = FALSE
SPECIFICATION Spec
INVARIANTS TypeOK LiveFate ExactlyOnce NoLoss NoDup MonitorConsistent NotEarly NotLate NothingAfterCleanup NoCallAfterCleanup
CHECK_DEADLOCK FALSE
