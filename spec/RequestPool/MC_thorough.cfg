\* interval 2 ms, ring of 2 (and a refused initialize), 3 requests, 3 contexts, clock up to 6
CONSTANTS
  Intervals = {2}
  Times = {0, 2}
  MaxReq = 3
  MaxCtx = 3
  MaxNow = 6
  MaxAdv = 3
  CleanupInCbCrash = FALSE
SPECIFICATION Spec
INVARIANTS TypeOK LiveFate ExactlyOnce NoLoss NoDup MonitorConsistent NotEarly NotLate NothingAfterCleanup NoCallAfterCleanup
CHECK_DEADLOCK FALSE
