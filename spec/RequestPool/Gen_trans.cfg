\* every user operation from every reachable state of: interval 1, ring of 2 (or refused: 0), 2 requests, 2 contexts, clock <= 3
CONSTANTS
  Intervals = {1}
  Times = {0, 2}
  MaxReq = 2
  MaxCtx = 2
  MaxNow = 3
  MaxAdv = 2
  CleanupInCbCrash = FALSE
  Depth = 0
SPECIFICATION GSpec
VIEW View
ACTION_CONSTRAINT EmitT
CHECK_DEADLOCK FALSE
