CONSTANTS
  Intervals = {}
  Times = {}
  MaxReq = 1000000
  MaxCtx = 1000000
  MaxNow = 1000000000
  MaxAdv = 1000000
  CleanupInCbCrash = FALSE
SPECIFICATION TSpec
CONSTRAINT Progress
POSTCONDITION Accepted
INVARIANTS TypeOK LiveFate ExactlyOnce NoLoss NoDup MonitorConsistent NotEarly NotLate NothingAfterCleanup NoCallAfterCleanup
CHECK_DEADLOCK FALSE
