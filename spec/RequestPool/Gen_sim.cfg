CONSTANTS
  Intervals = {1, 2}
  Times = {0, 1, 2, 3}
  MaxReq = 6
  MaxCtx = 8
  MaxNow = 40
  MaxAdv = 4
  CleanupInCbCrash = FALSE
  Depth = 40
SPECIFICATION GSpec
CONSTRAINT EmitD
CHECK_DEADLOCK FALSE
