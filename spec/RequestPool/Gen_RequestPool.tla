-------------------------- MODULE Gen_RequestPool --------------------------
(* Script generator for E02.                                                                                      *)
(* BFS mode (Gen_trans.cfg): TRANSITION COVERAGE of a small model.  States are identified without the ghost        *)
(* variables and the history (VIEW); hist carries the first (shortest) sequence of user-visible operations that    *)
(* reached the state, and the ACTION_CONSTRAINT prints hist' for every transition that ends an execution step the  *)
(* driver can issue.  Simulation mode (Gen_sim.cfg): random deep behaviours, printed at the depth bound.            *)
(* An operation issued from inside a timeout action carries the ordinal of that action (cb > 0).                    *)
EXTENDS RequestPool, Json
CONSTANT Depth
VARIABLES hist, ncb
gvars == <<vars, hist, ncb>>
View == <<now, inited, ival, ntimes, cbk, ring, cur, vnum, armed, deadline, live, nreq, nctx, inpass, batch, incb, crashed>>
Where == IF incb # 0 THEN ncb ELSE 0
H(o, a, b) == hist' = Append(hist, [o |-> o, a |-> a, b |-> b, cb |-> Where]) /\ UNCHANGED ncb
Quiet == UNCHANGED <<hist, ncb>>
GInit == Init /\ hist = <<>> /\ ncb = 0
GInitialize == \E i \in Intervals, n \in Times : Initialize(i, n) /\ H("init", i, n)
GSetAction == \E k \in {"cb", "action"} : SetAction(k) /\ H("setaction", IF k = "action" THEN 1 ELSE 0, 0)
GNew == \E w \in BOOLEAN : nreq < MaxReq /\ (w => nctx < MaxCtx) /\ NewRequest(w) /\ H("new", IF w THEN 1 ELSE 0, 0)
GUpdate == \E r \in 1..(nreq + 1) : nctx < MaxCtx /\ UpdateRequest(r) /\ H("update", r, 0)
GRemove == \E r \in 1..(nreq + 1) : RemoveRequest(r) /\ H("remove", r, 0)
GCleanup == Cleanup /\ H("cleanup", 0, 0)
GAdvance == \E d \in 1..MaxAdv : now + d <= MaxNow /\ Advance(d) /\ H("adv", d, 0)
GPassBegin == PassBegin /\ H("pass", 0, 0)
GTick == Tick /\ Quiet
GSkip == Skip /\ Quiet
GTimeout == \E r \in 1..nreq : Timeout(r) /\ ncb' = ncb + 1 /\ UNCHANGED hist
GCbEnd == CbEnd /\ Quiet
GPassEnd == PassEnd /\ Quiet
GNext == \/ GInitialize \/ GSetAction \/ GNew \/ GUpdate \/ GRemove \/ GCleanup \/ GAdvance \/ GPassBegin
         \/ GTick \/ GSkip \/ GTimeout \/ GCbEnd \/ GPassEnd
GSpec == GInit /\ [][GNext]_gvars
\* BFS: print the script of every transition that adds a user operation
EmitT == IF hist' # hist THEN PrintT("BEH " \o ToJson(hist')) ELSE TRUE
\* simulation: print at the depth bound
EmitD == IF Len(hist) >= Depth THEN PrintT("BEH " \o ToJson(hist)) /\ FALSE ELSE TRUE
=============================================================================
