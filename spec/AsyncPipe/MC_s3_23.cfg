CONSTANTS
  P = 251
  Producers = {1, 2}
  Size = 2
  MinB = 2
  MaxB = 3
  Script <- S3
  AsFoundStop = FALSE
SPECIFICATION Spec
INVARIANTS CallbacksNeverOverlap Conservation BuffAccounting NoEmptyBlocks InOrder CleanupFlushedAtReturn LocksetDiscipline
CHECK_DEADLOCK FALSE
