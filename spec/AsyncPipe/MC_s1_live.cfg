CONSTANTS
  P = 251
  Producers = {1, 2}
  Size = 1
  MinB = 1
  MaxB = 1
  Script <- S1
  AsFoundStop = FALSE
SPECIFICATION FairSpec
INVARIANTS CallbacksNeverOverlap Conservation BuffAccounting NoEmptyBlocks InOrder CleanupFlushedAtReturn LocksetDiscipline
CHECK_DEADLOCK FALSE
PROPERTIES CleanupTerminates NoProducerStuck DeliveredEventually
