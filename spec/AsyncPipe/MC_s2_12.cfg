CONSTANTS
  P = 251
  Producers = {1, 2}
  Size = 2
  MinB = 1
  MaxB = 2
  Script <- S2
  AsFoundStop = FALSE
SPECIFICATION Spec
INVARIANTS CallbacksNeverOverlap Conservation BuffAccounting NoEmptyBlocks InOrder CleanupFlushedAtReturn LocksetDiscipline
CHECK_DEADLOCK FALSE
