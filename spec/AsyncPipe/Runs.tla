------------------------------- MODULE Runs -------------------------------
(* Byte strings as sequences of maximal runs.  The harnesses write the byte  *)
(* (p % P) at stream position p, so every byte string that occurs is a       *)
(* concatenation of runs [s, n] = bytes s, s+1, ... (mod P), n of them.      *)
(* A string is kept normalised: no empty run, adjacent runs merged when the  *)
(* second continues the first.  Loss, duplication and reordering of bytes    *)
(* all change the normal form (up to multiples of P, which the length law    *)
(* catches).                                                                 *)
EXTENDS Naturals, Sequences
CONSTANT P

Run(s, n) == IF n = 0 THEN <<>> ELSE << [s |-> s % P, n |-> n] >>

RECURSIVE RLen(_)
RLen(r) == IF r = <<>> THEN 0 ELSE r[1].n + RLen(Tail(r))

RCat(a, b) ==
  IF a = <<>> THEN b ELSE IF b = <<>> THEN a ELSE
  LET x == a[Len(a)]  y == b[1] IN
  IF (x.s + x.n) % P = y.s
  THEN SubSeq(a, 1, Len(a) - 1) \o << [s |-> x.s, n |-> x.n + y.n] >> \o Tail(b)
  ELSE a \o b

RECURSIVE RTake(_, _)
RTake(r, k) ==
  IF k = 0 \/ r = <<>> THEN <<>>
  ELSE IF r[1].n <= k THEN << r[1] >> \o RTake(Tail(r), k - r[1].n)
  ELSE << [s |-> r[1].s, n |-> k] >>

RECURSIVE RDrop(_, _)
RDrop(r, k) ==
  IF k = 0 \/ r = <<>> THEN r
  ELSE IF r[1].n <= k THEN RDrop(Tail(r), k - r[1].n)
  ELSE << [s |-> (r[1].s + k) % P, n |-> r[1].n - k] >> \o Tail(r)

(* runs of a sequence of byte values *)
RECURSIVE RunsOf(_)
RunsOf(v) == IF v = <<>> THEN <<>> ELSE RCat(Run(v[1], 1), RunsOf(Tail(v)))

Min(a, b) == IF a < b THEN a ELSE b
=============================================================================
