CONSTANTS
  P = 251
  Producers = {1, 2, 3}
  Size = 2
  MinB = 1
  MaxB = 3
  Script <- S4
  AsFoundStop = FALSE
SPECIFICATION FairSpec
INVARIANTS CallbacksNeverOverlap Conservation BuffAccounting NoEmptyBlocks InOrder CleanupFlushedAtReturn LocksetDiscipline
CHECK_DEADLOCK FALSE
PROPERTIES CleanupTerminates NoProducerStuck DeliveredEventually
