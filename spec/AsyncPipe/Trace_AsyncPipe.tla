-------------------------- MODULE Trace_AsyncPipe --------------------------
(* Trace validation for C10: events recorded at the hooks of the real AsyncPipe and in its sink callback, *)
(* in global sequence order, must be a behaviour of AsyncPipeData; all C10 invariants after every event.   *)
EXTENDS AsyncPipeData, Json, IOUtils
Log == ndJsonDeserialize(IOEnv.TRACE)
\* The unit of contiguity is what the USER appended with one call: append(data, n), or everything appended between appendLock() and
\* appendUnlock(). The driver records "ucall"(p, n) before and "uret"(p) after it; the pipe's own entry hook ("enter") may be passed
\* several times for one user call (pieces), but from the first piece to the last no other producer may enter, and the pieces add up.
VARIABLES l, incall, uleft, owner
ASSUME TLCSet(42, 0)
tvars == <<dvars, l, incall, uleft, owner>>
uvars == <<incall, uleft, owner>>
Ev == Log[l]
IsEv(e) == l <= Len(Log) /\ Log[l].e = e /\ l' = l + 1
Skip(e) == IsEv(e) /\ UNCHANGED dvars /\ UNCHANGED uvars
ResetData ==
  /\ cur' = NoCur /\ full' = <<>> /\ freeN' = MinB /\ buffNum' = MinB /\ stop' = FALSE /\ inHand' = 0 /\ handLo' = 0 /\ hold' = FALSE
  /\ inCb' = 0 /\ appender' = 0 /\ remain' = 0 /\ pend' = <<>> /\ off' = [p \in Producers |-> 0]
  /\ entered' = 0 /\ copied' = 0 /\ delivered' = 0 /\ doneBytes' = 0 /\ atCleanup' = 0 /\ cbSize' = 0
ResetU == incall' = {} /\ uleft' = [p \in Producers |-> 0] /\ owner' = 0
TInit == DInit /\ l = 1 /\ incall = {} /\ uleft = [p \in Producers |-> 0] /\ owner = 0
TNext ==
  \/ IsEv("Reset") /\ ResetData /\ ResetU
  \/ IsEv("begin") /\ Ev.size = Size /\ Ev.min = MinB /\ Ev.max = MaxB /\ ResetData /\ ResetU     \* initialize(): MinB free buffers
  \/ IsEv("ucall") /\ Ev.p \notin incall /\ incall' = incall \cup {Ev.p} /\ uleft' = [uleft EXCEPT ![Ev.p] = Ev.len] /\ UNCHANGED owner /\ UNCHANGED dvars
  \/ IsEv("uret") /\ Ev.p \in incall /\ uleft[Ev.p] = 0 /\ incall' = incall \ {Ev.p} /\ UNCHANGED <<uleft, owner>> /\ UNCHANGED dvars
  \/ IsEv("enter") /\ Ev.p \in incall /\ Ev.len <= uleft[Ev.p] /\ owner \in {0, Ev.p} /\ owner' = Ev.p
                   /\ uleft' = [uleft EXCEPT ![Ev.p] = @ - Ev.len] /\ UNCHANGED incall /\ DEnter(Ev.p, Ev.len)
  \/ IsEv("grow") /\ DGrow(Ev.num) /\ UNCHANGED uvars
  \/ IsEv("take_free") /\ DTakeFree(Ev.free) /\ UNCHANGED uvars
  \/ IsEv("chunk") /\ DChunk(Ev.w, Ev.cur) /\ UNCHANGED uvars
  \/ IsEv("push_full") /\ DPushFull(Ev.n, Ev.full) /\ UNCHANGED uvars
  \/ IsEv("exit") /\ DExit(Ev.p, Ev.len) /\ owner' = (IF uleft[Ev.p] = 0 THEN 0 ELSE owner) /\ UNCHANGED <<incall, uleft>>
  \/ IsEv("trylock") /\ DTryLock(Ev.cur) /\ UNCHANGED uvars
  \/ IsEv("pop") /\ DPop(Ev.n, Ev.rest) /\ UNCHANGED uvars
  \/ IsEv("cb_begin") /\ DCbBegin(Ev.n, Ev.runs) /\ UNCHANGED uvars
  \/ IsEv("cb_end") /\ DCbEnd /\ UNCHANGED uvars
  \/ IsEv("shrink") /\ DShrink(Ev.num) /\ UNCHANGED uvars
  \/ IsEv("recycle") /\ DRecycle(Ev.free) /\ UNCHANGED uvars
  \/ IsEv("cleanup_begin") /\ DCleanupBegin /\ UNCHANGED uvars
  \/ IsEv("stop") /\ DStop /\ UNCHANGED uvars
  \/ IsEv("joined") /\ DJoined /\ UNCHANGED uvars
  \* cleanup() returned: everything appended before it began has been delivered, nothing is left in the pipe
  \/ IsEv("cleanup_ret") /\ delivered >= atCleanup /\ delivered = entered /\ pend = <<>> /\ full = <<>> /\ ~cur.has /\ ~hold /\ inCb = 0
                         /\ incall = {} /\ UNCHANGED dvars /\ UNCHANGED uvars
  \/ Skip("end")
TSpec == TInit /\ [][TNext]_tvars
Progress == TLCSet(42, IF l > TLCGet(42) THEN l ELSE TLCGet(42))
Accepted == IF TLCGet(42) = Len(Log) + 1 THEN TRUE ELSE PrintT(<<"MAXPOS", TLCGet(42), Len(Log)>>) /\ FALSE
=============================================================================
