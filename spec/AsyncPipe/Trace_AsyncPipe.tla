-------------------------- MODULE Trace_AsyncPipe --------------------------
(* Trace validation for C10: events recorded at the hooks of the real AsyncPipe and in its sink callback, *)
(* in global sequence order, must be a behaviour of AsyncPipeData; all C10 invariants after every event.   *)
EXTENDS AsyncPipeData, Json, IOUtils
Log == ndJsonDeserialize(IOEnv.TRACE)
VARIABLES l
ASSUME TLCSet(42, 0)
tvars == <<dvars, l>>
Ev == Log[l]
IsEv(e) == l <= Len(Log) /\ Log[l].e = e /\ l' = l + 1
Skip(e) == IsEv(e) /\ UNCHANGED dvars
ResetData ==
  /\ cur' = NoCur /\ full' = <<>> /\ freeN' = MinB /\ buffNum' = MinB /\ stop' = FALSE /\ inHand' = 0 /\ handLo' = 0 /\ hold' = FALSE
  /\ inCb' = 0 /\ appender' = 0 /\ remain' = 0 /\ pend' = <<>> /\ off' = [p \in Producers |-> 0]
  /\ entered' = 0 /\ copied' = 0 /\ delivered' = 0 /\ doneBytes' = 0 /\ atCleanup' = 0 /\ cbSize' = 0
TInit == DInit /\ l = 1
TNext ==
  \/ IsEv("Reset") /\ ResetData
  \/ IsEv("begin") /\ Ev.size = Size /\ Ev.min = MinB /\ Ev.max = MaxB /\ ResetData      \* initialize(): MinB free buffers
  \/ IsEv("enter") /\ DEnter(Ev.p, Ev.len)
  \/ IsEv("grow") /\ DGrow(Ev.num)
  \/ IsEv("take_free") /\ DTakeFree(Ev.free)
  \/ IsEv("chunk") /\ DChunk(Ev.w, Ev.cur)
  \/ IsEv("push_full") /\ DPushFull(Ev.n, Ev.full)
  \/ IsEv("exit") /\ DExit(Ev.p, Ev.len)
  \/ IsEv("trylock") /\ DTryLock(Ev.cur)
  \/ IsEv("pop") /\ DPop(Ev.n, Ev.rest)
  \/ IsEv("cb_begin") /\ DCbBegin(Ev.n, Ev.runs)
  \/ IsEv("cb_end") /\ DCbEnd
  \/ IsEv("shrink") /\ DShrink(Ev.num)
  \/ IsEv("recycle") /\ DRecycle(Ev.free)
  \/ IsEv("cleanup_begin") /\ DCleanupBegin
  \/ IsEv("stop") /\ DStop
  \/ IsEv("joined") /\ DJoined
  \* cleanup() returned: everything appended before it began has been delivered, nothing is left in the pipe
  \/ IsEv("cleanup_ret") /\ delivered >= atCleanup /\ delivered = entered /\ pend = <<>> /\ full = <<>> /\ ~cur.has /\ ~hold /\ inCb = 0
                         /\ UNCHANGED dvars
  \/ Skip("end")
TSpec == TInit /\ [][TNext]_tvars
Progress == TLCSet(42, IF l > TLCGet(42) THEN l ELSE TLCGet(42))
Accepted == IF TLCGet(42) = Len(Log) + 1 THEN TRUE ELSE PrintT(<<"MAXPOS", TLCGet(42), Len(Log)>>) /\ FALSE
=============================================================================
