--------------------------- MODULE AsyncPipeData ---------------------------
(* C10 - the asynchronous pipe's shared data and what each critical section of async_pipe.cpp does   *)
(* to it (sections delimited by the CPP_TBOX_VERIF_POINT hooks named next to each action).            *)
(* Producers are serialised by curr_buffer_mutex_ for a whole append, so the bytes ever appended form  *)
(* one logical stream in "enter" order; buffers hold consecutive pieces of it, so sizes suffice for    *)
(* the buffers and the content is kept once, as runs (module Runs), in `pend` = entered, undelivered.  *)
(* AsyncPipe.tla adds threads, mutexes and condition variables for model checking;                      *)
(* Trace_AsyncPipe.tla drives these actions from events recorded at the hooks of the real code.         *)
EXTENDS Runs, FiniteSets, TLC
CONSTANTS Producers, Size, MinB, MaxB    \* producer ids, buffer size, min/max buffer count

VARIABLES
  cur,        \* curr_buffer_: [has |-> BOOLEAN, lo |-> logical stream position of its first byte, n |-> bytes in it]
  full,       \* full_buffers_: FIFO of [lo, n]
  freeN,      \* Len(free_buffers_)
  buffNum,    \* buff_num_
  stop,       \* stop_signal_
  inHand,     \* undelivered bytes of the buffer the back end has popped (0 once the callback returned)
  handLo,     \* logical position of the popped buffer's first byte
  hold,       \* the back end holds a popped buffer that it has not yet recycled / deleted
  inCb,       \* number of sink callbacks in progress
  appender,   \* producer inside append (holder of curr_buffer_mutex_) or 0
  remain,     \* bytes of the current append not yet copied into a buffer
  (* ghost *)
  pend,       \* runs: bytes entered and not yet delivered, in enter order
  off,        \* off[p]: bytes producer p has entered so far (its pattern position)
  entered, copied, delivered, doneBytes, atCleanup, cbSize
dvars == <<cur, full, freeN, buffNum, stop, inHand, handLo, hold, inCb, appender, remain, pend, off, entered, copied, delivered,
           doneBytes, atCleanup, cbSize>>

NoCur == [has |-> FALSE, lo |-> 0, n |-> 0]
DInit == /\ cur = NoCur /\ full = <<>> /\ freeN = MinB /\ buffNum = MinB /\ stop = FALSE /\ inHand = 0 /\ handLo = 0 /\ hold = FALSE /\ inCb = 0
         /\ appender = 0 /\ remain = 0 /\ pend = <<>> /\ off = [p \in Producers |-> 0]
         /\ entered = 0 /\ copied = 0 /\ delivered = 0 /\ doneBytes = 0 /\ atCleanup = 0 /\ cbSize = 0

Pat(p, o) == (p * 37 + o) % P          \* byte value of producer p at its position o
RECURSIVE Sum(_)
Sum(s) == IF s = <<>> THEN 0 ELSE s[1].n + Sum(Tail(s))

(* ------------------------------- producer (holds curr_buffer_mutex_) ------------------------------- *)
DEnter(p, len) ==          \* "ap.p.enter"
  /\ appender = 0 /\ appender' = p /\ remain' = len
  /\ pend' = RCat(pend, Run(Pat(p, off[p]), len)) /\ off' = [off EXCEPT ![p] = @ + len] /\ entered' = entered + len
  /\ UNCHANGED <<cur, full, freeN, buffNum, stop, inHand, handLo, hold, inCb, copied, delivered, doneBytes, atCleanup, cbSize>>
DGrow(num) ==              \* "ap.p.grow": no free buffer and fewer than MaxB -> allocate one more
  /\ appender # 0 /\ ~cur.has /\ freeN = 0 /\ buffNum < MaxB /\ buffNum' = buffNum + 1 /\ num = buffNum' /\ freeN' = 1
  /\ UNCHANGED <<cur, full, stop, inHand, handLo, hold, inCb, appender, remain, pend, off, entered, copied, delivered, doneBytes, atCleanup, cbSize>>
DTakeFree(freeAfter) ==    \* "ap.p.take_free"
  /\ appender # 0 /\ ~cur.has /\ remain > 0 /\ freeN > 0 /\ freeN' = freeN - 1 /\ freeAfter = freeN'
  /\ cur' = [has |-> TRUE, lo |-> copied, n |-> 0]
  /\ UNCHANGED <<full, buffNum, stop, inHand, handLo, hold, inCb, appender, remain, pend, off, entered, copied, delivered, doneBytes, atCleanup, cbSize>>
DChunk(w, curN) ==         \* "ap.p.chunk": copy as much as fits
  /\ appender # 0 /\ cur.has /\ remain > 0 /\ w = Min(remain, Size - cur.n) /\ w > 0
  /\ cur' = [cur EXCEPT !.n = @ + w] /\ curN = cur'.n /\ remain' = remain - w /\ copied' = copied + w
  /\ UNCHANGED <<full, freeN, buffNum, stop, inHand, handLo, hold, inCb, appender, pend, off, entered, delivered, doneBytes, atCleanup, cbSize>>
DPushFull(n, fullLen) ==   \* "ap.p.push_full"
  \* (the code hands a buffer over when it is full; handing over a partly filled one earlier only changes block boundaries, which C10 leaves free)
  /\ appender # 0 /\ cur.has /\ cur.n > 0 /\ n = cur.n /\ full' = Append(full, [lo |-> cur.lo, n |-> cur.n]) /\ fullLen = Len(full') /\ cur' = NoCur
  /\ UNCHANGED <<freeN, buffNum, stop, inHand, handLo, hold, inCb, appender, remain, pend, off, entered, copied, delivered, doneBytes, atCleanup, cbSize>>
DExit(p, len) ==           \* "ap.p.exit"
  /\ appender = p /\ remain = 0 /\ (cur.has => cur.n < Size) /\ appender' = 0 /\ doneBytes' = doneBytes + len
  /\ UNCHANGED <<cur, full, freeN, buffNum, stop, inHand, handLo, hold, inCb, remain, pend, off, entered, copied, delivered, atCleanup, cbSize>>
(* --------------------------------------------- back end --------------------------------------------- *)
DTryLock(curN) ==          \* "ap.b.trylock": try_lock succeeded (nobody is appending): hand the partial buffer over
  /\ appender = 0 /\ curN = cur.n
  /\ IF cur.has THEN full' = Append(full, [lo |-> cur.lo, n |-> cur.n]) /\ cur' = NoCur ELSE UNCHANGED <<full, cur>>
  /\ UNCHANGED <<freeN, buffNum, stop, inHand, handLo, hold, inCb, appender, remain, pend, off, entered, copied, delivered, doneBytes, atCleanup, cbSize>>
DPop(n, rest) ==           \* "ap.b.pop"
  /\ ~hold /\ full # <<>> /\ n = Head(full).n /\ full' = Tail(full) /\ rest = Len(full') /\ inHand' = n /\ handLo' = Head(full).lo /\ hold' = TRUE
  /\ UNCHANGED <<cur, freeN, buffNum, stop, inCb, appender, remain, pend, off, entered, copied, delivered, doneBytes, atCleanup, cbSize>>
DCbBegin(n, runs) ==       \* sink callback entered with a block of n bytes whose content is `runs`
  /\ n = inHand /\ n > 0 /\ handLo >= delivered /\ runs = RTake(RDrop(pend, handLo - delivered), n) /\ RLen(runs) = n /\ inCb' = inCb + 1 /\ cbSize' = n
  /\ UNCHANGED <<cur, full, freeN, buffNum, stop, inHand, handLo, hold, appender, remain, pend, off, entered, copied, delivered, doneBytes, atCleanup>>
DCbEnd ==
  /\ inCb > 0 /\ inCb' = inCb - 1 /\ pend' = RDrop(pend, cbSize) /\ delivered' = delivered + cbSize /\ cbSize' = 0 /\ inHand' = 0
  /\ UNCHANGED <<cur, full, freeN, buffNum, stop, handLo, hold, appender, remain, off, entered, copied, doneBytes, atCleanup>>
DShrinkHeld(num) ==        \* "ap.b.shrink": more than MinB buffers -> delete the buffer just delivered (what the code does)
  /\ hold /\ inCb = 0 /\ buffNum' = buffNum - 1 /\ num = buffNum' /\ hold' = FALSE
  /\ UNCHANGED <<cur, full, freeN, stop, inHand, handLo, inCb, appender, remain, pend, off, entered, copied, delivered, doneBytes, atCleanup, cbSize>>
DShrinkFree(num) ==        \* an idle buffer of the free list is deleted instead
  /\ freeN > 0 /\ freeN' = freeN - 1 /\ buffNum' = buffNum - 1 /\ num = buffNum'
  /\ UNCHANGED <<cur, full, hold, stop, inHand, handLo, inCb, appender, remain, pend, off, entered, copied, delivered, doneBytes, atCleanup, cbSize>>
\* when a buffer is given back to the heap, and which idle one, is policy (C10 does not speak about it): recorded executions may do either
DShrink(num) == DShrinkHeld(num) \/ DShrinkFree(num)
DRecycle(freeLen) ==       \* "ap.b.recycle" (the decision not to delete was taken earlier, under buff_num_mutex_)
  /\ hold /\ inCb = 0 /\ freeN' = freeN + 1 /\ freeLen = freeN' /\ hold' = FALSE
  /\ UNCHANGED <<cur, full, buffNum, stop, inHand, handLo, inCb, appender, remain, pend, off, entered, copied, delivered, doneBytes, atCleanup, cbSize>>
(* --------------------------------------------- cleanup --------------------------------------------- *)
DCleanupBegin ==           \* "ap.c.begin"
  /\ atCleanup' = doneBytes
  /\ UNCHANGED <<cur, full, freeN, buffNum, stop, inHand, handLo, hold, inCb, appender, remain, pend, off, entered, copied, delivered, doneBytes, cbSize>>
DStop ==                   \* "ap.c.stop"
  /\ stop' = TRUE
  /\ UNCHANGED <<cur, full, freeN, buffNum, inHand, handLo, hold, inCb, appender, remain, pend, off, entered, copied, delivered, doneBytes, atCleanup, cbSize>>
DJoined ==                 \* "ap.c.joined": the back end has exited
  /\ stop' = FALSE
  /\ UNCHANGED <<cur, full, freeN, buffNum, inHand, handLo, hold, inCb, appender, remain, pend, off, entered, copied, delivered, doneBytes, atCleanup, cbSize>>

(* ------------------------------------ the properties of C10 ------------------------------------ *)
CallbacksNeverOverlap == inCb <= 1
\* nothing lost, duplicated or invented: what is in the buffers is exactly what was copied and not yet delivered
Conservation == delivered + Sum(full) + cur.n + inHand = copied /\ copied + remain = entered /\ RLen(pend) = entered - delivered
BuffAccounting == /\ buffNum = freeN + Len(full) + (IF cur.has THEN 1 ELSE 0) + (IF hold THEN 1 ELSE 0)
                  /\ MinB <= buffNum /\ buffNum <= MaxB
\* the same without the lower bound (how many idle buffers are retained is not part of C10): used for recorded executions
BuffAccountingLoose == /\ buffNum = freeN + Len(full) + (IF cur.has THEN 1 ELSE 0) + (IF hold THEN 1 ELSE 0) /\ buffNum <= MaxB
NoEmptyBlocks == \A i \in 1..Len(full) : full[i].n > 0
\* order and contiguity: the undelivered buffer in hand, the full buffers and the current buffer hold consecutive pieces of the
\* logical stream, starting at the first undelivered byte
Pieces == (IF inHand > 0 THEN <<[lo |-> handLo, n |-> inHand]>> ELSE <<>>) \o full \o (IF cur.has /\ cur.n > 0 THEN <<[lo |-> cur.lo, n |-> cur.n]>> ELSE <<>>)
InOrder == /\ (Pieces # <<>> => Pieces[1].lo = delivered)
           /\ \A i \in 1..(Len(Pieces) - 1) : Pieces[i].lo + Pieces[i].n = Pieces[i + 1].lo
\* evaluated when cleanup() returns: everything appended before cleanup began has been delivered
CleanupFlushed == delivered >= atCleanup
=============================================================================
