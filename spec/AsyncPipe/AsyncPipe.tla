----------------------------- MODULE AsyncPipe -----------------------------
(* C10 - interleaving model of tbox::util::AsyncPipe: producer threads calling append(), the back-end  *)
(* thread (threadFunc) and the thread that calls cleanup(), with the four mutexes and two condition     *)
(* variables of async_pipe.cpp.  Data effects come from AsyncPipeData.                                   *)
(* Switch AsFoundStop: cleanup() raises stop_signal_ without holding full_buffers_mutex_ (as found).     *)
EXTENDS AsyncPipeData
CONSTANTS Script,        \* Script[p]: sequence of append sizes of producer p
          AsFoundStop
VARIABLES ppc,    \* producer: "idle" | "loop" | "grown" | "push" | "waitfree"
          todo,   \* todo[p]: appends still to make
          mFree,  \* owner of free_buffers_mutex_ across two producer steps (0 = free)
          bpc,    \* back end: "top" | "predfalse" | "blocked" | "recheck" | "flagged" | "drain" | "cb0" | "cb1" | "recycle" | "roundend" | "exited"
          timeup, quit, timedout, notified,
          cpc,    \* cleanup caller: "idle" | "stop" | "notify" | "join" | "done"
          lockViolation   \* lockset discipline: a shared variable was touched without its mutex
vars == <<dvars, ppc, todo, mFree, bpc, timeup, quit, timedout, notified, cpc, lockViolation>>

Init == /\ DInit /\ ppc = [p \in Producers |-> "idle"] /\ todo = Script /\ mFree = 0 /\ bpc = "top"
        /\ timeup = FALSE /\ quit = FALSE /\ timedout = FALSE /\ notified = FALSE /\ cpc = "idle" /\ lockViolation = FALSE
FullFree == bpc # "predfalse"            \* full_buffers_mutex_ is held across steps only between predicate and block
U_P == UNCHANGED <<bpc, timeup, quit, timedout, notified, cpc, lockViolation>>
U_B == UNCHANGED <<ppc, todo, mFree, cpc, lockViolation>>

(* ---------------------------------------------- producers ---------------------------------------------- *)
PEnter(p) ==      \* lock curr_buffer_mutex_; "ap.p.enter"
  /\ ppc[p] = "idle" /\ todo[p] # <<>> /\ cpc = "idle" /\ appender = 0
  /\ DEnter(p, Head(todo[p])) /\ ppc' = [ppc EXCEPT ![p] = "loop"] /\ UNCHANGED <<todo, mFree>> /\ U_P
PExit(p) ==       \* loop finished; "ap.p.exit"; unlock curr_buffer_mutex_
  /\ ppc[p] = "loop" /\ remain = 0 /\ DExit(p, Head(todo[p]))
  /\ ppc' = [ppc EXCEPT ![p] = "idle"] /\ todo' = [todo EXCEPT ![p] = Tail(@)] /\ UNCHANGED mFree /\ U_P
PNeedBuffer(p) == \* no current buffer: lock free_buffers_mutex_, take one / grow / wait
  /\ ppc[p] = "loop" /\ remain > 0 /\ ~cur.has /\ mFree = 0
  /\ IF freeN > 0 THEN DTakeFree(freeN - 1) /\ UNCHANGED <<ppc, mFree>>
     ELSE IF buffNum < MaxB THEN DGrow(buffNum + 1) /\ mFree' = p /\ ppc' = [ppc EXCEPT ![p] = "grown"]
     ELSE UNCHANGED dvars /\ UNCHANGED mFree /\ ppc' = [ppc EXCEPT ![p] = "waitfree"]     \* free_buffers_cv_.wait releases the mutex
  /\ UNCHANGED todo /\ U_P
PTakeGrown(p) ==
  /\ ppc[p] = "grown" /\ DTakeFree(freeN - 1) /\ mFree' = 0 /\ ppc' = [ppc EXCEPT ![p] = "loop"] /\ UNCHANGED todo /\ U_P
PChunk(p) ==
  /\ ppc[p] = "loop" /\ remain > 0 /\ cur.has
  /\ LET w == Min(remain, Size - cur.n) IN DChunk(w, cur.n + w)
  /\ ppc' = [ppc EXCEPT ![p] = IF cur'.n = Size THEN "push" ELSE "loop"] /\ UNCHANGED <<todo, mFree>> /\ U_P
PPush(p) ==       \* lock full_buffers_mutex_; push; notify_all
  /\ ppc[p] = "push" /\ FullFree /\ DPushFull(Size, Len(full) + 1) /\ ppc' = [ppc EXCEPT ![p] = "loop"]
  /\ notified' = (notified \/ bpc = "blocked") /\ UNCHANGED <<todo, mFree, bpc, timeup, quit, timedout, cpc, lockViolation>>
PWakeFree(p) ==   \* woken on free_buffers_cv_ (the predicate is re-evaluated in PNeedBuffer)
  /\ ppc[p] = "waitfree" /\ freeN > 0 /\ ppc' = [ppc EXCEPT ![p] = "loop"] /\ UNCHANGED dvars /\ UNCHANGED <<todo, mFree>> /\ U_P

(* ---------------------------------------------- back end ---------------------------------------------- *)
BTop ==           \* lock full_buffers_mutex_; non-empty -> go; else evaluate the wait predicate
  /\ bpc = "top" /\ timedout' = FALSE /\ notified' = FALSE
  /\ IF full # <<>> THEN bpc' = "flagged" /\ timeup' = FALSE /\ quit' = FALSE
     ELSE IF stop THEN bpc' = "flagged" /\ timeup' = FALSE /\ quit' = TRUE
     ELSE bpc' = "predfalse" /\ timeup' = TRUE /\ quit' = FALSE
  /\ UNCHANGED dvars /\ U_B
BBlock ==         \* wait_for: release the mutex and block
  /\ bpc = "predfalse" /\ bpc' = "blocked" /\ UNCHANGED dvars /\ UNCHANGED <<timeup, quit, timedout, notified>> /\ U_B
BNotified == /\ bpc = "blocked" /\ notified /\ bpc' = "recheck" /\ notified' = FALSE /\ UNCHANGED dvars /\ UNCHANGED <<timeup, quit, timedout>> /\ U_B
BTimeout ==  /\ bpc = "blocked" /\ bpc' = "recheck" /\ timedout' = TRUE /\ UNCHANGED dvars /\ UNCHANGED <<timeup, quit, notified>> /\ U_B
BRecheck ==       \* reacquire the mutex, evaluate the predicate again
  /\ bpc = "recheck"
  /\ IF stop THEN bpc' = "flagged" /\ timeup' = FALSE /\ quit' = TRUE
     ELSE IF full # <<>> THEN bpc' = "flagged" /\ timeup' = FALSE /\ UNCHANGED quit
     ELSE IF timedout THEN bpc' = "flagged" /\ UNCHANGED <<timeup, quit>>
     ELSE bpc' = "predfalse" /\ UNCHANGED <<timeup, quit>>
  /\ UNCHANGED dvars /\ UNCHANGED <<timedout, notified>> /\ U_B
BFlagged ==       \* timed out or quitting: try_lock curr_buffer_mutex_ and hand the partial buffer over
  /\ bpc = "flagged" /\ bpc' = "drain"
  /\ IF (timeup \/ quit) /\ appender = 0 THEN DTryLock(cur.n) ELSE UNCHANGED dvars
  /\ UNCHANGED <<timeup, quit, timedout, notified>> /\ U_B
BDrain ==
  /\ bpc = "drain"
  /\ IF full # <<>> THEN DPop(Head(full).n, Len(full) - 1) /\ bpc' = "cb0" ELSE UNCHANGED dvars /\ bpc' = "roundend"
  /\ UNCHANGED <<timeup, quit, timedout, notified>> /\ U_B
BCbBegin == /\ bpc = "cb0" /\ DCbBegin(inHand, RTake(RDrop(pend, handLo - delivered), inHand)) /\ bpc' = "cb1"
            /\ UNCHANGED <<timeup, quit, timedout, notified>> /\ U_B
BCbEnd ==   /\ bpc = "cb1" /\ DCbEnd /\ bpc' = "recycle" /\ UNCHANGED <<timeup, quit, timedout, notified>> /\ U_B
BRecycle ==       \* under buff_num_mutex_: delete the buffer if there are more than MinB, else decide to put it back
  /\ bpc = "recycle"
  /\ IF buffNum > MinB THEN DShrinkHeld(buffNum - 1) /\ bpc' = "drain" ELSE UNCHANGED dvars /\ bpc' = "putback"
  /\ UNCHANGED <<timeup, quit, timedout, notified>> /\ U_B
BPutBack ==       \* under free_buffers_mutex_: put the buffer back and notify waiting producers
  /\ bpc = "putback" /\ mFree = 0 /\ DRecycle(freeN + 1) /\ bpc' = "drain"
  /\ UNCHANGED <<timeup, quit, timedout, notified>> /\ U_B
BRoundEnd == /\ bpc = "roundend" /\ bpc' = (IF quit THEN "exited" ELSE "top") /\ UNCHANGED dvars
             /\ UNCHANGED <<timeup, quit, timedout, notified>> /\ U_B

(* ---------------------------------------------- cleanup() ---------------------------------------------- *)
AllProducersDone == \A p \in Producers : ppc[p] = "idle" /\ todo[p] = <<>>
CBegin ==  /\ cpc = "idle" /\ AllProducersDone /\ DCleanupBegin /\ cpc' = "stop"
           /\ UNCHANGED <<ppc, todo, mFree, bpc, timeup, quit, timedout, notified, lockViolation>>
CStop ==   \* raise the stop signal: under full_buffers_mutex_ (intended) or without it (as found)
  /\ cpc = "stop" /\ (AsFoundStop \/ FullFree) /\ DStop /\ cpc' = "notify"
  /\ lockViolation' = (lockViolation \/ AsFoundStop)
  /\ UNCHANGED <<ppc, todo, mFree, bpc, timeup, quit, timedout, notified>>
CNotify == /\ cpc = "notify" /\ cpc' = "join" /\ notified' = (notified \/ bpc = "blocked") /\ UNCHANGED dvars
           /\ UNCHANGED <<ppc, todo, mFree, bpc, timeup, quit, timedout, lockViolation>>
CJoin ==   /\ cpc = "join" /\ bpc = "exited" /\ DJoined /\ cpc' = "done"
           /\ UNCHANGED <<ppc, todo, mFree, bpc, timeup, quit, timedout, notified, lockViolation>>

PStep(p) == PEnter(p) \/ PExit(p) \/ PNeedBuffer(p) \/ PTakeGrown(p) \/ PChunk(p) \/ PPush(p) \/ PWakeFree(p)
PAny == \E p \in Producers : PStep(p)
BStep == BTop \/ BBlock \/ BNotified \/ BRecheck \/ BFlagged \/ BDrain \/ BCbBegin \/ BCbEnd \/ BRecycle \/ BPutBack \/ BRoundEnd
CStep == CBegin \/ CStop \/ CNotify \/ CJoin
Next == PAny \/ BStep \/ BTimeout \/ CStep
Spec == Init /\ [][Next]_vars
\* with the timed wait: every thread that can move does, and the wait eventually times out
\* (strong fairness for the threads that compete for a mutex with the back end's repeated short critical sections)
FairSpec == Spec /\ WF_vars(BStep) /\ WF_vars(BTimeout) /\ SF_vars(CStep) /\ \A p \in Producers : SF_vars(PStep(p))
\* without relying on the timeout (an arbitrarily long flush interval): notifications alone must suffice for cleanup
FairSpecNoTimeout == Spec /\ WF_vars(BStep) /\ SF_vars(CStep) /\ \A p \in Producers : SF_vars(PStep(p))

(* ---------------------------------------------- properties ---------------------------------------------- *)
LocksetDiscipline == ~lockViolation
CleanupFlushedAtReturn == cpc = "done" => (delivered = entered /\ pend = <<>> /\ full = <<>> /\ ~cur.has)
CleanupTerminates == (cpc = "stop") ~> (cpc = "done")
NoProducerStuck == \A p \in Producers : (ppc[p] # "idle") ~> (ppc[p] = "idle")
DeliveredEventually == \A k \in 0..8 : (entered >= k /\ cpc = "idle") ~> (delivered >= k \/ cpc # "idle")
=============================================================================
