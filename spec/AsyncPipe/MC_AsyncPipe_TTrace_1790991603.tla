---- MODULE MC_AsyncPipe_TTrace_1790991603 ----
EXTENDS MC_AsyncPipe, Sequences, TLCExt, Toolbox, Naturals, TLC, MC_AsyncPipe_TEConstants

_expression ==
    LET MC_AsyncPipe_TEExpression == INSTANCE MC_AsyncPipe_TEExpression
    IN MC_AsyncPipe_TEExpression!expression
----

_trace ==
    LET MC_AsyncPipe_TETrace == INSTANCE MC_AsyncPipe_TETrace
    IN MC_AsyncPipe_TETrace!trace
----

_prop ==
    ~(([]<>(
            cur = ([has |-> FALSE, n |-> 0, lo |-> 0])
            /\
            timedout = (TRUE)
            /\
            timeup = (TRUE)
            /\
            copied = (6)
            /\
            delivered = (6)
            /\
            lockViolation = (FALSE)
            /\
            hold = (FALSE)
            /\
            handLo = (5)
            /\
            bpc = ("top")
            /\
            inCb = (0)
            /\
            cpc = ("stop")
            /\
            mFree = (0)
            /\
            pend = (<<>>)
            /\
            ppc = (<<"idle", "idle">>)
            /\
            buffNum = (1)
            /\
            remain = (0)
            /\
            notified = (FALSE)
            /\
            inHand = (0)
            /\
            appender = (0)
            /\
            entered = (6)
            /\
            off = (<<3, 3>>)
            /\
            todo = (<<<<>>, <<>>>>)
            /\
            freeN = (1)
            /\
            atCleanup = (6)
            /\
            stop = (FALSE)
            /\
            doneBytes = (6)
            /\
            quit = (FALSE)
            /\
            cbSize = (0)
            /\
            full = (<<>>)
    ))/\([]<>(
            cur = ([has |-> FALSE, n |-> 0, lo |-> 0])
            /\
            timedout = (FALSE)
            /\
            timeup = (TRUE)
            /\
            copied = (6)
            /\
            delivered = (6)
            /\
            lockViolation = (FALSE)
            /\
            hold = (FALSE)
            /\
            handLo = (5)
            /\
            bpc = ("predfalse")
            /\
            inCb = (0)
            /\
            cpc = ("stop")
            /\
            mFree = (0)
            /\
            pend = (<<>>)
            /\
            ppc = (<<"idle", "idle">>)
            /\
            buffNum = (1)
            /\
            remain = (0)
            /\
            notified = (FALSE)
            /\
            inHand = (0)
            /\
            appender = (0)
            /\
            entered = (6)
            /\
            off = (<<3, 3>>)
            /\
            todo = (<<<<>>, <<>>>>)
            /\
            freeN = (1)
            /\
            atCleanup = (6)
            /\
            stop = (FALSE)
            /\
            doneBytes = (6)
            /\
            quit = (FALSE)
            /\
            cbSize = (0)
            /\
            full = (<<>>)
    )))
----

_init ==
    /\ off = _TETrace[1].off
    /\ mFree = _TETrace[1].mFree
    /\ handLo = _TETrace[1].handLo
    /\ cur = _TETrace[1].cur
    /\ bpc = _TETrace[1].bpc
    /\ buffNum = _TETrace[1].buffNum
    /\ delivered = _TETrace[1].delivered
    /\ entered = _TETrace[1].entered
    /\ timeup = _TETrace[1].timeup
    /\ pend = _TETrace[1].pend
    /\ ppc = _TETrace[1].ppc
    /\ doneBytes = _TETrace[1].doneBytes
    /\ atCleanup = _TETrace[1].atCleanup
    /\ stop = _TETrace[1].stop
    /\ copied = _TETrace[1].copied
    /\ full = _TETrace[1].full
    /\ appender = _TETrace[1].appender
    /\ timedout = _TETrace[1].timedout
    /\ remain = _TETrace[1].remain
    /\ cpc = _TETrace[1].cpc
    /\ cbSize = _TETrace[1].cbSize
    /\ todo = _TETrace[1].todo
    /\ lockViolation = _TETrace[1].lockViolation
    /\ freeN = _TETrace[1].freeN
    /\ quit = _TETrace[1].quit
    /\ notified = _TETrace[1].notified
    /\ inHand = _TETrace[1].inHand
    /\ inCb = _TETrace[1].inCb
    /\ hold = _TETrace[1].hold
----

_next ==
    /\ \E i,j \in DOMAIN _TETrace:
        /\ \/ /\ j = i + 1
              /\ i = TLCGet("level")
           \/ /\ i = _TTraceLassoEnd
              /\ j = _TTraceLassoStart
        /\ off  = _TETrace[i].off
        /\ off' = _TETrace[j].off
        /\ mFree  = _TETrace[i].mFree
        /\ mFree' = _TETrace[j].mFree
        /\ handLo  = _TETrace[i].handLo
        /\ handLo' = _TETrace[j].handLo
        /\ cur  = _TETrace[i].cur
        /\ cur' = _TETrace[j].cur
        /\ bpc  = _TETrace[i].bpc
        /\ bpc' = _TETrace[j].bpc
        /\ buffNum  = _TETrace[i].buffNum
        /\ buffNum' = _TETrace[j].buffNum
        /\ delivered  = _TETrace[i].delivered
        /\ delivered' = _TETrace[j].delivered
        /\ entered  = _TETrace[i].entered
        /\ entered' = _TETrace[j].entered
        /\ timeup  = _TETrace[i].timeup
        /\ timeup' = _TETrace[j].timeup
        /\ pend  = _TETrace[i].pend
        /\ pend' = _TETrace[j].pend
        /\ ppc  = _TETrace[i].ppc
        /\ ppc' = _TETrace[j].ppc
        /\ doneBytes  = _TETrace[i].doneBytes
        /\ doneBytes' = _TETrace[j].doneBytes
        /\ atCleanup  = _TETrace[i].atCleanup
        /\ atCleanup' = _TETrace[j].atCleanup
        /\ stop  = _TETrace[i].stop
        /\ stop' = _TETrace[j].stop
        /\ copied  = _TETrace[i].copied
        /\ copied' = _TETrace[j].copied
        /\ full  = _TETrace[i].full
        /\ full' = _TETrace[j].full
        /\ appender  = _TETrace[i].appender
        /\ appender' = _TETrace[j].appender
        /\ timedout  = _TETrace[i].timedout
        /\ timedout' = _TETrace[j].timedout
        /\ remain  = _TETrace[i].remain
        /\ remain' = _TETrace[j].remain
        /\ cpc  = _TETrace[i].cpc
        /\ cpc' = _TETrace[j].cpc
        /\ cbSize  = _TETrace[i].cbSize
        /\ cbSize' = _TETrace[j].cbSize
        /\ todo  = _TETrace[i].todo
        /\ todo' = _TETrace[j].todo
        /\ lockViolation  = _TETrace[i].lockViolation
        /\ lockViolation' = _TETrace[j].lockViolation
        /\ freeN  = _TETrace[i].freeN
        /\ freeN' = _TETrace[j].freeN
        /\ quit  = _TETrace[i].quit
        /\ quit' = _TETrace[j].quit
        /\ notified  = _TETrace[i].notified
        /\ notified' = _TETrace[j].notified
        /\ inHand  = _TETrace[i].inHand
        /\ inHand' = _TETrace[j].inHand
        /\ inCb  = _TETrace[i].inCb
        /\ inCb' = _TETrace[j].inCb
        /\ hold  = _TETrace[i].hold
        /\ hold' = _TETrace[j].hold

\* Uncomment the ASSUME below to write the states of the error trace
\* to the given file in Json format. Note that you can pass any tuple
\* to `JsonSerialize`. For example, a sub-sequence of _TETrace.
    \* ASSUME
    \*     LET J == INSTANCE Json
    \*         IN J!JsonSerialize("MC_AsyncPipe_TTrace_1790991603.json", _TETrace)


_view ==
    <<off, mFree, handLo, cur, bpc, buffNum, delivered, entered, timeup, pend, ppc, doneBytes, atCleanup, stop, copied, full, appender, timedout, remain, cpc, cbSize, todo, lockViolation, freeN, quit, notified, inHand, inCb, hold, IF TLCGet("level") = _TTraceLassoEnd + 1 THEN _TTraceLassoStart ELSE TLCGet("level")>>
=============================================================================

 Note that you can extract this module `MC_AsyncPipe_TEExpression`
  to a dedicated file to reuse `expression` (the module in the 
  dedicated `MC_AsyncPipe_TEExpression.tla` file takes precedence 
  over the module `MC_AsyncPipe_TEExpression` below).

---- MODULE MC_AsyncPipe_TEExpression ----
EXTENDS MC_AsyncPipe, Sequences, TLCExt, Toolbox, Naturals, TLC, MC_AsyncPipe_TEConstants

expression == 
    [
        \* To hide variables of the `MC_AsyncPipe` spec from the error trace,
        \* remove the variables below.  The trace will be written in the order
        \* of the fields of this record.
        off |-> off
        ,mFree |-> mFree
        ,handLo |-> handLo
        ,cur |-> cur
        ,bpc |-> bpc
        ,buffNum |-> buffNum
        ,delivered |-> delivered
        ,entered |-> entered
        ,timeup |-> timeup
        ,pend |-> pend
        ,ppc |-> ppc
        ,doneBytes |-> doneBytes
        ,atCleanup |-> atCleanup
        ,stop |-> stop
        ,copied |-> copied
        ,full |-> full
        ,appender |-> appender
        ,timedout |-> timedout
        ,remain |-> remain
        ,cpc |-> cpc
        ,cbSize |-> cbSize
        ,todo |-> todo
        ,lockViolation |-> lockViolation
        ,freeN |-> freeN
        ,quit |-> quit
        ,notified |-> notified
        ,inHand |-> inHand
        ,inCb |-> inCb
        ,hold |-> hold
        
        \* Put additional constant-, state-, and action-level expressions here:
        \* ,_stateNumber |-> _TEPosition
        \* ,_offUnchanged |-> off = off'
        
        \* Format the `off` variable as Json value.
        \* ,_offJson |->
        \*     LET J == INSTANCE Json
        \*     IN J!ToJson(off)
        
        \* Lastly, you may build expressions over arbitrary sets of states by
        \* leveraging the _TETrace operator.  For example, this is how to
        \* count the number of times a spec variable changed up to the current
        \* state in the trace.
        \* ,_offModCount |->
        \*     LET F[s \in DOMAIN _TETrace] ==
        \*         IF s = 1 THEN 0
        \*         ELSE IF _TETrace[s].off # _TETrace[s-1].off
        \*             THEN 1 + F[s-1] ELSE F[s-1]
        \*     IN F[_TEPosition - 1]
    ]

=============================================================================



Parsing and semantic processing can take forever if the trace below is long.
 In this case, it is advised to uncomment the module below to deserialize the
 trace from a generated binary file.

\*
\*---- MODULE MC_AsyncPipe_TETrace ----
\*EXTENDS MC_AsyncPipe, IOUtils, TLC, MC_AsyncPipe_TEConstants
\*
\*trace == IODeserialize("MC_AsyncPipe_TTrace_1790991603.bin", TRUE)
\*
\*=============================================================================
\*

---- MODULE MC_AsyncPipe_TETrace ----
EXTENDS MC_AsyncPipe, TLC, MC_AsyncPipe_TEConstants

trace == 
    <<
    ([cur |-> [has |-> FALSE, n |-> 0, lo |-> 0],timedout |-> FALSE,timeup |-> FALSE,copied |-> 0,delivered |-> 0,lockViolation |-> FALSE,hold |-> FALSE,handLo |-> 0,bpc |-> "top",inCb |-> 0,cpc |-> "idle",mFree |-> 0,pend |-> <<>>,ppc |-> <<"idle", "idle">>,buffNum |-> 1,remain |-> 0,notified |-> FALSE,inHand |-> 0,appender |-> 0,entered |-> 0,off |-> <<0, 0>>,todo |-> <<<<1, 2>>, <<3>>>>,freeN |-> 1,atCleanup |-> 0,stop |-> FALSE,doneBytes |-> 0,quit |-> FALSE,cbSize |-> 0,full |-> <<>>]),
    ([cur |-> [has |-> FALSE, n |-> 0, lo |-> 0],timedout |-> FALSE,timeup |-> FALSE,copied |-> 0,delivered |-> 0,lockViolation |-> FALSE,hold |-> FALSE,handLo |-> 0,bpc |-> "top",inCb |-> 0,cpc |-> "idle",mFree |-> 0,pend |-> <<[n |-> 1, s |-> 37]>>,ppc |-> <<"loop", "idle">>,buffNum |-> 1,remain |-> 1,notified |-> FALSE,inHand |-> 0,appender |-> 1,entered |-> 1,off |-> <<1, 0>>,todo |-> <<<<1, 2>>, <<3>>>>,freeN |-> 1,atCleanup |-> 0,stop |-> FALSE,doneBytes |-> 0,quit |-> FALSE,cbSize |-> 0,full |-> <<>>]),
    ([cur |-> [has |-> TRUE, n |-> 0, lo |-> 0],timedout |-> FALSE,timeup |-> FALSE,copied |-> 0,delivered |-> 0,lockViolation |-> FALSE,hold |-> FALSE,handLo |-> 0,bpc |-> "top",inCb |-> 0,cpc |-> "idle",mFree |-> 0,pend |-> <<[n |-> 1, s |-> 37]>>,ppc |-> <<"loop", "idle">>,buffNum |-> 1,remain |-> 1,notified |-> FALSE,inHand |-> 0,appender |-> 1,entered |-> 1,off |-> <<1, 0>>,todo |-> <<<<1, 2>>, <<3>>>>,freeN |-> 0,atCleanup |-> 0,stop |-> FALSE,doneBytes |-> 0,quit |-> FALSE,cbSize |-> 0,full |-> <<>>]),
    ([cur |-> [has |-> TRUE, n |-> 1, lo |-> 0],timedout |-> FALSE,timeup |-> FALSE,copied |-> 1,delivered |-> 0,lockViolation |-> FALSE,hold |-> FALSE,handLo |-> 0,bpc |-> "top",inCb |-> 0,cpc |-> "idle",mFree |-> 0,pend |-> <<[n |-> 1, s |-> 37]>>,ppc |-> <<"push", "idle">>,buffNum |-> 1,remain |-> 0,notified |-> FALSE,inHand |-> 0,appender |-> 1,entered |-> 1,off |-> <<1, 0>>,todo |-> <<<<1, 2>>, <<3>>>>,freeN |-> 0,atCleanup |-> 0,stop |-> FALSE,doneBytes |-> 0,quit |-> FALSE,cbSize |-> 0,full |-> <<>>]),
    ([cur |-> [has |-> FALSE, n |-> 0, lo |-> 0],timedout |-> FALSE,timeup |-> FALSE,copied |-> 1,delivered |-> 0,lockViolation |-> FALSE,hold |-> FALSE,handLo |-> 0,bpc |-> "top",inCb |-> 0,cpc |-> "idle",mFree |-> 0,pend |-> <<[n |-> 1, s |-> 37]>>,ppc |-> <<"loop", "idle">>,buffNum |-> 1,remain |-> 0,notified |-> FALSE,inHand |-> 0,appender |-> 1,entered |-> 1,off |-> <<1, 0>>,todo |-> <<<<1, 2>>, <<3>>>>,freeN |-> 0,atCleanup |-> 0,stop |-> FALSE,doneBytes |-> 0,quit |-> FALSE,cbSize |-> 0,full |-> <<[n |-> 1, lo |-> 0]>>]),
    ([cur |-> [has |-> FALSE, n |-> 0, lo |-> 0],timedout |-> FALSE,timeup |-> FALSE,copied |-> 1,delivered |-> 0,lockViolation |-> FALSE,hold |-> FALSE,handLo |-> 0,bpc |-> "flagged",inCb |-> 0,cpc |-> "idle",mFree |-> 0,pend |-> <<[n |-> 1, s |-> 37]>>,ppc |-> <<"loop", "idle">>,buffNum |-> 1,remain |-> 0,notified |-> FALSE,inHand |-> 0,appender |-> 1,entered |-> 1,off |-> <<1, 0>>,todo |-> <<<<1, 2>>, <<3>>>>,freeN |-> 0,atCleanup |-> 0,stop |-> FALSE,doneBytes |-> 0,quit |-> FALSE,cbSize |-> 0,full |-> <<[n |-> 1, lo |-> 0]>>]),
    ([cur |-> [has |-> FALSE, n |-> 0, lo |-> 0],timedout |-> FALSE,timeup |-> FALSE,copied |-> 1,delivered |-> 0,lockViolation |-> FALSE,hold |-> FALSE,handLo |-> 0,bpc |-> "drain",inCb |-> 0,cpc |-> "idle",mFree |-> 0,pend |-> <<[n |-> 1, s |-> 37]>>,ppc |-> <<"loop", "idle">>,buffNum |-> 1,remain |-> 0,notified |-> FALSE,inHand |-> 0,appender |-> 1,entered |-> 1,off |-> <<1, 0>>,todo |-> <<<<1, 2>>, <<3>>>>,freeN |-> 0,atCleanup |-> 0,stop |-> FALSE,doneBytes |-> 0,quit |-> FALSE,cbSize |-> 0,full |-> <<[n |-> 1, lo |-> 0]>>]),
    ([cur |-> [has |-> FALSE, n |-> 0, lo |-> 0],timedout |-> FALSE,timeup |-> FALSE,copied |-> 1,delivered |-> 0,lockViolation |-> FALSE,hold |-> FALSE,handLo |-> 0,bpc |-> "drain",inCb |-> 0,cpc |-> "idle",mFree |-> 0,pend |-> <<[n |-> 1, s |-> 37]>>,ppc |-> <<"idle", "idle">>,buffNum |-> 1,remain |-> 0,notified |-> FALSE,inHand |-> 0,appender |-> 0,entered |-> 1,off |-> <<1, 0>>,todo |-> <<<<2>>, <<3>>>>,freeN |-> 0,atCleanup |-> 0,stop |-> FALSE,doneBytes |-> 1,quit |-> FALSE,cbSize |-> 0,full |-> <<[n |-> 1, lo |-> 0]>>]),
    ([cur |-> [has |-> FALSE, n |-> 0, lo |-> 0],timedout |-> FALSE,timeup |-> FALSE,copied |-> 1,delivered |-> 0,lockViolation |-> FALSE,hold |-> FALSE,handLo |-> 0,bpc |-> "drain",inCb |-> 0,cpc |-> "idle",mFree |-> 0,pend |-> <<[n |-> 3, s |-> 37]>>,ppc |-> <<"loop", "idle">>,buffNum |-> 1,remain |-> 2,notified |-> FALSE,inHand |-> 0,appender |-> 1,entered |-> 3,off |-> <<3, 0>>,todo |-> <<<<2>>, <<3>>>>,freeN |-> 0,atCleanup |-> 0,stop |-> FALSE,doneBytes |-> 1,quit |-> FALSE,cbSize |-> 0,full |-> <<[n |-> 1, lo |-> 0]>>]),
    ([cur |-> [has |-> FALSE, n |-> 0, lo |-> 0],timedout |-> FALSE,timeup |-> FALSE,copied |-> 1,delivered |-> 0,lockViolation |-> FALSE,hold |-> TRUE,handLo |-> 0,bpc |-> "cb0",inCb |-> 0,cpc |-> "idle",mFree |-> 0,pend |-> <<[n |-> 3, s |-> 37]>>,ppc |-> <<"loop", "idle">>,buffNum |-> 1,remain |-> 2,notified |-> FALSE,inHand |-> 1,appender |-> 1,entered |-> 3,off |-> <<3, 0>>,todo |-> <<<<2>>, <<3>>>>,freeN |-> 0,atCleanup |-> 0,stop |-> FALSE,doneBytes |-> 1,quit |-> FALSE,cbSize |-> 0,full |-> <<>>]),
    ([cur |-> [has |-> FALSE, n |-> 0, lo |-> 0],timedout |-> FALSE,timeup |-> FALSE,copied |-> 1,delivered |-> 0,lockViolation |-> FALSE,hold |-> TRUE,handLo |-> 0,bpc |-> "cb1",inCb |-> 1,cpc |-> "idle",mFree |-> 0,pend |-> <<[n |-> 3, s |-> 37]>>,ppc |-> <<"loop", "idle">>,buffNum |-> 1,remain |-> 2,notified |-> FALSE,inHand |-> 1,appender |-> 1,entered |-> 3,off |-> <<3, 0>>,todo |-> <<<<2>>, <<3>>>>,freeN |-> 0,atCleanup |-> 0,stop |-> FALSE,doneBytes |-> 1,quit |-> FALSE,cbSize |-> 1,full |-> <<>>]),
    ([cur |-> [has |-> FALSE, n |-> 0, lo |-> 0],timedout |-> FALSE,timeup |-> FALSE,copied |-> 1,delivered |-> 1,lockViolation |-> FALSE,hold |-> TRUE,handLo |-> 0,bpc |-> "recycle",inCb |-> 0,cpc |-> "idle",mFree |-> 0,pend |-> <<[n |-> 2, s |-> 38]>>,ppc |-> <<"loop", "idle">>,buffNum |-> 1,remain |-> 2,notified |-> FALSE,inHand |-> 0,appender |-> 1,entered |-> 3,off |-> <<3, 0>>,todo |-> <<<<2>>, <<3>>>>,freeN |-> 0,atCleanup |-> 0,stop |-> FALSE,doneBytes |-> 1,quit |-> FALSE,cbSize |-> 0,full |-> <<>>]),
    ([cur |-> [has |-> FALSE, n |-> 0, lo |-> 0],timedout |-> FALSE,timeup |-> FALSE,copied |-> 1,delivered |-> 1,lockViolation |-> FALSE,hold |-> FALSE,handLo |-> 0,bpc |-> "drain",inCb |-> 0,cpc |-> "idle",mFree |-> 0,pend |-> <<[n |-> 2, s |-> 38]>>,ppc |-> <<"loop", "idle">>,buffNum |-> 1,remain |-> 2,notified |-> FALSE,inHand |-> 0,appender |-> 1,entered |-> 3,off |-> <<3, 0>>,todo |-> <<<<2>>, <<3>>>>,freeN |-> 1,atCleanup |-> 0,stop |-> FALSE,doneBytes |-> 1,quit |-> FALSE,cbSize |-> 0,full |-> <<>>]),
    ([cur |-> [has |-> TRUE, n |-> 0, lo |-> 1],timedout |-> FALSE,timeup |-> FALSE,copied |-> 1,delivered |-> 1,lockViolation |-> FALSE,hold |-> FALSE,handLo |-> 0,bpc |-> "drain",inCb |-> 0,cpc |-> "idle",mFree |-> 0,pend |-> <<[n |-> 2, s |-> 38]>>,ppc |-> <<"loop", "idle">>,buffNum |-> 1,remain |-> 2,notified |-> FALSE,inHand |-> 0,appender |-> 1,entered |-> 3,off |-> <<3, 0>>,todo |-> <<<<2>>, <<3>>>>,freeN |-> 0,atCleanup |-> 0,stop |-> FALSE,doneBytes |-> 1,quit |-> FALSE,cbSize |-> 0,full |-> <<>>]),
    ([cur |-> [has |-> TRUE, n |-> 1, lo |-> 1],timedout |-> FALSE,timeup |-> FALSE,copied |-> 2,delivered |-> 1,lockViolation |-> FALSE,hold |-> FALSE,handLo |-> 0,bpc |-> "drain",inCb |-> 0,cpc |-> "idle",mFree |-> 0,pend |-> <<[n |-> 2, s |-> 38]>>,ppc |-> <<"push", "idle">>,buffNum |-> 1,remain |-> 1,notified |-> FALSE,inHand |-> 0,appender |-> 1,entered |-> 3,off |-> <<3, 0>>,todo |-> <<<<2>>, <<3>>>>,freeN |-> 0,atCleanup |-> 0,stop |-> FALSE,doneBytes |-> 1,quit |-> FALSE,cbSize |-> 0,full |-> <<>>]),
    ([cur |-> [has |-> FALSE, n |-> 0, lo |-> 0],timedout |-> FALSE,timeup |-> FALSE,copied |-> 2,delivered |-> 1,lockViolation |-> FALSE,hold |-> FALSE,handLo |-> 0,bpc |-> "drain",inCb |-> 0,cpc |-> "idle",mFree |-> 0,pend |-> <<[n |-> 2, s |-> 38]>>,ppc |-> <<"loop", "idle">>,buffNum |-> 1,remain |-> 1,notified |-> FALSE,inHand |-> 0,appender |-> 1,entered |-> 3,off |-> <<3, 0>>,todo |-> <<<<2>>, <<3>>>>,freeN |-> 0,atCleanup |-> 0,stop |-> FALSE,doneBytes |-> 1,quit |-> FALSE,cbSize |-> 0,full |-> <<[n |-> 1, lo |-> 1]>>]),
    ([cur |-> [has |-> FALSE, n |-> 0, lo |-> 0],timedout |-> FALSE,timeup |-> FALSE,copied |-> 2,delivered |-> 1,lockViolation |-> FALSE,hold |-> TRUE,handLo |-> 1,bpc |-> "cb0",inCb |-> 0,cpc |-> "idle",mFree |-> 0,pend |-> <<[n |-> 2, s |-> 38]>>,ppc |-> <<"loop", "idle">>,buffNum |-> 1,remain |-> 1,notified |-> FALSE,inHand |-> 1,appender |-> 1,entered |-> 3,off |-> <<3, 0>>,todo |-> <<<<2>>, <<3>>>>,freeN |-> 0,atCleanup |-> 0,stop |-> FALSE,doneBytes |-> 1,quit |-> FALSE,cbSize |-> 0,full |-> <<>>]),
    ([cur |-> [has |-> FALSE, n |-> 0, lo |-> 0],timedout |-> FALSE,timeup |-> FALSE,copied |-> 2,delivered |-> 1,lockViolation |-> FALSE,hold |-> TRUE,handLo |-> 1,bpc |-> "cb1",inCb |-> 1,cpc |-> "idle",mFree |-> 0,pend |-> <<[n |-> 2, s |-> 38]>>,ppc |-> <<"loop", "idle">>,buffNum |-> 1,remain |-> 1,notified |-> FALSE,inHand |-> 1,appender |-> 1,entered |-> 3,off |-> <<3, 0>>,todo |-> <<<<2>>, <<3>>>>,freeN |-> 0,atCleanup |-> 0,stop |-> FALSE,doneBytes |-> 1,quit |-> FALSE,cbSize |-> 1,full |-> <<>>]),
    ([cur |-> [has |-> FALSE, n |-> 0, lo |-> 0],timedout |-> FALSE,timeup |-> FALSE,copied |-> 2,delivered |-> 2,lockViolation |-> FALSE,hold |-> TRUE,handLo |-> 1,bpc |-> "recycle",inCb |-> 0,cpc |-> "idle",mFree |-> 0,pend |-> <<[n |-> 1, s |-> 39]>>,ppc |-> <<"loop", "idle">>,buffNum |-> 1,remain |-> 1,notified |-> FALSE,inHand |-> 0,appender |-> 1,entered |-> 3,off |-> <<3, 0>>,todo |-> <<<<2>>, <<3>>>>,freeN |-> 0,atCleanup |-> 0,stop |-> FALSE,doneBytes |-> 1,quit |-> FALSE,cbSize |-> 0,full |-> <<>>]),
    ([cur |-> [has |-> FALSE, n |-> 0, lo |-> 0],timedout |-> FALSE,timeup |-> FALSE,copied |-> 2,delivered |-> 2,lockViolation |-> FALSE,hold |-> FALSE,handLo |-> 1,bpc |-> "drain",inCb |-> 0,cpc |-> "idle",mFree |-> 0,pend |-> <<[n |-> 1, s |-> 39]>>,ppc |-> <<"loop", "idle">>,buffNum |-> 1,remain |-> 1,notified |-> FALSE,inHand |-> 0,appender |-> 1,entered |-> 3,off |-> <<3, 0>>,todo |-> <<<<2>>, <<3>>>>,freeN |-> 1,atCleanup |-> 0,stop |-> FALSE,doneBytes |-> 1,quit |-> FALSE,cbSize |-> 0,full |-> <<>>]),
    ([cur |-> [has |-> TRUE, n |-> 0, lo |-> 2],timedout |-> FALSE,timeup |-> FALSE,copied |-> 2,delivered |-> 2,lockViolation |-> FALSE,hold |-> FALSE,handLo |-> 1,bpc |-> "drain",inCb |-> 0,cpc |-> "idle",mFree |-> 0,pend |-> <<[n |-> 1, s |-> 39]>>,ppc |-> <<"loop", "idle">>,buffNum |-> 1,remain |-> 1,notified |-> FALSE,inHand |-> 0,appender |-> 1,entered |-> 3,off |-> <<3, 0>>,todo |-> <<<<2>>, <<3>>>>,freeN |-> 0,atCleanup |-> 0,stop |-> FALSE,doneBytes |-> 1,quit |-> FALSE,cbSize |-> 0,full |-> <<>>]),
    ([cur |-> [has |-> TRUE, n |-> 1, lo |-> 2],timedout |-> FALSE,timeup |-> FALSE,copied |-> 3,delivered |-> 2,lockViolation |-> FALSE,hold |-> FALSE,handLo |-> 1,bpc |-> "drain",inCb |-> 0,cpc |-> "idle",mFree |-> 0,pend |-> <<[n |-> 1, s |-> 39]>>,ppc |-> <<"push", "idle">>,buffNum |-> 1,remain |-> 0,notified |-> FALSE,inHand |-> 0,appender |-> 1,entered |-> 3,off |-> <<3, 0>>,todo |-> <<<<2>>, <<3>>>>,freeN |-> 0,atCleanup |-> 0,stop |-> FALSE,doneBytes |-> 1,quit |-> FALSE,cbSize |-> 0,full |-> <<>>]),
    ([cur |-> [has |-> FALSE, n |-> 0, lo |-> 0],timedout |-> FALSE,timeup |-> FALSE,copied |-> 3,delivered |-> 2,lockViolation |-> FALSE,hold |-> FALSE,handLo |-> 1,bpc |-> "drain",inCb |-> 0,cpc |-> "idle",mFree |-> 0,pend |-> <<[n |-> 1, s |-> 39]>>,ppc |-> <<"loop", "idle">>,buffNum |-> 1,remain |-> 0,notified |-> FALSE,inHand |-> 0,appender |-> 1,entered |-> 3,off |-> <<3, 0>>,todo |-> <<<<2>>, <<3>>>>,freeN |-> 0,atCleanup |-> 0,stop |-> FALSE,doneBytes |-> 1,quit |-> FALSE,cbSize |-> 0,full |-> <<[n |-> 1, lo |-> 2]>>]),
    ([cur |-> [has |-> FALSE, n |-> 0, lo |-> 0],timedout |-> FALSE,timeup |-> FALSE,copied |-> 3,delivered |-> 2,lockViolation |-> FALSE,hold |-> FALSE,handLo |-> 1,bpc |-> "drain",inCb |-> 0,cpc |-> "idle",mFree |-> 0,pend |-> <<[n |-> 1, s |-> 39]>>,ppc |-> <<"idle", "idle">>,buffNum |-> 1,remain |-> 0,notified |-> FALSE,inHand |-> 0,appender |-> 0,entered |-> 3,off |-> <<3, 0>>,todo |-> <<<<>>, <<3>>>>,freeN |-> 0,atCleanup |-> 0,stop |-> FALSE,doneBytes |-> 3,quit |-> FALSE,cbSize |-> 0,full |-> <<[n |-> 1, lo |-> 2]>>]),
    ([cur |-> [has |-> FALSE, n |-> 0, lo |-> 0],timedout |-> FALSE,timeup |-> FALSE,copied |-> 3,delivered |-> 2,lockViolation |-> FALSE,hold |-> FALSE,handLo |-> 1,bpc |-> "drain",inCb |-> 0,cpc |-> "idle",mFree |-> 0,pend |-> <<[n |-> 1, s |-> 39], [n |-> 3, s |-> 74]>>,ppc |-> <<"idle", "loop">>,buffNum |-> 1,remain |-> 3,notified |-> FALSE,inHand |-> 0,appender |-> 2,entered |-> 6,off |-> <<3, 3>>,todo |-> <<<<>>, <<3>>>>,freeN |-> 0,atCleanup |-> 0,stop |-> FALSE,doneBytes |-> 3,quit |-> FALSE,cbSize |-> 0,full |-> <<[n |-> 1, lo |-> 2]>>]),
    ([cur |-> [has |-> FALSE, n |-> 0, lo |-> 0],timedout |-> FALSE,timeup |-> FALSE,copied |-> 3,delivered |-> 2,lockViolation |-> FALSE,hold |-> TRUE,handLo |-> 2,bpc |-> "cb0",inCb |-> 0,cpc |-> "idle",mFree |-> 0,pend |-> <<[n |-> 1, s |-> 39], [n |-> 3, s |-> 74]>>,ppc |-> <<"idle", "loop">>,buffNum |-> 1,remain |-> 3,notified |-> FALSE,inHand |-> 1,appender |-> 2,entered |-> 6,off |-> <<3, 3>>,todo |-> <<<<>>, <<3>>>>,freeN |-> 0,atCleanup |-> 0,stop |-> FALSE,doneBytes |-> 3,quit |-> FALSE,cbSize |-> 0,full |-> <<>>]),
    ([cur |-> [has |-> FALSE, n |-> 0, lo |-> 0],timedout |-> FALSE,timeup |-> FALSE,copied |-> 3,delivered |-> 2,lockViolation |-> FALSE,hold |-> TRUE,handLo |-> 2,bpc |-> "cb1",inCb |-> 1,cpc |-> "idle",mFree |-> 0,pend |-> <<[n |-> 1, s |-> 39], [n |-> 3, s |-> 74]>>,ppc |-> <<"idle", "loop">>,buffNum |-> 1,remain |-> 3,notified |-> FALSE,inHand |-> 1,appender |-> 2,entered |-> 6,off |-> <<3, 3>>,todo |-> <<<<>>, <<3>>>>,freeN |-> 0,atCleanup |-> 0,stop |-> FALSE,doneBytes |-> 3,quit |-> FALSE,cbSize |-> 1,full |-> <<>>]),
    ([cur |-> [has |-> FALSE, n |-> 0, lo |-> 0],timedout |-> FALSE,timeup |-> FALSE,copied |-> 3,delivered |-> 3,lockViolation |-> FALSE,hold |-> TRUE,handLo |-> 2,bpc |-> "recycle",inCb |-> 0,cpc |-> "idle",mFree |-> 0,pend |-> <<[n |-> 3, s |-> 74]>>,ppc |-> <<"idle", "loop">>,buffNum |-> 1,remain |-> 3,notified |-> FALSE,inHand |-> 0,appender |-> 2,entered |-> 6,off |-> <<3, 3>>,todo |-> <<<<>>, <<3>>>>,freeN |-> 0,atCleanup |-> 0,stop |-> FALSE,doneBytes |-> 3,quit |-> FALSE,cbSize |-> 0,full |-> <<>>]),
    ([cur |-> [has |-> FALSE, n |-> 0, lo |-> 0],timedout |-> FALSE,timeup |-> FALSE,copied |-> 3,delivered |-> 3,lockViolation |-> FALSE,hold |-> FALSE,handLo |-> 2,bpc |-> "drain",inCb |-> 0,cpc |-> "idle",mFree |-> 0,pend |-> <<[n |-> 3, s |-> 74]>>,ppc |-> <<"idle", "loop">>,buffNum |-> 1,remain |-> 3,notified |-> FALSE,inHand |-> 0,appender |-> 2,entered |-> 6,off |-> <<3, 3>>,todo |-> <<<<>>, <<3>>>>,freeN |-> 1,atCleanup |-> 0,stop |-> FALSE,doneBytes |-> 3,quit |-> FALSE,cbSize |-> 0,full |-> <<>>]),
    ([cur |-> [has |-> TRUE, n |-> 0, lo |-> 3],timedout |-> FALSE,timeup |-> FALSE,copied |-> 3,delivered |-> 3,lockViolation |-> FALSE,hold |-> FALSE,handLo |-> 2,bpc |-> "drain",inCb |-> 0,cpc |-> "idle",mFree |-> 0,pend |-> <<[n |-> 3, s |-> 74]>>,ppc |-> <<"idle", "loop">>,buffNum |-> 1,remain |-> 3,notified |-> FALSE,inHand |-> 0,appender |-> 2,entered |-> 6,off |-> <<3, 3>>,todo |-> <<<<>>, <<3>>>>,freeN |-> 0,atCleanup |-> 0,stop |-> FALSE,doneBytes |-> 3,quit |-> FALSE,cbSize |-> 0,full |-> <<>>]),
    ([cur |-> [has |-> TRUE, n |-> 1, lo |-> 3],timedout |-> FALSE,timeup |-> FALSE,copied |-> 4,delivered |-> 3,lockViolation |-> FALSE,hold |-> FALSE,handLo |-> 2,bpc |-> "drain",inCb |-> 0,cpc |-> "idle",mFree |-> 0,pend |-> <<[n |-> 3, s |-> 74]>>,ppc |-> <<"idle", "push">>,buffNum |-> 1,remain |-> 2,notified |-> FALSE,inHand |-> 0,appender |-> 2,entered |-> 6,off |-> <<3, 3>>,todo |-> <<<<>>, <<3>>>>,freeN |-> 0,atCleanup |-> 0,stop |-> FALSE,doneBytes |-> 3,quit |-> FALSE,cbSize |-> 0,full |-> <<>>]),
    ([cur |-> [has |-> FALSE, n |-> 0, lo |-> 0],timedout |-> FALSE,timeup |-> FALSE,copied |-> 4,delivered |-> 3,lockViolation |-> FALSE,hold |-> FALSE,handLo |-> 2,bpc |-> "drain",inCb |-> 0,cpc |-> "idle",mFree |-> 0,pend |-> <<[n |-> 3, s |-> 74]>>,ppc |-> <<"idle", "loop">>,buffNum |-> 1,remain |-> 2,notified |-> FALSE,inHand |-> 0,appender |-> 2,entered |-> 6,off |-> <<3, 3>>,todo |-> <<<<>>, <<3>>>>,freeN |-> 0,atCleanup |-> 0,stop |-> FALSE,doneBytes |-> 3,quit |-> FALSE,cbSize |-> 0,full |-> <<[n |-> 1, lo |-> 3]>>]),
    ([cur |-> [has |-> FALSE, n |-> 0, lo |-> 0],timedout |-> FALSE,timeup |-> FALSE,copied |-> 4,delivered |-> 3,lockViolation |-> FALSE,hold |-> TRUE,handLo |-> 3,bpc |-> "cb0",inCb |-> 0,cpc |-> "idle",mFree |-> 0,pend |-> <<[n |-> 3, s |-> 74]>>,ppc |-> <<"idle", "loop">>,buffNum |-> 1,remain |-> 2,notified |-> FALSE,inHand |-> 1,appender |-> 2,entered |-> 6,off |-> <<3, 3>>,todo |-> <<<<>>, <<3>>>>,freeN |-> 0,atCleanup |-> 0,stop |-> FALSE,doneBytes |-> 3,quit |-> FALSE,cbSize |-> 0,full |-> <<>>]),
    ([cur |-> [has |-> FALSE, n |-> 0, lo |-> 0],timedout |-> FALSE,timeup |-> FALSE,copied |-> 4,delivered |-> 3,lockViolation |-> FALSE,hold |-> TRUE,handLo |-> 3,bpc |-> "cb1",inCb |-> 1,cpc |-> "idle",mFree |-> 0,pend |-> <<[n |-> 3, s |-> 74]>>,ppc |-> <<"idle", "loop">>,buffNum |-> 1,remain |-> 2,notified |-> FALSE,inHand |-> 1,appender |-> 2,entered |-> 6,off |-> <<3, 3>>,todo |-> <<<<>>, <<3>>>>,freeN |-> 0,atCleanup |-> 0,stop |-> FALSE,doneBytes |-> 3,quit |-> FALSE,cbSize |-> 1,full |-> <<>>]),
    ([cur |-> [has |-> FALSE, n |-> 0, lo |-> 0],timedout |-> FALSE,timeup |-> FALSE,copied |-> 4,delivered |-> 4,lockViolation |-> FALSE,hold |-> TRUE,handLo |-> 3,bpc |-> "recycle",inCb |-> 0,cpc |-> "idle",mFree |-> 0,pend |-> <<[n |-> 2, s |-> 75]>>,ppc |-> <<"idle", "loop">>,buffNum |-> 1,remain |-> 2,notified |-> FALSE,inHand |-> 0,appender |-> 2,entered |-> 6,off |-> <<3, 3>>,todo |-> <<<<>>, <<3>>>>,freeN |-> 0,atCleanup |-> 0,stop |-> FALSE,doneBytes |-> 3,quit |-> FALSE,cbSize |-> 0,full |-> <<>>]),
    ([cur |-> [has |-> FALSE, n |-> 0, lo |-> 0],timedout |-> FALSE,timeup |-> FALSE,copied |-> 4,delivered |-> 4,lockViolation |-> FALSE,hold |-> FALSE,handLo |-> 3,bpc |-> "drain",inCb |-> 0,cpc |-> "idle",mFree |-> 0,pend |-> <<[n |-> 2, s |-> 75]>>,ppc |-> <<"idle", "loop">>,buffNum |-> 1,remain |-> 2,notified |-> FALSE,inHand |-> 0,appender |-> 2,entered |-> 6,off |-> <<3, 3>>,todo |-> <<<<>>, <<3>>>>,freeN |-> 1,atCleanup |-> 0,stop |-> FALSE,doneBytes |-> 3,quit |-> FALSE,cbSize |-> 0,full |-> <<>>]),
    ([cur |-> [has |-> TRUE, n |-> 0, lo |-> 4],timedout |-> FALSE,timeup |-> FALSE,copied |-> 4,delivered |-> 4,lockViolation |-> FALSE,hold |-> FALSE,handLo |-> 3,bpc |-> "drain",inCb |-> 0,cpc |-> "idle",mFree |-> 0,pend |-> <<[n |-> 2, s |-> 75]>>,ppc |-> <<"idle", "loop">>,buffNum |-> 1,remain |-> 2,notified |-> FALSE,inHand |-> 0,appender |-> 2,entered |-> 6,off |-> <<3, 3>>,todo |-> <<<<>>, <<3>>>>,freeN |-> 0,atCleanup |-> 0,stop |-> FALSE,doneBytes |-> 3,quit |-> FALSE,cbSize |-> 0,full |-> <<>>]),
    ([cur |-> [has |-> TRUE, n |-> 1, lo |-> 4],timedout |-> FALSE,timeup |-> FALSE,copied |-> 5,delivered |-> 4,lockViolation |-> FALSE,hold |-> FALSE,handLo |-> 3,bpc |-> "drain",inCb |-> 0,cpc |-> "idle",mFree |-> 0,pend |-> <<[n |-> 2, s |-> 75]>>,ppc |-> <<"idle", "push">>,buffNum |-> 1,remain |-> 1,notified |-> FALSE,inHand |-> 0,appender |-> 2,entered |-> 6,off |-> <<3, 3>>,todo |-> <<<<>>, <<3>>>>,freeN |-> 0,atCleanup |-> 0,stop |-> FALSE,doneBytes |-> 3,quit |-> FALSE,cbSize |-> 0,full |-> <<>>]),
    ([cur |-> [has |-> FALSE, n |-> 0, lo |-> 0],timedout |-> FALSE,timeup |-> FALSE,copied |-> 5,delivered |-> 4,lockViolation |-> FALSE,hold |-> FALSE,handLo |-> 3,bpc |-> "drain",inCb |-> 0,cpc |-> "idle",mFree |-> 0,pend |-> <<[n |-> 2, s |-> 75]>>,ppc |-> <<"idle", "loop">>,buffNum |-> 1,remain |-> 1,notified |-> FALSE,inHand |-> 0,appender |-> 2,entered |-> 6,off |-> <<3, 3>>,todo |-> <<<<>>, <<3>>>>,freeN |-> 0,atCleanup |-> 0,stop |-> FALSE,doneBytes |-> 3,quit |-> FALSE,cbSize |-> 0,full |-> <<[n |-> 1, lo |-> 4]>>]),
    ([cur |-> [has |-> FALSE, n |-> 0, lo |-> 0],timedout |-> FALSE,timeup |-> FALSE,copied |-> 5,delivered |-> 4,lockViolation |-> FALSE,hold |-> TRUE,handLo |-> 4,bpc |-> "cb0",inCb |-> 0,cpc |-> "idle",mFree |-> 0,pend |-> <<[n |-> 2, s |-> 75]>>,ppc |-> <<"idle", "loop">>,buffNum |-> 1,remain |-> 1,notified |-> FALSE,inHand |-> 1,appender |-> 2,entered |-> 6,off |-> <<3, 3>>,todo |-> <<<<>>, <<3>>>>,freeN |-> 0,atCleanup |-> 0,stop |-> FALSE,doneBytes |-> 3,quit |-> FALSE,cbSize |-> 0,full |-> <<>>]),
    ([cur |-> [has |-> FALSE, n |-> 0, lo |-> 0],timedout |-> FALSE,timeup |-> FALSE,copied |-> 5,delivered |-> 4,lockViolation |-> FALSE,hold |-> TRUE,handLo |-> 4,bpc |-> "cb1",inCb |-> 1,cpc |-> "idle",mFree |-> 0,pend |-> <<[n |-> 2, s |-> 75]>>,ppc |-> <<"idle", "loop">>,buffNum |-> 1,remain |-> 1,notified |-> FALSE,inHand |-> 1,appender |-> 2,entered |-> 6,off |-> <<3, 3>>,todo |-> <<<<>>, <<3>>>>,freeN |-> 0,atCleanup |-> 0,stop |-> FALSE,doneBytes |-> 3,quit |-> FALSE,cbSize |-> 1,full |-> <<>>]),
    ([cur |-> [has |-> FALSE, n |-> 0, lo |-> 0],timedout |-> FALSE,timeup |-> FALSE,copied |-> 5,delivered |-> 5,lockViolation |-> FALSE,hold |-> TRUE,handLo |-> 4,bpc |-> "recycle",inCb |-> 0,cpc |-> "idle",mFree |-> 0,pend |-> <<[n |-> 1, s |-> 76]>>,ppc |-> <<"idle", "loop">>,buffNum |-> 1,remain |-> 1,notified |-> FALSE,inHand |-> 0,appender |-> 2,entered |-> 6,off |-> <<3, 3>>,todo |-> <<<<>>, <<3>>>>,freeN |-> 0,atCleanup |-> 0,stop |-> FALSE,doneBytes |-> 3,quit |-> FALSE,cbSize |-> 0,full |-> <<>>]),
    ([cur |-> [has |-> FALSE, n |-> 0, lo |-> 0],timedout |-> FALSE,timeup |-> FALSE,copied |-> 5,delivered |-> 5,lockViolation |-> FALSE,hold |-> FALSE,handLo |-> 4,bpc |-> "drain",inCb |-> 0,cpc |-> "idle",mFree |-> 0,pend |-> <<[n |-> 1, s |-> 76]>>,ppc |-> <<"idle", "loop">>,buffNum |-> 1,remain |-> 1,notified |-> FALSE,inHand |-> 0,appender |-> 2,entered |-> 6,off |-> <<3, 3>>,todo |-> <<<<>>, <<3>>>>,freeN |-> 1,atCleanup |-> 0,stop |-> FALSE,doneBytes |-> 3,quit |-> FALSE,cbSize |-> 0,full |-> <<>>]),
    ([cur |-> [has |-> TRUE, n |-> 0, lo |-> 5],timedout |-> FALSE,timeup |-> FALSE,copied |-> 5,delivered |-> 5,lockViolation |-> FALSE,hold |-> FALSE,handLo |-> 4,bpc |-> "drain",inCb |-> 0,cpc |-> "idle",mFree |-> 0,pend |-> <<[n |-> 1, s |-> 76]>>,ppc |-> <<"idle", "loop">>,buffNum |-> 1,remain |-> 1,notified |-> FALSE,inHand |-> 0,appender |-> 2,entered |-> 6,off |-> <<3, 3>>,todo |-> <<<<>>, <<3>>>>,freeN |-> 0,atCleanup |-> 0,stop |-> FALSE,doneBytes |-> 3,quit |-> FALSE,cbSize |-> 0,full |-> <<>>]),
    ([cur |-> [has |-> TRUE, n |-> 1, lo |-> 5],timedout |-> FALSE,timeup |-> FALSE,copied |-> 6,delivered |-> 5,lockViolation |-> FALSE,hold |-> FALSE,handLo |-> 4,bpc |-> "drain",inCb |-> 0,cpc |-> "idle",mFree |-> 0,pend |-> <<[n |-> 1, s |-> 76]>>,ppc |-> <<"idle", "push">>,buffNum |-> 1,remain |-> 0,notified |-> FALSE,inHand |-> 0,appender |-> 2,entered |-> 6,off |-> <<3, 3>>,todo |-> <<<<>>, <<3>>>>,freeN |-> 0,atCleanup |-> 0,stop |-> FALSE,doneBytes |-> 3,quit |-> FALSE,cbSize |-> 0,full |-> <<>>]),
    ([cur |-> [has |-> FALSE, n |-> 0, lo |-> 0],timedout |-> FALSE,timeup |-> FALSE,copied |-> 6,delivered |-> 5,lockViolation |-> FALSE,hold |-> FALSE,handLo |-> 4,bpc |-> "drain",inCb |-> 0,cpc |-> "idle",mFree |-> 0,pend |-> <<[n |-> 1, s |-> 76]>>,ppc |-> <<"idle", "loop">>,buffNum |-> 1,remain |-> 0,notified |-> FALSE,inHand |-> 0,appender |-> 2,entered |-> 6,off |-> <<3, 3>>,todo |-> <<<<>>, <<3>>>>,freeN |-> 0,atCleanup |-> 0,stop |-> FALSE,doneBytes |-> 3,quit |-> FALSE,cbSize |-> 0,full |-> <<[n |-> 1, lo |-> 5]>>]),
    ([cur |-> [has |-> FALSE, n |-> 0, lo |-> 0],timedout |-> FALSE,timeup |-> FALSE,copied |-> 6,delivered |-> 5,lockViolation |-> FALSE,hold |-> FALSE,handLo |-> 4,bpc |-> "drain",inCb |-> 0,cpc |-> "idle",mFree |-> 0,pend |-> <<[n |-> 1, s |-> 76]>>,ppc |-> <<"idle", "idle">>,buffNum |-> 1,remain |-> 0,notified |-> FALSE,inHand |-> 0,appender |-> 0,entered |-> 6,off |-> <<3, 3>>,todo |-> <<<<>>, <<>>>>,freeN |-> 0,atCleanup |-> 0,stop |-> FALSE,doneBytes |-> 6,quit |-> FALSE,cbSize |-> 0,full |-> <<[n |-> 1, lo |-> 5]>>]),
    ([cur |-> [has |-> FALSE, n |-> 0, lo |-> 0],timedout |-> FALSE,timeup |-> FALSE,copied |-> 6,delivered |-> 5,lockViolation |-> FALSE,hold |-> FALSE,handLo |-> 4,bpc |-> "drain",inCb |-> 0,cpc |-> "stop",mFree |-> 0,pend |-> <<[n |-> 1, s |-> 76]>>,ppc |-> <<"idle", "idle">>,buffNum |-> 1,remain |-> 0,notified |-> FALSE,inHand |-> 0,appender |-> 0,entered |-> 6,off |-> <<3, 3>>,todo |-> <<<<>>, <<>>>>,freeN |-> 0,atCleanup |-> 6,stop |-> FALSE,doneBytes |-> 6,quit |-> FALSE,cbSize |-> 0,full |-> <<[n |-> 1, lo |-> 5]>>]),
    ([cur |-> [has |-> FALSE, n |-> 0, lo |-> 0],timedout |-> FALSE,timeup |-> FALSE,copied |-> 6,delivered |-> 5,lockViolation |-> FALSE,hold |-> TRUE,handLo |-> 5,bpc |-> "cb0",inCb |-> 0,cpc |-> "stop",mFree |-> 0,pend |-> <<[n |-> 1, s |-> 76]>>,ppc |-> <<"idle", "idle">>,buffNum |-> 1,remain |-> 0,notified |-> FALSE,inHand |-> 1,appender |-> 0,entered |-> 6,off |-> <<3, 3>>,todo |-> <<<<>>, <<>>>>,freeN |-> 0,atCleanup |-> 6,stop |-> FALSE,doneBytes |-> 6,quit |-> FALSE,cbSize |-> 0,full |-> <<>>]),
    ([cur |-> [has |-> FALSE, n |-> 0, lo |-> 0],timedout |-> FALSE,timeup |-> FALSE,copied |-> 6,delivered |-> 5,lockViolation |-> FALSE,hold |-> TRUE,handLo |-> 5,bpc |-> "cb1",inCb |-> 1,cpc |-> "stop",mFree |-> 0,pend |-> <<[n |-> 1, s |-> 76]>>,ppc |-> <<"idle", "idle">>,buffNum |-> 1,remain |-> 0,notified |-> FALSE,inHand |-> 1,appender |-> 0,entered |-> 6,off |-> <<3, 3>>,todo |-> <<<<>>, <<>>>>,freeN |-> 0,atCleanup |-> 6,stop |-> FALSE,doneBytes |-> 6,quit |-> FALSE,cbSize |-> 1,full |-> <<>>]),
    ([cur |-> [has |-> FALSE, n |-> 0, lo |-> 0],timedout |-> FALSE,timeup |-> FALSE,copied |-> 6,delivered |-> 6,lockViolation |-> FALSE,hold |-> TRUE,handLo |-> 5,bpc |-> "recycle",inCb |-> 0,cpc |-> "stop",mFree |-> 0,pend |-> <<>>,ppc |-> <<"idle", "idle">>,buffNum |-> 1,remain |-> 0,notified |-> FALSE,inHand |-> 0,appender |-> 0,entered |-> 6,off |-> <<3, 3>>,todo |-> <<<<>>, <<>>>>,freeN |-> 0,atCleanup |-> 6,stop |-> FALSE,doneBytes |-> 6,quit |-> FALSE,cbSize |-> 0,full |-> <<>>]),
    ([cur |-> [has |-> FALSE, n |-> 0, lo |-> 0],timedout |-> FALSE,timeup |-> FALSE,copied |-> 6,delivered |-> 6,lockViolation |-> FALSE,hold |-> FALSE,handLo |-> 5,bpc |-> "drain",inCb |-> 0,cpc |-> "stop",mFree |-> 0,pend |-> <<>>,ppc |-> <<"idle", "idle">>,buffNum |-> 1,remain |-> 0,notified |-> FALSE,inHand |-> 0,appender |-> 0,entered |-> 6,off |-> <<3, 3>>,todo |-> <<<<>>, <<>>>>,freeN |-> 1,atCleanup |-> 6,stop |-> FALSE,doneBytes |-> 6,quit |-> FALSE,cbSize |-> 0,full |-> <<>>]),
    ([cur |-> [has |-> FALSE, n |-> 0, lo |-> 0],timedout |-> FALSE,timeup |-> FALSE,copied |-> 6,delivered |-> 6,lockViolation |-> FALSE,hold |-> FALSE,handLo |-> 5,bpc |-> "roundend",inCb |-> 0,cpc |-> "stop",mFree |-> 0,pend |-> <<>>,ppc |-> <<"idle", "idle">>,buffNum |-> 1,remain |-> 0,notified |-> FALSE,inHand |-> 0,appender |-> 0,entered |-> 6,off |-> <<3, 3>>,todo |-> <<<<>>, <<>>>>,freeN |-> 1,atCleanup |-> 6,stop |-> FALSE,doneBytes |-> 6,quit |-> FALSE,cbSize |-> 0,full |-> <<>>]),
    ([cur |-> [has |-> FALSE, n |-> 0, lo |-> 0],timedout |-> FALSE,timeup |-> FALSE,copied |-> 6,delivered |-> 6,lockViolation |-> FALSE,hold |-> FALSE,handLo |-> 5,bpc |-> "top",inCb |-> 0,cpc |-> "stop",mFree |-> 0,pend |-> <<>>,ppc |-> <<"idle", "idle">>,buffNum |-> 1,remain |-> 0,notified |-> FALSE,inHand |-> 0,appender |-> 0,entered |-> 6,off |-> <<3, 3>>,todo |-> <<<<>>, <<>>>>,freeN |-> 1,atCleanup |-> 6,stop |-> FALSE,doneBytes |-> 6,quit |-> FALSE,cbSize |-> 0,full |-> <<>>]),
    ([cur |-> [has |-> FALSE, n |-> 0, lo |-> 0],timedout |-> FALSE,timeup |-> TRUE,copied |-> 6,delivered |-> 6,lockViolation |-> FALSE,hold |-> FALSE,handLo |-> 5,bpc |-> "predfalse",inCb |-> 0,cpc |-> "stop",mFree |-> 0,pend |-> <<>>,ppc |-> <<"idle", "idle">>,buffNum |-> 1,remain |-> 0,notified |-> FALSE,inHand |-> 0,appender |-> 0,entered |-> 6,off |-> <<3, 3>>,todo |-> <<<<>>, <<>>>>,freeN |-> 1,atCleanup |-> 6,stop |-> FALSE,doneBytes |-> 6,quit |-> FALSE,cbSize |-> 0,full |-> <<>>]),
    ([cur |-> [has |-> FALSE, n |-> 0, lo |-> 0],timedout |-> FALSE,timeup |-> TRUE,copied |-> 6,delivered |-> 6,lockViolation |-> FALSE,hold |-> FALSE,handLo |-> 5,bpc |-> "blocked",inCb |-> 0,cpc |-> "stop",mFree |-> 0,pend |-> <<>>,ppc |-> <<"idle", "idle">>,buffNum |-> 1,remain |-> 0,notified |-> FALSE,inHand |-> 0,appender |-> 0,entered |-> 6,off |-> <<3, 3>>,todo |-> <<<<>>, <<>>>>,freeN |-> 1,atCleanup |-> 6,stop |-> FALSE,doneBytes |-> 6,quit |-> FALSE,cbSize |-> 0,full |-> <<>>]),
    ([cur |-> [has |-> FALSE, n |-> 0, lo |-> 0],timedout |-> TRUE,timeup |-> TRUE,copied |-> 6,delivered |-> 6,lockViolation |-> FALSE,hold |-> FALSE,handLo |-> 5,bpc |-> "recheck",inCb |-> 0,cpc |-> "stop",mFree |-> 0,pend |-> <<>>,ppc |-> <<"idle", "idle">>,buffNum |-> 1,remain |-> 0,notified |-> FALSE,inHand |-> 0,appender |-> 0,entered |-> 6,off |-> <<3, 3>>,todo |-> <<<<>>, <<>>>>,freeN |-> 1,atCleanup |-> 6,stop |-> FALSE,doneBytes |-> 6,quit |-> FALSE,cbSize |-> 0,full |-> <<>>]),
    ([cur |-> [has |-> FALSE, n |-> 0, lo |-> 0],timedout |-> TRUE,timeup |-> TRUE,copied |-> 6,delivered |-> 6,lockViolation |-> FALSE,hold |-> FALSE,handLo |-> 5,bpc |-> "flagged",inCb |-> 0,cpc |-> "stop",mFree |-> 0,pend |-> <<>>,ppc |-> <<"idle", "idle">>,buffNum |-> 1,remain |-> 0,notified |-> FALSE,inHand |-> 0,appender |-> 0,entered |-> 6,off |-> <<3, 3>>,todo |-> <<<<>>, <<>>>>,freeN |-> 1,atCleanup |-> 6,stop |-> FALSE,doneBytes |-> 6,quit |-> FALSE,cbSize |-> 0,full |-> <<>>]),
    ([cur |-> [has |-> FALSE, n |-> 0, lo |-> 0],timedout |-> TRUE,timeup |-> TRUE,copied |-> 6,delivered |-> 6,lockViolation |-> FALSE,hold |-> FALSE,handLo |-> 5,bpc |-> "drain",inCb |-> 0,cpc |-> "stop",mFree |-> 0,pend |-> <<>>,ppc |-> <<"idle", "idle">>,buffNum |-> 1,remain |-> 0,notified |-> FALSE,inHand |-> 0,appender |-> 0,entered |-> 6,off |-> <<3, 3>>,todo |-> <<<<>>, <<>>>>,freeN |-> 1,atCleanup |-> 6,stop |-> FALSE,doneBytes |-> 6,quit |-> FALSE,cbSize |-> 0,full |-> <<>>]),
    ([cur |-> [has |-> FALSE, n |-> 0, lo |-> 0],timedout |-> TRUE,timeup |-> TRUE,copied |-> 6,delivered |-> 6,lockViolation |-> FALSE,hold |-> FALSE,handLo |-> 5,bpc |-> "roundend",inCb |-> 0,cpc |-> "stop",mFree |-> 0,pend |-> <<>>,ppc |-> <<"idle", "idle">>,buffNum |-> 1,remain |-> 0,notified |-> FALSE,inHand |-> 0,appender |-> 0,entered |-> 6,off |-> <<3, 3>>,todo |-> <<<<>>, <<>>>>,freeN |-> 1,atCleanup |-> 6,stop |-> FALSE,doneBytes |-> 6,quit |-> FALSE,cbSize |-> 0,full |-> <<>>]),
    ([cur |-> [has |-> FALSE, n |-> 0, lo |-> 0],timedout |-> TRUE,timeup |-> TRUE,copied |-> 6,delivered |-> 6,lockViolation |-> FALSE,hold |-> FALSE,handLo |-> 5,bpc |-> "top",inCb |-> 0,cpc |-> "stop",mFree |-> 0,pend |-> <<>>,ppc |-> <<"idle", "idle">>,buffNum |-> 1,remain |-> 0,notified |-> FALSE,inHand |-> 0,appender |-> 0,entered |-> 6,off |-> <<3, 3>>,todo |-> <<<<>>, <<>>>>,freeN |-> 1,atCleanup |-> 6,stop |-> FALSE,doneBytes |-> 6,quit |-> FALSE,cbSize |-> 0,full |-> <<>>])
    >>
----


=============================================================================

---- MODULE MC_AsyncPipe_TEConstants ----
EXTENDS MC_AsyncPipe

CONSTANTS _TTraceLassoStart, _TTraceLassoEnd

=============================================================================

---- CONFIG MC_AsyncPipe_TTrace_1790991603 ----
CONSTANTS
    P = 251
    Producers = { 1 , 2 }
    Size = 1
    MinB = 1
    MaxB = 1
    Script <- S1
    AsFoundStop = FALSE
_TTraceLassoStart = 55
_TTraceLassoEnd = 61

PROPERTY
    _prop

CHECK_DEADLOCK
    \* CHECK_DEADLOCK off because of PROPERTY or INVARIANT above.
    FALSE

INIT
    _init

NEXT
    _next

VIEW
    _view

CONSTANT
    _TETrace <- _trace

ALIAS
    _expression
=============================================================================
\* Generated on Sat Oct 03 01:40:16 UTC 2026