CONSTANTS
  Loops = {1, 2}
  Sigs = {1, 2}
  Events = {1, 2, 3}
  Configs <- CfgSwap
  Kinds = {"info"}
  MaxRaises = 3
  Redundant = FALSE
  Bug = "none"
  Depth = 4
  GenBatch = TRUE
  GenHold = FALSE
  StartOn = FALSE
SPECIFICATION GSpec
CONSTRAINT Emit
CHECK_DEADLOCK FALSE
