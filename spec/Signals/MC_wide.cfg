CONSTANTS
  Loops = {1, 2, 3}
  Sigs = {1, 2, 3}
  Events = {1, 2, 3, 4}
  Configs <- CfgWide
  Kinds = {"info", "ign"}
  MaxRaises = 0
  Redundant = FALSE
  Bug = "none"
SPECIFICATION Spec
INVARIANTS TypeOK EveryEnabledGetsOne OldHandlerChained OneShotAtMostOnce DispositionRestored DispositionStatement SubsMatch CtxConsistent
CHECK_DEADLOCK FALSE
