CONSTANTS
  Loops = {1, 2}
  Sigs = {1, 2}
  Events = {1, 2, 3}
  Configs <- CfgOne
  Kinds = {"info", "plain", "ign", "dfl", "inforh"}
  MaxRaises = 0
  Redundant = TRUE
  Bug = "none"
SPECIFICATION Spec
INVARIANTS TypeOK EveryEnabledGetsOne OldHandlerChained OneShotAtMostOnce DispositionRestored DispositionStatement SubsMatch CtxConsistent
CHECK_DEADLOCK FALSE
