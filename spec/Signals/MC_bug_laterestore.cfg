CONSTANTS
  Loops = {1, 2}
  Sigs = {1, 2}
  Events = {1, 2, 3}
  Configs <- CfgOne
  Kinds = {"info", "plain"}
  MaxRaises = 0
  Redundant = FALSE
  Bug = "laterestore"
SPECIFICATION Spec
INVARIANTS TypeOK EveryEnabledGetsOne OldHandlerChained OneShotAtMostOnce DispositionRestored DispositionStatement SubsMatch CtxConsistent
CHECK_DEADLOCK FALSE
