--------------------------- MODULE Trace_Signals ---------------------------
(* Trace validation for C04.  Every line recorded by harness/c04_signals/driver.cpp must be the      *)
(* corresponding whole-call action of Signals (its sequential actions), with the logged observations:  *)
(*   Reset   configuration of the execution (events: loop, signals, one-shot; kind of the             *)
(*           pre-existing disposition of every signal)                                                *)
(*   begin / create / enable / disable / destroy   return value, isEnabled() of every event,          *)
(*           disposition of every signal compared with the one saved before the first subscription    *)
(*   raise   the delivery up to the return of the handler: calls of the pre-existing handler          *)
(*   read    the callbacks seen on the thread of loop L (event, signal number), any order             *)
(*   quiet   all loops have completed further passes: nothing else may be owed, state as above        *)
(*   batch   several subscription calls made in one task of a loop                                    *)
(*   hold / release   a loop thread is kept busy in a task (deliveries queue up) / let go              *)
(*   race    two loops make one subscription call each at the same time                               *)
(*   noraise a signal was not sent because the current disposition is SIG_DFL or has SA_RESETHAND      *)
(*   end     loops destroyed                                                                          *)
(* A Fault line (crash, sanitizer report, uncaught exception) matches nothing.                        *)
EXTENDS Signals, Integers, Json, IOUtils
Log == ndJsonDeserialize(IOEnv.TRACE)
VARIABLE l
ASSUME TLCSet(42, 0)
tvars == <<vars, l>>

Ev == Log[l]
IsEv(e) == l <= Len(Log) /\ Log[l].e = e /\ l' = l + 1
ToSet(s) == {s[i] : i \in DOMAIN s}
Unused == [used |-> FALSE, L |-> 1, sigs |-> {}, os |-> FALSE, prog |-> <<>>]

\* observations after the step (primed state).  The disposition must be "orig" (handler, flags and mask equal to the
\* saved ones) whenever the model says nobody is subscribed; while somebody is subscribed it is not constrained.
PostEn == \A e \in Events : e <= Len(Ev.en) =>
             Ev.en[e] = (CASE st'[e] = "on" -> 1 [] st'[e] = "off" -> 0 [] OTHER -> -1)
PostD  == \A S \in Sigs : (k'.disp[S] = OrigOf(kind', S)) => Ev.d[S] = "orig"
Post   == PostEn /\ PostD
\* calls of the pre-existing handler since just before the delivery
SentOK(S, n) == Ev.sentbad = 0 /\ \A S2 \in Sigs : Ev.sent[S2] = (IF S2 = S THEN n ELSE 0)

TInit == /\ held = {} /\ cfg = [e \in Events |-> Unused] /\ kind = [S \in Sigs |-> "info"]
         /\ st = [e \in Events |-> "none"] /\ k = K0(kind) /\ op = Op0 /\ h = Idle /\ g = G0
         /\ fired = [e \in Events |-> 0] /\ l = 1

TReset ==
  /\ IsEv("Reset")
  /\ cfg' = [e \in Events |-> IF e <= Len(Ev.ev)
                              THEN [used |-> TRUE, L |-> Ev.ev[e].L, sigs |-> ToSet(Ev.ev[e].sigs), os |-> Ev.ev[e].os, prog |-> Ev.ev[e].prog]
                              ELSE Unused]
  /\ kind' = [S \in Sigs |-> Ev.kind[S]]
  /\ st' = [e \in Events |-> IF e <= Len(Ev.ev) THEN "off" ELSE "none"]
  /\ k' = K0(kind') /\ op' = Op0 /\ h' = Idle /\ g' = G0 /\ fired' = [e \in Events |-> 0] /\ held' = {}

Same == UNCHANGED vars

\* numbers whose signal has no subscriber in the loop (any more) are read and dropped without a callback
RECURSIVE SkipEmpty(_, _)
\* a pipe entry 100 + S stands for "an unknown number of S" (left by a burst in the pipe of a held loop that overflowed)
SigOf(x) == IF x > 100 THEN x - 100 ELSE x
SkipEmpty(kk, L) ==
  IF kk.hp[L] /\ kk.pipe[L] # <<>> /\ kk.subs[L][SigOf(Head(kk.pipe[L]))] = {}
  THEN SkipEmpty([kk EXCEPT !.pipe[L] = Tail(@)], L) ELSE kk
RECURSIVE SkipAll(_, _)
SkipAll(kk, Ls) == IF Ls = {} THEN kk ELSE SkipAll(SkipEmpty(kk, Min(Ls)), Ls \ {Min(Ls)})

\* longest prefix of the observed callbacks that can belong to the dispatch of one number S: distinct subscribers of the copied set
RECURSIVE PrefixLen(_, _, _, _)
PrefixLen(seq, todo, S, seen) ==
  IF seq = <<>> \/ seq[1][2] # S \/ seq[1][1] \notin todo \/ seq[1][1] \in seen THEN 0
  ELSE 1 + PrefixLen(Tail(seq), todo, S, seen \cup {seq[1][1]})

\* The callbacks observed on the thread of loop L, in the order they happened, against the numbers waiting in the loop's
\* pipe: for every number the subscribers of the set copied at that moment are served in the observed order (each runs its
\* one-shot self-disable and its program); a subscriber of the copy may be left out only if a callback of this very dispatch
\* unsubscribed it (the statement does not say whether an event disabled by an earlier callback is still served).
\* callbacks that an overflow entry explains: any number of calls of the (persistent, program-less) subscribers of S
MarkLen(seq, todo, S) ==
  LET bad == {i \in 1..Len(seq) : seq[i][2] # S \/ seq[i][1] \notin todo}
  IN IF bad = {} THEN Len(seq) ELSE Min(bad) - 1
PlainSubs(kk, L, S) == \A e \in kk.subs[L][S] : ~cfg[e].os /\ cfg[e].prog = <<>>
RECURSIVE Consume(_, _, _, _)
Consume(kk, stt, L, seq) ==
  LET k1 == SkipEmpty(kk, L) IN
  IF seq = <<>> THEN [ok |-> TRUE, k |-> k1, st |-> stt]
  ELSE IF ~k1.hp[L] \/ k1.pipe[L] = <<>> THEN [ok |-> FALSE, k |-> k1, st |-> stt]
  ELSE IF Head(k1.pipe[L]) > 100
  THEN LET S == Head(k1.pipe[L]) - 100
           n == MarkLen(seq, k1.subs[L][S], S)
       IN IF n = 0 \/ ~PlainSubs(k1, L, S) THEN [ok |-> FALSE, k |-> k1, st |-> stt]
          ELSE Consume([k1 EXCEPT !.pipe[L] = Tail(@)], stt, L, SubSeq(seq, n + 1, Len(seq)))
  ELSE LET S == Head(k1.pipe[L])
           todo == k1.subs[L][S]
           n == PrefixLen(seq, todo, S, {})
           order == [i \in 1..n |-> seq[i][1]]
           r == CallSeq(R0([k1 EXCEPT !.pipe[L] = Tail(@)], stt), L, order)
           called == {order[i] : i \in 1..n}
       IN IF n = 0 \/ ~((todo \ called) \subseteq r.exc) THEN [ok |-> FALSE, k |-> k1, st |-> stt]
          ELSE Consume(r.k, r.st, L, SubSeq(seq, n + 1, Len(seq)))

TRead ==
  /\ IsEv("read") /\ Ev.L \in Loops \ held /\ h.pc = "idle" /\ NoOps
  /\ LET c == Consume(k, st, Ev.L, Ev.cbs) IN c.ok /\ k' = c.k /\ st' = c.st
  /\ UNCHANGED <<held, cfg, kind, op, h, g, fired>>

\* nothing is owed any more: after dropping subscriber-less numbers every pipe of a loop that is not held is empty
TQuiet ==
  /\ IsEv("quiet") /\ h.pc = "idle"
  /\ k' = SkipAll(k, Loops \ held)
  /\ \A L \in Loops \ held : k'.pipe[L] = <<>>
  /\ UNCHANGED <<held, cfg, kind, st, op, h, g, fired>>
  /\ SentOK(g.sig, g.sent) /\ Post

\* S raised Ev.n times, one at a time, while some subscribed loop is held: every event of a loop that is not held gets
\* exactly Ev.n callbacks (one per raise, the same set every time, on its own thread), the pre-existing handler one call per
\* raise; what the held loops will still read is left open (their pipe may have overflowed): entry 100 + S.
TBurst ==
  /\ IsEv("burst") /\ Ev.s \in Sigs /\ NoOps /\ Quiescent /\ k.disp[Ev.s].h = "tbox"
  /\ LET S == Ev.s
         P == k.ctx[S].pipes
     IN /\ \A L \in P : PlainSubs(k, L, S)
        /\ Ev.steady = TRUE /\ Ev.wrong = 0 /\ Ev.sentbad = 0
        /\ \A e \in Events : e <= Len(Ev.cnt) =>
              Ev.cnt[e] = (IF cfg[e].used /\ cfg[e].L \notin held /\ e \in k.subs[cfg[e].L][S] THEN Ev.n ELSE 0)
        /\ \A S2 \in Sigs : Ev.sent[S2] = (IF S2 = S THEN Ev.n * OldCalls(S) ELSE 0)
        /\ k' = [k EXCEPT !.pipe = [L \in Loops |-> IF L \in P \cap held THEN Append(k.pipe[L], 100 + S) ELSE k.pipe[L]]]
  /\ g' = ClearG
  /\ UNCHANGED <<held, cfg, kind, st, op, h, fired>>
  /\ Post

TNext ==
  \/ TBurst
  \/ TReset
  \/ IsEv("begin") /\ Same /\ Post
  \/ IsEv("create") /\ Ev.ev \in Events /\ SCreate(Ev.ev) /\ Post
  \/ IsEv("enable") /\ Ev.ev \in Events /\ SEnable(Ev.ev) /\ Ev.ret = TRUE /\ Post
  \/ IsEv("disable") /\ Ev.ev \in Events /\ SDisable(Ev.ev) /\ Ev.ret = TRUE /\ Post
  \/ IsEv("destroy") /\ Ev.ev \in Events /\ SDestroy(Ev.ev) /\ Post
  \* (the calls of the pre-existing handler are compared at the following quiet line, after the loops have settled; the
  \*  count logged here, right after the sending call returned, is informational)
  \/ IsEv("raise") /\ Ev.s \in Sigs /\ SRaise(Ev.s) /\ Ev.sentbad = 0
  \/ TRead
  \/ TQuiet
  \/ IsEv("batch") /\ Ev.L \in Loops /\ SBatch(Ev.L, Ev.ops) /\ Post
  \/ IsEv("race") /\ Ev.La \in Loops /\ Ev.Lb \in Loops /\ SRace(Ev.La, Ev.ops[1], Ev.Lb, Ev.ops[2]) /\ Post
  \* the driver did not send the signal because the current disposition would end the process (SIG_DFL) or be reset by the
  \* kernel (SA_RESETHAND): legitimate only if nobody is subscribed and that IS the pre-existing disposition
  \/ IsEv("noraise") /\ Ev.s \in Sigs /\ k.disp[Ev.s] = Orig(Ev.s) /\ NoRaise(kind[Ev.s]) /\ Same
  \/ IsEv("hold") /\ Ev.L \in Loops /\ SHold(Ev.L)
  \/ IsEv("release") /\ Ev.L \in Loops /\ SRelease(Ev.L)
  \/ IsEv("end") /\ (\A e \in Events : st[e] \in {"none", "absent"}) /\ Same /\ PostD
TSpec == TInit /\ [][TNext]_tvars

Progress == TLCSet(42, IF l > TLCGet(42) THEN l ELSE TLCGet(42))
Accepted == IF TLCGet(42) = Len(Log) + 1 THEN TRUE ELSE PrintT(<<"MAXPOS", TLCGet(42), Len(Log)>>) /\ FALSE
=============================================================================
