--------------------------- MODULE Trace_Signals ---------------------------
(* Trace validation for C04.  Every line recorded by harness/c04_signals/driver.cpp must be the      *)
(* corresponding whole-call action of Signals (its sequential actions), with the logged observations:  *)
(*   Reset   configuration of the execution (events: loop, signals, one-shot; kind of the             *)
(*           pre-existing disposition of every signal)                                                *)
(*   begin / create / enable / disable / destroy   return value, isEnabled() of every event,          *)
(*           disposition of every signal compared with the one saved before the first subscription    *)
(*   raise   the delivery up to the return of the handler: calls of the pre-existing handler          *)
(*   read    the callbacks seen on the thread of loop L (event, signal number), any order             *)
(*   quiet   all loops have completed further passes: nothing else may be owed, state as above        *)
(*   end     loops destroyed                                                                          *)
(* A Fault line (crash, sanitizer report, uncaught exception) matches nothing.                        *)
EXTENDS Signals, Integers, Json, IOUtils
Log == ndJsonDeserialize(IOEnv.TRACE)
VARIABLE l
ASSUME TLCSet(42, 0)
tvars == <<vars, l>>

Ev == Log[l]
IsEv(e) == l <= Len(Log) /\ Log[l].e = e /\ l' = l + 1
ToSet(s) == {s[i] : i \in DOMAIN s}
Unused == [used |-> FALSE, L |-> 1, sigs |-> {}, os |-> FALSE]

\* observations after the step (primed state).  The disposition must be "orig" (handler, flags and mask equal to the
\* saved ones) whenever the model says nobody is subscribed; while somebody is subscribed it is not constrained.
PostEn == \A e \in Events : e <= Len(Ev.en) =>
             Ev.en[e] = (CASE st'[e] = "on" -> 1 [] st'[e] = "off" -> 0 [] OTHER -> -1)
PostD  == \A S \in Sigs : (k'.disp[S] = OrigOf(kind', S)) => Ev.d[S] = "orig"
Post   == PostEn /\ PostD
\* calls of the pre-existing handler since just before the delivery
SentOK(S, n) == Ev.sentbad = 0 /\ \A S2 \in Sigs : Ev.sent[S2] = (IF S2 = S THEN n ELSE 0)

TInit == /\ cfg = [e \in Events |-> Unused] /\ kind = [S \in Sigs |-> "info"]
         /\ st = [e \in Events |-> "none"] /\ k = K0(kind) /\ op = Op0 /\ h = Idle /\ g = G0
         /\ fired = [e \in Events |-> 0] /\ l = 1

TReset ==
  /\ IsEv("Reset")
  /\ cfg' = [e \in Events |-> IF e <= Len(Ev.ev)
                              THEN [used |-> TRUE, L |-> Ev.ev[e].L, sigs |-> ToSet(Ev.ev[e].sigs), os |-> Ev.ev[e].os]
                              ELSE Unused]
  /\ kind' = [S \in Sigs |-> Ev.kind[S]]
  /\ st' = [e \in Events |-> IF e <= Len(Ev.ev) THEN "off" ELSE "none"]
  /\ k' = K0(kind') /\ op' = Op0 /\ h' = Idle /\ g' = G0 /\ fired' = [e \in Events |-> 0]

Same == UNCHANGED vars

TRead ==
  /\ IsEv("read") /\ Ev.L \in Loops /\ SRead(Ev.L)
  /\ LET called == ReadCalled(k, Ev.L)
         S == Head(k.pipe[Ev.L])
     IN /\ Len(Ev.cbs) = Cardinality(called)
        /\ {Ev.cbs[i][1] : i \in DOMAIN Ev.cbs} = called
        /\ \A i \in DOMAIN Ev.cbs : Ev.cbs[i][2] = S

TNext ==
  \/ TReset
  \/ IsEv("begin") /\ Same /\ Post
  \/ IsEv("create") /\ Ev.ev \in Events /\ SCreate(Ev.ev) /\ Post
  \/ IsEv("enable") /\ Ev.ev \in Events /\ SEnable(Ev.ev) /\ Ev.ret = TRUE /\ Post
  \/ IsEv("disable") /\ Ev.ev \in Events /\ SDisable(Ev.ev) /\ Ev.ret = TRUE /\ Post
  \/ IsEv("destroy") /\ Ev.ev \in Events /\ SDestroy(Ev.ev) /\ Post
  \/ IsEv("raise") /\ Ev.s \in Sigs /\ SRaise(Ev.s) /\ SentOK(Ev.s, g'.sent)
  \/ TRead
  \/ IsEv("quiet") /\ Quiescent /\ Same /\ SentOK(g.sig, g.sent) /\ Post
  \/ IsEv("end") /\ (\A e \in Events : st[e] \in {"none", "absent"}) /\ Same /\ PostD
TSpec == TInit /\ [][TNext]_tvars

Progress == TLCSet(42, IF l > TLCGet(42) THEN l ELSE TLCGet(42))
Accepted == IF TLCGet(42) = Len(Log) + 1 THEN TRUE ELSE PrintT(<<"MAXPOS", TLCGet(42), Len(Log)>>) /\ FALSE
=============================================================================
