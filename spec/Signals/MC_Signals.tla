---------------------------- MODULE MC_Signals ----------------------------
(* Bounded models for C04.  Three event slots on two loops and two signals:  *)
(*   e1  multi-signal {1,2} on loop 1, persistent or one-shot                 *)
(*   e2  one-shot, one signal, on either loop                                 *)
(*   e3  persistent on signal 1, on either loop (or unused)                   *)
EXTENDS Signals
EP(u, l, s, o, p) == [used |-> u, L |-> l, sigs |-> s, os |-> o, prog |-> p]
E(u, l, s, o) == EP(u, l, s, o, <<>>)
Do(o, a) == [o |-> o, a |-> a]
CfgFull ==
  { [e \in Events |-> CASE e = 1 -> E(TRUE, 1, {1, 2}, o1)
                        [] e = 2 -> E(TRUE, l2, {s2}, TRUE)
                        [] OTHER -> E(u3, l3, {1}, FALSE)] :
      o1 \in BOOLEAN, l2 \in Loops, s2 \in Sigs, u3 \in BOOLEAN, l3 \in Loops }
\* one fixed configuration for the seeded-defect (non-vacuity) runs and the per-action coverage run
CfgOne ==
  { [e \in Events |-> CASE e = 1 -> E(TRUE, 1, {1, 2}, FALSE)
                        [] e = 2 -> E(TRUE, 2, {1}, TRUE)
                        [] OTHER -> E(TRUE, 2, {1}, FALSE)] }
\* thorough: three loops, three signals, four events (MC_wide.cfg)
CfgWide ==
  { [e \in Events |-> CASE e = 1 -> E(TRUE, 1, {1, 2, 3}, o1)
                        [] e = 2 -> E(TRUE, l2, {s2}, TRUE)
                        [] e = 3 -> E(TRUE, l3, {1}, FALSE)
                        [] OTHER -> E(TRUE, 3, {1, 3}, FALSE)] :
      o1 \in BOOLEAN, l2 \in {1, 2}, s2 \in {1, 3}, l3 \in {2, 3} }
\* callbacks that change subscriptions (MC_cb.cfg, Gen_cb.cfg, Gen_hold.cfg)
\*  CbSwap: e1 is the only subscription of loop 1; its callback disables it (the loop closes its pipe) and enables e3
\*          (a new pipe, usually with the same descriptor numbers, while the old pipe event still awaits its deferred deletion)
CbSwap ==
  [e \in Events |-> CASE e = 1 -> EP(TRUE, 1, {1}, FALSE, <<Do("disable", 1), Do("enable", 3)>>)
                       [] e = 2 -> E(TRUE, 2, {1}, TRUE)
                       [] OTHER -> E(TRUE, 1, {2}, FALSE)]
\*  CbGroup: e1 and e3 share signal 1 in loop 1; whichever is served first disables both; e2 (signal 2, same loop) stays
CbGroup ==
  [e \in Events |-> CASE e = 1 -> EP(TRUE, 1, {1}, FALSE, <<Do("disable", 1), Do("disable", 3)>>)
                       [] e = 2 -> E(TRUE, 1, {2}, FALSE)
                       [] OTHER -> EP(TRUE, 1, {1}, FALSE, <<Do("disable", 1), Do("disable", 3)>>)]
\*  CbMix: a multi-signal one-shot that re-enables itself; a callback that enables a second subscriber of the signal
\*         being served (same loop)
CbMix ==
  [e \in Events |-> CASE e = 1 -> EP(TRUE, 1, {1, 2}, TRUE, <<Do("enable", 1)>>)
                       [] e = 2 -> EP(TRUE, 2, {1}, FALSE, <<Do("enable", 3)>>)
                       [] OTHER -> E(TRUE, 2, {1}, FALSE)]
CfgCb == {CbSwap, CbGroup, CbMix}
=============================================================================
