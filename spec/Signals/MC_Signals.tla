---------------------------- MODULE MC_Signals ----------------------------
(* Bounded models for C04.  Three event slots on two loops and two signals:  *)
(*   e1  multi-signal {1,2} on loop 1, persistent or one-shot                 *)
(*   e2  one-shot, one signal, on either loop                                 *)
(*   e3  persistent on signal 1, on either loop (or unused)                   *)
EXTENDS Signals
E(u, l, s, o) == [used |-> u, L |-> l, sigs |-> s, os |-> o]
CfgFull ==
  { [e \in Events |-> CASE e = 1 -> E(TRUE, 1, {1, 2}, o1)
                        [] e = 2 -> E(TRUE, l2, {s2}, TRUE)
                        [] OTHER -> E(u3, l3, {1}, FALSE)] :
      o1 \in BOOLEAN, l2 \in Loops, s2 \in Sigs, u3 \in BOOLEAN, l3 \in Loops }
\* one fixed configuration for the seeded-defect (non-vacuity) runs and the per-action coverage run
CfgOne ==
  { [e \in Events |-> CASE e = 1 -> E(TRUE, 1, {1, 2}, FALSE)
                        [] e = 2 -> E(TRUE, 2, {1}, TRUE)
                        [] OTHER -> E(TRUE, 2, {1}, FALSE)] }
\* thorough: three loops, three signals, four events (MC_wide.cfg)
CfgWide ==
  { [e \in Events |-> CASE e = 1 -> E(TRUE, 1, {1, 2, 3}, o1)
                        [] e = 2 -> E(TRUE, l2, {s2}, TRUE)
                        [] e = 3 -> E(TRUE, l3, {1}, FALSE)
                        [] OTHER -> E(TRUE, 3, {1, 3}, FALSE)] :
      o1 \in BOOLEAN, l2 \in {1, 2}, s2 \in {1, 3}, l3 \in {2, 3} }
=============================================================================
