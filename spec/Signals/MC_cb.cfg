CONSTANTS
  Loops = {1, 2}
  Sigs = {1, 2}
  Events = {1, 2, 3}
  Configs <- CfgCb
  Kinds = {"info", "ign"}
  MaxRaises = 0
  Redundant = FALSE
  Bug = "none"
SPECIFICATION Spec
INVARIANTS TypeOK EveryEnabledGetsOne OldHandlerChained OneShotAtMostOnce DispositionRestored DispositionStatement SubsMatch CtxConsistent
CHECK_DEADLOCK FALSE
