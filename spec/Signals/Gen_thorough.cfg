CONSTANTS
  Loops = {1, 2}
  Sigs = {1, 2}
  Events = {1, 2, 3}
  Configs <- CfgGen
  Kinds = {"info"}
  MaxRaises = 3
  Redundant = FALSE
  Bug = "none"
  Depth = 6
  GenBatch = FALSE
  GenHold = FALSE
  StartOn = FALSE
SPECIFICATION GSpec
CONSTRAINT Emit
CHECK_DEADLOCK FALSE
